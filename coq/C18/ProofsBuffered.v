(* C18: `buffered(n)` as used by concurrent_with_yield / process_files_parallel (ModelYield.v): for every schedule the
   results leave the window in input order, every operation is started at most once, the window never exceeds the limit,
   and a state that is not finished is never stuck. *)
From ZV.Common Require Import Base Run.
From ZV.C18 Require Import Model ModelYield ProofsYield.
Open Scope nat_scope.

Definition b_inv (n maxc : nat) (b : buf) : Prop :=
  b_out b = seq 0 (length (b_out b)) /\
  map fst (b_win b) = seq (length (b_out b)) (length (b_win b)) /\
  b_next b = length (b_out b) + length (b_win b) /\
  b_next b <= n /\
  length (b_win b) <= maxc.

Lemma mark_done_fst i w : map fst (mark_done i w) = map fst w.
Proof.
  induction w as [|[j d] r IH]; cbn [mark_done map fst]; [reflexivity|].
  destruct (Nat.eqb i j); cbn [map fst]; [reflexivity|]. rewrite IH. reflexivity.
Qed.
Lemma mark_done_length i w : length (mark_done i w) = length w.
Proof. rewrite <- (map_length fst), mark_done_fst, map_length. reflexivity. Qed.

Lemma b_step_inv n maxc b s : b_inv n maxc b -> b_inv n maxc (b_step n maxc b s).
Proof.
  intros (I1 & I2 & I3 & I4 & I5). destruct s as [|i|]; cbn [b_step].
  - destruct (Nat.ltb_spec (length (b_win b)) maxc) as [L1|L1]; cbn [andb]; [|repeat split; assumption].
    destruct (Nat.ltb_spec (b_next b) n) as [L2|L2]; [|repeat split; assumption].
    unfold b_inv. cbn [b_next b_win b_out]. rewrite app_length, map_app. cbn [length map fst].
    split; [exact I1|]. split.
    { rewrite seq_app. cbn [seq]. rewrite I2, I3. reflexivity. }
    split; [lia|]. split; lia.
  - unfold b_inv. cbn [b_next b_win b_out]. rewrite mark_done_fst, mark_done_length. repeat split; assumption.
  - destruct (b_win b) as [|[j d] r] eqn:Ew; [rewrite <- Ew in *; repeat split; assumption|].
    destruct d; [|rewrite <- Ew in *; repeat split; assumption].
    cbn [map fst length seq] in I2, I3, I5. injection I2 as Ej Er.
    unfold b_inv. cbn [b_next b_win b_out]. rewrite app_length. cbn [length].
    split.
    { rewrite seq_app. cbn [seq]. rewrite <- I1, Ej. reflexivity. }
    split.
    { rewrite Er. f_equal. lia. }
    split; [lia|]. split; lia.
Qed.

Lemma b_run_inv n maxc sch : forall b, b_inv n maxc b -> b_inv n maxc (b_run n maxc b sch).
Proof.
  unfold b_run. induction sch as [|s r IH]; intros b Hb; cbn [fold_left]; [exact Hb|].
  apply IH. apply b_step_inv. exact Hb.
Qed.

Lemma b_init_inv n maxc : b_inv n maxc b_init.
Proof. unfold b_inv, b_init. cbn [b_out b_win b_next length seq map]. repeat split; lia. Qed.

Theorem buffered_order_proof :
  forall (n maxc : nat) (sch : list bstep),
    let b := b_run n maxc b_init sch in
    (* results leave in input order; the window is the next operations in input order; every operation below b_next
       has been started exactly once (it is in the output or in the window), none beyond *)
    b_out b = seq 0 (length (b_out b)) /\
    map fst (b_win b) = seq (length (b_out b)) (length (b_win b)) /\
    b_next b = length (b_out b) + length (b_win b) /\ b_next b <= n /\
    length (b_win b) <= maxc /\
    (forall (R : Type) (res : nat -> option R) r, buffered_result res n b = Some r -> r = map_opt res (seq 0 n)) /\
    (forall (R : Type) (res : nat -> option R) (g : nat -> R) r,
        buffered_result res n b = Some r -> (forall i, i < n -> res i = Some (g i)) -> r = Some (map g (seq 0 n))) /\
    (forall (R : Type) (res : nat -> option R) i r,
        buffered_result res n b = Some r -> i < n -> res i = None -> r = None) /\
    (1 <= maxc -> b_finished n b = false -> exists s, b_step n maxc b s <> b).
Proof.
  intros n maxc sch b.
  destruct (b_run_inv n maxc sch b_init (b_init_inv n maxc)) as (I1 & I2 & I3 & I4 & I5). fold b in I1, I2, I3, I4, I5.
  assert (F : forall (R : Type) (res : nat -> option R) r, buffered_result res n b = Some r -> r = map_opt res (seq 0 n)).
  { intros R res r. unfold buffered_result, b_finished.
    destruct (Nat.eqb_spec (b_next b) n) as [En|]; cbn [andb]; [|discriminate].
    destruct (b_win b) eqn:Ew; [|discriminate]. cbn [length] in I3.
    intros E. injection E as <-. rewrite I1. f_equal. f_equal. lia. }
  do 5 (split; [assumption|]).
  split; [exact F|]. split.
  { intros R res g r Hr Hall. rewrite (F R res r Hr). apply map_opt_all. intros x Hx. apply Hall. apply in_seq in Hx. lia. }
  split.
  { intros R res i r Hr Hi Hn. rewrite (F R res r Hr). apply (map_opt_fail res _ i); [apply in_seq; lia|exact Hn]. }
  intros Hm Hf. unfold b_finished in Hf.
  destruct (b_win b) as [|[j d] r] eqn:Ew.
  - exists BFill. cbn [b_step]. rewrite Ew. cbn [length] in *.
    destruct (Nat.eqb_spec (b_next b) n) as [En|En]; [cbn [andb] in Hf; discriminate|].
    destruct (Nat.ltb_spec 0 maxc) as [_|]; [|lia]. destruct (Nat.ltb_spec (b_next b) n) as [_|]; [|lia].
    cbn [andb]. intros H. apply (f_equal b_next) in H. cbn [b_next] in H. lia.
  - destruct d.
    + exists BEmit. cbn [b_step]. rewrite Ew. intros H. apply (f_equal (fun x => length (b_win x))) in H.
      cbn [b_win] in H. rewrite Ew in H. cbn [length] in H. lia.
    + exists (BDone j). cbn [b_step]. rewrite Ew. cbn [mark_done]. rewrite Nat.eqb_refl.
      intros H. apply (f_equal b_win) in H. cbn [b_win] in H. rewrite Ew in H. discriminate.
Qed.

Example buffered_nontrivial :
  let res := fun i => if Nat.eqb i 9 then None else Some (10 * i) in
  (* window of 2 over 3 operations; operation 1 finishes first and keeps its slot until operation 0 is done *)
  let b1 := b_run 3 2 b_init [BFill; BFill; BFill; BDone 1; BEmit; BFill] in
  b1 = mkB 2 [(0, false); (1, true)] [] /\
  let b2 := b_run 3 2 b1 [BDone 0; BEmit; BEmit; BFill; BDone 2; BEmit] in
  b2 = mkB 3 [] [0; 1; 2] /\ buffered_result res 3 b2 = Some (Some [0; 10; 20]).
Proof. vm_compute. repeat split; reflexivity. Qed.

(* the settled states the harness cases are evaluated in are reachable by steps: everything above holds for them *)
Lemma b_run_app n maxc b s1 s2 : b_run n maxc b (s1 ++ s2) = b_run n maxc (b_run n maxc b s1) s2.
Proof. unfold b_run. apply fold_left_app. Qed.

Lemma done_fold_is_run n maxc (open : nat -> bool) : forall l b,
  exists sch, fold_left (fun b j => if open j then b_step n maxc b (BDone j) else b) l b = b_run n maxc b sch.
Proof.
  induction l as [|j l IH]; intros b; cbn [fold_left].
  - exists (@nil bstep). reflexivity.
  - destruct (open j).
    + destruct (IH (b_step n maxc b (BDone j))) as [sch E]. exists (BDone j :: sch). rewrite E. reflexivity.
    + destruct (IH b) as [sch E]. exists sch. exact E.
Qed.
Lemma emit_all_is_run n maxc : forall fuel b, exists sch, emit_all fuel n maxc b = b_run n maxc b sch.
Proof.
  induction fuel as [|fu IH]; intros b; cbn [emit_all].
  - exists (@nil bstep). reflexivity.
  - destruct (b_win b) as [|[j [|]] r]; try (exists (@nil bstep); reflexivity).
    destruct (IH (b_step n maxc b BEmit)) as [sch E]. exists (BEmit :: sch). rewrite E. reflexivity.
Qed.
Lemma fill_all_is_run n maxc (open : nat -> bool) : forall fuel b, exists sch, fill_all fuel n maxc open b = b_run n maxc b sch.
Proof.
  induction fuel as [|fu IH]; intros b; cbn [fill_all].
  - exists (@nil bstep). reflexivity.
  - destruct ((length (b_win b) <? maxc) && (b_next b <? n)); [|exists (@nil bstep); reflexivity].
    destruct (open (b_next b)).
    + destruct (IH (b_step n maxc (b_step n maxc b BFill) (BDone (b_next b)))) as [sch E].
      exists (BFill :: BDone (b_next b) :: sch). rewrite E. reflexivity.
    + destruct (IH (b_step n maxc b BFill)) as [sch E]. exists (BFill :: sch). rewrite E. reflexivity.
Qed.
Theorem b_settle_is_run_proof : forall fuel n maxc open b, exists sch, b_settle fuel n maxc open b = b_run n maxc b sch.
Proof.
  induction fuel as [|fu IH]; intros n maxc open b; cbn [b_settle].
  - exists (@nil bstep). reflexivity.
  - unfold done_open.
    destruct (done_fold_is_run n maxc open (map fst (b_win b)) b) as [s1 E1]. rewrite E1.
    destruct (emit_all_is_run n maxc (S n) (b_run n maxc b s1)) as [s2 E2]. rewrite E2.
    destruct (fill_all_is_run n maxc open (S n) (b_run n maxc (b_run n maxc b s1) s2)) as [s3 E3]. rewrite E3.
    destruct (IH n maxc open (b_run n maxc (b_run n maxc (b_run n maxc b s1) s2) s3)) as [s4 E4]. rewrite E4.
    exists (s1 ++ s2 ++ s3 ++ s4). rewrite !b_run_app. reflexivity.
Qed.
