(* C18: the FiberPool state machine (ModelFiber.v) - invariants of every schedule. *)
From ZV.Common Require Import Base.
From ZV.C18 Require Import Model ModelFiber ProofsProgress ProofsComplete ProofsStream.
From Coq Require Import Permutation.
Open Scope nat_scope.

(* ---- counting ---- *)
Fixpoint count {A} (pr : A -> bool) (l : list A) : nat :=
  match l with [] => 0 | x :: r => (if pr x then 1 else 0) + count pr r end.

Lemma count_app {A} (pr : A -> bool) a b : count pr (a ++ b) = count pr a + count pr b.
Proof. induction a as [|x a IH]; cbn [count app]; [reflexivity|]. rewrite IH. lia. Qed.

Lemma count_set_nth {A} (pr : A -> bool) (l : list A) : forall i x y,
  nth_error l i = Some y ->
  count pr (set_nth i x l) + (if pr y then 1 else 0) = count pr l + (if pr x then 1 else 0).
Proof.
  induction l as [|a l IH]; intros [|i] x y H; cbn [nth_error] in H; try discriminate.
  - inversion H; subst. cbn [set_nth count]. lia.
  - cbn [set_nth count]. pose proof (IH i x y H). lia.
Qed.

Lemma count_zero {A} (pr : A -> bool) (l : list A) : (forall x, In x l -> pr x = false) -> count pr l = 0.
Proof.
  induction l as [|a l IH]; intros H; cbn [count]; [reflexivity|].
  rewrite (H a (or_introl eq_refl)). rewrite IH; [reflexivity|]. intros x Hx. apply H. right. exact Hx.
Qed.

Fixpoint wsum {A} (w : A -> nat) (l : list A) : nat :=
  match l with [] => 0 | x :: r => w x + wsum w r end.

Lemma wsum_app {A} (w : A -> nat) a b : wsum w (a ++ b) = wsum w a + wsum w b.
Proof. induction a as [|x a IH]; cbn [wsum app]; [reflexivity|]. rewrite IH. lia. Qed.

Lemma sum_set_nth {A} (w : A -> nat) (l : list A) : forall i x y,
  nth_error l i = Some y ->
  wsum w (set_nth i x l) + w y = wsum w l + w x.
Proof.
  induction l as [|a l IH]; intros [|i] x y H; cbn [nth_error] in H; try discriminate.
  - inversion H; subst. cbn [set_nth wsum]. lia.
  - cbn [set_nth wsum]. pose proof (IH i x y H). lia.
Qed.

Lemma nth_set_cases {A} (l : list A) i x j y :
  nth_error (set_nth i x l) j = Some y -> (j = i /\ y = x) \/ (j <> i /\ nth_error l j = Some y).
Proof.
  rewrite nth_set. destruct (Nat.eqb_spec j i) as [->|Hne].
  - destruct (i <? length l); intros H; [|discriminate]. inversion H. left. split; reflexivity.
  - intros H. right. split; assumption.
Qed.

Lemma nth_app_one {A} (l : list A) x j y :
  nth_error (l ++ [x]) j = Some y -> (j = length l /\ y = x) \/ (j < length l /\ nth_error l j = Some y).
Proof.
  intros H. destruct (Nat.lt_ge_cases j (length l)) as [Hlt|Hge].
  - right. split; [exact Hlt|]. rewrite nth_error_app1 in H by exact Hlt. exact H.
  - rewrite nth_error_app2 in H by exact Hge. destruct (j - length l) as [|k] eqn:E.
    + cbn [nth_error] in H. inversion H. left. split; [lia|reflexivity].
    + cbn [nth_error] in H. destruct k; discriminate.
Qed.

Lemma NoDup_app_one {A} (l : list A) x : NoDup l -> ~ In x l -> NoDup (l ++ [x]).
Proof.
  intros Hn Hx. induction Hn as [|a l Ha Hn IH]; cbn [app]; [constructor; [intros []|constructor]|].
  constructor.
  - rewrite in_app_iff. intros [H|[H|[]]]; [exact (Ha H)|]. apply Hx. left. symmetry. exact H.
  - apply IH. intros H. apply Hx. right. exact H.
Qed.

Lemma list_eq_nth {A} (l : list A) : forall l', (forall i, nth_error l i = nth_error l' i) -> l = l'.
Proof.
  induction l as [|a l IH]; intros [|b l'] H.
  - reflexivity.
  - specialize (H 0). discriminate.
  - specialize (H 0). discriminate.
  - pose proof (H 0) as H0. cbn [nth_error] in H0. inversion H0; subst. f_equal. apply IH. intros i. exact (H (S i)).
Qed.

Definition is_ok_done {R} (f : fstate R) : bool := match f with FDone (OOk _) => true | _ => false end.
Definition is_fail_done {R} (f : fstate R) : bool := match f with FDone OFail => true | _ => false end.
Definition is_panic_done {R} (f : fstate R) : bool := match f with FDone OPanic => true | _ => false end.
Definition is_ran {R} (f : fstate R) : bool := match f with FRan _ => true | _ => false end.

Section PoolProofs.
  Context {R : Type}.
  Variable jobs : list (outcome R).
  Variable maxf : N.

  Definition ran_at (fs : list (fstate R)) (i : nat) : Prop :=
    exists f, nth_error fs i = Some f /\ has_run f = true.

  Record pinv (p : pool R) : Prop := mkPinv {
    pi_len : length (p_fibers p) <= length jobs;
    pi_spawned : p_spawned p = N.of_nat (length (p_fibers p));
    pi_permits : (p_permits p + N.of_nat (count holds_permit (p_fibers p)))%N = maxf;
    pi_active : p_active p = N.of_nat (count holds_permit (p_fibers p) + count is_panic_done (p_fibers p));
    pi_completed : p_completed p = N.of_nat (count is_ok_done (p_fibers p));
    pi_failed : p_failed p = N.of_nat (count is_fail_done (p_fibers p));
    pi_log_in : forall i, In i (p_log p) <-> ran_at (p_fibers p) i;
    pi_log_nodup : NoDup (p_log p);
    pi_out : forall i o, nth_error (p_fibers p) i = Some (FRan o) \/ nth_error (p_fibers p) i = Some (FDone o) ->
                         nth_error jobs i = Some o
  }.

  Lemma pinv_init : pinv (pool_init maxf).
  Proof.
    constructor; cbn [pool_init p_fibers p_spawned p_permits p_active p_completed p_failed p_log length count]; try lia; try reflexivity.
    - intros i. split; [intros []|]. intros [f [H _]]. destruct i; discriminate.
    - constructor.
    - intros i o [H|H]; destruct i; discriminate.
  Qed.

  (* replacing fiber i by one with the same has_run flag does not change who has run *)
  Lemma ran_set_same (l : list (fstate R)) i x y :
    nth_error l i = Some y -> has_run x = has_run y ->
    forall j, ran_at (set_nth i x l) j <-> ran_at l j.
  Proof.
    intros Hy Hxy j. unfold ran_at. split.
    - intros [f [Hf Hr]]. destruct (nth_set_cases _ _ _ _ _ Hf) as [[-> ->]|[_ Hf']].
      + exists y. split; [exact Hy|congruence].
      + exists f. split; assumption.
    - intros [f [Hf Hr]]. destruct (Nat.eq_dec j i) as [->|Hne].
      + exists x. split.
        * apply nth_error_set_nth_eq. apply nth_error_Some. rewrite Hy. discriminate.
        * rewrite Hf in Hy. inversion Hy; subst. congruence.
      + exists f. split; [|exact Hr]. rewrite nth_error_set_nth_neq by congruence. exact Hf.
  Qed.

  Lemma ran_set_new (l : list (fstate R)) i x y :
    nth_error l i = Some y -> has_run y = false -> has_run x = true ->
    forall j, ran_at (set_nth i x l) j <-> (ran_at l j \/ j = i).
  Proof.
    intros Hy Hny Hx j. unfold ran_at. split.
    - intros [f [Hf Hr]]. destruct (nth_set_cases _ _ _ _ _ Hf) as [[-> ->]|[_ Hf']].
      + right. reflexivity.
      + left. exists f. split; assumption.
    - intros [[f [Hf Hr]]| ->].
      + destruct (Nat.eq_dec j i) as [->|Hne].
        * rewrite Hf in Hy. inversion Hy; subst. congruence.
        * exists f. split; [|exact Hr]. rewrite nth_error_set_nth_neq by congruence. exact Hf.
      + exists x. split; [|exact Hx]. apply nth_error_set_nth_eq. apply nth_error_Some. rewrite Hy. discriminate.
  Qed.

  Lemma out_set (l : list (fstate R)) i x :
    (forall j o, nth_error l j = Some (FRan o) \/ nth_error l j = Some (FDone o) -> nth_error jobs j = Some o) ->
    (forall o, x = FRan o \/ x = FDone o -> nth_error jobs i = Some o) ->
    forall j o, nth_error (set_nth i x l) j = Some (FRan o) \/ nth_error (set_nth i x l) j = Some (FDone o) ->
                nth_error jobs j = Some o.
  Proof.
    intros Hold Hnew j o [H|H]; destruct (nth_set_cases _ _ _ _ _ H) as [[-> Hx]|[_ H']].
    - apply Hnew. left. symmetry. exact Hx.
    - apply Hold. left. exact H'.
    - apply Hnew. right. symmetry. exact Hx.
    - apply Hold. right. exact H'.
  Qed.

  Lemma pinv_step p s : pinv p -> pinv (pool_step jobs p s).
  Proof.
    intros I. destruct s as [|i|i|i]; cbn [pool_step].
    - (* spawn *)
      destruct (nth_error jobs (length (p_fibers p))) as [o|] eqn:Hj; [|exact I].
      assert (Hlt : length (p_fibers p) < length jobs) by (apply nth_error_Some; rewrite Hj; discriminate).
      destruct I as [I1 I2 I3 I4 I5 I6 I7 I8 I9].
      constructor; cbn [p_fibers p_spawned p_permits p_active p_completed p_failed p_log];
        rewrite ?app_length, ?count_app; cbn [length count holds_permit is_panic_done is_ok_done is_fail_done]; try lia.
      + intros j. rewrite I7. unfold ran_at. split.
        * intros [f [Hf Hr]]. exists f. split; [|exact Hr]. rewrite nth_error_app1; [exact Hf|].
          apply nth_error_Some. rewrite Hf. discriminate.
        * intros [f [Hf Hr]]. destruct (nth_app_one _ _ _ _ Hf) as [[_ ->]|[_ Hf']]; [discriminate|].
          exists f. split; assumption.
      + exact I8.
      + intros j o' [H|H]; destruct (nth_app_one _ _ _ _ H) as [[_ Hx]|[_ H']]; try discriminate.
        * apply I9. left. exact H'.
        * apply I9. right. exact H'.
    - (* acquire *)
      destruct (nth_error (p_fibers p) i) as [[| |o|o]|] eqn:Hf; try exact I.
      destruct (N.ltb_spec 0 (p_permits p)) as [Hp|Hp]; [|exact I].
      destruct I as [I1 I2 I3 I4 I5 I6 I7 I8 I9].
      pose proof (count_set_nth holds_permit _ i FHeld FWait Hf) as C1.
      pose proof (count_set_nth is_panic_done _ i FHeld FWait Hf) as C2.
      pose proof (count_set_nth is_ok_done _ i FHeld FWait Hf) as C3.
      pose proof (count_set_nth is_fail_done _ i FHeld FWait Hf) as C4.
      cbn [holds_permit is_panic_done is_ok_done is_fail_done] in C1, C2, C3, C4.
      constructor; cbn [p_fibers p_spawned p_permits p_active p_completed p_failed p_log];
        rewrite ?set_nth_length; try lia.
      + intros j. rewrite I7. symmetry. apply (ran_set_same _ i FHeld FWait Hf). reflexivity.
      + exact I8.
      + apply out_set; [exact I9|]. intros o [H|H]; discriminate.
    - (* exec *)
      destruct (nth_error (p_fibers p) i) as [[| |o|o]|] eqn:Hf; try exact I.
      destruct (nth_error jobs i) as [o|] eqn:Hj; [|exact I].
      destruct I as [I1 I2 I3 I4 I5 I6 I7 I8 I9].
      pose proof (count_set_nth holds_permit _ i (FRan o) FHeld Hf) as C1.
      pose proof (count_set_nth is_panic_done _ i (FRan o) FHeld Hf) as C2.
      pose proof (count_set_nth is_ok_done _ i (FRan o) FHeld Hf) as C3.
      pose proof (count_set_nth is_fail_done _ i (FRan o) FHeld Hf) as C4.
      cbn [holds_permit is_panic_done is_ok_done is_fail_done] in C1, C2, C3, C4.
      assert (Hnot : ~ In i (p_log p)).
      { rewrite I7. intros [f [Hf' Hr]]. rewrite Hf in Hf'. inversion Hf'; subst. discriminate. }
      constructor; cbn [p_fibers p_spawned p_permits p_active p_completed p_failed p_log];
        rewrite ?set_nth_length; try lia.
      + intros j. rewrite in_app_iff. rewrite (ran_set_new _ i (FRan o) FHeld Hf eq_refl eq_refl j). rewrite I7.
        cbn [In]. split; intros [H|H]; auto. destruct H as [H|[]]. right. symmetry. exact H.
      + apply NoDup_app_one; assumption.
      + apply out_set; [exact I9|]. intros o' [H|H]; inversion H; subst; exact Hj.
    - (* finish *)
      destruct (nth_error (p_fibers p) i) as [[| |o|o]|] eqn:Hf; try exact I.
      destruct I as [I1 I2 I3 I4 I5 I6 I7 I8 I9].
      pose proof (count_set_nth holds_permit _ i (FDone o) (FRan o) Hf) as C1.
      pose proof (count_set_nth is_panic_done _ i (FDone o) (FRan o) Hf) as C2.
      pose proof (count_set_nth is_ok_done _ i (FDone o) (FRan o) Hf) as C3.
      pose proof (count_set_nth is_fail_done _ i (FDone o) (FRan o) Hf) as C4.
      assert (Hran : forall j, ran_at (set_nth i (FDone o) (p_fibers p)) j <-> ran_at (p_fibers p) j)
        by (apply (ran_set_same _ i (FDone o) (FRan o) Hf); reflexivity).
      assert (Hout : forall j o', nth_error (set_nth i (FDone o) (p_fibers p)) j = Some (FRan o') \/
                                  nth_error (set_nth i (FDone o) (p_fibers p)) j = Some (FDone o') -> nth_error jobs j = Some o').
      { apply out_set; [exact I9|]. intros o' [H|H]; inversion H; subst. apply I9. left. exact Hf. }
      destruct o as [r| |]; cbn [holds_permit is_panic_done is_ok_done is_fail_done] in C1, C2, C3, C4;
        (constructor; cbn [p_fibers p_spawned p_permits p_active p_completed p_failed p_log];
         rewrite ?set_nth_length; try lia;
         [intros j; rewrite I7; symmetry; apply Hran | exact I8 | exact Hout]).
  Qed.

  Lemma pinv_fold steps : forall p, pinv p -> pinv (fold_left (pool_step jobs) steps p).
  Proof. induction steps as [|s r IH]; intros p I; cbn [fold_left]; [exact I|]. apply IH. apply pinv_step. exact I. Qed.

  Lemma pinv_run steps : pinv (pool_run jobs maxf steps).
  Proof. apply pinv_fold. apply pinv_init. Qed.

  (* ---- what the caller collects ---- *)
  Lemma await_seq_spec (fs : list (fstate R)) : forall js,
    length fs = length js ->
    (forall i o, nth_error fs i = Some (FDone o) -> nth_error js i = Some o) ->
    forall r, await_seq fs = Some r -> r = seq_outcomes js.
  Proof.
    induction fs as [|f fs IH]; intros [|o js] HL H r Hr; cbn [length] in HL; try discriminate.
    - cbn [await_seq] in Hr. inversion Hr. reflexivity.
    - assert (Htl : forall i o', nth_error fs i = Some (FDone o') -> nth_error js i = Some o')
        by (intros i o' Hi; exact (H (S i) o' Hi)).
      destruct f as [| |o'|o']; cbn [await_seq] in Hr; try discriminate.
      pose proof (H 0 o' eq_refl) as H0. cbn [nth_error] in H0. inversion H0; subst o.
      destruct o' as [r0| |]; cbn [seq_outcomes].
      + destruct (await_seq fs) as [x|] eqn:E; [|discriminate].
        rewrite <- (IH js ltac:(lia) Htl x eq_refl).
        destruct x; inversion Hr; reflexivity.
      + inversion Hr. reflexivity.
      + inversion Hr. reflexivity.
  Qed.

  Lemma await_seq_ok_done (fs : list (fstate R)) : forall l,
    await_seq fs = Some (ROk l) -> forallb is_done fs = true /\ fs = map (fun r => FDone (OOk r)) l.
  Proof.
    induction fs as [|f fs IH]; intros l H; cbn [await_seq] in H.
    - inversion H. split; reflexivity.
    - destruct f as [| |o|o]; try discriminate. destruct o as [r0| |]; try discriminate.
      destruct (await_seq fs) as [[l'| |]|] eqn:E; try discriminate. inversion H; subst.
      destruct (IH l' eq_refl) as [H1 H2]. cbn [forallb is_done map]. rewrite H1, <- H2. split; reflexivity.
  Qed.

  Lemma seq_outcomes_bad (js : list (outcome R)) :
    (exists i o, nth_error js i = Some o /\ forall r, o <> OOk r) -> seq_outcomes js = RErr.
  Proof.
    induction js as [|o js IH]; intros [i [o' [Hi Hb]]]; [destruct i; discriminate|].
    destruct i as [|i]; cbn [nth_error] in Hi.
    - inversion Hi; subst. destruct o' as [r| |]; [exfalso; exact (Hb r eq_refl)|reflexivity|reflexivity].
    - destruct o as [r| |]; cbn [seq_outcomes]; try reflexivity.
      rewrite IH; [reflexivity|]. exists i, o'. split; assumption.
  Qed.

  Lemma all_ok_spec (fs : list (fstate R)) : forall js l,
    length fs = length js ->
    (forall i o, nth_error fs i = Some (FDone o) -> nth_error js i = Some o) ->
    all_ok fs = Some l -> seq_outcomes js = ROk l.
  Proof.
    induction fs as [|f fs IH]; intros [|o js] l HL H Hl; cbn [length] in HL; try discriminate.
    - cbn [all_ok] in Hl. inversion Hl. reflexivity.
    - destruct f as [| |o'|o']; cbn [all_ok] in Hl; try discriminate.
      destruct o' as [r0| |]; try discriminate.
      pose proof (H 0 (OOk r0) eq_refl) as H0. cbn [nth_error] in H0. inversion H0; subst o.
      destruct (all_ok fs) as [l'|] eqn:E; [|discriminate]. inversion Hl; subst.
      cbn [seq_outcomes]. rewrite (IH js l' ltac:(lia)); [reflexivity| |reflexivity].
      intros i o' Hi. exact (H (S i) o' Hi).
  Qed.

  Lemma tj_spec (fs : list (fstate R)) js :
    length fs = length js ->
    (forall i o, nth_error fs i = Some (FDone o) -> nth_error js i = Some o) ->
    forall r, tj_result fs = Some r -> r = seq_outcomes js.
  Proof.
    intros HL H r Hr. unfold tj_result in Hr.
    destruct (existsb is_bad fs) eqn:Eb.
    - inversion Hr; subst. symmetry. apply seq_outcomes_bad.
      apply existsb_exists in Eb. destruct Eb as [f [Hin Hbad]].
      apply In_nth_error in Hin. destruct Hin as [i Hi].
      destruct f as [| |o|o]; try discriminate.
      exists i, o. split; [apply H; exact Hi|]. intros r0 ->. discriminate.
    - destruct (all_ok fs) as [l|] eqn:El; [|discriminate]. inversion Hr; subst.
      symmetry. apply (all_ok_spec fs js l HL H El).
  Qed.

  Lemma done_out p : pinv p -> forall i o, nth_error (p_fibers p) i = Some (FDone o) -> nth_error jobs i = Some o.
  Proof. intros I i o H. apply (pi_out p I). right. exact H. Qed.

  Lemma all_spawned_len p : all_spawned jobs p = true -> length (p_fibers p) = length jobs.
  Proof. unfold all_spawned. intros H. apply Nat.eqb_eq. exact H. Qed.

  (* whenever parallel_map / parallel_for_each returns, it returns the sequential result *)
  Lemma pm_result_spec steps r :
    pm_result jobs (pool_run jobs maxf steps) = Some r -> r = seq_outcomes jobs.
  Proof.
    unfold pm_result. pose proof (pinv_run steps) as I. set (p := pool_run jobs maxf steps) in *.
    destruct (all_spawned jobs p) eqn:Ea; [|discriminate]. intros H.
    apply (await_seq_spec (p_fibers p) jobs (all_spawned_len p Ea) (done_out p I) r H).
  Qed.

  (* every body runs at most once, only spawned bodies run; when all fibers are done every body has run exactly once *)
  Lemma log_bound p : pinv p -> forall i, In i (p_log p) -> i < length jobs.
  Proof.
    intros I i Hi. apply (pi_log_in p I) in Hi. destruct Hi as [f [Hf _]].
    pose proof (pi_len p I). assert (i < length (p_fibers p)) by (apply nth_error_Some; rewrite Hf; discriminate). lia.
  Qed.

  Lemma log_complete p : pinv p -> length (p_fibers p) = length jobs -> forallb is_done (p_fibers p) = true ->
    Permutation (p_log p) (seq 0 (length jobs)).
  Proof.
    intros I HL Hd. apply NoDup_Permutation; [exact (pi_log_nodup p I)|apply seq_NoDup|].
    intros i. rewrite in_seq. split.
    - intros Hi. pose proof (log_bound p I i Hi). lia.
    - intros [_ Hi]. apply (pi_log_in p I). cbn [Nat.add] in Hi. rewrite <- HL in Hi.
      destruct (nth_error (p_fibers p) i) as [f|] eqn:Hf; [|apply nth_error_None in Hf; lia].
      exists f. split; [exact Hf|]. rewrite forallb_forall in Hd.
      pose proof (Hd f (nth_error_In _ _ Hf)) as Hdf. destruct f; try discriminate. reflexivity.
  Qed.

  (* ---- no deadlock: the potential argument ---- *)
  Definition weight (f : fstate R) : nat :=
    match f with FWait => 3 | FHeld => 2 | FRan _ => 1 | FDone _ => 0 end.
  Definition phi (p : pool R) : nat :=
    4 * (length jobs - length (p_fibers p)) + wsum weight (p_fibers p).

  Lemma first_idx_some (pr : fstate R -> bool) (fs : list (fstate R)) : forall s i,
    first_idx pr s fs = Some i -> exists f, nth_error fs (i - s) = Some f /\ pr f = true /\ s <= i.
  Proof.
    induction fs as [|f fs IH]; intros s i H; cbn [first_idx] in H; [discriminate|].
    destruct (pr f) eqn:E.
    - inversion H; subst. exists f. rewrite Nat.sub_diag. split; [reflexivity|]. split; [exact E|lia].
    - destruct (IH (S s) i H) as [f' [Hf' [Hp Hle]]]. exists f'.
      replace (i - s) with (S (i - S s)) by lia. cbn [nth_error]. split; [exact Hf'|]. split; [exact Hp|lia].
  Qed.

  Lemma first_idx_none (pr : fstate R -> bool) (fs : list (fstate R)) : forall s,
    first_idx pr s fs = None -> forall f, In f fs -> pr f = false.
  Proof.
    induction fs as [|f fs IH]; intros s H f' Hin; [destruct Hin|]. cbn [first_idx] in H.
    destruct (pr f) eqn:E; [discriminate|]. destruct Hin as [<-|Hin]; [exact E|]. apply (IH (S s) H). exact Hin.
  Qed.

  Lemma sum_zero_weights (fs : list (fstate R)) :
    (forall f, In f fs -> is_ran f = false) -> (forall f, In f fs -> is_held f = false) ->
    (forall f, In f fs -> is_wait f = false) -> wsum weight fs = 0.
  Proof.
    induction fs as [|f fs IH]; intros H1 H2 H3; cbn [wsum]; [reflexivity|].
    rewrite IH by (intros; (apply H1 || apply H2 || apply H3); right; assumption).
    pose proof (H1 f (or_introl eq_refl)). pose proof (H2 f (or_introl eq_refl)). pose proof (H3 f (or_introl eq_refl)).
    destruct f; cbn [is_ran is_held is_wait weight] in *; try discriminate. reflexivity.
  Qed.

  Lemma progress_step p : pinv p -> (1 <= maxf)%N -> 0 < phi p ->
    exists s, phi (pool_step jobs p s) < phi p.
  Proof.
    intros I Hm Hphi. pose proof (pi_len p I) as HL.
    destruct (Nat.lt_ge_cases (length (p_fibers p)) (length jobs)) as [Hlt|Hge].
    { exists PSpawn. cbn [pool_step].
      destruct (nth_error jobs (length (p_fibers p))) as [o|] eqn:E; [|apply nth_error_None in E; lia].
      unfold phi; cbn [p_fibers]. rewrite app_length, wsum_app. cbn [length wsum weight]. lia. }
    destruct (first_idx is_ran 0 (p_fibers p)) as [i|] eqn:E1.
    { destruct (first_idx_some _ _ _ _ E1) as [f [Hf [Hp _]]]. rewrite Nat.sub_0_r in Hf.
      destruct f as [| |o|o]; try discriminate.
      exists (PFinish i). cbn [pool_step]. rewrite Hf.
      pose proof (sum_set_nth weight _ i (FDone o) (FRan o) Hf) as S1. cbn [weight] in S1.
      destruct o; unfold phi; cbn [p_fibers]; rewrite set_nth_length; lia. }
    destruct (first_idx is_held 0 (p_fibers p)) as [i|] eqn:E2.
    { destruct (first_idx_some _ _ _ _ E2) as [f [Hf [Hp _]]]. rewrite Nat.sub_0_r in Hf.
      destruct f as [| |o|o]; try discriminate.
      assert (Hi : i < length jobs).
      { assert (i < length (p_fibers p)) by (apply nth_error_Some; rewrite Hf; discriminate). lia. }
      destruct (nth_error jobs i) as [o|] eqn:Hj; [|apply nth_error_None in Hj; lia].
      exists (PExec i). cbn [pool_step]. rewrite Hf, Hj.
      pose proof (sum_set_nth weight _ i (FRan o) FHeld Hf) as S1. cbn [weight] in S1.
      unfold phi; cbn [p_fibers]; rewrite set_nth_length; lia. }
    destruct (first_idx is_wait 0 (p_fibers p)) as [i|] eqn:E3.
    { destruct (first_idx_some _ _ _ _ E3) as [f [Hf [Hp _]]]. rewrite Nat.sub_0_r in Hf.
      destruct f as [| |o|o]; try discriminate.
      assert (Hc : count holds_permit (p_fibers p) = 0).
      { apply count_zero. intros f Hin.
        pose proof (first_idx_none _ _ _ E1 f Hin). pose proof (first_idx_none _ _ _ E2 f Hin).
        destruct f; cbn [holds_permit is_ran is_held] in *; congruence. }
      pose proof (pi_permits p I) as Hperm. rewrite Hc in Hperm.
      exists (PAcquire i). cbn [pool_step]. rewrite Hf.
      destruct (N.ltb_spec 0 (p_permits p)) as [Hp0|Hp0]; [|lia].
      pose proof (sum_set_nth weight _ i FHeld FWait Hf) as S1. cbn [weight] in S1.
      unfold phi; cbn [p_fibers]; rewrite set_nth_length; lia. }
    exfalso. unfold phi in Hphi.
    rewrite (sum_zero_weights _ (first_idx_none _ _ _ E1) (first_idx_none _ _ _ E2) (first_idx_none _ _ _ E3)) in Hphi. lia.
  Qed.

  Lemma phi_zero_done p : pinv p -> phi p = 0 -> pool_done jobs p = true.
  Proof.
    intros I H. pose proof (pi_len p I) as HL. unfold phi in H.
    assert (HL2 : length (p_fibers p) = length jobs) by lia.
    unfold pool_done, all_spawned. rewrite HL2, Nat.eqb_refl. cbn [andb].
    assert (Hs : wsum weight (p_fibers p) = 0) by lia.
    clear -Hs. induction (p_fibers p) as [|f fs IH]; [reflexivity|].
    cbn [wsum] in Hs. cbn [forallb]. rewrite IH by lia.
    destruct f; cbn [weight] in Hs; try lia. reflexivity.
  Qed.

  Lemma completes_from n : forall p, pinv p -> (1 <= maxf)%N -> phi p <= n ->
    exists more, pool_done jobs (fold_left (pool_step jobs) more p) = true.
  Proof.
    induction n as [|n IH]; intros p I Hm Hn.
    - exists []. cbn [fold_left]. apply phi_zero_done; [exact I|lia].
    - destruct (Nat.eq_dec (phi p) 0) as [H0|Hne].
      + exists []. cbn [fold_left]. apply phi_zero_done; assumption.
      + destruct (progress_step p I Hm ltac:(lia)) as [s Hs].
        destruct (IH (pool_step jobs p s) (pinv_step p s I) Hm ltac:(lia)) as [more Hmore].
        exists (s :: more). cbn [fold_left]. exact Hmore.
  Qed.

  Lemma await_done (fs : list (fstate R)) : forallb is_done fs = true -> await_seq fs <> None.
  Proof.
    induction fs as [|f fs IH]; cbn [forallb await_seq]; [discriminate|].
    intros H. apply andb_prop in H. destruct H as [Hf Hr]. destruct f as [| |o|o]; try discriminate.
    destruct o; try discriminate. specialize (IH Hr). destruct (await_seq fs) as [[l| |]|]; congruence.
  Qed.

  Lemma tj_done (fs : list (fstate R)) : forallb is_done fs = true -> tj_result fs <> None.
  Proof.
    intros H. unfold tj_result. destruct (existsb is_bad fs) eqn:Eb; [discriminate|].
    assert (Hall : exists l, all_ok fs = Some l).
    { induction fs as [|f fs IH]; [exists []; reflexivity|].
      cbn [forallb] in H. apply andb_prop in H. destruct H as [Hf Hr].
      cbn [existsb] in Eb. apply orb_false_elim in Eb. destruct Eb as [Eb1 Eb2].
      destruct (IH Hr Eb2) as [l Hl]. destruct f as [| |o|o]; try discriminate.
      destruct o as [r| |]; try discriminate. exists (r :: l). cbn [all_ok]. rewrite Hl. reflexivity. }
    destruct Hall as [l Hl]. rewrite Hl. discriminate.
  Qed.
End PoolProofs.

(* ---- the three APIs ---- *)
Lemma seq_outcomes_map_ok {A B} (f : A -> outcome B) (g : A -> B) xs :
  (forall x, In x xs -> f x = OOk (g x)) -> seq_outcomes (map f xs) = ROk (map g xs).
Proof.
  induction xs as [|x xs IH]; intros H; cbn [map seq_outcomes]; [reflexivity|].
  rewrite (H x (or_introl eq_refl)). rewrite IH; [reflexivity|]. intros y Hy. apply H. right. exact Hy.
Qed.

Lemma seq_outcomes_map_bad {A B} (f : A -> outcome B) xs :
  (exists x, In x xs /\ forall b, f x <> OOk b) -> seq_outcomes (map f xs) = RErr.
Proof.
  intros [x [Hin Hb]]. apply seq_outcomes_bad. apply In_nth_error in Hin. destruct Hin as [i Hi].
  exists i, (f x). split; [apply map_nth_error; exact Hi|exact Hb].
Qed.

Lemma parallel_map_is_map_proof : forall (A B : Type) (f : A -> outcome B) (g : A -> B) (xs : list A) (maxf : N) (steps : list pstep),
  (forall r, pm_result (map f xs) (pool_run (map f xs) maxf steps) = Some r ->
     ((forall x, In x xs -> f x = OOk (g x)) -> r = ROk (map g xs)) /\
     ((exists x, In x xs /\ forall b, f x <> OOk b) -> r = RErr)) /\
  ((1 <= maxf)%N -> exists more, pm_result (map f xs) (pool_run (map f xs) maxf (steps ++ more)) <> None).
Proof.
  intros A B f g xs maxf steps. split.
  - intros r Hr. apply pm_result_spec in Hr. subst r. split; intros H.
    + apply seq_outcomes_map_ok. exact H.
    + apply seq_outcomes_map_bad. exact H.
  - intros Hm. pose proof (pinv_run (map f xs) maxf steps) as I.
    destruct (completes_from (map f xs) maxf _ _ I Hm (le_n _)) as [more Hmore].
    exists more. unfold pool_run. rewrite fold_left_app. fold (pool_run (map f xs) maxf steps).
    unfold pool_done in Hmore. apply andb_prop in Hmore. destruct Hmore as [H1 H2].
    unfold pm_result. rewrite H1. apply await_done. exact H2.
Qed.

Lemma parallel_for_each_visits_once_proof : forall (R : Type) (jobs : list (outcome R)) (maxf : N) (steps : list pstep),
  let p := pool_run jobs maxf steps in
  NoDup (p_log p) /\ (forall i, In i (p_log p) -> i < length jobs) /\
  (pool_done jobs p = true -> Permutation (p_log p) (seq 0 (length jobs))) /\
  (forall l, pm_result jobs p = Some (ROk l) -> Permutation (p_log p) (seq 0 (length jobs)) /\ jobs = map OOk l) /\
  (pm_result jobs p = Some RErr -> exists i o, nth_error jobs i = Some o /\ forall r, o <> OOk r).
Proof.
  intros R jobs maxf steps. cbv zeta. pose proof (pinv_run jobs maxf steps) as I.
  set (p := pool_run jobs maxf steps) in *.
  split; [exact (pi_log_nodup jobs maxf p I)|]. split; [exact (log_bound jobs maxf p I)|]. split; [|split].
  - intros Hd. unfold pool_done in Hd. apply andb_prop in Hd. destruct Hd as [H1 H2].
    apply (log_complete jobs maxf p I (all_spawned_len jobs p H1) H2).
  - intros l Hl. pose proof Hl as Hl2. unfold pm_result in Hl. destruct (all_spawned jobs p) eqn:Ea; [|discriminate].
    destruct (await_seq_ok_done _ _ Hl) as [Hd Hfs]. split.
    + apply (log_complete jobs maxf p I (all_spawned_len jobs p Ea) Hd).
    + pose proof (all_spawned_len jobs p Ea) as HL.
      apply list_eq_nth. intros i. rewrite nth_error_map.
      destruct (nth_error l i) as [r|] eqn:Hr; cbn [option_map].
      * apply (done_out jobs maxf p I). rewrite Hfs. rewrite nth_error_map, Hr. reflexivity.
      * apply nth_error_None. rewrite <- HL, Hfs, map_length. apply nth_error_None. exact Hr.
  - intros He. apply pm_result_spec in He. clear -He.
    induction jobs as [|o js IH]; cbn [seq_outcomes] in He; [discriminate|].
    destruct o as [r| |].
    + destruct (seq_outcomes js) eqn:E; try discriminate.
      * destruct (IH eq_refl) as [i [o [Hi Hb]]]. exists (S i), o. split; assumption.
    + exists 0, OFail. split; [reflexivity|discriminate].
    + exists 0, OPanic. split; [reflexivity|discriminate].
Qed.

(* the semaphore bound and the statistics, in every reachable state *)
Lemma fiber_pool_bounded_proof : forall (R : Type) (jobs : list (outcome R)) (maxf : N) (steps : list pstep),
  let p := pool_run jobs maxf steps in
  (p_permits p + N.of_nat (count holds_permit (p_fibers p)) = maxf)%N /\
  p_spawned p = N.of_nat (length (p_fibers p)) /\
  p_completed p = N.of_nat (count is_ok_done (p_fibers p)) /\
  p_failed p = N.of_nat (count is_fail_done (p_fibers p)) /\
  p_active p = N.of_nat (count holds_permit (p_fibers p) + count is_panic_done (p_fibers p)) /\
  (pool_done jobs p = true -> p_permits p = maxf /\
     (p_completed p + p_failed p + N.of_nat (count is_panic_done (p_fibers p)))%N = N.of_nat (length jobs)).
Proof.
  intros R jobs maxf steps. cbv zeta. pose proof (pinv_run jobs maxf steps) as I.
  set (p := pool_run jobs maxf steps) in *. destruct I as [I1 I2 I3 I4 I5 I6 I7 I8 I9].
  repeat (split; [assumption|]).
  intros Hd. unfold pool_done in Hd. apply andb_prop in Hd. destruct Hd as [H1 H2].
  apply all_spawned_len in H1. rewrite <- H1, I5, I6. clear -H2 I3.
  assert (Hc : count holds_permit (p_fibers p) = 0 /\
               count is_ok_done (p_fibers p) + count is_fail_done (p_fibers p) + count is_panic_done (p_fibers p) = length (p_fibers p)).
  { clear I3. induction (p_fibers p) as [|f fs IH]; [split; reflexivity|].
    cbn [forallb] in H2. apply andb_prop in H2. destruct H2 as [Hf Hr]. destruct (IH Hr) as [J1 J2].
    destruct f as [| |o|o]; try discriminate. destruct o; cbn [count holds_permit is_ok_done is_fail_done is_panic_done length]; lia. }
  destruct Hc as [C1 C2]. rewrite C1 in I3. split; lia.
Qed.

Example fiber_pool_nontrivial :
  let jobs := [OOk 1%Z; OFail; OOk 3%Z] in
  let p := pool_run jobs 2 [PSpawn; PSpawn; PAcquire 1; PSpawn; PAcquire 2; PAcquire 0; PExec 2; PFinish 2; PAcquire 0; PExec 0;
                            PExec 1; PFinish 0; PFinish 1] in
  pool_done jobs p = true /\ p_log p = [2; 0; 1] /\ pm_result jobs p = Some RErr /\ p_permits p = 2%N /\ p_failed p = 1%N.
Proof. vm_compute. auto. Qed.

Example parallel_map_nontrivial :
  let f := fun x : Z => OOk (x + 1)%Z in
  pm_result (map f [1; 2; 3]%Z) (pool_run (map f [1; 2; 3]%Z) 1 (sched_seq 3)) = Some (ROk [2; 3; 4]%Z).
Proof. vm_compute. reflexivity. Qed.
