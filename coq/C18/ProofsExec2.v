(* C18: the fine-grained executor (ModelExec.v), part 2: capacity bounds, admission as a refinement of
   Model.submit, and the exact conditions under which is_idle() is right. *)
From ZV.Common Require Import Base.
From ZV.C18 Require Import Model ModelExec ProofsQueue ProofsOrder ProofsProgress ProofsComplete ProofsStream ProofsFiber ProofsExec.
From Coq Require Import Permutation.
Open Scope nat_scope.

(* ---- queue steps never lengthen a local queue or the global queue ---- *)
Lemma nlen_insert_prio t l : nlen (insert_prio t l) = (nlen l + 1)%N.
Proof. rewrite !nlen_length. rewrite (Permutation_length (insert_prio_perm t l)). cbn [length]. lia. Qed.

Lemma nlen_perm {A} (a b : list A) : Permutation a b -> nlen a = nlen b.
Proof. intros H. rewrite !nlen_length. rewrite (Permutation_length H). reflexivity. Qed.

Definition shrinks (e e1 : exec) : Prop :=
  (forall i q', nth_error (eqs e1) i = Some q' -> exists q, nth_error (eqs e) i = Some q /\ (nlen (qlocal q') <= nlen (qlocal q))%N) /\
  (nlen (eglob e1) <= nlen (eglob e))%N.

Lemma shrinks_refl e : shrinks e e.
Proof. split; [|lia]. intros i q' H. exists q'. split; [exact H|lia]. Qed.

Lemma set_q_shrinks e v q q' r :
  nth_error (eqs e) v = Some q -> (nlen (qlocal q') <= nlen (qlocal q))%N ->
  forall e1, eqs e1 = set_nth v q' (eqs e) -> eglob e1 = r -> (nlen r <= nlen (eglob e))%N -> shrinks e e1.
Proof.
  intros Hq Hle e1 He Hg Hr. split; [|rewrite Hg; exact Hr].
  intros i q0 H. rewrite He in H. destruct (nth_set_cases _ _ _ _ _ H) as [[-> ->]|[_ H']].
  - exists q. split; assumption.
  - exists q0. split; [exact H'|lia].
Qed.

Lemma rls_nlen l t l' : remove_last_stealable l = Some (t, l') -> (nlen l' <= nlen l)%N.
Proof. intros H. rewrite (nlen_perm _ _ (rls_perm _ _ _ H)). cbn [nlen]. lia. Qed.

Lemma balance_nlen q : (nlen (qlocal (balance q)) <= nlen (qlocal q))%N.
Proof.
  unfold balance. destruct (nlen (qsteal q) + 1 <? nlen (qlocal q))%N; [|lia].
  destruct (bal_loop _ _ _) as [rl st] eqn:E. cbn [qlocal].
  apply bal_loop_suffix in E. destruct E as [pre Hp].
  rewrite !nlen_length, rev_length. rewrite <- (rev_length (qlocal q)), Hp, app_length. lia.
Qed.

Lemma wstep_shrinks e s : (match s with Submit _ => False | _ => True end) -> shrinks e (wstep true e s).
Proof.
  intros Hs. destruct s as [t| |w|w|w|w v|w v|w v|w|w]; [destruct Hs| | | | | | | | |]; cbn [wstep]; try apply shrinks_refl.
  - split; [|cbn [eglob]; lia]. intros i q' H. exists q'. split; [exact H|lia].
  - destruct (worker_free e w); [|apply shrinks_refl]. destruct (nth_error (eqs e) w) as [q|] eqn:Hq; [|apply shrinks_refl].
    destruct (pop_local true q) as [[t|] q'] eqn:Hp; [|apply shrinks_refl].
    apply (set_q_shrinks e w q q' (eglob e) Hq); try reflexivity; try lia.
    unfold pop_local in Hp. destruct (qlocal q) as [|x r] eqn:El.
    + destruct (qsteal q); inversion Hp; subst; cbn [qlocal nlen]; lia.
    + inversion Hp; subst; cbn [qlocal nlen]; lia.
  - destruct (true && worker_free e w); [|apply shrinks_refl]. destruct (nth_error (eqs e) w) as [q|] eqn:Hq; [|apply shrinks_refl].
    destruct (qsteal q) as [|t r]; [apply shrinks_refl|].
    apply (set_q_shrinks e w q (mkQ (qlocal q) r) (eglob e) Hq); try reflexivity; cbn [qlocal]; try lia.
  - destruct (worker_free e w); [|apply shrinks_refl]. destruct (eglob e) as [|t r] eqn:Hg; [apply shrinks_refl|].
    split; cbn [set_run eqs eglob]; [|rewrite Hg; cbn [nlen]; lia]. intros i q' H. exists q'. split; [exact H|lia].
  - destruct (worker_free e w && negb (Nat.eqb w v)); [|apply shrinks_refl]. destruct (nth_error (eqs e) v) as [q|] eqn:Hq; [|apply shrinks_refl].
    destruct (steal q) as [[t|] q'] eqn:Hp; [|apply shrinks_refl].
    apply (set_q_shrinks e v q q' (eglob e) Hq); try reflexivity; try lia.
    unfold steal in Hp. destruct (qsteal q).
    + destruct (1 <? nlen (qlocal q))%N; [|discriminate].
      destruct (remove_last_stealable (qlocal q)) as [[t0 l']|] eqn:Hr; [|discriminate].
      inversion Hp; subst; cbn [qlocal]. exact (rls_nlen _ _ _ Hr).
    + inversion Hp; subst; cbn [qlocal]; lia.
  - destruct (worker_free e w && negb (Nat.eqb w v)); [|apply shrinks_refl]. destruct (nth_error (eqs e) v) as [q|] eqn:Hq; [|apply shrinks_refl].
    destruct (qsteal q) as [|t r]; [apply shrinks_refl|].
    apply (set_q_shrinks e v q (mkQ (qlocal q) r) (eglob e) Hq); try reflexivity; cbn [qlocal]; try lia.
  - destruct (worker_free e w && negb (Nat.eqb w v)); [|apply shrinks_refl]. destruct (nth_error (eqs e) v) as [q|] eqn:Hq; [|apply shrinks_refl].
    destruct (1 <? nlen (qlocal q))%N; [|apply shrinks_refl].
    destruct (remove_last_stealable (qlocal q)) as [[t l']|] eqn:Hr; [|apply shrinks_refl].
    apply (set_q_shrinks e v q (mkQ l' (qsteal q)) (eglob e) Hq); try reflexivity; cbn [qlocal]; try lia. exact (rls_nlen _ _ _ Hr).
  - destruct (nth_error (eqs e) w) as [q|] eqn:Hq; [|apply shrinks_refl].
    apply (set_q_shrinks e w q (balance q) (eglob e) Hq); try reflexivity; try lia. apply balance_nlen.
  - destruct (nth_error (erun e) w) as [[t|]|]; try apply shrinks_refl.
    split; cbn [eqs eglob]; [|lia]. intros i q' H. exists q'. split; [exact H|lia].
Qed.

Definition cap_ok (cap : N) (e : exec) : Prop :=
  (forall i q, nth_error (eqs e) i = Some q -> (nlen (qlocal q) <= cap)%N) /\ (nlen (eglob e) <= GLOBAL_CAP)%N.

Lemma cap_ok_shrinks cap e e1 : cap_ok cap e -> shrinks e e1 -> cap_ok cap e1.
Proof.
  intros [C1 C2] [S1 S2]. split; [|lia]. intros i q' H. destruct (S1 i q' H) as [q [Hq Hle]]. pose proof (C1 i q Hq). lia.
Qed.

Lemma xstep_cap cap x s : cap_ok cap (x_e x) -> cap_ok cap (x_e (xstep_fn cap x s)).
Proof.
  intros C. pose proof C as [C1 C2]. destruct s as [sb t|sb|sb|w k|w|w|w|w|w|w|w]; cbn [xstep_fn].
  - destruct (nth_error (x_subs x) sb) as [[|w0 t0|t0]|]; try exact C.
    destruct (nth_error (eqs (x_e x)) _) as [q|]; [|exact C].
    destruct (nlen (qlocal q) <? cap)%N; cbn [set_sub set_e x_e]; exact C.
  - destruct (nth_error (x_subs x) sb) as [[|w0 t0|t0]|]; try exact C.
    destruct (nth_error (eqs (x_e x)) w0) as [q|] eqn:Hq; [|exact C].
    destruct (push_local cap q t0) as [q'|] eqn:Hp; cbn [set_sub set_e x_e]; [|exact C].
    unfold push_local in Hp. destruct (N.leb_spec cap (nlen (qlocal q))) as [Hle|Hgt]; [discriminate|]. inversion Hp; subst q'.
    split; cbn [set_q eqs eglob]; [|exact C2].
    intros i q0 H. destruct (nth_set_cases _ _ _ _ _ H) as [[-> ->]|[_ H']]; [|exact (C1 i q0 H')].
    cbn [qlocal]. rewrite nlen_insert_prio. lia.
  - destruct (nth_error (x_subs x) sb) as [[|w0 t0|t0]|]; try exact C.
    destruct (N.ltb_spec (nlen (eglob (x_e x))) GLOBAL_CAP) as [Hlt|Hge]; cbn [set_sub set_e x_e]; [|exact C].
    split; cbn [eqs eglob]; [exact C1|]. rewrite nlen_insert_prio. lia.
  - destruct (taker k) as [w'|] eqn:Hk; [|exact C].
    destruct (Nat.eqb w w' && phase_is x w PhIdle && worker_free (x_e x) w); [|exact C].
    assert (Hs : shrinks (x_e x) (wstep true (x_e x) k)) by (apply wstep_shrinks; destruct k; try exact I; discriminate).
    destruct (worker_free (wstep true (x_e x) k) w); cbn [set_ph set_e x_e]; apply (cap_ok_shrinks cap _ _ C Hs).
  - destruct (phase_is x w PhIdle); exact C.
  - destruct (phase_is x w PhFound); exact C.
  - destruct (phase_is x w PhRun); [|exact C]. cbn [set_ph set_e x_e].
    apply (cap_ok_shrinks cap _ _ C). apply wstep_shrinks. exact I.
  - destruct (phase_is x w PhExecuted); exact C.
  - destruct (phase_is x w PhCounted); exact C.
  - destruct (phase_is x w PhBal); [|exact C].
    destruct (x_executed x mod 100 =? 0)%N; cbn [set_ph set_e x_e]; [|exact C].
    apply (cap_ok_shrinks cap _ _ C). apply wstep_shrinks. exact I.
  - cbn [set_e x_e]. apply (cap_ok_shrinks cap _ _ C). apply wstep_shrinks. exact I.
Qed.

Lemma xrun_cap cap nw nsub steps : cap_ok cap (x_e (xrun cap nw nsub steps)).
Proof.
  unfold xrun.
  assert (H0 : cap_ok cap (x_e (xinit nw nsub))).
  { unfold xinit, init; cbn [x_e]. split; cbn [eqs eglob nlen]; [|unfold GLOBAL_CAP; lia].
    intros i q H. apply nth_error_In in H. apply repeat_spec in H. subst q. cbn [qempty qlocal nlen]. lia. }
  revert H0. generalize (xinit nw nsub). induction steps as [|s r IH]; intros x H; cbn [fold_left]; [exact H|].
  apply IH. apply xstep_cap. exact H.
Qed.

(* ---- admission: an undisturbed submit() is Model.submit ---- *)
Lemma xsubmit_refines cap x t :
  nth_error (x_subs x) 0 = Some SbIdle -> eqs (x_e x) <> [] ->
  x_e (xsubmit cap x t) = snd (submit cap (x_e x) t) /\
  x_acc (xsubmit cap x t) = (if fst (submit cap (x_e x) t) then x_acc x ++ [t] else x_acc x) /\
  x_rej (xsubmit cap x t) = (if fst (submit cap (x_e x) t) then x_rej x else x_rej x ++ [t]) /\
  x_ph (xsubmit cap x t) = x_ph x /\ x_active (xsubmit cap x t) = x_active x /\ x_executed (xsubmit cap x t) = x_executed x /\
  nth_error (x_subs (xsubmit cap x t)) 0 = Some SbIdle.
Proof.
  intros Hs Hne. unfold xsubmit.
  set (e := x_e x) in *.
  assert (Hlen : 0 < length (eqs e)) by (destruct (eqs e); [congruence|cbn [length]; lia]).
  set (w := N.to_nat (enext e mod N.of_nat (length (eqs e)))).
  assert (Hw : w < length (eqs e)).
  { unfold w. pose proof (N.mod_upper_bound (enext e) (N.of_nat (length (eqs e))) ltac:(lia)). lia. }
  destruct (nth_error (eqs e) w) as [q|] eqn:Hq; [|apply nth_error_None in Hq; lia].
  set (e1 := mkE (eqs e) (eglob e) (w64 (enext e + 1)) (erun e) (edone e)).
  assert (Hp : xstep_fn cap x (XProbe 0 t) =
               if (nlen (qlocal q) <? cap)%N then set_sub (set_e x e1) 0 (SbLocal w t) else set_sub (set_e x e1) 0 (SbGlobal t)).
  { cbn [xstep_fn]. rewrite Hs. fold e. fold w. rewrite Hq. reflexivity. }
  rewrite Hp. clear Hp.
  assert (Hsub : submit cap e t =
     if (nlen (qlocal q) <? cap)%N then
       match push_local cap q t with Some q' => (true, set_q e1 w q') | None => (false, e1) end
     else if (nlen (eglob e) <? GLOBAL_CAP)%N then
       (true, mkE (eqs e1) (insert_prio t (eglob e)) (enext e1) (erun e1) (edone e1))
     else (false, e1)).
  { unfold submit. fold w. rewrite Hq. reflexivity. }
  rewrite Hsub. clear Hsub.
  assert (H0 : forall p, nth_error (set_nth 0 p (x_subs x)) 0 = Some p).
  { intros p. apply nth_error_set_nth_eq. apply nth_error_Some. rewrite Hs. discriminate. }
  destruct (nlen (qlocal q) <? cap)%N.
  - set (x1 := set_sub (set_e x e1) 0 (SbLocal w t)).
    assert (Hs1 : nth_error (x_subs x1) 0 = Some (SbLocal w t)) by (unfold x1; cbn [set_sub x_subs]; apply H0).
    rewrite Hs1. cbn [xstep_fn]. rewrite Hs1.
    assert (He1 : nth_error (eqs (x_e x1)) w = Some q) by exact Hq.
    rewrite He1.
    destruct (push_local cap q t) as [q'|]; cbn [fst snd x_e x_acc x_rej x_ph x_active x_executed x_subs set_sub set_e x1];
      rewrite ?set_nth_twice; repeat split; try reflexivity; apply H0.
  - set (x1 := set_sub (set_e x e1) 0 (SbGlobal t)).
    assert (Hs1 : nth_error (x_subs x1) 0 = Some (SbGlobal t)) by (unfold x1; cbn [set_sub x_subs]; apply H0).
    rewrite Hs1. cbn [xstep_fn]. rewrite Hs1.
    assert (Hg1 : eglob (x_e x1) = eglob e) by reflexivity.
    rewrite Hg1.
    destruct (nlen (eglob e) <? GLOBAL_CAP)%N; cbn [fst snd x_e x_acc x_rej x_ph x_active x_executed x_subs set_sub set_e x1];
      rewrite ?set_nth_twice; repeat split; try reflexivity; apply H0.
Qed.

(* ---- the theorems ---- *)
Lemma executor_conservation_proof : forall (cap : N) (nw nsub : nat) (steps : list xstep),
  let x := xrun cap nw nsub steps in
  Permutation (queued (x_e x) ++ x_held x ++ edone (x_e x)) (x_acc x) /\
  (NoDup (map tid (x_acc x)) -> NoDup (map tid (queued (x_e x) ++ x_held x ++ edone (x_e x)))) /\
  (queued (x_e x) = [] -> x_held x = [] -> Permutation (edone (x_e x)) (x_acc x)).
Proof.
  intros cap nw nsub steps. cbv zeta. pose proof (xrun_cons cap nw nsub steps) as H. unfold xcons, all_tasks in H.
  unfold x_held. split; [exact H|]. split.
  - intros Hnd. eapply Permutation_NoDup; [|exact Hnd]. apply Permutation_map. symmetry. exact H.
  - intros Hq Hr. rewrite Hq, Hr in H. exact H.
Qed.

Lemma executor_counters_proof : forall (cap : N) (nw nsub : nat) (steps : list xstep),
  let x := xrun cap nw nsub steps in
  x_active x = N.of_nat (count ph_active (x_ph x)) /\
  (x_executed x + N.of_nat (count ph_uncounted (x_ph x)))%N = nlen (edone (x_e x)) /\
  (forall w ph, nth_error (x_ph x) w = Some ph ->
     (ph_holds ph = true <-> exists t, nth_error (erun (x_e x)) w = Some (Some t))).
Proof.
  intros cap nw nsub steps. cbv zeta. destruct (xrun_ph_ok cap nw nsub steps) as [H1 [H2 [H3 H4]]].
  split; [exact H3|]. split; [exact H4|].
  intros w ph Hw. pose proof (H2 w ph Hw) as Hf. split.
  - intros Hh. rewrite Hh in Hf. apply not_free_holds; [|exact Hf].
    rewrite <- H1. apply nth_error_Some. rewrite Hw. discriminate.
  - intros [t Ht]. unfold worker_free in Hf. rewrite Ht in Hf. destruct (ph_holds ph); [reflexivity|discriminate].
Qed.

Lemma executor_capacity_proof : forall (cap : N) (nw nsub : nat) (steps : list xstep),
  let x := xrun cap nw nsub steps in
  (forall i q, nth_error (eqs (x_e x)) i = Some q -> (nlen (qlocal q) <= cap)%N) /\
  (nlen (eglob (x_e x)) <= GLOBAL_CAP)%N.
Proof. intros cap nw nsub steps. exact (xrun_cap cap nw nsub steps). Qed.

Lemma count_zero_inv {A} (pr : A -> bool) (l : list A) : count pr l = 0 -> forall x, In x l -> pr x = false.
Proof.
  induction l as [|a l IH]; intros H x Hin; [destruct Hin|]. cbn [count] in H.
  destruct (pr a) eqn:E; [lia|]. destruct Hin as [<-|Hin]; [exact E|]. apply IH; [lia|exact Hin].
Qed.

Lemma nlen_zero_nil {A} (l : list A) : nlen l = 0%N -> l = [].
Proof. destruct l; [reflexivity|]. cbn [nlen]. lia. Qed.

(* is_idle() = true means "every accepted task has been executed" exactly when no worker is between find_task
   and active_tasks += 1; and once the last task has finished and the workers have decremented active_tasks it is true *)
Lemma is_idle_proof : forall (cap : N) (nw nsub : nat) (steps : list xstep),
  let x := xrun cap nw nsub steps in
  (x_is_idle x = true -> (forall w, nth_error (x_ph x) w <> Some PhFound) -> Permutation (edone (x_e x)) (x_acc x)) /\
  (Permutation (edone (x_e x)) (x_acc x) -> (forall w ph, nth_error (x_ph x) w = Some ph -> ph_active ph = false) ->
     x_is_idle x = true).
Proof.
  intros cap nw nsub steps. cbv zeta.
  destruct (executor_conservation_proof cap nw nsub steps) as [Hc _]. cbv zeta in Hc.
  destruct (xrun_ph_ok cap nw nsub steps) as [H1 [H2 [H3 H4]]].
  set (x := xrun cap nw nsub steps) in *. split.
  - intros Hidle Hnf. unfold x_is_idle in Hidle. apply andb_prop in Hidle. destruct Hidle as [Ha Hq].
    apply N.eqb_eq in Ha, Hq. unfold x_total_queued, total_queued in Hq. apply nlen_zero_nil in Hq.
    assert (Hcount : count ph_active (x_ph x) = 0) by lia.
    assert (Hheld : x_held x = []).
    { unfold x_held, running. apply cat_some_all_none. intros w Hw.
      rewrite <- H1 in Hw. destruct (nth_error (x_ph x) w) as [ph|] eqn:Hp; [|apply nth_error_None in Hp; lia].
      apply worker_free_spec. rewrite (H2 w ph Hp).
      pose proof (count_zero_inv _ _ Hcount ph (nth_error_In _ _ Hp)) as Hact.
      destruct ph; cbn [ph_active ph_holds negb] in *; try reflexivity; try discriminate.
      exfalso. exact (Hnf w Hp). }
    rewrite Hq, Hheld in Hc. exact Hc.
  - intros Hdone Hna. unfold x_is_idle.
    assert (Hlen : length (queued (x_e x)) + length (x_held x) = 0).
    { pose proof (Permutation_length Hc) as L1. pose proof (Permutation_length Hdone) as L2. rewrite !app_length in L1. lia. }
    assert (Hact : count ph_active (x_ph x) = 0) by (apply count_zero; intros ph Hin; apply In_nth_error in Hin; destruct Hin as [w Hw]; exact (Hna w ph Hw)).
    unfold x_total_queued, total_queued. rewrite nlen_length.
    replace (x_active x) with 0%N by lia. replace (length (queued (x_e x))) with 0 by lia. reflexivity.
Qed.

(* the window exists: one accepted task, taken by the worker, not yet counted as active - is_idle() is true, nothing has run *)
Definition idle_window_task : task := mkT 0 0 true.
Definition idle_window_steps : list xstep := [XProbe 0 idle_window_task; XPush 0; XTake 0 (PopLocal 0)].

Lemma is_idle_window_proof :
  let x := xrun 4 1 1 idle_window_steps in
  x_is_idle x = true /\ x_acc x = [idle_window_task] /\ edone (x_e x) = [] /\ x_held x = [idle_window_task] /\
  nth_error (x_ph x) 0 = Some PhFound.
Proof. vm_compute. repeat split; reflexivity. Qed.

(* a submission can lose the race between its capacity probe and its push: two threads probe the same queue with one
   free slot, the second push_local fails - the task is dropped with an error (rejected, never executed) *)
Lemma submit_race_proof :
  let a := mkT 0 0 true in let b := mkT 1 0 true in
  let x := xrun 1 1 2 [XProbe 0 a; XProbe 1 b; XPush 0; XPush 1] in
  x_acc x = [a] /\ x_rej x = [b] /\ queued (x_e x) = [a].
Proof. vm_compute. repeat split; reflexivity. Qed.

Example executor_fine_nontrivial :
  let t0 := mkT 0 1 true in let t1 := mkT 1 0 true in
  let x := xrun 1 2 1 [XProbe 0 t0; XPush 0; XProbe 0 t1; XPush 0; XTake 1 (PopLocal 1); XActivate 1; XTake 0 (PopLocal 0); XExecute 1;
                       XActivate 0; XCount 1; XExecute 0; XDeactivate 1; XBalCheck 1; XCount 0; XDeactivate 0; XBalCheck 0] in
  x_acc x = [t0; t1] /\ edone (x_e x) = [t1; t0] /\ x_executed x = 2%N /\ x_active x = 0%N /\ x_is_idle x = true.
Proof. vm_compute. repeat split; reflexivity. Qed.
