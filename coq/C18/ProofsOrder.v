(* C18: every local queue and the global queue stay sorted by priority (highest first) in every
   reachable state, so pop_local / the global pop hand out a most urgent task. *)
From ZV.Common Require Import Base.
From ZV.C18 Require Import Model ProofsQueue.
From Coq Require Import Permutation.
Open Scope N_scope.

Lemma insert_prio_in t l y : In y (insert_prio t l) -> y = t \/ In y l.
Proof.
  intros H. apply (Permutation_in y (insert_prio_perm t l)) in H.
  destruct H as [H|H]; [left; symmetry; exact H|right; exact H].
Qed.

Lemma insert_prio_desc t l : desc l -> desc (insert_prio t l).
Proof.
  induction l as [|x r IH]; intros Hd; cbn [insert_prio].
  - cbn [desc]. split; [intros y []|exact I].
  - destruct Hd as [Hx Hr]. destruct (tprio x <? tprio t) eqn:E.
    + cbn [desc]. split; [|split; assumption].
      intros y [Hy|Hy]; [subst y; lia|]. specialize (Hx y Hy). lia.
    + cbn [desc]. split; [|apply IH; exact Hr].
      intros y Hy. apply insert_prio_in in Hy. destruct Hy as [Hy|Hy]; [subst y; lia|apply Hx; exact Hy].
Qed.

Lemma rls_desc l : forall t l', remove_last_stealable l = Some (t, l') -> desc l -> desc l'.
Proof.
  induction l as [|x r IH]; intros t l' H Hd; cbn [remove_last_stealable] in H; [discriminate|].
  destruct Hd as [Hx Hr].
  destruct (remove_last_stealable r) as [[t0 r0]|] eqn:E.
  - inversion H; subst. cbn [desc]. split; [|eapply IH; [reflexivity|exact Hr]].
    intros y Hy. apply Hx. apply (Permutation_in y (Permutation_sym (rls_perm _ _ _ E))). right. exact Hy.
  - destruct (tsteal x); inversion H; subst. exact Hr.
Qed.

Lemma desc_app_l a : forall b, desc (a ++ b) -> desc a.
Proof.
  induction a as [|x r IH]; intros b H; cbn [app desc] in *; [exact I|].
  destruct H as [Hx Hr]. split; [|eapply IH; exact Hr].
  intros y Hy. apply Hx. apply in_or_app. left. exact Hy.
Qed.

Lemma bal_loop_suffix n : forall rl st rl' st',
  bal_loop n rl st = (rl', st') -> exists pre, rl = pre ++ rl'.
Proof.
  induction n as [|n IH]; intros rl st rl' st' H; cbn [bal_loop] in H.
  - inversion H; subst. exists []. reflexivity.
  - destruct rl as [|t r]; [inversion H; subst; exists []; reflexivity|].
    destruct (tsteal t).
    + apply IH in H. destruct H as [pre Hp]. exists (t :: pre). rewrite Hp. reflexivity.
    + inversion H; subst. exists []. reflexivity.
Qed.

Lemma balance_desc q : desc (qlocal q) -> desc (qlocal (balance q)).
Proof.
  intros Hd. unfold balance.
  destruct (nlen (qsteal q) + 1 <? nlen (qlocal q)); [|exact Hd].
  destruct (bal_loop _ _ _) as [rl st] eqn:E. cbn [qlocal].
  apply bal_loop_suffix in E. destruct E as [pre Hp].
  assert (Hl : qlocal q = rev rl ++ rev pre).
  { rewrite <- (rev_involutive (qlocal q)). rewrite Hp. apply rev_app_distr. }
  rewrite Hl in Hd. eapply desc_app_l. exact Hd.
Qed.

Definition sorted_inv (e : exec) : Prop :=
  Forall (fun q => desc (qlocal q)) (eqs e) /\ desc (eglob e).

Lemma Forall_set_nth {A} (P : A -> Prop) (l : list A) : forall i y,
  Forall P l -> P y -> Forall P (set_nth i y l).
Proof.
  induction l as [|a r IH]; intros [|i] y Hl Hy; cbn [set_nth]; try exact Hl.
  - inversion Hl; subst. constructor; assumption.
  - inversion Hl; subst. constructor; [assumption|apply IH; assumption].
Qed.

Lemma Forall_nth_error {A} (P : A -> Prop) (l : list A) i x :
  Forall P l -> nth_error l i = Some x -> P x.
Proof. intros Hl Hn. rewrite Forall_forall in Hl. apply Hl. eapply nth_error_In; exact Hn. Qed.

Lemma pop_local_desc fixed q t q' : pop_local fixed q = (t, q') -> desc (qlocal q) -> desc (qlocal q').
Proof.
  unfold pop_local. destruct (qlocal q) as [|x r] eqn:El.
  - destruct fixed.
    + destruct (qsteal q) as [|y s]; intros H; inversion H; subst; intros _.
      * rewrite El. exact I.
      * exact I.
    + intros H; inversion H; subst. intros _. rewrite El. exact I.
  - intros H; inversion H; subst; cbn [qlocal]. intros [_ Hr]. exact Hr.
Qed.

Lemma steal_desc q t q' : steal q = (t, q') -> desc (qlocal q) -> desc (qlocal q').
Proof.
  unfold steal. destruct (qsteal q).
  - destruct (1 <? nlen (qlocal q)).
    + destruct (remove_last_stealable (qlocal q)) as [[t0 l0]|] eqn:E; intros H; inversion H; subst; cbn [qlocal]; auto.
      intros Hd. eapply rls_desc; eassumption.
    + intros H; inversion H; subst; auto.
  - intros H; inversion H; subst; cbn [qlocal]; auto.
Qed.

Lemma rls_desc' l t l' : remove_last_stealable l = Some (t, l') -> desc l -> desc l'.
Proof. apply rls_desc. Qed.

Lemma wstep_sorted fixed e s : sorted_inv e -> sorted_inv (wstep fixed e s).
Proof.
  intros [Hq Hg]. destruct s as [t| |w|w|w|w v|w v|w v|w|w]; cbn [wstep]; try (split; assumption).
  - (* PopLocal *)
    destruct (worker_free e w); [|split; assumption].
    destruct (nth_error (eqs e) w) as [q|] eqn:Hn; [|split; assumption].
    destruct (pop_local fixed q) as [[t|] q'] eqn:Hp; [|split; assumption].
    split; cbn [set_run set_q eqs eglob]; [|exact Hg].
    apply (Forall_set_nth (fun q => desc (qlocal q))); [exact Hq|]. eapply pop_local_desc; [exact Hp|].
    exact (Forall_nth_error (fun q => desc (qlocal q)) _ _ _ Hq Hn).
  - (* PopOwnSteal *)
    destruct (fixed && worker_free e w); [|split; assumption].
    destruct (nth_error (eqs e) w) as [q|] eqn:Hn; [|split; assumption].
    destruct (qsteal q) as [|t r]; [split; assumption|].
    split; cbn [set_run set_q eqs eglob]; [|exact Hg].
    apply (Forall_set_nth (fun q => desc (qlocal q))); [exact Hq|]. cbn [qlocal].
    exact (Forall_nth_error (fun q => desc (qlocal q)) _ _ _ Hq Hn).
  - (* PopGlobal *)
    destruct (worker_free e w); [|split; assumption].
    destruct (eglob e) as [|t r] eqn:Eg; [split; [assumption|rewrite Eg; exact Hg]|].
    split; cbn [set_run eqs eglob]; [exact Hq|]. destruct Hg as [_ Hr]. exact Hr.
  - (* StealFrom *)
    destruct (worker_free e w && negb (Nat.eqb w v)); [|split; assumption].
    destruct (nth_error (eqs e) v) as [q|] eqn:Hn; [|split; assumption].
    destruct (steal q) as [[t|] q'] eqn:Hp; [|split; assumption].
    split; cbn [set_run set_q eqs eglob]; [|exact Hg].
    apply (Forall_set_nth (fun q => desc (qlocal q))); [exact Hq|]. eapply steal_desc; [exact Hp|].
    exact (Forall_nth_error (fun q => desc (qlocal q)) _ _ _ Hq Hn).
  - (* StealQ *)
    destruct (worker_free e w && negb (Nat.eqb w v)); [|split; assumption].
    destruct (nth_error (eqs e) v) as [q|] eqn:Hn; [|split; assumption].
    destruct (qsteal q) as [|t r]; [split; assumption|].
    split; cbn [set_run set_q eqs eglob]; [|exact Hg].
    apply (Forall_set_nth (fun q => desc (qlocal q))); [exact Hq|]. cbn [qlocal].
    exact (Forall_nth_error (fun q => desc (qlocal q)) _ _ _ Hq Hn).
  - (* StealL *)
    destruct (worker_free e w && negb (Nat.eqb w v)); [|split; assumption].
    destruct (nth_error (eqs e) v) as [q|] eqn:Hn; [|split; assumption].
    destruct (1 <? nlen (qlocal q)); [|split; assumption].
    destruct (remove_last_stealable (qlocal q)) as [[t l']|] eqn:Hr; [|split; assumption].
    split; cbn [set_run set_q eqs eglob]; [|exact Hg].
    apply (Forall_set_nth (fun q => desc (qlocal q))); [exact Hq|]. cbn [qlocal].
    eapply rls_desc'; [exact Hr|]. exact (Forall_nth_error (fun q => desc (qlocal q)) _ _ _ Hq Hn).
  - (* Balance *)
    destruct (nth_error (eqs e) w) as [q|] eqn:Hn; [|split; assumption].
    split; cbn [set_q eqs eglob]; [|exact Hg].
    apply (Forall_set_nth (fun q => desc (qlocal q))); [exact Hq|]. apply balance_desc.
    exact (Forall_nth_error (fun q => desc (qlocal q)) _ _ _ Hq Hn).
  - (* Finish *)
    destruct (nth_error (erun e) w) as [[t|]|]; split; assumption.
Qed.

Lemma submit_sorted cap e t ok e' : submit cap e t = (ok, e') -> sorted_inv e -> sorted_inv e'.
Proof.
  unfold submit. intros H [Hq Hg].
  destruct (nth_error (eqs e) _) as [q|] eqn:Hn.
  2:{ inversion H; subst. split; assumption. }
  destruct (nlen (qlocal q) <? cap).
  - destruct (push_local cap q t) as [q'|] eqn:Hp.
    + inversion H; subst. split; cbn [set_q eqs eglob]; [|exact Hg].
      apply (Forall_set_nth (fun q => desc (qlocal q))); [exact Hq|].
      unfold push_local in Hp. destruct (cap <=? nlen (qlocal q)); [discriminate|].
      inversion Hp; subst; cbn [qlocal]. apply insert_prio_desc.
      exact (Forall_nth_error (fun q => desc (qlocal q)) _ _ _ Hq Hn).
    + inversion H; subst. split; assumption.
  - destruct (nlen (eglob e) <? GLOBAL_CAP); inversion H; subst; split; cbn [eqs eglob]; auto.
    apply insert_prio_desc. exact Hg.
Qed.

Lemma run_sorted fixed cap steps : forall e acc e' acc',
  run fixed cap e acc steps = (e', acc') -> sorted_inv e -> sorted_inv e'.
Proof.
  induction steps as [|s r IH]; intros e acc e' acc' H Hs; cbn [run] in H.
  - inversion H; subst. exact Hs.
  - destruct s as [t| |w|w|w|w v|w v|w v|w|w];
      try (eapply IH; [exact H|apply wstep_sorted; exact Hs]).
    destruct (submit cap e t) as [ok e1] eqn:E.
    eapply IH; [exact H|]. eapply submit_sorted; eassumption.
Qed.

Lemma init_sorted nw : sorted_inv (init nw).
Proof.
  split; cbn [init eqs eglob]; [|exact I].
  apply Forall_forall. intros q Hq. apply repeat_spec in Hq. subst q. exact I.
Qed.

(* priority_order: in every reachable state every local queue and the global queue are in priority
   order, and what pop_local takes from a non-empty local queue is a most urgent task of that queue *)
Lemma priority_order_proof : forall fixed cap nw steps e acc,
  run fixed cap (init nw) [] steps = (e, acc) ->
  Forall (fun q => desc (qlocal q)) (eqs e) /\ desc (eglob e) /\
  (forall w q t q', nth_error (eqs e) w = Some q -> qlocal q <> [] ->
     pop_local fixed q = (Some t, q') -> forall y, In y (qlocal q) -> tprio y <= tprio t).
Proof.
  intros fixed cap nw steps e acc H.
  destruct (run_sorted _ _ _ _ _ _ _ H (init_sorted nw)) as [Hq Hg].
  split; [exact Hq|]. split; [exact Hg|].
  intros w q t q' Hn Hne Hp y Hy.
  pose proof (Forall_nth_error _ _ _ _ Hq Hn) as Hd. cbv beta in Hd.
  unfold pop_local in Hp. destruct (qlocal q) as [|x r]; [congruence|].
  inversion Hp; subst. destruct Hd as [Hx _].
  destruct Hy as [Hy|Hy]; [subst y; lia|apply Hx; exact Hy].
Qed.

Example priority_order_nontrivial :
  exists e acc, run true 8 (init 1) [] [Submit (mkT 0 1 true); Submit (mkT 1 3 true); Submit (mkT 2 2 false); Submit (mkT 3 3 true)] = (e, acc)
    /\ map tid (queued e) = [1; 3; 2; 0].
Proof. eexists. eexists. split; vm_compute; reflexivity. Qed.
