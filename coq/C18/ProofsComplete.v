(* C18: from every reachable state there is a continuation of worker steps alone that executes every
   accepted task and leaves the executor idle (no reachable state is a trap). *)
From ZV.Common Require Import Base.
From ZV.C18 Require Import Model ProofsQueue ProofsProgress.
From Coq Require Import Permutation.
Open Scope N_scope.

Definition shape (nw : nat) (e : exec) : Prop := length (eqs e) = nw /\ length (erun e) = nw.
Definition all_free (e : exec) : Prop := forall w, (w < length (erun e))%nat -> nth_error (erun e) w = Some None.

Lemma nth_error_set_nth_eq {A} (l : list A) : forall i x, (i < length l)%nat -> nth_error (set_nth i x l) i = Some x.
Proof.
  induction l as [|a r IH]; intros [|i] x H; cbn [length] in H; cbn [set_nth nth_error]; try lia; [reflexivity|].
  apply IH. lia.
Qed.
Lemma nth_error_set_nth_neq {A} (l : list A) : forall i j x, i <> j -> nth_error (set_nth i x l) j = nth_error l j.
Proof.
  induction l as [|a r IH]; intros [|i] [|j] x H; cbn [set_nth nth_error]; try reflexivity; try congruence.
  apply IH. congruence.
Qed.
Lemma set_nth_twice {A} (l : list A) : forall i x y, set_nth i x (set_nth i y l) = set_nth i x l.
Proof. induction l as [|a r IH]; intros [|i] x y; cbn [set_nth]; try reflexivity. rewrite IH. reflexivity. Qed.

Lemma free_spec e w : nth_error (erun e) w = Some None -> worker_free e w = true.
Proof. unfold worker_free. intros ->. reflexivity. Qed.

(* ---- shape is an invariant ---- *)
Lemma take_shape nw e w v q' t : shape nw e -> shape nw (set_run (set_q e v q') w (Some t)).
Proof. intros [Hq Hr]. split; cbn [set_run set_q eqs erun]; rewrite set_nth_length; assumption. Qed.

Lemma wstep_shape fixed nw e s : shape nw e -> shape nw (wstep fixed e s).
Proof.
  intros Hs. pose proof Hs as [Hq Hr].
  destruct s as [t| |w|w|w|w v|w v|w v|w|w]; cbn [wstep]; try exact Hs.
  - destruct (worker_free e w); [|exact Hs].
    destruct (nth_error (eqs e) w) as [q|]; [|exact Hs].
    destruct (pop_local fixed q) as [[t|] q']; [|exact Hs]. apply take_shape; exact Hs.
  - destruct (fixed && worker_free e w); [|exact Hs].
    destruct (nth_error (eqs e) w) as [q|]; [|exact Hs].
    destruct (qsteal q); [exact Hs|]. apply take_shape; exact Hs.
  - destruct (worker_free e w); [|exact Hs].
    destruct (eglob e); [exact Hs|].
    split; cbn [set_run eqs erun]; [assumption|rewrite set_nth_length; assumption].
  - destruct (worker_free e w && negb (Nat.eqb w v)); [|exact Hs].
    destruct (nth_error (eqs e) v) as [q|]; [|exact Hs].
    destruct (steal q) as [[t|] q']; [|exact Hs]. apply take_shape; exact Hs.
  - destruct (worker_free e w && negb (Nat.eqb w v)); [|exact Hs].
    destruct (nth_error (eqs e) v) as [q|]; [|exact Hs].
    destruct (qsteal q); [exact Hs|]. apply take_shape; exact Hs.
  - destruct (worker_free e w && negb (Nat.eqb w v)); [|exact Hs].
    destruct (nth_error (eqs e) v) as [q|]; [|exact Hs].
    destruct (1 <? nlen (qlocal q)); [|exact Hs].
    destruct (remove_last_stealable (qlocal q)) as [[t l']|]; [|exact Hs]. apply take_shape; exact Hs.
  - destruct (nth_error (eqs e) w); [|exact Hs].
    split; cbn [set_q eqs erun]; [rewrite set_nth_length|]; assumption.
  - destruct (nth_error (erun e) w) as [[t|]|]; try exact Hs.
    split; cbn [eqs erun]; [assumption|rewrite set_nth_length; assumption].
Qed.

Lemma submit_shape cap nw e t ok e' : submit cap e t = (ok, e') -> shape nw e -> shape nw e'.
Proof.
  unfold submit. intros H [Hq Hr].
  destruct (nth_error (eqs e) _) as [q|]; [|inversion H; subst ok e'; split; cbn [eqs erun]; assumption].
  destruct (nlen (qlocal q) <? cap).
  - destruct (push_local cap q t); inversion H; subst ok e'; split; cbn [set_q eqs erun]; try assumption.
    rewrite set_nth_length; assumption.
  - destruct (nlen (eglob e) <? GLOBAL_CAP); inversion H; subst ok e'; split; cbn [eqs erun]; assumption.
Qed.

Lemma run_shape fixed cap nw steps : forall e acc e' acc',
  run fixed cap e acc steps = (e', acc') -> shape nw e -> shape nw e'.
Proof.
  induction steps as [|s r IH]; intros e acc e' acc' H Hs; cbn [run] in H.
  - inversion H; subst; exact Hs.
  - destruct s as [t| |w|w|w|w v|w v|w v|w|w]; try (eapply IH; [exact H|apply wstep_shape; exact Hs]).
    destruct (submit cap e t) as [ok e1] eqn:E. eapply IH; [exact H|]. eapply submit_shape; eassumption.
Qed.

Lemma init_shape nw : shape nw (init nw).
Proof. split; cbn [init eqs erun]; apply repeat_length. Qed.

(* ---- worker-only schedules ---- *)
Definition no_submit (st : list step) : Prop := forallb (fun s => negb (is_submit s)) st = true.

Lemma no_submit_app a b : no_submit a -> no_submit b -> no_submit (a ++ b).
Proof. unfold no_submit. intros Ha Hb. rewrite forallb_app, Ha, Hb. reflexivity. Qed.

Lemma run_no_submit fixed cap st : forall e acc,
  no_submit st -> run fixed cap e acc st = (fold_left (wstep fixed) st e, acc).
Proof.
  induction st as [|s r IH]; intros e acc H; cbn [run fold_left]; [reflexivity|].
  unfold no_submit in H. cbn [forallb] in H. apply andb_prop in H. destruct H as [Hs Hr].
  destruct s as [t| |w|w|w|w v|w v|w v|w|w]; try (apply IH; exact Hr); discriminate.
Qed.

(* ---- let every running task finish ---- *)
Lemma finish_keeps_none e w v :
  nth_error (erun e) v = Some None -> nth_error (erun (wstep true e (Finish w))) v = Some None.
Proof.
  intros H. cbn [wstep]. destruct (nth_error (erun e) w) as [[t|]|] eqn:Hw; try exact H.
  cbn [erun]. destruct (Nat.eq_dec w v) as [->|Hne].
  - apply nth_error_set_nth_eq. apply nth_error_Some. rewrite H. discriminate.
  - rewrite nth_error_set_nth_neq by exact Hne. exact H.
Qed.

Lemma finish_makes_none e w :
  (w < length (erun e))%nat -> nth_error (erun (wstep true e (Finish w))) w = Some None.
Proof.
  intros Hw. cbn [wstep]. destruct (nth_error (erun e) w) as [[t|]|] eqn:E.
  - cbn [erun]. apply nth_error_set_nth_eq. exact Hw.
  - exact E.
  - apply nth_error_None in E. lia.
Qed.

Lemma finish_queued e w : queued (wstep true e (Finish w)) = queued e /\
  length (erun (wstep true e (Finish w))) = length (erun e).
Proof.
  cbn [wstep]. destruct (nth_error (erun e) w) as [[t|]|]; try (split; reflexivity).
  unfold queued; cbn [eqs eglob erun]. split; [reflexivity|apply set_nth_length].
Qed.

Lemma finish_list ws : forall e,
  (forall w, In w ws -> (w < length (erun e))%nat) ->
  let e1 := fold_left (wstep true) (map Finish ws) e in
  queued e1 = queued e /\ length (erun e1) = length (erun e) /\
  (forall v, nth_error (erun e) v = Some None -> nth_error (erun e1) v = Some None) /\
  (forall w, In w ws -> nth_error (erun e1) w = Some None).
Proof.
  induction ws as [|w r IH]; intros e Hin; cbv zeta; cbn [map fold_left].
  - split; [reflexivity|]. split; [reflexivity|]. split; [auto|]. intros w [].
  - destruct (finish_queued e w) as [Fq Fl].
    assert (Hin' : forall v, In v r -> (v < length (erun (wstep true e (Finish w))))%nat).
    { intros v Hv. rewrite Fl. apply Hin. right. exact Hv. }
    pose proof (IH (wstep true e (Finish w)) Hin') as IH'. cbv zeta in IH'.
    destruct IH' as [I1 [I2 [I3 I4]]].
    split; [rewrite I1; exact Fq|]. split; [rewrite I2; exact Fl|]. split.
    + intros v Hv. apply I3. apply finish_keeps_none. exact Hv.
    + intros v [Hv|Hv]; [subst v|apply I4; exact Hv].
      apply I3. apply finish_makes_none. apply Hin. left. reflexivity.
Qed.

Lemma cat_some_all_none {A} (l : list (option A)) :
  (forall w, (w < length l)%nat -> nth_error l w = Some None) -> cat_some l = [].
Proof.
  induction l as [|a r IH]; intros H; cbn [cat_some]; [reflexivity|].
  pose proof (H O ltac:(cbn [length]; lia)) as H0. cbn [nth_error] in H0. inversion H0; subst.
  apply IH. intros w Hw. apply (H (S w)). cbn [length]. lia.
Qed.

Lemma fold_wstep_conserves st : forall e, no_submit st ->
  Permutation (all_tasks (fold_left (wstep true) st e)) (all_tasks e).
Proof.
  induction st as [|s r IH]; intros e H; cbn [fold_left]; [reflexivity|].
  unfold no_submit in H. cbn [forallb] in H. apply andb_prop in H. destruct H as [Hs Hr].
  rewrite (IH _ Hr). pose proof (wstep_conserves true e s) as W.
  destruct s; try exact W; discriminate.
Qed.

Lemma no_submit_finish ws : no_submit (map Finish ws).
Proof. unfold no_submit. induction ws; cbn [map forallb]; auto. Qed.

Lemma finish_all_facts nw e :
  shape nw e ->
  let e1 := fold_left (wstep true) (map Finish (seq 0 nw)) e in
  shape nw e1 /\ all_free e1 /\ running e1 = [] /\ queued e1 = queued e /\
  Permutation (edone e1) (edone e ++ running e).
Proof.
  intros [Hq Hr]. cbv zeta.
  assert (Hin : forall w, In w (seq 0 nw) -> (w < length (erun e))%nat).
  { intros w Hw. apply in_seq in Hw. lia. }
  pose proof (finish_list (seq 0 nw) e Hin) as F. cbv zeta in F. destruct F as [F1 [F2 [F3 F4]]].
  set (e1 := fold_left (wstep true) (map Finish (seq 0 nw)) e) in *.
  assert (Hfree : all_free e1).
  { intros w Hw. apply F4. apply in_seq. lia. }
  assert (Hrun : running e1 = []) by (apply cat_some_all_none; exact Hfree).
  assert (Hshape : shape nw e1).
  { clear -Hq Hr. subst e1. revert e Hq Hr. generalize (map Finish (seq 0 nw)) as st.
    induction st as [|s r IH]; intros e Hq Hr; cbn [fold_left]; [split; assumption|].
    destruct (wstep_shape true nw e s (conj Hq Hr)) as [A B]. apply IH; assumption. }
  split; [exact Hshape|]. split; [exact Hfree|]. split; [exact Hrun|]. split; [exact F1|].
  pose proof (fold_wstep_conserves (map Finish (seq 0 nw)) e (no_submit_finish _)) as C.
  fold e1 in C. unfold all_tasks in C. rewrite F1, Hrun in C. cbn [app] in C.
  apply Permutation_app_inv_l in C. rewrite C. apply Permutation_app_comm.
Qed.

(* ---- a worker's turn as a schedule ---- *)
Lemma steal_others_not_self w qs : forall i t v q', steal_others w i qs = Some (t, v, q') -> v <> w.
Proof.
  induction qs as [|q r IH]; intros i t v q' H; cbn [steal_others] in H; [discriminate|].
  destruct (Nat.eqb i w) eqn:E.
  - eapply IH; exact H.
  - destruct (steal q) as [[t0|] q0].
    + inversion H; subst. apply Nat.eqb_neq in E. exact E.
    + eapply IH; exact H.
Qed.

Lemma take_and_finish e w t (e0 : exec) :
  nth_error (erun e) w = Some None -> erun e0 = erun e ->
  wstep true (set_run e0 w (Some t)) (Finish w) =
  mkE (eqs e0) (eglob e0) (enext e0) (erun e0) (edone e0 ++ [t]).
Proof.
  intros Hf He. cbn [wstep set_run erun eqs eglob enext edone].
  assert (Hw : (w < length (erun e0))%nat) by (rewrite He; apply nth_error_Some; rewrite Hf; discriminate).
  rewrite (nth_error_set_nth_eq _ _ _ Hw). rewrite set_nth_twice.
  rewrite set_nth_same by (rewrite He; exact Hf). reflexivity.
Qed.

Lemma find_steps e w :
  nth_error (erun e) w = Some None ->
  exists st, no_submit st /\
    fold_left (wstep true) st e =
    match find_task true e w with
    | Some (t, e') => mkE (eqs e') (eglob e') (enext e') (erun e') (edone e' ++ [t])
    | None => e
    end.
Proof.
  intros Hf. pose proof (free_spec _ _ Hf) as Hfree. unfold find_task.
  destruct (nth_error (eqs e) w) as [q|] eqn:Hq; [|exists []; split; reflexivity].
  destruct (pop_local true q) as [[t|] q'] eqn:Hp.
  - exists [PopLocal w; Finish w]. split; [reflexivity|]. cbn [fold_left].
    assert (E1 : wstep true e (PopLocal w) = set_run (set_q e w q') w (Some t)).
    { cbn [wstep]. rewrite Hfree, Hq, Hp. reflexivity. }
    rewrite E1. apply (take_and_finish e w t (set_q e w q') Hf). reflexivity.
  - destruct (eglob e) as [|g r] eqn:Hg.
    + destruct (steal_others w 0 (eqs e)) as [[[t v] q1]|] eqn:Hs; [|exists []; split; reflexivity].
      pose proof (steal_others_not_self _ _ _ _ _ _ Hs) as Hne.
      apply steal_others_some in Hs. destruct Hs as [k [q2 [Hv [Hn Hst]]]]. cbn [Nat.add] in Hv. subst k.
      exists [StealFrom w v; Finish w]. split; [reflexivity|]. cbn [fold_left].
      assert (E1 : wstep true e (StealFrom w v) = set_run (set_q e v q1) w (Some t)).
      { cbn [wstep]. rewrite Hfree.
        replace (Nat.eqb w v) with false by (symmetry; apply Nat.eqb_neq; congruence).
        cbn [negb andb]. rewrite Hn, Hst. reflexivity. }
      rewrite E1. apply (take_and_finish e w t (set_q e v q1) Hf). reflexivity.
    + exists [PopGlobal w; Finish w]. split; [reflexivity|]. cbn [fold_left].
      assert (E1 : wstep true e (PopGlobal w) = set_run (mkE (eqs e) r (enext e) (erun e) (edone e)) w (Some g)).
      { cbn [wstep]. rewrite Hfree, Hg. reflexivity. }
      rewrite E1. apply (take_and_finish e w g (mkE (eqs e) r (enext e) (erun e) (edone e)) Hf). reflexivity.
Qed.

Lemma turn_steps e w :
  nth_error (erun e) w = Some None ->
  exists st, no_submit st /\ fold_left (wstep true) st e = turn true e w.
Proof.
  intros Hf. destruct (find_steps e w Hf) as [st [Hns Hst]].
  rewrite turn_unfold. unfold maybe_balance. rewrite <- Hst.
  destruct (nlen (edone (fold_left (wstep true) st e)) mod 100 =? 0).
  - exists (st ++ [Balance w]). split; [apply no_submit_app; [exact Hns|reflexivity]|].
    rewrite fold_left_app. reflexivity.
  - exists st. split; [exact Hns|reflexivity].
Qed.

Lemma fold_turn_steps ws : forall e,
  all_free e -> (forall w, In w ws -> (w < length (erun e))%nat) -> (forall w, In w ws -> (w < length (eqs e))%nat) ->
  exists st, no_submit st /\ fold_left (wstep true) st e = fold_left (turn true) ws e.
Proof.
  induction ws as [|w r IH]; intros e Hfree Hin Hin2; cbn [fold_left].
  - exists []. split; reflexivity.
  - assert (Hw : (w < length (erun e))%nat) by (apply Hin; left; reflexivity).
    assert (Hw2 : (w < length (eqs e))%nat) by (apply Hin2; left; reflexivity).
    destruct (turn_steps e w (Hfree w Hw)) as [st1 [N1 S1]].
    destruct (turn_facts e w Hw2) as [_ [_ [T3 [T4 _]]]].
    assert (Hfree' : all_free (turn true e w)) by (unfold all_free; rewrite T3; exact Hfree).
    destruct (IH (turn true e w) Hfree') as [st2 [N2 S2]].
    { intros v Hv. rewrite T3. apply Hin. right. exact Hv. }
    { intros v Hv. rewrite T4. apply Hin2. right. exact Hv. }
    exists (st1 ++ st2). split; [apply no_submit_app; assumption|].
    rewrite fold_left_app, S1. exact S2.
Qed.

Lemma rounds_steps nw n : forall e,
  shape nw e -> all_free e ->
  exists st, no_submit st /\ fold_left (wstep true) st e = rounds true n e.
Proof.
  induction n as [|n IH]; intros e [Hq Hr] Hfree; cbn [rounds].
  - exists []. split; reflexivity.
  - destruct (fold_turn_steps (seq 0 (length (eqs e))) e Hfree) as [st1 [N1 S1]].
    { intros w Hw. apply in_seq in Hw. lia. }
    { intros w Hw. apply in_seq in Hw. lia. }
    fold (round true e) in S1.
    assert (Hin : forall w, In w (seq 0 (length (eqs e))) -> (w < length (eqs e))%nat).
    { intros w Hw. apply in_seq in Hw. lia. }
    pose proof (fold_turn_facts _ e Hin) as FF. cbv zeta in FF. fold (round true e) in FF.
    destruct FF as [_ [_ [F3 [F4 _]]]].
    destruct (IH (round true e)) as [st2 [N2 S2]].
    { split; [rewrite F4; exact Hq|rewrite F3; exact Hr]. }
    { unfold all_free. rewrite F3. exact Hfree. }
    exists (st1 ++ st2). split; [apply no_submit_app; assumption|].
    rewrite fold_left_app, S1. exact S2.
Qed.

(* completion_reachable *)
Lemma completion_reachable_proof : forall cap nw steps e acc,
  (0 < nw)%nat -> run true cap (init nw) [] steps = (e, acc) ->
  exists more, no_submit more /\
    exists e', run true cap e acc more = (e', acc) /\
      Permutation (edone e') acc /\ queued e' = [] /\ running e' = [] /\ is_idle e' = true.
Proof.
  intros cap nw steps e acc Hnw Hrun.
  pose proof (run_shape _ _ nw _ _ _ _ _ Hrun (init_shape nw)) as Hshape.
  pose proof (conservation_proof _ _ _ _ _ _ Hrun) as Hcons.
  pose proof (finish_all_facts nw e Hshape) as FA. cbv zeta in FA.
  set (e1 := fold_left (wstep true) (map Finish (seq 0 nw)) e) in *.
  destruct FA as [Sh1 [Fr1 [Ru1 [Qu1 Do1]]]].
  destruct (rounds_steps nw (length (queued e1)) e1 Sh1 Fr1) as [st2 [N2 S2]].
  exists (map Finish (seq 0 nw) ++ st2). split; [apply no_submit_app; [apply no_submit_finish|exact N2]|].
  exists (rounds true (length (queued e1)) e1).
  assert (Hnw1 : (0 < length (eqs e1))%nat) by (destruct Sh1 as [A _]; lia).
  destruct (drains_proof (length (queued e1)) e1 Hnw1 (le_n _)) as [D1 [D2 D3]].
  split; [|split; [|split; [exact D1|split]]].
  - rewrite run_no_submit by (apply no_submit_app; [apply no_submit_finish|exact N2]).
    rewrite fold_left_app. fold e1. rewrite S2. reflexivity.
  - rewrite D2, Do1, Qu1. rewrite <- Hcons.
    rewrite (Permutation_app_comm (edone e) (running e)).
    apply Permutation_app_comm.
  - rewrite D3. exact Ru1.
  - unfold is_idle, total_queued. rewrite D3, Ru1, D1. reflexivity.
Qed.

Example completion_nontrivial :
  exists e acc, run true 1 (init 2) [] [Submit (mkT 0 0 true); Submit (mkT 1 0 true); Submit (mkT 2 1 false); PopLocal 0; StealFrom 1 0] = (e, acc)
    /\ length acc = 3%nat /\ length (running e) = 1%nat /\ length (queued e) = 2%nat.
Proof. eexists. eexists. split; [vm_compute; reflexivity|]. vm_compute. auto. Qed.
