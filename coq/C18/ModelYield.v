(* C18 mechanism model: the cooperative helpers of src/concurrency/fiber_yield.rs and src/concurrency/fiber_aio.rs as
   written.  Definitions only.

   FiberYield: `yield_budget: Cell<u8>`, `total_yields`; yield_now = (budget > 0 ? budget -= 1 : force_yield), both
   paths suspend exactly once (`tokio::task::yield_now().await`); force_yield resets the budget to `initial_budget`.
   YieldPoint::new(interval): `yield_interval = interval.max(1)`, `operation_count = 0`, a FiberYield of its own;
   checkpoint = `count = fetch_add(1); if count % yield_interval == 0 { yield_now }`; yield_now = force_yield.

   The four loops are one loop shape: for every item call the function (`?`: return at the first failure, nothing after
   it is called), push the result, then a "tick" that may suspend:
     run_with_yield / YieldingIterator::for_each   tick = checkpoint           (suspends after items 0, k, 2k, ..)
     process_vec_yielding                          tick = `if i % interval.max(1) == 0 { yield_point.yield_now() }`
     YieldingIterator::collect                     tick = `processed += 1; if processed % k == 0 { yield_now }`
                                                   (suspends after items k-1, 2k-1, ..; the function is the identity)
     FiberIoUtils::batch_process                   the items are `items.chunks(batch_size.max(1))`, the function is the
                                                   batch processor, every chunk is followed by a suspension; the results
                                                   of the chunks are concatenated (whatever their lengths).
   A run yields its result, the final yield state and the trace of events (function calls and suspensions in program
   order) - the harness drives the real future by hand and sees exactly this trace (one Poll::Pending per suspension). *)
From ZV.Common Require Import Base Run.
From ZV.C18 Require Import Model.
Open Scope N_scope.

Record fy := mkFY { fy_budget : N; fy_total : N }.
Definition fy_force (init : N) (y : fy) : fy := mkFY init (fy_total y + 1).
Definition fy_yield (init : N) (y : fy) : fy :=
  if 0 <? fy_budget y then mkFY (fy_budget y - 1) (fy_total y + 1) else fy_force init y.

Record yp := mkYP { yp_count : N; yp_fy : fy }.
Definition yp_new (init : N) : yp := mkYP 0 (mkFY init 0).
Definition ival (interval : N) : N := N.max 1 interval.

(* every tick returns the new state and whether the task was suspended *)
Definition tick_checkpoint (init k : N) (p : yp) : yp * bool :=
  let c := yp_count p in
  if c mod k =? 0 then (mkYP (c + 1) (fy_yield init (yp_fy p)), true) else (mkYP (c + 1) (yp_fy p), false).
(* process_vec_yielding: the state is (i, yield point); the yield point's own counter is never used *)
Definition tick_vec (init k : N) (s : N * yp) : (N * yp) * bool :=
  let '(i, p) := s in
  if i mod k =? 0 then ((i + 1, mkYP (yp_count p) (fy_force init (yp_fy p))), true) else ((i + 1, p), false).
(* collect: the state is (processed, yield point) *)
Definition tick_collect (init k : N) (s : N * yp) : (N * yp) * bool :=
  let '(n, p) := s in
  if (n + 1) mod k =? 0 then ((n + 1, mkYP (yp_count p) (fy_force init (yp_fy p))), true) else ((n + 1, p), false).
Definition tick_always {S : Type} (s : S) : S * bool := (s, true).

Inductive ev (T : Type) : Type := ECall (x : T) | EYield.
Arguments ECall {T} x.
Arguments EYield {T}.

Section Loop.
  Context {T R S : Type} (f : T -> option R) (tick : S -> S * bool).
  Fixpoint yloop (xs : list T) (s : S) (acc : list R) (tr : list (ev T)) : option (list R) * S * list (ev T) :=
    match xs with
    | [] => (Some acc, s, tr)
    | x :: r =>
        match f x with
        | None => (None, s, tr ++ [ECall x])
        | Some y => let '(s', yl) := tick s in
                    yloop r s' (acc ++ [y]) (tr ++ ECall x :: (if yl then [EYield] else []))
        end
    end.
End Loop.

Definition run_with_yield {R} (init : N) (iterations interval : N) (f : N -> option R) :=
  yloop f (tick_checkpoint init (ival interval)) (map N.of_nat (seq 0 (N.to_nat iterations))) (yp_new init) [] [].
Definition yi_for_each {T R} (init interval : N) (f : T -> option R) (xs : list T) :=
  yloop f (tick_checkpoint init (ival interval)) xs (yp_new init) [] [].
Definition process_vec_yielding {T R} (init interval : N) (f : T -> option R) (xs : list T) :=
  yloop f (tick_vec init (ival interval)) xs (0, yp_new init) [] [].
Definition yi_collect {T} (init interval : N) (xs : list T) :=
  yloop (fun x => Some x) (tick_collect init (ival interval)) xs (0, yp_new init) [] [].
Definition bp_chunks {T} (batch_size : N) (xs : list T) : list (list T) := chunks (N.to_nat (ival batch_size)) xs.
Definition batch_process {T R} (batch_size : N) (proc : list T -> option (list R)) (xs : list T)
    : option (list R) * list (ev (list T)) :=
  let '(r, _, tr) := yloop proc (@tick_always unit) (bp_chunks batch_size xs) tt [] [] in
  (match r with Some parts => Some (concat parts) | None => None end, tr).

(* The stages' own process_batch (src/concurrency/pipeline.rs): the trait default (MapStage, FilterStage, BatchMapStage without
   a batch function) is the same loop without any suspension of its own - `for input in inputs { results.push(self.process(input).await?) }`;
   BatchMapStage with a batch function hands it the whole input once.  FilterStage::process never fails and keeps one entry per
   input (`None` for an item the predicate rejects). *)
Definition tick_never {S : Type} (s : S) : S * bool := (s, false).
Definition stage_batch_default {T R} (f : T -> option R) (xs : list T) : option (list R) * list (ev T) :=
  let '(r, _, tr) := yloop f (@tick_never unit) xs tt [] [] in (r, tr).
Definition stage_batch_func {T R} (bf : list T -> option (list R)) (xs : list T) : option (list R) * list (ev (list T)) :=
  (bf xs, [ECall xs]).
Definition filter_process {T} (p : T -> bool) (x : T) : option (option T) := Some (if p x then Some x else None).

(* what the theorems talk about *)
Fixpoint calls {T} (tr : list (ev T)) : list T :=
  match tr with [] => [] | ECall x :: r => x :: calls r | EYield :: r => calls r end.
Fixpoint yields {T} (tr : list (ev T)) : N :=
  match tr with [] => 0 | ECall _ :: r => yields r | EYield :: r => 1 + yields r end.
(* the items up to and including the first one on which the function fails *)
Fixpoint upto_fail {T R} (f : T -> option R) (xs : list T) : list T :=
  match xs with [] => [] | x :: r => match f x with None => [x] | Some _ => x :: upto_fail f r end end.
Fixpoint map_opt {T R} (f : T -> option R) (xs : list T) : option (list R) :=
  match xs with
  | [] => Some []
  | x :: r => match f x with
              | None => None
              | Some y => match map_opt f r with Some l => Some (y :: l) | None => None end
              end
  end.

(* ---------------------------------------------------------------------------------------------------------
   `StreamExt::buffered(n)` as used by CooperativeUtils::concurrent_with_yield and FiberIoUtils::process_files_parallel
   (futures-util: Buffered over FuturesOrdered).  The window `in_progress_queue` holds the operations that have been
   started and whose result has not been handed on yet - a finished operation behind an unfinished one keeps its slot
   (head-of-line blocking).  State: `b_next` operations have been pulled from the input so far, the window is the list of
   (index, finished?) in input order, `b_out` the indices whose results have been pushed to the output vector.
   Steps (a step whose guard is false is a no-op, so every list of steps is a schedule):
     BFill     `while in_progress_queue.len() < max { stream.poll_next() -> push_back }`  (one operation started)
     BDone i   operation i (in the window, not finished) completes
     BEmit     the head of the window is finished: its result is appended to the output, the slot is freed. *)
Record buf := mkB { b_next : nat; b_win : list (nat * bool); b_out : list nat }.
Inductive bstep := BFill | BDone (i : nat) | BEmit.
Definition b_init : buf := mkB 0 [] [].
Fixpoint mark_done (i : nat) (w : list (nat * bool)) : list (nat * bool) :=
  match w with
  | [] => []
  | (j, d) :: r => if Nat.eqb i j then (j, true) :: r else (j, d) :: mark_done i r
  end.
Definition b_step (n maxc : nat) (b : buf) (s : bstep) : buf :=
  match s with
  | BFill => if (length (b_win b) <? maxc)%nat && (b_next b <? n)%nat
             then mkB (S (b_next b)) (b_win b ++ [(b_next b, false)]) (b_out b) else b
  | BDone i => mkB (b_next b) (mark_done i (b_win b)) (b_out b)
  | BEmit => match b_win b with
             | (j, true) :: r => mkB (b_next b) r (b_out b ++ [j])
             | _ => b
             end
  end.
Definition b_run (n maxc : nat) (b : buf) (sch : list bstep) : buf := fold_left (b_step n maxc) sch b.
Definition b_finished (n : nat) (b : buf) : bool := (b_next b =? n)%nat && match b_win b with [] => true | _ => false end.
(* the two functions: `max_concurrent.max(1)`; once the stream has ended the results (in output order) are gone
   through with `?` *)
Definition buffered_result {R} (res : nat -> option R) (n : nat) (b : buf) : option (option (list R)) :=
  if b_finished n b then Some (map_opt res (b_out b)) else None.

(* the settled state after the gates in `open` have been opened and the future has been polled until it is Pending:
   everything that can happen without a further gate has happened *)
Definition done_open (n maxc : nat) (open : nat -> bool) (b : buf) : buf :=
  fold_left (fun b j => if open j then b_step n maxc b (BDone j) else b) (map fst (b_win b)) b.
Fixpoint emit_all (fuel : nat) (n maxc : nat) (b : buf) : buf :=
  match fuel with
  | O => b
  | S fu => match b_win b with
            | (j, true) :: r => emit_all fu n maxc (b_step n maxc b BEmit)
            | _ => b
            end
  end.
Fixpoint fill_all (fuel : nat) (n maxc : nat) (open : nat -> bool) (b : buf) : buf :=
  match fuel with
  | O => b
  | S fu => if (length (b_win b) <? maxc)%nat && (b_next b <? n)%nat
            then let b1 := b_step n maxc b BFill in
                 let i := b_next b in
                 fill_all fu n maxc open (if open i then b_step n maxc b1 (BDone i) else b1)
            else b
  end.
Fixpoint b_settle (fuel : nat) (n maxc : nat) (open : nat -> bool) (b : buf) : buf :=
  match fuel with
  | O => b
  | S fu =>
      let b1 := done_open n maxc open b in
      let b2 := emit_all (S n) n maxc b1 in
      let b3 := fill_all (S n) n maxc open b2 in
      b_settle fu n maxc open b3
  end.

(* ---------------------------------------------------------------------------------------------------------
   harness cases *)
Definition YIELD : Z := 100000%Z.
Definition CHUNK : Z := 100001%Z.
Definition obs_tr (tr : list (ev Z)) : list Z := map (fun e => match e with ECall x => x | EYield => YIELD end) tr.
Definition obs_trn (tr : list (ev N)) : list Z := map (fun e => match e with ECall x => Z.of_N x | EYield => YIELD end) tr.
Definition obs_trc (tr : list (ev (list Z))) : list Z :=
  flat_map (fun e => match e with ECall c => CHUNK :: c | EYield => [YIELD] end) tr.
Definition INIT_BUDGET : N := 16.
Definition FILTERED : Z := 100002%Z.

(* kind 19: a = which (1 process_vec_yielding, 2 run_with_yield, 3 for_each, 4 batch_process, 7 collect; the stages' own
   process_batch: 8 MapStage, 9 BatchMapStage without batch function, 10 BatchMapStage with one, 11 FilterStage with the
   predicate x mod 3 <> 0), b = interval resp. batch size: result, -7, trace *)
Definition case_yield (which interval : N) (xs : list Z) : list Z :=
  match which with
  | 1 => let '(r, _, tr) := process_vec_yielding INIT_BUDGET interval stage xs in obs_optl r ++ [(-7)%Z] ++ obs_tr tr
  | 2 => let '(r, _, tr) := run_with_yield INIT_BUDGET (nlen xs) interval (fun i => stage (nth (N.to_nat i) xs 0%Z)) in
         obs_optl r ++ [(-7)%Z] ++ obs_trn tr
  | 3 => let '(r, _, tr) := yi_for_each INIT_BUDGET interval stage xs in obs_optl r ++ [(-7)%Z] ++ obs_tr tr
  | 4 => let '(r, tr) := batch_process interval (map_opt stage) xs in obs_optl r ++ [(-7)%Z] ++ obs_trc tr
  | 8 | 9 => let '(r, tr) := stage_batch_default stage xs in obs_optl r ++ [(-7)%Z] ++ obs_tr tr
  | 10 => let '(r, tr) := stage_batch_func (map_opt stage) xs in obs_optl r ++ [(-7)%Z] ++ obs_trc tr
  | 11 => let '(r, tr) := stage_batch_default (filter_process (fun x => negb (x mod 3 =? 0)%Z)) xs in
          obs_optl (option_map (map (fun o => match o with Some x => x | None => FILTERED end)) r) ++ [(-7)%Z] ++ obs_tr tr
  | _ => let '(r, _, tr) := yi_collect INIT_BUDGET interval xs in obs_optl r ++ [(-7)%Z] ++ obs_tr tr
  end.

(* kind 23: histories on one FiberYield (a = 0, b = initial_budget: 1 yield_now, 2 force_yield, 3 reset; after every operation
   the number of suspensions it took, budget(), total_yields()) or one YieldPoint (a = 1, b = yield_interval: 1 checkpoint,
   2 yield_now, 3 reset; after every operation its suspensions and operation_count()) *)
Definition fy_reset (init : N) (y : fy) : fy := mkFY init 0.
Definition fy_apply (init : N) (y : fy) (o : Z) : fy :=
  if (o =? 1)%Z then fy_yield init y else if (o =? 2)%Z then fy_force init y else fy_reset init y.
Definition is_yield_op (o : Z) : bool := (o =? 1)%Z || (o =? 2)%Z.
Fixpoint fy_hist (init : N) (y : fy) (ops : list Z) : list Z :=
  match ops with
  | [] => []
  | o :: r =>
      let y' := fy_apply init y o in
      (if is_yield_op o then 1%Z else 0%Z) :: Z.of_N (fy_budget y') :: Z.of_N (fy_total y') :: fy_hist init y' r
  end.
(* the yield operations since the last reset *)
Fixpoint yields_since (n : N) (ops : list Z) : N :=
  match ops with [] => n | o :: r => if is_yield_op o then yields_since (n + 1) r else yields_since 0 r end.
Fixpoint yp_hist (k : N) (p : yp) (ops : list Z) : list Z :=
  match ops with
  | [] => []
  | o :: r =>
      let '(p', susp) := if (o =? 1)%Z then (let '(q, yl) := tick_checkpoint INIT_BUDGET k p in (q, if yl then 1%Z else 0%Z))
                         else if (o =? 2)%Z then (mkYP (yp_count p) (fy_force INIT_BUDGET (yp_fy p)), 1%Z)
                         else (mkYP 0 (fy_reset INIT_BUDGET (yp_fy p)), 0%Z) in
      susp :: Z.of_N (yp_count p') :: yp_hist k p' r
  end.
Definition case_fy (obj b : N) (ops : list Z) : list Z :=
  if obj =? 0 then fy_hist b (mkFY b 0) ops else yp_hist (ival b) (yp_new INIT_BUDGET) ops.

(* kind 20: buffered(max(1, a)) over b gated operations; ops = the item of every operation, then the gates in the order
   in which the harness opens them.  Observed: the number of operations started after the first poll and after every
   gate, -7, the result. *)
Fixpoint buf_hist (n maxc : nat) (opened : list nat) (b : buf) (gates : list nat) : list Z * buf :=
  match gates with
  | [] => ([], b)
  | g :: r =>
      let opened' := g :: opened in
      let b' := b_settle (S n) n maxc (fun i => existsb (Nat.eqb i) opened') b in
      let '(o, bf) := buf_hist n maxc opened' b' r in
      (Z.of_nat (b_next b') :: o, bf)
  end.
Definition case_buffered (maxc n : N) (ops : list Z) : list Z :=
  let nn := N.to_nat n in
  let xs := firstn nn ops in
  let gates := map Z.to_nat (skipn nn ops) in
  let mc := N.to_nat (ival maxc) in
  let b0 := b_settle (S nn) nn mc (fun _ => false) b_init in
  let '(o, bf) := buf_hist nn mc [] b0 gates in
  (Z.of_nat (b_next b0) :: o) ++ [(-7)%Z] ++
  match buffered_result (fun i => stage (nth i xs 0%Z)) nn bf with
  | Some r => obs_optl r
  | None => [(-9)%Z]
  end.
