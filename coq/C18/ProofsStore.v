(* C18: proofs about the blob-store batch operations (ModelStore.v). *)
From ZV.Common Require Import Base Run.
From ZV.C18 Require Import Model ModelYield ProofsYield ModelStore.
Open Scope N_scope.

Lemma al_get_remove_same id l : al_get id (al_remove id l) = None.
Proof.
  induction l as [|[k v] r IH]; cbn [al_remove al_get]; [reflexivity|].
  destruct (N.eqb_spec k id) as [E|E]; [exact IH|]. cbn [al_get].
  destruct (N.eqb_spec k id); [contradiction|exact IH].
Qed.
Lemma al_get_remove_other id id' l : id' <> id -> al_get id' (al_remove id l) = al_get id' l.
Proof.
  intros Hne. induction l as [|[k v] r IH]; cbn [al_remove al_get]; [reflexivity|].
  destruct (N.eqb_spec k id) as [E|E].
  - destruct (N.eqb_spec k id') as [E'|E']; [subst; contradiction|exact IH].
  - cbn [al_get]. destruct (N.eqb_spec k id'); [reflexivity|exact IH].
Qed.
Lemma al_get_insert_same id v l : al_get id (al_insert id v l) = Some v.
Proof. unfold al_insert. cbn [al_get]. rewrite N.eqb_refl. reflexivity. Qed.
Lemma al_get_insert_other id id' v l : id' <> id -> al_get id' (al_insert id v l) = al_get id' l.
Proof.
  intros Hne. unfold al_insert. cbn [al_get].
  destruct (N.eqb_spec id id'); [subst; contradiction|]. apply al_get_remove_other. exact Hne.
Qed.

(* no id at or beyond next_id is in the map *)
Definition bounded (s : mstore) : Prop := forall id, ms_next s <= id -> ms_get s id = None.

Lemma ms_put_id s d : ms_next s < U32 -> snd (ms_put s d) = ms_next s.
Proof. intros H. unfold ms_put. cbn [snd]. apply N.mod_small. exact H. Qed.
Lemma ms_put_next s d : ms_next (fst (ms_put s d)) = ms_next s + 1.
Proof. reflexivity. Qed.
Lemma ms_put_get_new s d : ms_get (fst (ms_put s d)) (snd (ms_put s d)) = Some d.
Proof. unfold ms_put, ms_get. cbn [fst snd ms_data]. apply al_get_insert_same. Qed.
Lemma ms_put_get_old s d id : id <> snd (ms_put s d) -> ms_get (fst (ms_put s d)) id = ms_get s id.
Proof. intros H. unfold ms_put, ms_get in *. cbn [fst snd ms_data] in *. apply al_get_insert_other. exact H. Qed.
Lemma ms_put_bounded s d : bounded s -> ms_next s < U32 -> bounded (fst (ms_put s d)).
Proof.
  intros B H id Hid. rewrite ms_put_next in Hid. rewrite ms_put_get_old.
  - apply B. lia.
  - rewrite ms_put_id by exact H. lia.
Qed.
Lemma ms_remove_spec s id :
  ms_get (fst (ms_remove s id)) id = None /\
  (forall id', id' <> id -> ms_get (fst (ms_remove s id)) id' = ms_get s id') /\
  (snd (ms_remove s id) = true <-> ms_get s id <> None) /\
  ms_next (fst (ms_remove s id)) = ms_next s.
Proof.
  unfold ms_remove, ms_get. destruct (al_get id (ms_data s)) eqn:E; cbn [fst snd ms_data ms_next].
  - split; [apply al_get_remove_same|]. split; [intros; apply al_get_remove_other; assumption|].
    split; [|reflexivity]. split; [intros _; discriminate|reflexivity].
  - split; [exact E|]. split; [reflexivity|]. split; [|reflexivity]. split; [discriminate|intros H; contradiction].
Qed.
Lemma ms_remove_bounded s id : bounded s -> bounded (fst (ms_remove s id)).
Proof.
  intros B id' Hid. destruct (ms_remove_spec s id) as (R1 & R2 & _ & R4). rewrite R4 in Hid.
  destruct (N.eq_dec id' id) as [->|Hne]; [exact R1|]. rewrite R2 by exact Hne. apply B. exact Hid.
Qed.

Fixpoint iota (a : N) (n : nat) : list N := match n with O => [] | S m => a :: iota (a + 1) m end.
Lemma iota_lower a n x : In x (iota a n) -> a <= x < a + N.of_nat n.
Proof.
  revert a. induction n as [|n IH]; intros a; cbn [iota In]; [tauto|].
  intros [<-|H]; [lia|]. apply IH in H. lia.
Qed.
Lemma iota_nodup a n : NoDup (iota a n).
Proof.
  revert a. induction n as [|n IH]; intros a; cbn [iota]; constructor; [|apply IH].
  intros H. apply iota_lower in H. lia.
Qed.
Lemma iota_length a n : length (iota a n) = n.
Proof. revert a. induction n as [|n IH]; intros a; cbn [iota length]; [reflexivity|]. rewrite IH. reflexivity. Qed.

Lemma ms_put_batch_cons s d r :
  ms_put_batch s (d :: r) =
  (fst (ms_put_batch (fst (ms_put s d)) r), snd (ms_put s d) :: snd (ms_put_batch (fst (ms_put s d)) r)).
Proof. cbn [ms_put_batch]. destruct (ms_put s d) as [s1 id]. cbn [fst snd]. destruct (ms_put_batch s1 r); reflexivity. Qed.

Lemma put_batch_spec : forall ds s, bounded s -> ms_next s + nlen ds <= U32 ->
  snd (ms_put_batch s ds) = iota (ms_next s) (length ds) /\
  ms_next (fst (ms_put_batch s ds)) = ms_next s + nlen ds /\
  bounded (fst (ms_put_batch s ds)) /\
  (forall id, id < ms_next s -> ms_get (fst (ms_put_batch s ds)) id = ms_get s id) /\
  ms_get_batch (fst (ms_put_batch s ds)) (snd (ms_put_batch s ds)) = Some ds.
Proof.
  induction ds as [|d r IH]; intros s B H.
  - cbn [ms_put_batch fst snd length iota nlen ms_get_batch map_opt]. repeat split; try assumption; lia.
  - rewrite ms_put_batch_cons. cbn [fst snd length iota nlen] in *.
    assert (Hn : ms_next s < U32) by lia.
    pose proof (ms_put_id s d Hn) as Eid.
    destruct (IH (fst (ms_put s d)) (ms_put_bounded s d B Hn)) as (I1 & I2 & I3 & I4 & I5).
    { rewrite ms_put_next. lia. }
    rewrite ms_put_next in I1, I2, I4.
    split; [rewrite Eid, I1; reflexivity|]. split; [rewrite I2; lia|]. split; [exact I3|]. split.
    + intros id Hid. rewrite I4 by lia. apply ms_put_get_old. rewrite Eid. lia.
    + unfold ms_get_batch in *. cbn [map_opt]. rewrite I4 by (rewrite Eid; lia).
      rewrite ms_put_get_new. rewrite I5. reflexivity.
Qed.

Theorem blob_batch_roundtrip_proof :
  forall (s : mstore) (ds : list blob), bounded s -> ms_next s + nlen ds <= U32 ->
    let '(s', ids) := ms_put_batch s ds in
    ms_get_batch s' ids = Some ds /\ length ids = length ds /\ NoDup ids /\
    (forall id, In id ids -> ms_get s id = None /\ id < U32) /\
    (forall id, id < ms_next s -> ms_get s' id = ms_get s id) /\
    bounded s' /\ ms_next s' = ms_next s + nlen ds.
Proof.
  intros s ds B H. destruct (put_batch_spec ds s B H) as (I1 & I2 & I3 & I4 & I5).
  destruct (ms_put_batch s ds) as [s' ids]. cbn [fst snd] in *. subst ids.
  split; [exact I5|]. split; [apply iota_length|]. split; [apply iota_nodup|]. split.
  { intros id Hin. apply iota_lower in Hin. split; [apply B; lia|]. rewrite nlen_length in H. lia. }
  split; [exact I4|]. split; [exact I3|exact I2].
Qed.

Theorem store_ops_proof :
  bounded ms_new /\
  (forall s d, bounded s -> ms_next s < U32 ->
     bounded (fst (ms_put s d)) /\ ms_get (fst (ms_put s d)) (snd (ms_put s d)) = Some d /\ ms_get s (snd (ms_put s d)) = None /\
     (forall id, id <> snd (ms_put s d) -> ms_get (fst (ms_put s d)) id = ms_get s id)) /\
  (forall s id, bounded s ->
     bounded (fst (ms_remove s id)) /\ ms_get (fst (ms_remove s id)) id = None /\
     (forall id', id' <> id -> ms_get (fst (ms_remove s id)) id' = ms_get s id') /\
     (snd (ms_remove s id) = true <-> ms_get s id <> None)) /\
  (forall s ids (g : N -> blob), (forall id, In id ids -> ms_get s id = Some (g id)) -> ms_get_batch s ids = Some (map g ids)) /\
  (forall s ids id, In id ids -> ms_get s id = None -> ms_get_batch s ids = None).
Proof.
  split; [intros id _; reflexivity|]. split.
  { intros s d B H. split; [apply ms_put_bounded; assumption|]. split; [apply ms_put_get_new|]. split.
    - rewrite ms_put_id by exact H. apply B. lia.
    - intros id Hne. apply ms_put_get_old. exact Hne. }
  split.
  { intros s id B. destruct (ms_remove_spec s id) as (R1 & R2 & R3 & _).
    split; [apply ms_remove_bounded; exact B|]. split; [exact R1|]. split; [exact R2|exact R3]. }
  split.
  { intros s ids g H. unfold ms_get_batch. apply map_opt_all. exact H. }
  intros s ids id Hin Hn. unfold ms_get_batch. apply (map_opt_fail _ _ id Hin Hn).
Qed.

Example blob_batch_nontrivial :
  let '(s1, ids1) := ms_put_batch ms_new [[1; 2]; []; [3]] in
  let '(s2, _) := ms_remove s1 2 in
  let '(s3, ids3) := ms_put_batch s2 [[9]; [8; 8]] in
  ids1 = [1; 2; 3] /\ ids3 = [4; 5] /\
  ms_get_batch s3 [5; 1; 4; 3] = Some [[8; 8]; [1; 2]; [9]; [3]] /\ ms_get_batch s3 [1; 2] = None /\ ms_len s3 = 4.
Proof. vm_compute. repeat split; reflexivity. Qed.
