(* C18: FiberPool::parallel_reduce - chunking as written, one fiber per chunk through the semaphore,
   try_join_all, final fold. *)
From ZV.Common Require Import Base.
From ZV.C18 Require Import Model ModelFiber ProofsPar ProofsFiber.
From Coq Require Import Permutation.
Open Scope nat_scope.

Lemma chunk_size_pos len mw : 0 < N.to_nat (chunk_size len mw).
Proof. unfold chunk_size. lia. Qed.

Lemma chunks_shape {T : Type} (k : nat) : 0 < k -> forall fuel (xs : list T),
  length xs <= fuel ->
  Forall (fun c => c <> [] /\ length c <= k) (chunks_fuel fuel k xs) /\
  (xs <> [] -> length (chunks_fuel fuel k xs) * k < length xs + k).
Proof.
  intros Hk. induction fuel as [|fu IH]; intros xs Hl; cbn [chunks_fuel].
  - split; [constructor|]. intros H. destruct xs; [congruence|cbn [length] in Hl; lia].
  - destruct xs as [|x r]; [split; [constructor|congruence]|].
    assert (Hsk : length (skipn k (x :: r)) <= fu) by (rewrite skipn_length; cbn [length] in *; lia).
    destruct (IH (skipn k (x :: r)) Hsk) as [I1 I2]. split.
    + constructor; [|exact I1]. split.
      * destruct k; [lia|]. cbn [firstn]. discriminate.
      * rewrite firstn_length. lia.
    + intros _. cbn [length]. destruct (skipn k (x :: r)) as [|y s] eqn:E.
      * destruct fu; cbn [chunks_fuel length]; lia.
      * assert (Hne : y :: s <> []) by discriminate. specialize (I2 Hne).
        assert (Hlen : length (y :: s) = length (x :: r) - k) by (rewrite <- E; apply skipn_length).
        assert (k < length (x :: r)) by (cbn [length] in *; lia).
        cbn [length] in *. nia.
Qed.

Lemma fp_chunks_concat {T} (mw : N) (xs : list T) : concat (fp_chunks mw xs) = xs.
Proof. unfold fp_chunks, chunks. apply chunks_concat; [apply chunk_size_pos|lia]. Qed.

(* every item is in exactly one chunk, no chunk is empty or longer than chunk_size, and at most
   2 * max(1, max_workers) fibers are spawned *)
Lemma fp_chunks_shape {T} (mw : N) (xs : list T) :
  concat (fp_chunks mw xs) = xs /\
  Forall (fun c => c <> [] /\ (nlen c <= chunk_size (nlen xs) mw)%N) (fp_chunks mw xs) /\
  (nlen (fp_chunks mw xs) <= 2 * N.max 1 mw)%N.
Proof.
  split; [apply fp_chunks_concat|].
  pose proof (chunk_size_pos (nlen xs) mw) as Hk.
  destruct (chunks_shape (N.to_nat (chunk_size (nlen xs) mw)) Hk (length xs) xs (le_n _)) as [S1 S2].
  split.
  - unfold fp_chunks, chunks. eapply Forall_impl; [|exact S1].
    intros c [Hc Hl]. split; [exact Hc|]. rewrite nlen_length. lia.
  - unfold fp_chunks, chunks. rewrite nlen_length.
    destruct xs as [|x r]; [cbn [length chunks_fuel]; lia|].
    specialize (S2 ltac:(discriminate)).
    set (n := length (chunks_fuel (length (x :: r)) (N.to_nat (chunk_size (nlen (x :: r)) mw)) (x :: r))) in *.
    rewrite nlen_length in *. set (len := length (x :: r)) in *.
    unfold chunk_size in *.
    assert (Hcs : N.to_nat (N.max 1 (N.of_nat len / N.max 1 mw)) = Nat.max 1 (len / N.to_nat (N.max 1 mw))).
    { rewrite N2Nat.inj_max, N2Nat.inj_div, Nat2N.id. reflexivity. }
    rewrite Hcs in S2. clear Hcs Hk S1.
    set (M := N.to_nat (N.max 1 mw)) in *.
    assert (HM : 1 <= M) by (unfold M; lia).
    assert (Hgoal : n <= 2 * M).
    { destruct (Nat.lt_ge_cases len M) as [Hlt|Hge].
      - rewrite (Nat.div_small len M Hlt) in S2. cbn [Nat.max] in S2. lia.
      - pose proof (Nat.div_mod len M ltac:(lia)) as Hdm.
        pose proof (Nat.mod_upper_bound len M ltac:(lia)) as Hmod.
        set (q := len / M) in *. assert (1 <= q) by (unfold q; apply Nat.div_le_lower_bound; lia).
        replace (Nat.max 1 q) with q in S2 by lia. nia. }
    unfold M in Hgoal. lia.
Qed.

Section ReduceOk.
  Context {T : Type}.
  Variable g : T -> T -> T.
  Variable ident : T.
  Hypothesis g_assoc : forall a b c, g (g a b) c = g a (g b c).
  Hypothesis g_left : forall a, g ident a = a.
  Hypothesis g_right : forall a, g a ident = a.
  Let op (a b : T) : option T := Some (g a b).

  Lemma chunk_jobs_ok (cs : list (list T)) :
    seq_outcomes (map (chunk_job op ident) cs) = ROk (map (fun c => fold_left g c ident) cs).
  Proof.
    induction cs as [|c cs IH]; cbn [map seq_outcomes]; [reflexivity|].
    unfold chunk_job at 1. unfold op at 1. rewrite (fold_opt_total g c ident). rewrite IH. reflexivity.
  Qed.

  Lemma reduce_ok mw maxf xs steps r :
    reduce_result op ident mw xs (pool_run (reduce_jobs op ident mw xs) maxf steps) = Some r ->
    r = Some (fold_left g xs ident).
  Proof.
    unfold reduce_result. destruct xs as [|x0 xr] eqn:Exs; [intros H; inversion H; reflexivity|]. rewrite <- Exs.
    set (jobs := reduce_jobs op ident mw xs). pose proof (pinv_run jobs maxf steps) as I.
    set (p := pool_run jobs maxf steps) in *.
    destruct (all_spawned jobs p) eqn:Ea; [|discriminate].
    destruct (tj_result (p_fibers p)) as [t|] eqn:Et; [|discriminate].
    pose proof (tj_spec (p_fibers p) jobs (all_spawned_len jobs p Ea) (done_out jobs maxf p I) t Et) as Ht.
    unfold jobs, reduce_jobs in Ht. rewrite chunk_jobs_ok in Ht. subst t.
    intros H. inversion H; subst r. unfold op. rewrite (fold_opt_total g).
    rewrite (fold_left_concat g ident g_assoc g_left g_right). rewrite fp_chunks_concat. reflexivity.
  Qed.
End ReduceOk.

Lemma reduce_returns {T} (op : T -> T -> option T) ident mw maxf xs steps :
  (1 <= maxf)%N ->
  exists more, reduce_result op ident mw xs (pool_run (reduce_jobs op ident mw xs) maxf (steps ++ more)) <> None.
Proof.
  intros Hm. set (jobs := reduce_jobs op ident mw xs).
  destruct (completes_from jobs maxf _ _ (pinv_run jobs maxf steps) Hm (le_n _)) as [more Hmore].
  exists more. unfold pool_run. rewrite fold_left_app. fold (pool_run jobs maxf steps).
  unfold pool_done in Hmore. apply andb_prop in Hmore. destruct Hmore as [H1 H2].
  unfold reduce_result. destruct xs; [discriminate|]. fold jobs. rewrite H1.
  pose proof (tj_done _ H2) as Htj. destruct (tj_result _) as [[l| |]|]; try discriminate. congruence.
Qed.

Lemma parallel_reduce_is_fold_proof : forall (T : Type) (g : T -> T -> T) (ident : T),
  (forall a b c, g (g a b) c = g a (g b c)) -> (forall a, g ident a = a) -> (forall a, g a ident = a) ->
  forall (mw maxf : N) (xs : list T) (steps : list pstep),
    let op := fun a b => Some (g a b) in
    (forall r, reduce_result op ident mw xs (pool_run (reduce_jobs op ident mw xs) maxf steps) = Some r ->
               r = Some (fold_left g xs ident)) /\
    ((1 <= maxf)%N -> exists more,
       reduce_result op ident mw xs (pool_run (reduce_jobs op ident mw xs) maxf (steps ++ more)) <> None).
Proof.
  intros T g ident Ha Hl Hr mw maxf xs steps. cbv zeta. split.
  - intros r. apply (reduce_ok g ident Ha Hl Hr).
  - apply reduce_returns.
Qed.

(* a failing item: whatever the schedule, when parallel_reduce returns it returns Err *)
Lemma parallel_reduce_error_proof : forall (T : Type) (op : T -> T -> option T) (ident : T) (mw maxf : N)
    (xs : list T) (steps : list pstep) (x : T),
  In x xs -> (forall a, op a x = None) ->
  forall r, reduce_result op ident mw xs (pool_run (reduce_jobs op ident mw xs) maxf steps) = Some r -> r = None.
Proof.
  intros T op ident mw maxf xs steps x Hin Hf r. unfold reduce_result.
  destruct xs as [|x0 xr] eqn:Exs; [destruct Hin|]. rewrite <- Exs in *.
  set (jobs := reduce_jobs op ident mw xs). pose proof (pinv_run jobs maxf steps) as I.
  set (p := pool_run jobs maxf steps) in *.
  destruct (all_spawned jobs p) eqn:Ea; [|discriminate].
  destruct (tj_result (p_fibers p)) as [t|] eqn:Et; [|discriminate].
  pose proof (tj_spec (p_fibers p) jobs (all_spawned_len jobs p Ea) (done_out jobs maxf p I) t Et) as Ht.
  assert (Hbad : seq_outcomes jobs = RErr).
  { apply seq_outcomes_bad. rewrite <- (fp_chunks_concat mw xs) in Hin. apply in_concat in Hin.
    destruct Hin as [c [Hc Hx]]. apply In_nth_error in Hc. destruct Hc as [i Hi].
    exists i, OFail. split; [|discriminate]. unfold jobs, reduce_jobs. rewrite (map_nth_error _ _ _ Hi).
    unfold chunk_job. rewrite (fold_opt_fail op x c Hx Hf). reflexivity. }
  rewrite Hbad in Ht. subst t. intros H. inversion H. reflexivity.
Qed.

Example parallel_reduce_nontrivial :
  let op := fun a b : list Z => Some (a ++ b) in
  let xs := [[1]; [2]; [3]; [4]; [5]]%Z in
  fp_chunks 2 xs = [[[1]; [2]]; [[3]; [4]]; [[5]]]%Z /\
  reduce_result op [] 2 xs (pool_run (reduce_jobs op [] 2 xs) 1 (sched_seq 3)) = Some (Some [1; 2; 3; 4; 5]%Z).
Proof. vm_compute. auto. Qed.
