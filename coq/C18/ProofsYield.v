(* C18: proofs about the yielding loops and FiberIoUtils::batch_process (ModelYield.v). *)
From ZV.Common Require Import Base Run.
From ZV.C18 Require Import Model ProofsPar ProofsFiberReduce ModelYield.
Open Scope N_scope.

Lemma calls_app {T} (a b : list (ev T)) : calls (a ++ b) = calls a ++ calls b.
Proof. induction a as [|[x|] a IH]; cbn [app calls]; [reflexivity| |]; rewrite IH; reflexivity. Qed.
Lemma yields_app {T} (a b : list (ev T)) : yields (a ++ b) = yields a + yields b.
Proof. induction a as [|[x|] a IH]; cbn [app yields]; [reflexivity| |]; rewrite IH; lia. Qed.

Lemma map_opt_all {T R} (f : T -> option R) (g : T -> R) (xs : list T) :
  (forall x, In x xs -> f x = Some (g x)) -> map_opt f xs = Some (map g xs).
Proof.
  induction xs as [|x r IH]; intros H; cbn [map_opt map]; [reflexivity|].
  rewrite (H x (or_introl eq_refl)). rewrite IH; [reflexivity|]. intros y Hy. apply H. right. exact Hy.
Qed.
Lemma map_opt_fail {T R} (f : T -> option R) (xs : list T) (x : T) :
  In x xs -> f x = None -> map_opt f xs = None.
Proof.
  induction xs as [|y r IH]; intros Hin Hf; [destruct Hin|]. cbn [map_opt].
  destruct Hin as [->|Hin]; [rewrite Hf; reflexivity|].
  destruct (f y); [|reflexivity]. rewrite (IH Hin Hf). reflexivity.
Qed.
Lemma map_opt_length {T R} (f : T -> option R) (xs : list T) l : map_opt f xs = Some l -> length l = length xs.
Proof.
  revert l. induction xs as [|x r IH]; intros l; cbn [map_opt].
  - intros E. injection E as <-. reflexivity.
  - destruct (f x); [|discriminate]. destruct (map_opt f r) eqn:E; [|discriminate].
    intros E2. injection E2 as <-. cbn [length]. rewrite (IH l0 eq_refl). reflexivity.
Qed.
Lemma map_opt_app {T R} (f : T -> option R) (a b : list T) :
  map_opt f (a ++ b) = match map_opt f a, map_opt f b with Some x, Some y => Some (x ++ y) | _, _ => None end.
Proof.
  induction a as [|x a IH]; cbn [app map_opt].
  - destruct (map_opt f b); reflexivity.
  - destruct (f x); [|reflexivity]. rewrite IH. destruct (map_opt f a), (map_opt f b); reflexivity.
Qed.
Lemma map_opt_concat {T R} (g : T -> option R) (cs : list (list T)) :
  match map_opt (map_opt g) cs with Some parts => Some (concat parts) | None => None end = map_opt g (concat cs).
Proof.
  induction cs as [|c cs IH]; cbn [map_opt concat]; [reflexivity|].
  rewrite map_opt_app. destruct (map_opt g c); [|reflexivity].
  rewrite <- IH. destruct (map_opt (map_opt g) cs); reflexivity.
Qed.
Lemma upto_fail_id {T} (xs : list T) : upto_fail (fun x => Some x) xs = xs.
Proof. induction xs as [|x r IH]; cbn [upto_fail]; [reflexivity|]. rewrite IH. reflexivity. Qed.
Lemma map_opt_id {T} (xs : list T) : map_opt (fun x => Some x) xs = Some xs.
Proof. induction xs as [|x r IH]; cbn [map_opt]; [reflexivity|]. rewrite IH. reflexivity. Qed.

Section LoopProofs.
  Context {T R S : Type} (f : T -> option R) (tick : S -> S * bool).

  Lemma yloop_spec : forall xs s acc tr,
    fst (fst (yloop f tick xs s acc tr)) = match map_opt f xs with Some l => Some (acc ++ l) | None => None end /\
    calls (snd (yloop f tick xs s acc tr)) = calls tr ++ upto_fail f xs.
  Proof.
    induction xs as [|x r IH]; intros s acc tr; cbn [yloop map_opt upto_fail].
    - cbn [fst snd]. rewrite !app_nil_r. split; reflexivity.
    - destruct (f x) as [y|] eqn:Ef.
      + destruct (tick s) as [s' yl]. destruct (IH s' (acc ++ [y]) (tr ++ ECall x :: (if yl then [EYield] else []))) as [I1 I2].
        split.
        * rewrite I1. destruct (map_opt f r); [|reflexivity]. rewrite <- app_assoc. reflexivity.
        * rewrite I2. rewrite calls_app. cbn [calls]. destruct yl; cbn [calls]; rewrite <- app_assoc; reflexivity.
      + cbn [fst snd]. split; [reflexivity|]. rewrite calls_app. reflexivity.
  Qed.

  (* a quantity that every suspending tick increments counts the suspensions of the trace *)
  Lemma yloop_measure (m : S -> N) :
    (forall s, m (fst (tick s)) = m s + (if snd (tick s) then 1 else 0)) ->
    forall xs s acc tr,
      m (snd (fst (yloop f tick xs s acc tr))) + yields tr = m s + yields (snd (yloop f tick xs s acc tr)).
  Proof.
    intros Hm. induction xs as [|x r IH]; intros s acc tr; cbn [yloop].
    - cbn [fst snd]. reflexivity.
    - destruct (f x) as [y|].
      + specialize (Hm s). destruct (tick s) as [s' yl]. cbn [fst snd] in Hm.
        specialize (IH s' (acc ++ [y]) (tr ++ ECall x :: (if yl then [EYield] else []))).
        rewrite yields_app in IH. cbn [yields] in IH. destruct yl; cbn [yields] in IH; lia.
      + cbn [fst snd]. rewrite yields_app. cbn [yields]. lia.
  Qed.

  Lemma yloop_inv (P : S -> Prop) :
    (forall s, P s -> P (fst (tick s))) ->
    forall xs s acc tr, P s -> P (snd (fst (yloop f tick xs s acc tr))).
  Proof.
    intros Hp. induction xs as [|x r IH]; intros s acc tr Hs; cbn [yloop].
    - exact Hs.
    - destruct (f x) as [y|]; [|exact Hs].
      specialize (Hp s Hs). destruct (tick s) as [s' yl]. apply IH. exact Hp.
  Qed.
End LoopProofs.

(* the yield controller: both paths of yield_now count one suspension; the budget never leaves [0, initial_budget]
   (the `current_budget - 1` of the u8 budget is guarded by `> 0`) *)
Lemma fy_yield_total init y : fy_total (fy_yield init y) = fy_total y + 1.
Proof. unfold fy_yield, fy_force. destruct (0 <? fy_budget y); reflexivity. Qed.
Lemma fy_yield_budget init y : fy_budget y <= init -> fy_budget (fy_yield init y) <= init.
Proof.
  unfold fy_yield, fy_force. destruct (N.ltb_spec 0 (fy_budget y)); cbn [fy_budget]; lia.
Qed.

Definition yp_ok (init : N) (p : yp) : Prop := fy_budget (yp_fy p) <= init.

Lemma tick_checkpoint_m init k p :
  fy_total (yp_fy (fst (tick_checkpoint init k p))) = fy_total (yp_fy p) + (if snd (tick_checkpoint init k p) then 1 else 0).
Proof.
  unfold tick_checkpoint. destruct (yp_count p mod k =? 0); cbn [fst snd yp_fy]; [apply fy_yield_total|lia].
Qed.
Lemma tick_checkpoint_ok init k p : yp_ok init p -> yp_ok init (fst (tick_checkpoint init k p)).
Proof.
  unfold tick_checkpoint, yp_ok. destruct (yp_count p mod k =? 0); cbn [fst yp_fy]; [apply fy_yield_budget|auto].
Qed.
Lemma tick_vec_m init k s :
  fy_total (yp_fy (snd (fst (tick_vec init k s)))) = fy_total (yp_fy (snd s)) + (if snd (tick_vec init k s) then 1 else 0).
Proof.
  unfold tick_vec. destruct s as [i p]. destruct (i mod k =? 0); cbn [fst snd yp_fy fy_force fy_total]; lia.
Qed.
Lemma tick_vec_ok init k s : yp_ok init (snd s) -> yp_ok init (snd (fst (tick_vec init k s))).
Proof.
  unfold tick_vec, yp_ok. destruct s as [i p]. destruct (i mod k =? 0); cbn [fst snd yp_fy fy_force fy_budget]; [lia|auto].
Qed.
Lemma tick_collect_m init k s :
  fy_total (yp_fy (snd (fst (tick_collect init k s)))) = fy_total (yp_fy (snd s)) + (if snd (tick_collect init k s) then 1 else 0).
Proof.
  unfold tick_collect. destruct s as [i p]. destruct ((i + 1) mod k =? 0); cbn [fst snd yp_fy fy_force fy_total]; lia.
Qed.
Lemma tick_collect_ok init k s : yp_ok init (snd s) -> yp_ok init (snd (fst (tick_collect init k s))).
Proof.
  unfold tick_collect, yp_ok. destruct s as [i p]. destruct ((i + 1) mod k =? 0); cbn [fst snd yp_fy fy_force fy_budget]; [lia|auto].
Qed.

Lemma yp_new_ok init : yp_ok init (yp_new init).
Proof. unfold yp_ok, yp_new. cbn [yp_fy fy_budget]. lia. Qed.

(* ---- the theorems ---- *)
Theorem yield_loops_are_map_proof :
  forall (T R : Type) (f : T -> option R) (init interval : N) (xs : list T),
    (fst (fst (yi_for_each init interval f xs)) = map_opt f xs /\
     calls (snd (yi_for_each init interval f xs)) = upto_fail f xs) /\
    (fst (fst (process_vec_yielding init interval f xs)) = map_opt f xs /\
     calls (snd (process_vec_yielding init interval f xs)) = upto_fail f xs) /\
    (fst (fst (yi_collect init interval xs)) = Some xs /\ calls (snd (yi_collect init interval xs)) = xs) /\
    (forall (h : N -> option R) (n : N),
       let idx := map N.of_nat (seq 0 (N.to_nat n)) in
       fst (fst (run_with_yield init n interval h)) = map_opt h idx /\
       calls (snd (run_with_yield init n interval h)) = upto_fail h idx) /\
    (forall g : T -> R, (forall x, In x xs -> f x = Some (g x)) -> map_opt f xs = Some (map g xs)) /\
    (forall x, In x xs -> f x = None -> map_opt f xs = None).
Proof.
  intros T R f init interval xs.
  assert (G : forall (A B C : Type) (ff : A -> option B) (tk : C -> C * bool) l s,
             fst (fst (yloop ff tk l s [] [])) = map_opt ff l /\ calls (snd (yloop ff tk l s [] [])) = upto_fail ff l).
  { intros A B C ff tk l s. destruct (yloop_spec ff tk l s [] []) as [G1 G2]. split; [|exact G2].
    rewrite G1. destruct (map_opt ff l); reflexivity. }
  split; [apply G|]. split; [apply G|]. split.
  { unfold yi_collect. destruct (G T T _ (fun x : T => Some x) (tick_collect init (ival interval)) xs (0, yp_new init)) as [G1 G2].
    rewrite G1, G2, map_opt_id, upto_fail_id. split; reflexivity. }
  split; [intros h n idx; apply G|]. split; [intros g; apply map_opt_all|intros x; apply map_opt_fail].
Qed.

Theorem yield_points_return_proof :
  forall (T R : Type) (f : T -> option R) (init interval : N) (xs : list T),
    (let '(_, p, tr) := yi_for_each init interval f xs in fy_total (yp_fy p) = yields tr /\ fy_budget (yp_fy p) <= init) /\
    (let '(_, (_, p), tr) := process_vec_yielding init interval f xs in fy_total (yp_fy p) = yields tr /\ fy_budget (yp_fy p) <= init) /\
    (let '(_, (_, p), tr) := yi_collect init interval xs in fy_total (yp_fy p) = yields tr /\ fy_budget (yp_fy p) <= init) /\
    (forall (h : N -> option R) (n : N),
       let '(_, p, tr) := run_with_yield init n interval h in fy_total (yp_fy p) = yields tr /\ fy_budget (yp_fy p) <= init).
Proof.
  intros T R f init interval xs.
  assert (A : forall (A B : Type) (ff : A -> option B) l,
             let '(_, p, tr) := yloop ff (tick_checkpoint init (ival interval)) l (yp_new init) [] [] in
             fy_total (yp_fy p) = yields tr /\ fy_budget (yp_fy p) <= init).
  { intros A B ff l.
    pose proof (yloop_measure ff (tick_checkpoint init (ival interval)) (fun p => fy_total (yp_fy p))
                  (tick_checkpoint_m init (ival interval)) l (yp_new init) [] []) as M.
    pose proof (yloop_inv ff (tick_checkpoint init (ival interval)) (yp_ok init)
                  (tick_checkpoint_ok init (ival interval)) l (yp_new init) [] [] (yp_new_ok init)) as I.
    destruct (yloop ff (tick_checkpoint init (ival interval)) l (yp_new init) [] []) as [[r p] tr].
    cbn [fst snd yields yp_new yp_fy fy_total] in M, I. unfold yp_ok in I. split; [lia|exact I]. }
  split; [apply A|]. split.
  { unfold process_vec_yielding.
    pose proof (yloop_measure f (tick_vec init (ival interval)) (fun s => fy_total (yp_fy (snd s)))
                  (tick_vec_m init (ival interval)) xs (0, yp_new init) [] []) as M.
    pose proof (yloop_inv f (tick_vec init (ival interval)) (fun s => yp_ok init (snd s))
                  (tick_vec_ok init (ival interval)) xs (0, yp_new init) [] [] (yp_new_ok init)) as I.
    destruct (yloop f (tick_vec init (ival interval)) xs (0, yp_new init) [] []) as [[r [i p]] tr].
    cbn [fst snd yields yp_new yp_fy fy_total] in M, I. unfold yp_ok in I. split; [lia|exact I]. }
  split.
  { unfold yi_collect.
    pose proof (yloop_measure (fun x : T => Some x) (tick_collect init (ival interval)) (fun s => fy_total (yp_fy (snd s)))
                  (tick_collect_m init (ival interval)) xs (0, yp_new init) [] []) as M.
    pose proof (yloop_inv (fun x : T => Some x) (tick_collect init (ival interval)) (fun s => yp_ok init (snd s))
                  (tick_collect_ok init (ival interval)) xs (0, yp_new init) [] [] (yp_new_ok init)) as I.
    destruct (yloop (fun x : T => Some x) (tick_collect init (ival interval)) xs (0, yp_new init) [] []) as [[r [i p]] tr].
    cbn [fst snd yields yp_new yp_fy fy_total] in M, I. unfold yp_ok in I. split; [lia|exact I]. }
  intros h n. apply A.
Qed.

Lemma ival_pos bs : (0 < N.to_nat (ival bs))%nat.
Proof. unfold ival. lia. Qed.

Theorem batch_process_is_concat_proof :
  forall (T R : Type) (bs : N) (proc : list T -> option (list R)) (xs : list T),
    concat (bp_chunks bs xs) = xs /\
    Forall (fun c => c <> [] /\ nlen c <= ival bs) (bp_chunks bs xs) /\
    fst (batch_process bs proc xs) =
      match map_opt proc (bp_chunks bs xs) with Some parts => Some (concat parts) | None => None end /\
    calls (snd (batch_process bs proc xs)) = upto_fail proc (bp_chunks bs xs) /\
    (forall g : T -> option R, (forall c, proc c = map_opt g c) -> fst (batch_process bs proc xs) = map_opt g xs).
Proof.
  intros T R bs proc xs.
  assert (C : concat (bp_chunks bs xs) = xs).
  { unfold bp_chunks, chunks. apply chunks_concat; [apply ival_pos|lia]. }
  assert (Rs : fst (batch_process bs proc xs) =
               match map_opt proc (bp_chunks bs xs) with Some parts => Some (concat parts) | None => None end /\
               calls (snd (batch_process bs proc xs)) = upto_fail proc (bp_chunks bs xs)).
  { unfold batch_process.
    destruct (yloop_spec proc (@tick_always unit) (bp_chunks bs xs) tt [] []) as [G1 G2].
    destruct (yloop proc (@tick_always unit) (bp_chunks bs xs) tt [] []) as [[r u] tr]. cbn [fst snd] in *.
    subst r. split; [|exact G2]. destruct (map_opt proc (bp_chunks bs xs)); reflexivity. }
  split; [exact C|]. split.
  { destruct (chunks_shape (N.to_nat (ival bs)) (ival_pos bs) (length xs) xs (le_n _)) as [S1 _].
    unfold bp_chunks, chunks. eapply Forall_impl; [|exact S1].
    intros c [H1 H2]. split; [exact H1|]. rewrite nlen_length. lia. }
  split; [apply Rs|]. split; [apply Rs|].
  intros g Hg. destruct Rs as [-> _].
  replace (map_opt proc (bp_chunks bs xs)) with (map_opt (map_opt g) (bp_chunks bs xs)).
  - rewrite map_opt_concat, C. reflexivity.
  - generalize (bp_chunks bs xs). induction l as [|c l IH]; cbn [map_opt]; [reflexivity|]. rewrite Hg, IH. reflexivity.
Qed.

Example yield_loops_nontrivial :
  let f := fun x : Z => if (x =? 5)%Z then None else Some (2 * x)%Z in
  yi_for_each 16 2 f [1; 2; 3; 4]%Z
    = (Some [2; 4; 6; 8]%Z, mkYP 4 (mkFY 14 2), [ECall 1; EYield; ECall 2; ECall 3; EYield; ECall 4]%Z) /\
  fst (fst (process_vec_yielding 16 0 f [1; 5; 3]%Z)) = None /\
  calls (snd (process_vec_yielding 16 0 f [1; 5; 3]%Z)) = [1; 5]%Z /\
  snd (yi_collect 1 2 [7; 8; 9; 10]%Z) = [ECall 7; ECall 8; EYield; ECall 9; ECall 10; EYield]%Z /\
  snd (fst (yi_collect 1 1 [7; 8; 9]%Z)) = (3, mkYP 0 (mkFY 1 3)).
Proof. vm_compute. repeat split; reflexivity. Qed.

Example batch_process_nontrivial :
  batch_process 2 (map_opt stage) [1; 2; 3; 4; 6]%Z
    = (Some [4; 7; 10; 13; 19]%Z, [ECall [1; 2]; EYield; ECall [3; 4]; EYield; ECall [6]; EYield]%Z) /\
  batch_process 0 (map_opt stage) [1; 13; 3]%Z = (None, [ECall [1]; EYield; ECall [13]]%Z).
Proof. vm_compute. split; reflexivity. Qed.

(* the stages' own process_batch *)
Theorem stage_process_batch_is_map_proof :
  forall (T R : Type) (f : T -> option R) (xs : list T),
    (fst (stage_batch_default f xs) = map_opt f xs /\
     calls (snd (stage_batch_default f xs)) = upto_fail f xs /\ yields (snd (stage_batch_default f xs)) = 0) /\
    (forall p : T -> bool,
       fst (stage_batch_default (filter_process p) xs) = Some (map (fun x => if p x then Some x else None) xs) /\
       calls (snd (stage_batch_default (filter_process p) xs)) = xs) /\
    (forall (bf : list T -> option (list R)), (forall c, bf c = map_opt f c) ->
       fst (stage_batch_func bf xs) = map_opt f xs /\ calls (snd (stage_batch_func bf xs)) = [xs]) /\
    (forall l, map_opt f xs = Some l -> length l = length xs).
Proof.
  intros T R f xs.
  assert (G : forall (A B : Type) (ff : A -> option B) l,
             fst (stage_batch_default ff l) = map_opt ff l /\ calls (snd (stage_batch_default ff l)) = upto_fail ff l /\
             yields (snd (stage_batch_default ff l)) = 0).
  { intros A B ff l. unfold stage_batch_default.
    destruct (yloop_spec ff (@tick_never unit) l tt [] []) as [G1 G2].
    pose proof (yloop_measure ff (@tick_never unit) (fun _ => 0) (fun s => eq_refl) l tt [] []) as M.
    destruct (yloop ff (@tick_never unit) l tt [] []) as [[r u] tr]. cbn [fst snd yields] in *.
    split; [|split; [exact G2|lia]]. rewrite G1. destruct (map_opt ff l); reflexivity. }
  split; [apply G|]. split.
  { intros p. destruct (G T (option T) (filter_process p) xs) as (G1 & G2 & _). rewrite G1, G2. split.
    - apply (map_opt_all (filter_process p) (fun x => if p x then Some x else None)). intros; reflexivity.
    - clear. induction xs as [|x r IH]; cbn [upto_fail filter_process]; [reflexivity|]. rewrite IH. reflexivity. }
  split.
  { intros bf Hb. unfold stage_batch_func. cbn [fst snd calls]. split; [apply Hb|reflexivity]. }
  intros l. apply map_opt_length.
Qed.

Example stage_process_batch_nontrivial :
  stage_batch_default stage [1; 2; 13; 4]%Z = (None, [ECall 1; ECall 2; ECall 13]%Z) /\
  fst (stage_batch_default (filter_process (fun x => negb (x mod 3 =? 0)%Z)) [1; 3; 5]%Z) = Some [Some 1; None; Some 5]%Z.
Proof. vm_compute. split; reflexivity. Qed.

(* histories on one FiberYield *)
Theorem yield_budget_history_proof : forall (init : N) (ops : list Z) (y : fy), fy_budget y <= init ->
  fy_budget (fold_left (fy_apply init) ops y) <= init /\
  fy_total (fold_left (fy_apply init) ops y) = yields_since (fy_total y) ops.
Proof.
  intros init. induction ops as [|o r IH]; intros y Hy; cbn [fold_left yields_since]; [split; [exact Hy|reflexivity]|].
  assert (A : fy_budget (fy_apply init y o) <= init).
  { unfold fy_apply. destruct (o =? 1)%Z; [apply fy_yield_budget; exact Hy|]. destruct (o =? 2)%Z; cbn [fy_force fy_reset fy_budget]; lia. }
  assert (B : fy_total (fy_apply init y o) = if is_yield_op o then fy_total y + 1 else 0).
  { unfold fy_apply, is_yield_op. destruct (o =? 1)%Z; cbn [orb]; [apply fy_yield_total|]. destruct (o =? 2)%Z; reflexivity. }
  destruct (IH (fy_apply init y o) A) as [I1 I2]. split; [exact I1|]. rewrite I2, B. destruct (is_yield_op o); reflexivity.
Qed.

Example yield_budget_history_nontrivial :
  fold_left (fy_apply 2) [1; 1; 1; 2; 3; 1]%Z (mkFY 2 0) = mkFY 1 1 /\
  fold_left (fy_apply 2) [1; 1; 1]%Z (mkFY 2 0) = mkFY 2 3.
Proof. vm_compute. split; reflexivity. Qed.
