(* C18 mechanism model, FiberPool (src/concurrency/fiber_pool.rs as written).  Definitions only.

   FiberPool::spawn:  id = total_spawned.fetch_add(1); tokio::spawn(async move {
                         let _permit = semaphore.acquire().await?;        (PAcquire: one of max_fibers permits)
                         active_fibers += 1;
                         let result = future.await;                       (PExec: the body runs; it may return Ok, Err or panic)
                         active_fibers -= 1; completed += 1 | failed += 1;
                         result })                                        (PFinish: permit dropped, JoinHandle ready)
   A panicking body unwinds the spawned task: the permit is dropped by the unwinding, the JoinHandle
   yields a join error, but none of the statistics after `future.await` are updated (active_fibers
   stays incremented) - modelled as written.

   A fiber is FWait (spawned, waiting for a permit) -> FHeld (permit held) -> FRan o (body finished with
   outcome o, permit still held) -> FDone o (JoinHandle ready).  A schedule is any list of steps
   PSpawn | PAcquire i | PExec i | PFinish i; a step whose guard is false is a no-op, so every list is a
   schedule and every execution of the real pool (any runtime flavour, any number of threads, any
   semaphore fairness) is one of them.  `jobs` lists the outcome of the body of the i-th spawned fiber
   (parallel_map / parallel_for_each: f(item_i); parallel_reduce: the fold of chunk i).

   parallel_map / parallel_for_each: all fibers are spawned, then `for handle in handles { handle.await? }`
   (await_seq: in index order, return at the first error).  parallel_reduce: chunk_size =
   max(1, len / max(1, max_workers)); items.chunks(chunk_size); one fiber per chunk folding from the
   identity; try_join_all over the handles; sequential fold of the partial results. *)
From ZV.Common Require Import Base Run.
From ZV.C18 Require Import Model.
Open Scope N_scope.

Inductive outcome (R : Type) : Type :=
| OOk (r : R)     (* the body returned Ok(r) *)
| OFail           (* the body returned Err(_) *)
| OPanic.         (* the body panicked: the JoinHandle yields a join error *)
Arguments OOk {R} r.
Arguments OFail {R}.
Arguments OPanic {R}.

Inductive fstate (R : Type) : Type :=
| FWait
| FHeld
| FRan (o : outcome R)
| FDone (o : outcome R).
Arguments FWait {R}.
Arguments FHeld {R}.
Arguments FRan {R} o.
Arguments FDone {R} o.

Record pool (R : Type) : Type := mkP {
  p_permits : N;               (* permits left in the semaphore *)
  p_fibers : list (fstate R);  (* the spawned fibers, by index = order of spawn *)
  p_log : list nat;            (* the indices of the bodies in the order in which they ran *)
  p_spawned : N;               (* stats.total_spawned *)
  p_active : N;                (* stats.active_fibers *)
  p_completed : N;             (* stats.completed *)
  p_failed : N                 (* stats.failed *)
}.
Arguments mkP {R} p_permits p_fibers p_log p_spawned p_active p_completed p_failed.
Arguments p_permits {R} p.
Arguments p_fibers {R} p.
Arguments p_log {R} p.
Arguments p_spawned {R} p.
Arguments p_active {R} p.
Arguments p_completed {R} p.
Arguments p_failed {R} p.

Inductive pstep : Type :=
| PSpawn               (* the caller spawns the next fiber *)
| PAcquire (i : nat)   (* fiber i gets a permit; active_fibers += 1 *)
| PExec (i : nat)      (* the body of fiber i runs to its end *)
| PFinish (i : nat).   (* statistics, permit released, JoinHandle ready *)

Definition pool_init {R} (maxf : N) : pool R := mkP maxf [] [] 0 0 0 0.

Definition pool_step {R} (jobs : list (outcome R)) (p : pool R) (s : pstep) : pool R :=
  match s with
  | PSpawn =>
      match nth_error jobs (length (p_fibers p)) with
      | Some _ => mkP (p_permits p) (p_fibers p ++ [FWait]) (p_log p) (p_spawned p + 1)
                      (p_active p) (p_completed p) (p_failed p)
      | None => p
      end
  | PAcquire i =>
      match nth_error (p_fibers p) i with
      | Some FWait =>
          if 0 <? p_permits p
          then mkP (p_permits p - 1) (set_nth i FHeld (p_fibers p)) (p_log p) (p_spawned p)
                   (p_active p + 1) (p_completed p) (p_failed p)
          else p
      | _ => p
      end
  | PExec i =>
      match nth_error (p_fibers p) i, nth_error jobs i with
      | Some FHeld, Some o =>
          mkP (p_permits p) (set_nth i (FRan o) (p_fibers p)) (p_log p ++ [i]) (p_spawned p)
              (p_active p) (p_completed p) (p_failed p)
      | _, _ => p
      end
  | PFinish i =>
      match nth_error (p_fibers p) i with
      | Some (FRan o) =>
          let fs := set_nth i (FDone o) (p_fibers p) in
          match o with
          | OOk _ => mkP (p_permits p + 1) fs (p_log p) (p_spawned p) (p_active p - 1) (p_completed p + 1) (p_failed p)
          | OFail => mkP (p_permits p + 1) fs (p_log p) (p_spawned p) (p_active p - 1) (p_completed p) (p_failed p + 1)
          | OPanic => mkP (p_permits p + 1) fs (p_log p) (p_spawned p) (p_active p) (p_completed p) (p_failed p)
          end
      | _ => p
      end
  end.

Definition pool_run {R} (jobs : list (outcome R)) (maxf : N) (steps : list pstep) : pool R :=
  fold_left (pool_step jobs) steps (pool_init maxf).

Definition is_done {R} (f : fstate R) : bool := match f with FDone _ => true | _ => false end.
Definition holds_permit {R} (f : fstate R) : bool := match f with FHeld | FRan _ => true | _ => false end.
Definition has_run {R} (f : fstate R) : bool := match f with FRan _ | FDone _ => true | _ => false end.

Definition all_spawned {R} (jobs : list (outcome R)) (p : pool R) : bool :=
  Nat.eqb (length (p_fibers p)) (length jobs).
Definition pool_done {R} (jobs : list (outcome R)) (p : pool R) : bool :=
  all_spawned jobs p && forallb is_done (p_fibers p).

(* for handle in handles { results.push(handle.await?) }: None = the caller is still waiting *)
Fixpoint await_seq {R} (fs : list (fstate R)) : option (res (list R)) :=
  match fs with
  | [] => Some (ROk [])
  | FDone (OOk r) :: rest =>
      match await_seq rest with
      | Some (ROk l) => Some (ROk (r :: l))
      | other => other
      end
  | FDone _ :: _ => Some RErr
  | _ :: _ => None
  end.

(* what FiberPool::parallel_map returns in state p (None: it has not returned yet) *)
Definition pm_result {R} (jobs : list (outcome R)) (p : pool R) : option (res (list R)) :=
  if all_spawned jobs p then await_seq (p_fibers p) else None.

(* futures::future::try_join_all(handles): Err as soon as a failed handle is seen, Ok(all results in
   handle order) when every handle is ready *)
Definition is_bad {R} (f : fstate R) : bool :=
  match f with FDone OFail | FDone OPanic => true | _ => false end.
Fixpoint all_ok {R} (fs : list (fstate R)) : option (list R) :=
  match fs with
  | [] => Some []
  | FDone (OOk r) :: rest => match all_ok rest with Some l => Some (r :: l) | None => None end
  | _ :: _ => None
  end.
Definition tj_result {R} (fs : list (fstate R)) : option (res (list R)) :=
  if existsb is_bad fs then Some RErr
  else match all_ok fs with Some l => Some (ROk l) | None => None end.

(* the sequential reference over the body outcomes: left to right, Err at the first failure *)
Fixpoint seq_outcomes {R} (jobs : list (outcome R)) : res (list R) :=
  match jobs with
  | [] => ROk []
  | OOk r :: rest => match seq_outcomes rest with ROk l => ROk (r :: l) | e => e end
  | _ :: _ => RErr
  end.

(* ---- parallel_reduce ---- *)
Definition chunk_size (len max_workers : N) : N := N.max 1 (len / N.max 1 max_workers).

Definition fp_chunks {T} (max_workers : N) (xs : list T) : list (list T) :=
  chunks (N.to_nat (chunk_size (nlen xs) max_workers)) xs.

Definition chunk_job {T} (op : T -> T -> option T) (ident : T) (c : list T) : outcome T :=
  match fold_opt op ident c with Some a => OOk a | None => OFail end.

Definition reduce_jobs {T} (op : T -> T -> option T) (ident : T) (max_workers : N) (xs : list T) : list (outcome T) :=
  map (chunk_job op ident) (fp_chunks max_workers xs).

(* what FiberPool::parallel_reduce returns in state p: None = not yet, Some None = Err, Some (Some v) = Ok(v) *)
Definition reduce_result {T} (op : T -> T -> option T) (ident : T) (max_workers : N) (xs : list T)
    (p : pool T) : option (option T) :=
  match xs with
  | [] => Some (Some ident)
  | _ =>
      if all_spawned (reduce_jobs op ident max_workers xs) p then
        match tj_result (p_fibers p) with
        | Some (ROk parts) => Some (fold_opt op ident parts)
        | Some _ => Some None
        | None => None
        end
      else None
  end.

(* ------------------------------------------------------------------ *)
(* evaluation of harness cases                                         *)
(* ------------------------------------------------------------------ *)

(* the schedule of a current-thread runtime when no body ever waits: everything is spawned, then the
   fibers run to completion one after the other in spawn order *)
Definition sched_seq (n : nat) : list pstep :=
  repeat PSpawn n ++ flat_map (fun i => [PAcquire i; PExec i; PFinish i]) (seq 0 n).

(* tokio's semaphore hands permits to the waiters in FIFO order = spawn order *)
Fixpoint first_idx {R} (pr : fstate R -> bool) (i : nat) (fs : list (fstate R)) : option nat :=
  match fs with
  | [] => None
  | f :: r => if pr f then Some i else first_idx pr (S i) r
  end.
Definition is_wait {R} (f : fstate R) : bool := match f with FWait => true | _ => false end.
Definition is_held {R} (f : fstate R) : bool := match f with FHeld => true | _ => false end.

Fixpoint first_runnable {R} (i : nat) (opened : list bool) (fs : list (fstate R)) : option nat :=
  match fs, opened with
  | f :: r, o :: ro => if is_held f && o then Some i else first_runnable (S i) ro r
  | _, _ => None
  end.

(* run until nothing can move: a free permit goes to the first waiter; a fiber that holds a permit and
   whose gate is open runs its body and finishes *)
Fixpoint settle {R} (fuel : nat) (jobs : list (outcome R)) (opened : list bool) (p : pool R) : pool R :=
  match fuel with
  | O => p
  | S k =>
      match (if 0 <? p_permits p then first_idx is_wait 0 (p_fibers p) else None) with
      | Some i => settle k jobs opened (pool_step jobs p (PAcquire i))
      | None =>
          match first_runnable 0 opened (p_fibers p) with
          | Some i => settle k jobs opened (pool_step jobs (pool_step jobs p (PExec i)) (PFinish i))
          | None => p
          end
      end
  end.

Definition dec_outcome (i : nat) (code : Z) : outcome Z :=
  if (code =? 0)%Z then OOk (100 + Z.of_nat i)%Z else if (code =? 1)%Z then OFail else OPanic.

Fixpoint bitmap {R} (w : Z) (fs : list (fstate R)) : Z :=
  match fs with
  | [] => 0%Z
  | f :: r => ((if is_done f then w else 0) + bitmap (2 * w) r)%Z
  end.

Definition pool_obs {R} (p : pool R) : list Z :=
  [Z.of_N (p_active p); Z.of_N (p_completed p); Z.of_N (p_failed p); bitmap 1 (p_fibers p)].

Fixpoint gates {R} (fuel : nat) (jobs : list (outcome R)) (opened : list bool) (p : pool R) (gs : list Z)
  : pool R * list Z :=
  match gs with
  | [] => (p, [])
  | g :: r =>
      let opened' := set_nth (Z.to_nat g) true opened in
      let p' := settle fuel jobs opened' p in
      let '(pf, obs) := gates fuel jobs opened' p' r in
      (pf, pool_obs p' ++ obs)
  end.

Definition obs_handle {R} (val : R -> Z) (f : fstate R) : Z :=
  match f with FDone (OOk r) => val r | FDone _ => (-1)%Z | _ => (-9)%Z end.

Definition stats_obs {R} (p : pool R) : list Z :=
  [Z.of_N (p_spawned p); Z.of_N (p_active p); Z.of_N (p_completed p); Z.of_N (p_failed p); Z.of_N (p_permits p)].

(* kind 8: a pool history.  ops = n body codes (0 Ok(100+i), 1 Err, 2 panic) followed by the order in
   which the harness opens the gates the bodies wait on.  Observed after spawn_batch and after every
   gate: active_fibers, completed, failed, bitmap of finished handles; at the end what every handle
   yields, the order in which the bodies ran and the statistics *)
Definition case_pool (maxf n : N) (ops : list Z) : list Z :=
  let nn := N.to_nat n in
  let codes := firstn nn ops in
  let gs := skipn nn ops in
  let jobs := map (fun ic => dec_outcome (fst ic) (snd ic)) (combine (seq 0 nn) codes) in
  let fuel := (4 * nn + 4)%nat in
  let p0 := fold_left (pool_step jobs) (repeat PSpawn nn) (pool_init maxf) in
  let closed := repeat false nn in
  let p1 := settle fuel jobs closed p0 in
  let '(pf, obs) := gates fuel jobs closed p1 gs in
  pool_obs p1 ++ obs ++ [(-7)%Z] ++ map (obs_handle (fun z => z)) (p_fibers pf)
    ++ [(-7)%Z] ++ map Z.of_nat (p_log pf) ++ [(-7)%Z] ++ stats_obs pf.

(* the stage function of Model.v; with `panics` x = 30 (mod 64) panics *)
Definition stage_o (panics : bool) (x : Z) : outcome Z :=
  if panics && (x mod 64 =? 30)%Z then OPanic
  else match stage x with Some y => OOk y | None => OFail end.

Definition obs_ores (r : option (res (list Z))) : list Z :=
  match r with Some x => obs_res x | None => [(-9)%Z] end.

(* kind 9: FiberPool::parallel_map on a current-thread runtime: result, execution order, statistics *)
Definition case_fp_map (maxf : N) (panics : bool) (xs : list Z) : list Z :=
  let jobs := map (stage_o panics) xs in
  let p := pool_run jobs maxf (sched_seq (length xs)) in
  obs_ores (pm_result jobs p) ++ [(-7)%Z] ++ map Z.of_nat (p_log p) ++ [(-7)%Z] ++ stats_obs p.

(* kind 10: FiberPool::parallel_for_each: verdict, execution order, statistics *)
Definition case_fp_each (maxf : N) (xs : list Z) : list Z :=
  let jobs := map (stage_o false) xs in
  let p := pool_run jobs maxf (sched_seq (length xs)) in
  (match pm_result jobs p with Some (ROk _) => 1%Z | Some _ => 0%Z | None => (-9)%Z end)
    :: [(-7)%Z] ++ map Z.of_nat (p_log p) ++ [(-7)%Z] ++ stats_obs p.

(* kind 11: FiberPool::parallel_reduce over lists with concatenation (Model.cat_op): result, the
   accumulator length at every call of the function (chunk folds in fiber order, then the final fold),
   statistics.  The chunking comes from (len, max_workers) as the code computes it. *)
Fixpoint fold_trace (acc : list Z) (c : list (list Z)) : list Z :=
  match c with
  | [] => []
  | x :: r => Z.of_nat (length acc) :: match cat_op acc x with Some a => fold_trace a r | None => [] end
  end.

Definition case_fp_reduce (mw maxf : N) (xs : list Z) : list Z :=
  let items := map (fun x => [x]) xs in
  let jobs := reduce_jobs cat_op [] mw items in
  let p := pool_run jobs maxf (sched_seq (length jobs)) in
  let cs := fp_chunks mw items in
  let parts := match all_ok (p_fibers p) with Some l => fold_trace [] l | None => [] end in
  (match reduce_result cat_op [] mw items p with
   | Some r => obs_optl r
   | None => [(-9)%Z]
   end) ++ [(-7)%Z] ++ flat_map (fold_trace []) cs ++ parts ++ [(-7)%Z] ++ stats_obs p.
