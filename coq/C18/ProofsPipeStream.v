(* C18: Pipeline::execute_stream with error identities and the join loop (ModelPipe.v): simulation by the
   stream model of Model.v, then the verdict and the identity of the returned error. *)
From ZV.Common Require Import Base.
From ZV.C18 Require Import Model ModelPipe ProofsProgress ProofsComplete ProofsStream.
Open Scope nat_scope.

Lemma map_set_nth {A B} (g : A -> B) (l : list A) : forall i x, map g (set_nth i x l) = set_nth i (g x) (map g l).
Proof. induction l as [|a l IH]; intros [|i] x; cbn [set_nth map]; try reflexivity. rewrite IH. reflexivity. Qed.

Lemma map_repeat' {A B} (g : A -> B) x n : map g (repeat x n) = repeat (g x) n.
Proof. induction n as [|n IH]; cbn [repeat map]; [reflexivity|]. rewrite IH. reflexivity. Qed.

Lemma alive_erase s : is_alive (erase_status s) = p_alive s.
Proof. destruct s; reflexivity. Qed.

Lemma mapwhile_full_all {A} (f : A -> option A) l : length (mapwhile f l) = length l -> forall x, In x l -> f x <> None.
Proof.
  induction l as [|a l IH]; intros H x Hin; [destruct Hin|]. cbn [mapwhile length] in H.
  destruct (f a) eqn:E; cbn [length] in H; [|discriminate].
  destruct Hin as [<-|Hin]; [congruence|]. apply IH; [lia|exact Hin].
Qed.

Section Erase.
  Context {A : Type}.
  Variable fs : list (A -> sres A).
  Variable inputs : list A.
  Let efs := map erase_f fs.

  Lemma up_erase st j : upstream_sent inputs (map erase_stg st) j = pup inputs st j.
  Proof. destruct j as [|i]; cbn [upstream_sent pup]; [reflexivity|]. rewrite nth_error_map. destruct (nth_error st i); reflexivity. Qed.

  Lemma dead_erase (st : list (pstg A)) j : upstream_dead (map erase_stg st) j = pup_dead st j.
  Proof.
    destruct j as [|i]; cbn [upstream_dead pup_dead]; [reflexivity|]. rewrite nth_error_map.
    destruct (nth_error st i) as [s|]; cbn [option_map]; [|reflexivity]. cbn [erase_stg s_status]. rewrite alive_erase. reflexivity.
  Qed.

  Lemma down_erase (st : list (pstg A)) j : downstream_alive (map erase_stg st) j = pdown_alive st j.
  Proof.
    unfold downstream_alive, pdown_alive. rewrite nth_error_map.
    destruct (nth_error st (S j)) as [s|]; cbn [option_map]; [|reflexivity]. cbn [erase_stg s_status]. apply alive_erase.
  Qed.

  Lemma gstep_erase st j : map erase_stg (gstep fs inputs st j) = sstep efs inputs (map erase_stg st) j.
  Proof.
    unfold gstep, sstep, efs. rewrite !nth_error_map.
    destruct (nth_error st j) as [s|] eqn:Hs; cbn [option_map]; [|reflexivity].
    destruct (nth_error fs j) as [f|] eqn:Hf; cbn [option_map]; [|reflexivity].
    cbn [erase_stg s_status s_taken s_sent]. rewrite alive_erase.
    destruct (p_alive (g_status s)); [|reflexivity].
    rewrite up_erase, dead_erase, down_erase.
    destruct (nth_error (pup inputs st j) (g_taken s)) as [x|].
    - unfold erase_f at 1. destruct (f x) as [y|e| |].
      + destruct (pdown_alive st j); rewrite map_set_nth; reflexivity.
      + rewrite map_set_nth. reflexivity.
      + rewrite map_set_nth. reflexivity.
      + rewrite map_set_nth. reflexivity.
    - destruct (pup_dead st j); [rewrite map_set_nth|]; reflexivity.
  Qed.

  Lemma fold_erase sched : forall st,
    map erase_stg (fold_left (gstep fs inputs) sched st) = fold_left (sstep efs inputs) sched (map erase_stg st).
  Proof. induction sched as [|j r IH]; intros st; cbn [fold_left]; [reflexivity|]. rewrite IH, gstep_erase. reflexivity. Qed.

  Lemma run_erase sched : map erase_stg (pstream_run fs inputs sched) = stream_run efs inputs sched.
  Proof.
    unfold pstream_run, stream_run. rewrite fold_erase. f_equal.
    unfold pstream_init, stream_init, efs. rewrite map_repeat', map_length. reflexivity.
  Qed.

  Lemma output_erase st : stream_output efs inputs (map erase_stg st) = pstream_output fs inputs st.
  Proof. unfold stream_output, pstream_output, efs. rewrite map_length. destruct (length fs); [reflexivity|apply up_erase]. Qed.

  Lemma finished_erase (st : list (pstg A)) : stream_finished (map erase_stg st) = pstream_finished st.
  Proof.
    unfold stream_finished, pstream_finished. induction st as [|s st IH]; cbn [map forallb]; [reflexivity|].
    rewrite IH. cbn [erase_stg s_status]. rewrite alive_erase. reflexivity.
  Qed.

  Lemma failed_erase s : is_failed (erase_status s) = match stage_err s with Some _ => true | None => false end.
  Proof. destruct s; reflexivity. Qed.

  (* ---- the join loop ---- *)
  Lemma join_loop_some e hs r : join_loop (Some e) hs = Some r -> r = Some e.
  Proof. revert r. induction hs as [|s hs IH]; intros r H; cbn [join_loop] in H; [inversion H; reflexivity|]. destruct s; try discriminate; apply IH; exact H. Qed.

  Lemma join_loop_total hs : forallb (fun s => negb (p_alive s)) hs = true -> forall fe, exists r, join_loop fe hs = Some r.
  Proof.
    induction hs as [|s hs IH]; intros H fe; cbn [join_loop]; [exists fe; reflexivity|].
    cbn [forallb] in H. apply andb_prop in H. destruct H as [Hs Hr]. destruct s; try discriminate; apply IH; exact Hr.
  Qed.

  Lemma join_loop_ok hs : join_loop None hs = Some None -> forall s, In s hs -> stage_err s = None.
  Proof.
    induction hs as [|s hs IH]; intros H s' Hin; [destruct Hin|]. cbn [join_loop] in H.
    destruct s; try discriminate; cbn [stage_err] in H;
      try (apply join_loop_some in H; discriminate);
      (destruct Hin as [<-|Hin]; [reflexivity|apply IH; assumption]).
  Qed.

  Lemma join_loop_err hs e : join_loop None hs = Some (Some e) ->
    exists j s, nth_error hs j = Some s /\ stage_err s = Some e /\
                forall i s', i < j -> nth_error hs i = Some s' -> stage_err s' = None.
  Proof.
    induction hs as [|s hs IH]; intros H; cbn [join_loop] in H; [discriminate|].
    destruct (stage_err s) as [e0|] eqn:Es.
    - assert (Hr : join_loop (Some e0) hs = Some (Some e)) by (destruct s; try discriminate; cbn [stage_err] in *; inversion Es; subst; exact H).
      apply join_loop_some in Hr. inversion Hr; subst e0.
      exists 0, s. split; [reflexivity|]. split; [exact Es|]. intros i s' Hi. lia.
    - assert (Hr : join_loop None hs = Some (Some e)) by (destruct s; try discriminate; exact H).
      destruct (IH Hr) as [j [s0 [Hj [He Hbefore]]]]. exists (S j), s0. split; [exact Hj|]. split; [exact He|].
      intros [|i] s' Hi Hs'; cbn [nth_error] in Hs'; [inversion Hs'; subst; exact Es|]. apply (Hbefore i s'); [lia|exact Hs'].
  Qed.

  (* ---- a reported error is genuine ---- *)
  Definition genuine (st : list (pstg A)) : Prop :=
    forall j s f e, nth_error st j = Some s -> nth_error fs j = Some f -> stage_err (g_status s) = Some e ->
      exists x, In x (want_upto efs inputs j) /\ err_of (f x) = Some e.

  Lemma in_prefix {T} (a b : list T) x : prefix a b -> In x a -> In x b.
  Proof. intros [e ->] H. apply in_or_app. left. exact H. Qed.

  Lemma genuine_step st j : inv efs inputs (map erase_stg st) -> genuine st -> genuine (gstep fs inputs st j).
  Proof.
    intros Hinv G. unfold gstep.
    destruct (nth_error st j) as [s|] eqn:Hs; [|exact G].
    destruct (nth_error fs j) as [f|] eqn:Hf; [|exact G].
    destruct (p_alive (g_status s)); [|exact G].
    assert (Hset : forall s', stage_err (g_status s') = None -> genuine (set_nth j s' st)).
    { intros s' Hn j' s0 f0 e H0 Hf0 He. destruct (Nat.eq_dec j' j) as [->|Hne].
      - rewrite nth_error_set_nth_eq in H0 by (apply nth_error_Some; rewrite Hs; discriminate). inversion H0; subst. congruence.
      - rewrite nth_error_set_nth_neq in H0 by congruence. exact (G j' s0 f0 e H0 Hf0 He). }
    destruct (nth_error (pup inputs st j) (g_taken s)) as [x|] eqn:Hx.
    2:{ destruct (pup_dead st j); [apply Hset; reflexivity|exact G]. }
    assert (Hin : In x (want_upto efs inputs j)).
    { apply (in_prefix (upstream_sent inputs (map erase_stg st) j)).
      - apply (up_prefix efs inputs _ Hinv). unfold efs. rewrite map_length.
        assert (j < length fs) by (apply nth_error_Some; rewrite Hf; discriminate). lia.
      - rewrite up_erase. eapply nth_error_In. exact Hx. }
    assert (Hbad : forall s' e0, stage_err (g_status s') = Some e0 -> err_of (f x) = Some e0 -> genuine (set_nth j s' st)).
    { intros s' e0 He0 Hfx j' s0 f0 e H0 Hf0 He. destruct (Nat.eq_dec j' j) as [->|Hne].
      - rewrite nth_error_set_nth_eq in H0 by (apply nth_error_Some; rewrite Hs; discriminate). inversion H0; subst.
        rewrite Hf in Hf0. inversion Hf0; subst. exists x. split; [exact Hin|congruence].
      - rewrite nth_error_set_nth_neq in H0 by congruence. exact (G j' s0 f0 e H0 Hf0 He). }
    destruct (f x) as [y|e0| |] eqn:Efx.
    - destruct (pdown_alive st j); apply Hset; reflexivity.
    - apply (Hbad _ (EStage e0)); reflexivity.
    - apply (Hbad _ ETimeout); reflexivity.
    - apply (Hbad _ EJoin); reflexivity.
  Qed.

  Lemma genuine_fold sched : forall st, inv efs inputs (map erase_stg st) -> genuine st ->
    genuine (fold_left (gstep fs inputs) sched st).
  Proof.
    induction sched as [|j r IH]; intros st Hinv G; cbn [fold_left]; [exact G|].
    apply IH; [rewrite gstep_erase; apply inv_step; exact Hinv|apply genuine_step; assumption].
  Qed.

  Lemma genuine_run sched : genuine (pstream_run fs inputs sched).
  Proof.
    unfold pstream_run. apply genuine_fold.
    - replace (map erase_stg (pstream_init fs)) with (stream_init efs); [apply inv_init|].
      unfold pstream_init, stream_init, efs. rewrite map_repeat', map_length. reflexivity.
    - intros j s f e Hs _ He. unfold pstream_init in Hs. apply nth_error_In in Hs. apply repeat_spec in Hs. subst s. discriminate.
  Qed.

  Lemma err_erase (st : list (pstg A)) :
    stream_err (map erase_stg st) = false <-> (forall s, In s st -> stage_err (g_status s) = None).
  Proof.
    unfold stream_err. split.
    - intros H s Hin. destruct (stage_err (g_status s)) eqn:E; [|reflexivity].
      assert (Hex : existsb (fun s => is_failed (s_status s)) (map erase_stg st) = true).
      { apply existsb_exists. exists (erase_stg s). split; [apply in_map; exact Hin|].
        cbn [erase_stg s_status]. rewrite failed_erase, E. reflexivity. }
      rewrite Hex in H. discriminate.
    - intros H. destruct (existsb _ (map erase_stg st)) eqn:E; [|reflexivity].
      apply existsb_exists in E. destruct E as [s' [Hin Hf]]. apply in_map_iff in Hin. destruct Hin as [s [<- Hin]].
      cbn [erase_stg s_status] in Hf. rewrite failed_erase, (H s Hin) in Hf. discriminate.
  Qed.

  (* ---- the theorems ---- *)
  Lemma pipeline_order_proof sched :
    let st := pstream_run fs inputs sched in
    (exists rest, stream_want efs inputs = pstream_output fs inputs st ++ rest) /\
    (pstream_finished st = true -> exec_stream_result fs st = Some None ->
       pstream_output fs inputs st = stream_want efs inputs /\ length (pstream_output fs inputs st) = length inputs).
  Proof.
    cbv zeta. split.
    - rewrite <- output_erase, run_erase. apply stream_prefix_proof.
    - intros Hfin Hres. rewrite <- output_erase, run_erase.
      apply stream_complete_proof; rewrite <- run_erase.
      + rewrite finished_erase. exact Hfin.
      + apply err_erase. intros s Hin. unfold exec_stream_result in Hres.
        destruct fs as [|f0 fr] eqn:Efs; [discriminate|]. rewrite <- Efs in *.
        apply (join_loop_ok _ Hres). apply in_map. exact Hin.
  Qed.

  Lemma pipeline_error_proof sched :
    fs <> [] ->
    let st := pstream_run fs inputs sched in
    pstream_finished st = true ->
    (exists r, exec_stream_result fs st = Some r) /\
    ((exists j f x, nth_error fs j = Some f /\ In x (want_upto efs inputs j) /\ forall y, f x <> SOk y) ->
       exists e, exec_stream_result fs st = Some (Some e)) /\
    (forall e, exec_stream_result fs st = Some (Some e) ->
       exists j f s, nth_error fs j = Some f /\ nth_error st j = Some s /\ stage_err (g_status s) = Some e /\
         (forall i s', i < j -> nth_error st i = Some s' -> stage_err (g_status s') = None) /\
         exists x, In x (want_upto efs inputs j) /\ err_of (f x) = Some e).
  Proof.
    intros Hne. cbv zeta. intros Hfin. set (st := pstream_run fs inputs sched) in *.
    assert (Hres : exec_stream_result fs st = join_loop None (map g_status st)).
    { unfold exec_stream_result. destruct fs; [congruence|reflexivity]. }
    assert (Hinv : inv efs inputs (map erase_stg st)) by (unfold st; rewrite run_erase; apply inv_run).
    assert (Hlen : length st = length fs).
    { destruct Hinv as [HL _]. rewrite map_length in HL. unfold efs in HL. rewrite map_length in HL. exact HL. }
    assert (Htot : exists r, exec_stream_result fs st = Some r).
    { rewrite Hres. apply join_loop_total. unfold pstream_finished in Hfin. rewrite forallb_forall in *.
      intros s Hin. apply in_map_iff in Hin. destruct Hin as [s0 [<- Hin]]. apply Hfin. exact Hin. }
    split; [exact Htot|]. split.
    - intros [j [f [x [Hf [Hin Hbad]]]]]. destruct Htot as [[e|] Hr]; [exists e; exact Hr|]. exfalso.
      assert (Herr : stream_err (map erase_stg st) = false).
      { apply err_erase. intros s Hs. rewrite Hres in Hr. apply (join_loop_ok _ Hr). apply in_map. exact Hs. }
      assert (Hf2 : stream_finished (map erase_stg st) = true) by (rewrite finished_erase; exact Hfin).
      assert (Hj : j < length fs) by (apply nth_error_Some; rewrite Hf; discriminate).
      assert (HLe : length efs = length fs) by (unfold efs; apply map_length).
      destruct (up_full efs inputs _ Hinv Hf2 Herr j ltac:(lia)) as [U1 U2].
      destruct (up_full efs inputs _ Hinv Hf2 Herr (S j) ltac:(lia)) as [V1 V2].
      assert (Hef : nth_error efs j = Some (erase_f f)) by (unfold efs; apply map_nth_error; exact Hf).
      rewrite V1, (want_upto_S efs inputs j _ Hef) in V2. rewrite U1 in U2.
      pose proof (mapwhile_full_all (erase_f f) (want_upto efs inputs j) ltac:(lia) x Hin) as Hsome.
      unfold erase_f in Hsome. destruct (f x) as [y| | |] eqn:E; try congruence.
    - intros e He. rewrite Hres in He. destruct (join_loop_err _ _ He) as [j [gs [Hj [Hse Hbefore]]]].
      rewrite nth_error_map in Hj. destruct (nth_error st j) as [s|] eqn:Hs; cbn [option_map] in Hj; [|discriminate].
      inversion Hj; subst gs.
      assert (Hjl : j < length fs) by (rewrite <- Hlen; apply nth_error_Some; rewrite Hs; discriminate).
      destruct (nth_error fs j) as [f|] eqn:Hf; [|apply nth_error_None in Hf; lia].
      exists j, f, s. split; [exact Hf|]. split; [exact Hs|]. split; [exact Hse|]. split.
      + intros i s' Hi Hs'. apply (Hbefore i (g_status s') Hi). rewrite nth_error_map, Hs'. reflexivity.
      + apply (genuine_run sched j s f e Hs Hf Hse).
  Qed.
End Erase.

Example pipeline_nontrivial :
  let fs := [stage_s true false; stage_s false false] in
  (* the first stage times out on the third item while the second stage fails on the first one: stage 0's error is kept *)
  let st := pstream_run fs [4; 2; 7]%Z [0; 0; 1; 0; 1; 1]%nat in
  pstream_finished st = true /\ exec_stream_result fs st = Some (Some ETimeout) /\
  pstream_output fs [4; 2; 7]%Z st = []%Z /\
  exec_stream_result fs (pstream_run fs [1; 2]%Z [0; 0; 1; 0; 1; 1]%nat) = Some None.
Proof. vm_compute. auto. Qed.
