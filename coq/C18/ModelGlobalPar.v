(* C18 mechanism model, the free functions of src/concurrency/mod.rs as written.  Definitions only.

   concurrency::spawn = WorkStealingExecutor::spawn = tokio::spawn (no semaphore): a fiber of the pool model of
   ModelFiber.v that never waits for a permit - every theorem there holds for every max_fibers, in particular for
   max_fibers >= number of fibers.  concurrency::parallel_map = spawn every item, join_all (handles awaited in index
   order with `?`) = ModelFiber.pm_result.  concurrency::parallel_reduce: chunk_size = (len + ncpu - 1) / ncpu with
   ncpu = num_cpus::get() >= 1, items.chunks(chunk_size), one task per chunk folding from the identity, join_all,
   sequential fold of the partial results. *)
From ZV.Common Require Import Base Run.
From ZV.C18 Require Import Model ModelFiber.
Open Scope N_scope.

Definition g_chunk_size (len ncpu : N) : N := (len + ncpu - 1) / ncpu.

Definition g_chunks {T} (ncpu : N) (xs : list T) : list (list T) :=
  chunks (N.to_nat (g_chunk_size (nlen xs) ncpu)) xs.

Definition g_reduce_jobs {T} (op : T -> T -> option T) (ident : T) (ncpu : N) (xs : list T) : list (outcome T) :=
  map (chunk_job op ident) (g_chunks ncpu xs).

(* what concurrency::parallel_reduce returns in state p: None = not yet, Some None = Err, Some (Some v) = Ok(v) *)
Definition g_reduce_result {T} (op : T -> T -> option T) (ident : T) (ncpu : N) (xs : list T)
    (p : pool T) : option (option T) :=
  match xs with
  | [] => Some (Some ident)
  | _ =>
      match pm_result (g_reduce_jobs op ident ncpu xs) p with
      | Some (ROk parts) => Some (fold_opt op ident parts)
      | Some _ => Some None
      | None => None
      end
  end.

(* kind 18: concurrency::parallel_reduce over lists with concatenation on a current-thread runtime, a = num_cpus:
   result, then the accumulator length at every call of the function *)
Definition case_g_reduce (ncpu : N) (xs : list Z) : list Z :=
  let items := map (fun x => [x]) xs in
  let jobs := g_reduce_jobs cat_op [] ncpu items in
  let p := pool_run jobs (nlen jobs + 1) (sched_seq (length jobs)) in
  let parts := match all_ok (p_fibers p) with Some l => fold_trace [] l | None => [] end in
  (match g_reduce_result cat_op [] ncpu items p with
   | Some r => obs_optl r
   | None => [(-9)%Z]
   end) ++ [(-7)%Z] ++ flat_map (fold_trace []) (g_chunks ncpu items) ++ parts.
