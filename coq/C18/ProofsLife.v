(* C18: shutdown and submit() after it (ModelLife.v): refused submissions change nothing, conservation carries over. *)
From ZV.Common Require Import Base Run.
From ZV.C18 Require Import Model ProofsQueue ModelLife.
From Coq Require Import Permutation.
Open Scope N_scope.

Lemma l_run_erase fixed cap : forall h e down acc,
  l_run fixed cap e down acc h =
  (fst (run fixed cap e acc (erase down h)), down || has_shutdown h, snd (run fixed cap e acc (erase down h))).
Proof.
  induction h as [|o r IH]; intros e down acc.
  - cbn [l_run erase has_shutdown run fst snd]. rewrite orb_false_r. reflexivity.
  - destruct o as [s|].
    + destruct s; cbn [l_run erase has_shutdown is_submit]; rewrite ?andb_false_r, ?andb_true_r;
        try (cbn [run]; rewrite IH; reflexivity).
      * destruct down; [rewrite IH; reflexivity|]. cbn [run]. destruct (submit cap e t) as [ok e']. rewrite IH. reflexivity.
      * destruct down; [rewrite IH; reflexivity|]. cbn [run]. rewrite IH. reflexivity.
    + cbn [l_run erase has_shutdown]. rewrite IH. rewrite orb_true_r. reflexivity.
Qed.

Lemma l_run_down fixed cap : forall h e acc e' d' acc',
  l_run fixed cap e true acc h = (e', d', acc') -> acc' = acc /\ d' = true /\ enext e' = enext e \/ acc' = acc /\ d' = true.
Proof.
  induction h as [|o r IH]; intros e acc e' d' acc' H.
  - cbn [l_run] in H. injection H as <- <- <-. left. repeat split; reflexivity.
  - right. destruct o as [s|]; [destruct s|]; cbn [l_run] in H; apply IH in H; destruct H as [(A & B & _)|(A & B)]; split; assumption.
Qed.

Lemma l_run_acc fixed cap : forall h e acc e' d' acc',
  l_run fixed cap e false acc h = (e', d', acc') ->
  forall t, In t acc' -> In t acc \/ In t (submitted_before h).
Proof.
  induction h as [|o r IH]; intros e acc e' d' acc' H t Ht.
  - cbn [l_run] in H. injection H as <- <- <-. left. exact Ht.
  - destruct o as [s|].
    + destruct s; cbn [l_run submitted_before] in *;
        try (destruct (IH _ _ _ _ _ H t Ht) as [A|A]; [left; exact A|right; exact A]).
      destruct (submit cap e t0) as [ok e1]. destruct (IH _ _ _ _ _ H t Ht) as [A|A].
      * destruct ok; [|left; exact A]. apply in_app_or in A. destruct A as [A|[A|[]]]; [left; exact A|right; left; exact A].
      * right. right. exact A.
    + cbn [l_run submitted_before] in *. apply l_run_down in H. left.
      destruct H as [(A & _)|(A & _)]; subst acc'; exact Ht.
Qed.

Theorem shutdown_refuses_proof :
  forall fixed cap nw h e down acc,
    l_run fixed cap (init nw) false [] h = (e, down, acc) ->
    Permutation (queued e ++ running e ++ edone e) acc /\
    (forall t, In t acc -> In t (submitted_before h)) /\
    down = has_shutdown h /\
    (forall e0 acc0 h', l_run fixed cap e0 true acc0 (map (fun t => LS (Submit t)) h') = (e0, true, acc0)).
Proof.
  intros fixed cap nw h e down acc H. split; [|split; [|split]].
  - rewrite l_run_erase in H. injection H as H1 H2 H3.
    apply (conservation_proof fixed cap nw (erase false h)). rewrite <- H1, <- H3. apply surjective_pairing.
  - intros t Ht. destruct (l_run_acc fixed cap h _ _ _ _ _ H t Ht) as [[]|A]. exact A.
  - rewrite l_run_erase in H. injection H as _ H2 _. cbn [orb] in H2. symmetry. exact H2.
  - intros e0 acc0 h'. induction h' as [|t r IH]; cbn [map l_run]; [reflexivity|exact IH].
Qed.

Example shutdown_refuses_nontrivial :
  let t0 := mkT 0 0 true in let t1 := mkT 1 1 true in let t2 := mkT 2 0 true in
  let '(e, down, acc) := l_run true 4 (init 1) false [] [LS (Submit t0); LS (Submit t1); LShutdown; LS (Submit t2); LS (PopLocal 0)] in
  acc = [t0; t1] /\ down = true /\ total_queued e = 1.
Proof. vm_compute. repeat split; reflexivity. Qed.
