(* C18 mechanism model: src/concurrency/async_blob_store.rs, AsyncMemoryBlobStore and the batch operations, as written.
   Definitions only.

   `data: HashMap<RecordId, Vec<u8>>` is an association list without duplicate keys (insert replaces), `next_id: AtomicU64`
   starts at 1, `put` = `id = next_id.fetch_add(1) as RecordId` (RecordId = u32: the cast truncates, so ids repeat after 2^32
   puts - the theorems carry the hypothesis that fewer ids than that have been handed out), insert; `get` = lookup or Err;
   `remove` = Err when absent.  put_batch: AsyncMemoryBlobStore takes the write lock once and does the same per item; the trait
   default (file store, compressed wrappers) is `for item in data { ids.push(self.put(item).await?) }` - the same sequence of
   state changes, ids in input order.  get_batch: both go through the ids in order and return Err at the first missing one. *)
From ZV.Common Require Import Base Run.
From ZV.C18 Require Import Model ModelYield.
Open Scope N_scope.

Definition U32 : N := 4294967296.
Definition blob := list N.
Record mstore := mkMS { ms_next : N; ms_data : list (N * blob) }.
Definition ms_new : mstore := mkMS 1 [].

Fixpoint al_get (id : N) (l : list (N * blob)) : option blob :=
  match l with [] => None | (k, v) :: r => if k =? id then Some v else al_get id r end.
Fixpoint al_remove (id : N) (l : list (N * blob)) : list (N * blob) :=
  match l with [] => [] | (k, v) :: r => if k =? id then al_remove id r else (k, v) :: al_remove id r end.
Definition al_insert (id : N) (v : blob) (l : list (N * blob)) : list (N * blob) := (id, v) :: al_remove id l.

Definition ms_put (s : mstore) (d : blob) : mstore * N :=
  let id := ms_next s mod U32 in (mkMS (ms_next s + 1) (al_insert id d (ms_data s)), id).
Definition ms_get (s : mstore) (id : N) : option blob := al_get id (ms_data s).
Definition ms_remove (s : mstore) (id : N) : mstore * bool :=
  match al_get id (ms_data s) with
  | Some _ => (mkMS (ms_next s) (al_remove id (ms_data s)), true)
  | None => (s, false)
  end.
Definition ms_len (s : mstore) : N := nlen (ms_data s).

(* put_batch (both implementations): one put per item in input order, the ids in the same order *)
Fixpoint ms_put_batch (s : mstore) (ds : list blob) : mstore * list N :=
  match ds with
  | [] => (s, [])
  | d :: r => let '(s1, id) := ms_put s d in let '(s2, ids) := ms_put_batch s1 r in (s2, id :: ids)
  end.
(* get_batch: Err at the first id that is not there *)
Definition ms_get_batch (s : mstore) (ids : list N) : option (list blob) := map_opt (ms_get s) ids.

(* store histories of the harness (kind 21).  Operations: 2000 + k put_batch of k blobs (blob j of operation number i is
   [i; j; j .. ] of length j mod 3 + 1), 1 put of one blob, 100 + j remove of the j-th id handed out so far (modulo their number;
   nothing when none), 4000 get_batch of all ids handed out so far in reverse order, 4001 the same ids in order of issue followed
   by an id that was never handed out, 4002 get_batch of the live ids only (order of issue), 5 len.
   Observed per operation: the ids returned (put), 1 / 0 (remove), the blobs flattened each behind a -1, or -2 for Err (get),
   the length. *)
Definition mk_blob (i j : N) : blob := i :: repeat j (N.to_nat (j mod 3)).
Definition obs_blobs (r : option (list blob)) : list Z :=
  match r with
  | Some bs => flat_map (fun b => (-1)%Z :: map Z.of_N b) bs
  | None => [(-2)%Z]
  end.
Fixpoint store_hist (s : mstore) (issued : list N) (i : N) (ops : list Z) : list Z :=
  match ops with
  | [] => []
  | o :: r =>
      if (2000 <=? o)%Z && (o <? 3000)%Z then
        let k := Z.to_N (o - 2000) in
        let ds := map (fun j => mk_blob i (N.of_nat j)) (seq 0 (N.to_nat k)) in
        let '(s', ids) := ms_put_batch s ds in
        map Z.of_N ids ++ (-7)%Z :: store_hist s' (issued ++ ids) (i + 1) r
      else if (o =? 1)%Z then
        let '(s', id) := ms_put s (mk_blob i 7) in
        Z.of_N id :: (-7)%Z :: store_hist s' (issued ++ [id]) (i + 1) r
      else if (100 <=? o)%Z && (o <? 1000)%Z then
        match issued with
        | [] => (-7)%Z :: store_hist s issued (i + 1) r
        | _ => let id := nth (N.to_nat (Z.to_N (o - 100) mod nlen issued)) issued 0 in
               let '(s', ok) := ms_remove s id in
               (if ok then 1%Z else 0%Z) :: (-7)%Z :: store_hist s' issued (i + 1) r
        end
      else if (o =? 4000)%Z then obs_blobs (ms_get_batch s (rev issued)) ++ (-7)%Z :: store_hist s issued (i + 1) r
      else if (o =? 4001)%Z then obs_blobs (ms_get_batch s (issued ++ [4000000000])) ++ (-7)%Z :: store_hist s issued (i + 1) r
      else if (o =? 4002)%Z then
        obs_blobs (ms_get_batch s (filter (fun id => match ms_get s id with Some _ => true | None => false end) issued))
          ++ (-7)%Z :: store_hist s issued (i + 1) r
      else Z.of_N (ms_len s) :: (-7)%Z :: store_hist s issued (i + 1) r
  end.
Definition case_store (ops : list Z) : list Z := store_hist ms_new [] 0 ops.
