(* C18 mechanism model, pipeline (src/concurrency/pipeline.rs as written).  Definitions only.

   A stage function maps an item to one of four outcomes: SOk y (Ok within the stage timeout), SFail e
   (Err with the error identity e), STimeout (it takes longer than config.stage_timeout), SPanic.

   Pipeline::execute_single:   items_in_flight += 1; timeout(stage.process(x)) - a timeout returns at once
                               (items_in_flight is not decremented, as written); else total_processed += 1,
                               items_in_flight -= 1, the stage's own result is returned.
   Pipeline::execute_two_stage: execute_single(stage1)?, then execute_single(stage2).
   Pipeline::process_batch:    empty input -> Ok([]).  items_in_flight += n; with supports_batching() &&
                               enable_batching one timeout around stage.process_batch(inputs) (the default
                               implementation: a sequential loop with `?`), else a loop with one timeout per item
                               and `??` (early return: the statistics are not restored, as written).
   Pipeline::execute_stream:   one task per stage, FIFO channels; the loop over the JoinHandles keeps the first
                               error in stage order (`first_error`); a panicked stage task is a join error.
   BatchCollector:             add / flush / check_timeout with an explicit clock; check_timeout consists of two
                               critical sections (probe: buffer non-empty and last_flush.elapsed() >= timeout;
                               drain: if the buffer is still non-empty), so concurrent checkers (the background
                               task of start_timeout_checker) interleave between them. *)
From ZV.Common Require Import Base Run.
From ZV.C18 Require Import Model.
Open Scope N_scope.

Inductive sres (B : Type) : Type := SOk (y : B) | SFail (e : N) | STimeout | SPanic.
Arguments SOk {B} y.
Arguments SFail {B} e.
Arguments STimeout {B}.
Arguments SPanic {B}.

(* the errors the pipeline returns *)
Inductive perr : Type :=
| EStage (e : N)     (* the stage's own error *)
| ETimeout           (* "stage timeout" *)
| EBatchTimeout      (* "batch processing timeout" *)
| EJoin              (* "stage task failed: ..." (the stage task panicked) *)
| ENoStages.         (* "no stages provided" *)

(* what a call returns: a value, an error, or the panic of the stage function propagates to the caller *)
Inductive cres (B : Type) : Type := COk (b : B) | CErr (e : perr) | CPanic.
Arguments COk {B} b.
Arguments CErr {B} e.
Arguments CPanic {B}.

Record pstats : Type := mkPS { ps_in_flight : N; ps_processed : N }.

(* ---- execute_single / execute_two_stage ---- *)
Definition exec_single {A B} (f : A -> sres B) (x : A) (st : pstats) : cres B * pstats :=
  let st1 := mkPS (ps_in_flight st + 1) (ps_processed st) in
  match f x with
  | STimeout => (CErr ETimeout, st1)
  | SPanic => (CPanic, st1)
  | SOk y => (COk y, mkPS (ps_in_flight st1 - 1) (ps_processed st1 + 1))
  | SFail e => (CErr (EStage e), mkPS (ps_in_flight st1 - 1) (ps_processed st1 + 1))
  end.

Definition exec_two_stage {A B C} (f1 : A -> sres B) (f2 : B -> sres C) (x : A) (st : pstats) : cres C * pstats :=
  match exec_single f1 x st with
  | (COk y, st1) => exec_single f2 y st1
  | (CErr e, st1) => (CErr e, st1)
  | (CPanic, st1) => (CPanic, st1)
  end.

(* ---- process_batch ---- *)
(* the loop `for input in inputs { results.push(one(input)?) }`; tmo = the error a slow item produces *)
Fixpoint batch_loop {A B} (f : A -> sres B) (tmo : perr) (xs : list A) : cres (list B) :=
  match xs with
  | [] => COk []
  | x :: r =>
      match f x with
      | SOk y => match batch_loop f tmo r with COk l => COk (y :: l) | other => other end
      | SFail e => CErr (EStage e)
      | STimeout => CErr tmo
      | SPanic => CPanic
      end
  end.

(* path 0: item by item (no batching support or batching disabled);
   path 1: the stage's process_batch under one timeout - the default implementation (sequential loop);
   a slow item makes the whole batch time out *)
Definition process_batch {A B} (path : N) (f : A -> sres B) (xs : list A) (st : pstats) : cres (list B) * pstats :=
  match xs with
  | [] => (COk [], st)
  | _ =>
      let n := nlen xs in
      let st1 := mkPS (ps_in_flight st + n) (ps_processed st) in
      let done := mkPS (ps_in_flight st1 - n) (ps_processed st1 + n) in
      if path =? 0 then
        match batch_loop f ETimeout xs with
        | COk l => (COk l, done)
        | other => (other, st1)           (* `??` returns before the statistics are restored *)
        end
      else
        match batch_loop f EBatchTimeout xs with
        | COk l => (COk l, done)
        | CErr EBatchTimeout => (CErr EBatchTimeout, st1)   (* map_err(..)? returns early *)
        | CErr e => (CErr e, done)        (* the stage's Err falls through to the statistics *)
        | CPanic => (CPanic, st1)
        end
  end.

(* ---- execute_stream ---- *)
Inductive pstatus : Type :=
| PAlive
| PDone                (* input exhausted and closed: Ok(()) *)
| PFailed (e : perr)   (* the stage function failed / timed out: Err(e) *)
| PClosed              (* the downstream receiver is gone: break, Ok(()) *)
| PPanicked.           (* the stage task panicked: its JoinHandle yields a join error *)

Definition p_alive (s : pstatus) : bool := match s with PAlive => true | _ => false end.

Record pstg (A : Type) : Type := mkPG { g_taken : nat; g_sent : list A; g_status : pstatus }.
Arguments mkPG {A} g_taken g_sent g_status.
Arguments g_taken {A} p.
Arguments g_sent {A} p.
Arguments g_status {A} p.

Section PStream.
  Context {A : Type}.
  Variable fs : list (A -> sres A).
  Variable inputs : list A.

  Definition pup (st : list (pstg A)) (j : nat) : list A :=
    match j with
    | O => inputs
    | S i => match nth_error st i with Some s => g_sent s | None => [] end
    end.
  Definition pup_dead (st : list (pstg A)) (j : nat) : bool :=
    match j with
    | O => true
    | S i => match nth_error st i with Some s => negb (p_alive (g_status s)) | None => true end
    end.
  Definition pdown_alive (st : list (pstg A)) (j : nat) : bool :=
    match nth_error st (S j) with Some s => p_alive (g_status s) | None => true end.

  (* one iteration of the stage task's loop: recv, timeout(process), send *)
  Definition gstep (st : list (pstg A)) (j : nat) : list (pstg A) :=
    match nth_error st j, nth_error fs j with
    | Some s, Some f =>
        if p_alive (g_status s) then
          match nth_error (pup st j) (g_taken s) with
          | Some x =>
              match f x with
              | SOk y =>
                  if pdown_alive st j
                  then set_nth j (mkPG (S (g_taken s)) (g_sent s ++ [y]) PAlive) st
                  else set_nth j (mkPG (S (g_taken s)) (g_sent s) PClosed) st
              | SFail e => set_nth j (mkPG (S (g_taken s)) (g_sent s) (PFailed (EStage e))) st
              | STimeout => set_nth j (mkPG (S (g_taken s)) (g_sent s) (PFailed ETimeout)) st
              | SPanic => set_nth j (mkPG (S (g_taken s)) (g_sent s) PPanicked) st
              end
          | None => if pup_dead st j then set_nth j (mkPG (g_taken s) (g_sent s) PDone) st else st
          end
        else st
    | _, _ => st
    end.

  Definition pstream_init : list (pstg A) := repeat (mkPG 0 [] PAlive) (length fs).
  Definition pstream_run (sched : list nat) : list (pstg A) := fold_left gstep sched pstream_init.
  Definition pstream_output (st : list (pstg A)) : list A :=
    match length fs with O => inputs | S i => pup st (S i) end.
  Definition pstream_finished (st : list (pstg A)) : bool := forallb (fun s => negb (p_alive (g_status s))) st.

  (* what the stage task returns through its JoinHandle *)
  Definition stage_err (s : pstatus) : option perr :=
    match s with PFailed e => Some e | PPanicked => Some EJoin | _ => None end.

  (* for handle in handles { ...; if let Err(e) = stage_result { if first_error.is_none() { first_error = Some(e) } } }
     None = a handle is not ready yet *)
  Fixpoint join_loop (first_error : option perr) (hs : list pstatus) : option (option perr) :=
    match hs with
    | [] => Some first_error
    | PAlive :: _ => None
    | s :: r => join_loop (match first_error with Some e => Some e | None => stage_err s end) r
    end.

  (* execute_stream: None = has not returned; Some None = Ok(()); Some (Some e) = Err(e) *)
  Definition exec_stream_result (st : list (pstg A)) : option (option perr) :=
    match fs with
    | [] => Some (Some ENoStages)
    | _ => join_loop None (map g_status st)
    end.
End PStream.

(* the erasure to the stream model of Model.v: a stage function either yields a value or does not *)
Definition erase_f {A} (f : A -> sres A) : A -> option A :=
  fun x => match f x with SOk y => Some y | _ => None end.
Definition erase_status (s : pstatus) : sstatus :=
  match s with
  | PAlive => SAlive | PDone => SDone | PClosed => SClosed
  | PFailed _ => SFailed | PPanicked => SFailed
  end.
Definition erase_stg {A} (s : pstg A) : stg A := mkS (g_taken s) (g_sent s) (erase_status (g_status s)).

(* the error a stage function produces on an item *)
Definition err_of {A} (r : sres A) : option perr :=
  match r with SOk _ => None | SFail e => Some (EStage e) | STimeout => Some ETimeout | SPanic => Some EJoin end.

(* ---- BatchCollector with a clock ---- *)
Record bcoll (A : Type) : Type := mkBC {
  bc_buf : list A;         (* buffer *)
  bc_last : N;             (* last_flush *)
  bc_now : N;              (* the clock *)
  bc_pending : list nat    (* checker tasks between the two critical sections of check_timeout *)
}.
Arguments mkBC {A} bc_buf bc_last bc_now bc_pending.
Arguments bc_buf {A} b.
Arguments bc_last {A} b.
Arguments bc_now {A} b.
Arguments bc_pending {A} b.

Inductive bop (A : Type) : Type :=
| BAdd (x : A)        (* add(x) *)
| BFlush              (* flush() *)
| BTick (d : N)       (* time passes *)
| BCheck              (* an undisturbed check_timeout() *)
| BProbe (c : nat)    (* checker c: first critical section of check_timeout *)
| BDrain (c : nat).   (* checker c: second critical section *)
Arguments BAdd {A} x.
Arguments BFlush {A}.
Arguments BTick {A} d.
Arguments BCheck {A}.
Arguments BProbe {A} c.
Arguments BDrain {A} c.

Definition bc_init {A} : bcoll A := mkBC [] 0 0 [].

Definition is_nil {A} (l : list A) : bool := match l with [] => true | _ => false end.
Definition mem_nat (c : nat) (l : list nat) : bool := existsb (Nat.eqb c) l.
Definition remove_nat (c : nat) (l : list nat) : list nat := filter (fun d => negb (Nat.eqb c d)) l.

Definition bc_due {A} (timeout : N) (b : bcoll A) : bool :=
  negb (is_nil (bc_buf b)) && (timeout <=? bc_now b - bc_last b).

(* one operation: the new state and the batch it returns (None = Ok(None)) *)
Definition bc_step {A} (maxb timeout : N) (b : bcoll A) (o : bop A) : bcoll A * option (list A) :=
  match o with
  | BAdd x =>
      let buf := bc_buf b ++ [x] in
      if maxb <=? nlen buf then (mkBC [] (bc_now b) (bc_now b) (bc_pending b), Some buf)
      else (mkBC buf (bc_last b) (bc_now b) (bc_pending b), None)
  | BFlush =>
      if is_nil (bc_buf b) then (b, None)
      else (mkBC [] (bc_now b) (bc_now b) (bc_pending b), Some (bc_buf b))
  | BTick d => (mkBC (bc_buf b) (bc_last b) (bc_now b + d) (bc_pending b), None)
  | BCheck =>
      if bc_due timeout b then (mkBC [] (bc_now b) (bc_now b) (bc_pending b), Some (bc_buf b)) else (b, None)
  | BProbe c =>
      if bc_due timeout b && negb (mem_nat c (bc_pending b))
      then (mkBC (bc_buf b) (bc_last b) (bc_now b) (c :: bc_pending b), None)
      else (b, None)
  | BDrain c =>
      if mem_nat c (bc_pending b) then
        if is_nil (bc_buf b) then (mkBC (bc_buf b) (bc_last b) (bc_now b) (remove_nat c (bc_pending b)), None)
        else (mkBC [] (bc_now b) (bc_now b) (remove_nat c (bc_pending b)), Some (bc_buf b))
      else (b, None)
  end.

(* a history: the final state and what every operation returned *)
Fixpoint bc_run {A} (maxb timeout : N) (b : bcoll A) (ops : list (bop A)) : bcoll A * list (option (list A)) :=
  match ops with
  | [] => (b, [])
  | o :: r =>
      let '(b1, out) := bc_step maxb timeout b o in
      let '(bf, outs) := bc_run maxb timeout b1 r in
      (bf, out :: outs)
  end.

Fixpoint badded {A} (ops : list (bop A)) : list A :=
  match ops with
  | [] => []
  | BAdd x :: r => x :: badded r
  | _ :: r => badded r
  end.

(* ------------------------------------------------------------------ *)
(* evaluation of harness cases                                         *)
(* ------------------------------------------------------------------ *)

(* the stage of Model.v with its outcomes told apart: x = 13 (mod 16) fails with error 1; with `slow`
   x = 7 (mod 32) takes longer than the stage timeout; with `panics` x = 30 (mod 64) panics *)
Definition stage_s (slow panics : bool) (x : Z) : sres Z :=
  if panics && (x mod 64 =? 30)%Z then SPanic
  else if slow && (x mod 32 =? 7)%Z then STimeout
  else match stage x with Some y => SOk y | None => SFail 1 end.

Definition err_code (e : perr) : Z :=
  match e with EStage e => Z.of_N e | ETimeout => 2%Z | EBatchTimeout => 3%Z | EJoin => 4%Z | ENoStages => 5%Z end.
Definition obs_cres (r : cres (list Z)) : list Z :=
  match r with COk l => 1%Z :: l | CErr e => [0%Z; err_code e] | CPanic => [(-3)%Z] end.
Definition obs_cres1 (r : cres Z) : list Z :=
  match r with COk y => [1%Z; y] | CErr e => [0%Z; err_code e] | CPanic => [(-3)%Z] end.
Definition obs_pstats (s : pstats) : list Z := [Z.of_N (ps_in_flight s); Z.of_N (ps_processed s)].

(* kind 12: Pipeline::process_batch, a = path (0 item by item, 1 the default process_batch under one timeout,
   2 a batch function that maps the stage over the batch: no timeouts inside), b = 1 when the stage is slow
   on x = 7 (mod 32): result with the identity of the error, then items_in_flight and total_processed *)
Definition case_pbatch (path slow : N) (xs : list Z) : list Z :=
  let f := stage_s (negb (slow =? 0)) false in
  let '(r, st) := process_batch (if path =? 0 then 0 else 1) f xs (mkPS 0 0) in
  obs_cres r ++ [(-7)%Z] ++ obs_pstats st.

(* kind 13: execute_single then execute_two_stage (slow stage, then the plain stage) on the same pipeline *)
Definition case_single (x : Z) : list Z :=
  let '(r1, st1) := exec_single (stage_s true false) x (mkPS 0 0) in
  let '(r2, st2) := exec_two_stage (stage_s true false) (stage_s false false) x st1 in
  obs_cres1 r1 ++ obs_cres1 r2 ++ [(-7)%Z] ++ obs_pstats st2.

(* kind 14: execute_stream with k stages (flags bit 0: the first one is slow, bit 1: x = 30 (mod 64) panics),
   round-robin schedule.  The verdict does not depend on the schedule (pipeline_error_surfaces); which error is returned
   does when several stages can fail, so the error the implementation returned (code) is checked for being the
   error of the first failing item of some stage in the sequential run. *)
Fixpoint first_err {A} (f : A -> sres A) (l : list A) : option perr :=
  match l with
  | [] => None
  | x :: r => match err_of (f x) with Some e => Some e | None => first_err f r end
  end.
Fixpoint possible_errs {A} (fs : list (A -> sres A)) (cur : list A) : list perr :=
  match fs with
  | [] => []
  | f :: r => (match first_err f cur with Some e => [e] | None => [] end) ++ possible_errs r (mapwhile (erase_f f) cur)
  end.

Definition case_pstream (k : N) (flags : N) (code : Z) (xs : list Z) : list Z :=
  let kn := N.to_nat k in
  let slow := N.odd flags in
  let panics := N.odd (flags / 2) in
  let fs := match kn with
            | O => []
            | S r => stage_s slow panics :: repeat (stage_s false panics) r
            end in
  let sched := concat (repeat (seq 0 kn) (length xs + kn + 2)) in
  let st := pstream_run fs xs sched in
  match exec_stream_result fs st with
  | None => [(-9)%Z]
  | Some None => 1%Z :: pstream_output fs xs st
  | Some (Some e) =>
      let poss := map err_code (possible_errs fs xs) in
      [0%Z; if existsb (Z.eqb code) poss then code else (-99)%Z]
  end.

(* kind 15: a BatchCollector history with a clock: 1000+x = add x, 1 = flush, 2 = check_timeout,
   3 = the clock advances by `tick`; a = max_batch_size, b = 1000 * timeout + tick.  Every batch an operation
   returns (the code of the operation, the items, -1), then -2 and the buffer *)
Fixpoint dec_bops (tick : N) (ops : list Z) : list (bop Z) :=
  match ops with
  | [] => []
  | o :: r =>
      (if (1000 <=? o)%Z then BAdd (o - 1000)%Z
       else if (o =? 1)%Z then BFlush
       else if (o =? 2)%Z then BCheck
       else BTick tick) :: dec_bops tick r
  end.
Fixpoint obs_batches (ops : list Z) (outs : list (option (list Z))) : list Z :=
  match ops, outs with
  | o :: r, Some b :: ro => (if (1000 <=? o)%Z then 1000%Z else o) :: b ++ [(-1)%Z] ++ obs_batches r ro
  | _ :: r, None :: ro => obs_batches r ro
  | _, _ => []
  end.
Definition case_bcoll (maxb : N) (tt : N) (ops : list Z) : list Z :=
  let '(b, outs) := bc_run maxb (tt / 1000) bc_init (dec_bops (tt mod 1000) ops) in
  obs_batches ops outs ++ [(-2)%Z] ++ bc_buf b.
