(* C18: Pipeline::process_batch / execute_single / execute_two_stage and BatchCollector (ModelPipe.v). *)
From ZV.Common Require Import Base.
From ZV.C18 Require Import Model ModelPipe.
Open Scope N_scope.

(* ---- process_batch ---- *)
Section BatchLoop.
  Context {A B : Type}.
  Variable f : A -> sres B.
  Variable tmo : perr.

  (* what the error of a non-Ok item is in this loop *)
  Definition item_err (x : A) : option perr :=
    match f x with SOk _ => None | SFail e => Some (EStage e) | STimeout => Some tmo | SPanic => None end.

  Lemma batch_loop_ok xs l : batch_loop f tmo xs = COk l -> Forall2 (fun x y => f x = SOk y) xs l.
  Proof.
    revert l. induction xs as [|x r IH]; intros l H; cbn [batch_loop] in H.
    - inversion H. constructor.
    - destruct (f x) as [y|e| |] eqn:E; try discriminate.
      destruct (batch_loop f tmo r) as [l'|e'|] eqn:E2; try discriminate. inversion H; subst.
      constructor; [exact E|]. apply IH. reflexivity.
  Qed.

  Lemma batch_loop_all_ok xs (g : A -> B) : (forall x, In x xs -> f x = SOk (g x)) -> batch_loop f tmo xs = COk (map g xs).
  Proof.
    induction xs as [|x r IH]; intros H; cbn [batch_loop map]; [reflexivity|].
    rewrite (H x (or_introl eq_refl)). rewrite IH; [reflexivity|]. intros y Hy. apply H. right. exact Hy.
  Qed.

  (* an error is the error of the first item that is not Ok, and every item before it succeeded *)
  Lemma batch_loop_err xs e : batch_loop f tmo xs = CErr e ->
    exists pre x post, xs = pre ++ x :: post /\ (forall z, In z pre -> exists y, f z = SOk y) /\ item_err x = Some e.
  Proof.
    induction xs as [|x r IH]; intros H; cbn [batch_loop] in H; [discriminate|].
    destruct (f x) as [y|e0| |] eqn:E; try discriminate.
    - destruct (batch_loop f tmo r) as [l'|e'|] eqn:E2; try discriminate. inversion H; subst e'.
      destruct (IH eq_refl) as [pre [x0 [post [Hxs [Hpre Hx0]]]]].
      exists (x :: pre), x0, post. split; [rewrite Hxs; reflexivity|]. split; [|exact Hx0].
      intros z [<-|Hz]; [exists y; exact E|apply Hpre; exact Hz].
    - inversion H; subst. exists [], x, r. split; [reflexivity|]. split; [intros z []|].
      unfold item_err. rewrite E. reflexivity.
    - inversion H; subst. exists [], x, r. split; [reflexivity|]. split; [intros z []|].
      unfold item_err. rewrite E. reflexivity.
  Qed.

  Lemma batch_loop_bad xs : (exists x, In x xs /\ forall y, f x <> SOk y) -> forall l, batch_loop f tmo xs <> COk l.
  Proof.
    intros [x [Hin Hb]] l H. apply batch_loop_ok in H.
    clear -H Hin Hb. induction H as [|a b xs l Hab HF IH]; [destruct Hin|].
    destruct Hin as [<-|Hin]; [exact (Hb b Hab)|apply IH; exact Hin].
  Qed.
End BatchLoop.

Definition batch_tmo (path : N) : perr := if path =? 0 then ETimeout else EBatchTimeout.

Lemma list_eq_nil_dec {A} (l : list A) : {l = []} + {l <> []}.
Proof. destruct l; [left; reflexivity|right; discriminate]. Qed.

Definition process_batch_body {A B} (path : N) (f : A -> sres B) (xs : list A) (st : pstats) : cres (list B) * pstats :=
  let n := nlen xs in
  let st1 := mkPS (ps_in_flight st + n) (ps_processed st) in
  let done := mkPS (ps_in_flight st1 - n) (ps_processed st1 + n) in
  if path =? 0 then
    match batch_loop f ETimeout xs with
    | COk l => (COk l, done)
    | other => (other, st1)
    end
  else
    match batch_loop f EBatchTimeout xs with
    | COk l => (COk l, done)
    | CErr EBatchTimeout => (CErr EBatchTimeout, st1)
    | CErr e => (CErr e, done)
    | CPanic => (CPanic, st1)
    end.

Lemma process_batch_cons {A B} (path : N) (f : A -> sres B) (xs : list A) (st : pstats) :
  xs <> [] -> process_batch path f xs st = process_batch_body path f xs st.
Proof. destruct xs; [congruence|reflexivity]. Qed.

Lemma process_batch_proof : forall (A B : Type) (path : N) (f : A -> sres B) (xs : list A) (st : pstats) r st',
  process_batch path f xs st = (r, st') ->
  (forall l, r = COk l ->
     Forall2 (fun x y => f x = SOk y) xs l /\
     ps_processed st' = ps_processed st + nlen xs /\ ps_in_flight st' = ps_in_flight st) /\
  ((exists x, In x xs /\ forall y, f x <> SOk y) -> forall l, r <> COk l) /\
  (forall e, r = CErr e ->
     exists pre x post, xs = pre ++ x :: post /\ (forall z, In z pre -> exists y, f z = SOk y) /\
                        item_err f (batch_tmo path) x = Some e).
Proof.
  intros A B path f xs st r st' H.
  destruct (list_eq_nil_dec xs) as [Exs|Hne].
  { subst xs. cbn [process_batch] in H. inversion H; subst. split; [|split].
    - intros l Hl. inversion Hl; subst. split; [constructor|]. cbn [nlen]. split; [lia|reflexivity].
    - intros [x [[] _]].
    - intros e He. discriminate. }
  rewrite (process_batch_cons path f xs st Hne) in H. unfold process_batch_body in H. unfold batch_tmo.
  destruct (N.eqb_spec path 0) as [Hp|Hp].
  - destruct (batch_loop f ETimeout xs) as [l|e|] eqn:E; inversion H; subst; clear H; (split; [|split]).
    + intros l' Hl. inversion Hl; subst. split; [apply (batch_loop_ok f ETimeout); exact E|].
      cbn [ps_processed ps_in_flight]. split; lia.
    + intros Hb l' Hl. inversion Hl; subst. exact (batch_loop_bad f ETimeout xs Hb l' E).
    + intros e He. discriminate.
    + intros l' Hl. discriminate.
    + intros _ l' Hl. discriminate.
    + intros e' He. inversion He; subst. apply batch_loop_err. exact E.
    + intros l' Hl. discriminate.
    + intros _ l' Hl. discriminate.
    + intros e' He. discriminate.
  - destruct (batch_loop f EBatchTimeout xs) as [l|e|] eqn:E.
    + inversion H; subst; clear H. split; [|split].
      * intros l' Hl. inversion Hl; subst. split; [apply (batch_loop_ok f EBatchTimeout); exact E|].
        cbn [ps_processed ps_in_flight]. split; lia.
      * intros Hb l' Hl. inversion Hl; subst. exact (batch_loop_bad f EBatchTimeout xs Hb l' E).
      * intros e He. discriminate.
    + assert (Hr : r = CErr e) by (destruct e; inversion H; reflexivity). subst r. split; [|split].
      * intros l' Hl. discriminate.
      * intros _ l' Hl. discriminate.
      * intros e' He. inversion He; subst. apply batch_loop_err. exact E.
    + inversion H; subst. split; [|split]; intros; discriminate.
Qed.

(* execute_single / execute_two_stage: the value of the stage (composition), or its error *)
Lemma exec_two_stage_proof : forall (A B C : Type) (f1 : A -> sres B) (f2 : B -> sres C) (x : A) (st : pstats),
  fst (exec_two_stage f1 f2 x st) =
    match f1 x with
    | SOk y => match f2 y with SOk z => COk z | SFail e => CErr (EStage e) | STimeout => CErr ETimeout | SPanic => CPanic end
    | SFail e => CErr (EStage e)
    | STimeout => CErr ETimeout
    | SPanic => CPanic
    end.
Proof.
  intros A B C f1 f2 x st. unfold exec_two_stage, exec_single.
  destruct (f1 x) as [y|e| |]; try reflexivity. destruct (f2 y); reflexivity.
Qed.

Example process_batch_nontrivial :
  process_batch 0 (stage_s true false) [1; 2]%Z (mkPS 0 0) = (COk [4; 7]%Z, mkPS 0 2) /\
  process_batch 0 (stage_s true false) [1; 7; 13]%Z (mkPS 0 0) = (CErr ETimeout, mkPS 3 0) /\
  process_batch 1 (stage_s true false) [1; 13; 7]%Z (mkPS 0 0) = (CErr (EStage 1), mkPS 0 3).
Proof. vm_compute. auto. Qed.

(* ---- BatchCollector ---- *)
Fixpoint cat_outs {A} (outs : list (option (list A))) : list A :=
  match outs with
  | [] => []
  | Some b :: r => b ++ cat_outs r
  | None :: r => cat_outs r
  end.

Lemma bc_step_order {A} (maxb timeout : N) (b : bcoll A) (o : bop A) b' out :
  bc_step maxb timeout b o = (b', out) ->
  (match out with Some l => l | None => [] end) ++ bc_buf b' = bc_buf b ++ badded [o] /\
  (match out with Some l => l <> [] | None => True end).
Proof.
  intros H. destruct o as [x| |d| |c|c]; cbn [bc_step badded] in H.
  - destruct (maxb <=? nlen (bc_buf b ++ [x])); inversion H; subst; cbn [bc_buf]; split; auto.
    + rewrite app_nil_r. reflexivity.
    + destruct (bc_buf b); discriminate.
  - destruct (bc_buf b) as [|y r] eqn:E; cbn [is_nil] in H; inversion H; subst; cbn [bc_buf]; rewrite ?E; split; auto.
    discriminate.
  - inversion H; subst. cbn [bc_buf]. rewrite app_nil_r. split; auto.
  - unfold bc_due in H. destruct (bc_buf b) as [|y r] eqn:E; cbn [is_nil negb andb] in H.
    + inversion H; subst. rewrite E. split; auto.
    + destruct (timeout <=? bc_now b - bc_last b); inversion H; subst; cbn [bc_buf]; rewrite ?E, ?app_nil_r; split; auto.
      discriminate.
  - destruct (bc_due timeout b && negb (mem_nat c (bc_pending b))); inversion H; subst; cbn [bc_buf]; rewrite app_nil_r; split; auto.
  - destruct (mem_nat c (bc_pending b)); [|inversion H; subst; rewrite app_nil_r; split; auto].
    destruct (bc_buf b) as [|y r] eqn:E; cbn [is_nil] in H; inversion H; subst; cbn [bc_buf]; rewrite ?E, ?app_nil_r; split; auto.
    discriminate.
Qed.

Lemma badded_cons {A} (o : bop A) r : badded (o :: r) = badded [o] ++ badded r.
Proof. destruct o; reflexivity. Qed.

Lemma bc_run_order {A} (maxb timeout : N) (ops : list (bop A)) : forall b bf outs,
  bc_run maxb timeout b ops = (bf, outs) ->
  cat_outs outs ++ bc_buf bf = bc_buf b ++ badded ops /\
  Forall (fun o => match o with Some l => l <> [] | None => True end) outs /\
  length outs = length ops.
Proof.
  induction ops as [|o r IH]; intros b bf outs H; cbn [bc_run] in H.
  - inversion H; subst. cbn [cat_outs badded app length]. rewrite app_nil_r. split; [reflexivity|]. split; [constructor|reflexivity].
  - destruct (bc_step maxb timeout b o) as [b1 out] eqn:E1.
    destruct (bc_run maxb timeout b1 r) as [bf' outs'] eqn:E2. inversion H; subst.
    destruct (IH _ _ _ E2) as [I1 [I2 I3]]. destruct (bc_step_order _ _ _ _ _ _ E1) as [S1 S2].
    split; [|split].
    + rewrite badded_cons, app_assoc, <- S1. destruct out as [l|]; cbn [cat_outs]; rewrite <- ?app_assoc, I1; reflexivity.
    + constructor; assumption.
    + cbn [length]. rewrite I3. reflexivity.
Qed.

(* sizes: with max_batch_size >= 1 the buffer stays below it, so no batch is longer than it; a batch
   returned by add has exactly max_batch_size items *)
Lemma bc_step_sizes {A} (maxb timeout : N) (b : bcoll A) (o : bop A) b' out :
  0 < maxb -> nlen (bc_buf b) < maxb -> bc_step maxb timeout b o = (b', out) ->
  nlen (bc_buf b') < maxb /\
  (match out with Some l => nlen l <= maxb /\ (match o with BAdd _ => nlen l = maxb | _ => nlen l < maxb end) | None => True end).
Proof.
  intros Hm Hb H. destruct o as [x| |d| |c|c]; cbn [bc_step] in H.
  - destruct (N.leb_spec maxb (nlen (bc_buf b ++ [x]))) as [Hle|Hgt]; inversion H; subst; cbn [bc_buf nlen];
      rewrite ?nlen_app in *; cbn [nlen] in *; split; try lia; auto.
  - destruct (is_nil (bc_buf b)); inversion H; subst; cbn [bc_buf nlen]; split; try lia; auto.
  - inversion H; subst. cbn [bc_buf]. split; auto.
  - destruct (bc_due timeout b); inversion H; subst; cbn [bc_buf nlen]; split; try lia; auto.
  - destruct (bc_due timeout b && negb (mem_nat c (bc_pending b))); inversion H; subst; cbn [bc_buf]; split; auto.
  - destruct (mem_nat c (bc_pending b)); [|inversion H; subst; split; auto].
    destruct (is_nil (bc_buf b)); inversion H; subst; cbn [bc_buf nlen]; split; try lia; auto.
Qed.

Lemma bc_run_sizes {A} (maxb timeout : N) (ops : list (bop A)) : forall b bf outs,
  0 < maxb -> nlen (bc_buf b) < maxb -> bc_run maxb timeout b ops = (bf, outs) ->
  nlen (bc_buf bf) < maxb /\ Forall (fun o => match o with Some l => nlen l <= maxb | None => True end) outs.
Proof.
  induction ops as [|o r IH]; intros b bf outs Hm Hb H; cbn [bc_run] in H.
  - inversion H; subst. split; [exact Hb|constructor].
  - destruct (bc_step maxb timeout b o) as [b1 out] eqn:E1.
    destruct (bc_run maxb timeout b1 r) as [bf' outs'] eqn:E2. inversion H; subst.
    destruct (bc_step_sizes _ _ _ _ _ _ Hm Hb E1) as [S1 S2].
    destruct (IH _ _ _ Hm S1 E2) as [I1 I2]. split; [exact I1|]. constructor; [|exact I2].
    destruct out as [l|]; [exact (proj1 S2)|exact I].
Qed.

(* a timeout flush is never early: an undisturbed check_timeout returns a batch only when the buffer is
   non-empty and at least batch_timeout has passed since the last flush; otherwise it returns nothing
   and changes nothing *)
Lemma bc_check_due {A} (maxb timeout : N) (b : bcoll A) :
  (bc_due timeout b = true -> bc_step maxb timeout b BCheck = (mkBC [] (bc_now b) (bc_now b) (bc_pending b), Some (bc_buf b))
                              /\ bc_buf b <> [] /\ timeout <= bc_now b - bc_last b) /\
  (bc_due timeout b = false -> bc_step maxb timeout b BCheck = (b, None)).
Proof.
  cbn [bc_step]. split; intros H; rewrite H; [|reflexivity]. split; [reflexivity|].
  unfold bc_due in H. apply andb_prop in H. destruct H as [H1 H2].
  split; [destruct (bc_buf b); [discriminate|discriminate]|]. apply N.leb_le. exact H2.
Qed.

Lemma batch_collector_proof : forall (A : Type) (maxb timeout : N) (ops : list (bop A)) bf outs,
  bc_run maxb timeout bc_init ops = (bf, outs) ->
  cat_outs outs ++ bc_buf bf = badded ops /\
  length outs = length ops /\
  Forall (fun o => match o with Some l => l <> [] | None => True end) outs /\
  (0 < maxb -> nlen (bc_buf bf) < maxb /\ Forall (fun o => match o with Some l => nlen l <= maxb | None => True end) outs).
Proof.
  intros A maxb timeout ops bf outs H.
  destruct (bc_run_order _ _ _ _ _ _ H) as [O1 [O2 O3]]. cbn [bc_init bc_buf app] in O1.
  split; [exact O1|]. split; [exact O3|]. split; [exact O2|].
  intros Hm. apply (bc_run_sizes maxb timeout ops bc_init bf outs Hm); [cbn [bc_init bc_buf nlen]; exact Hm|exact H].
Qed.

Example batch_collector_nontrivial :
  (* max 3, timeout 25: two adds, a check that is too early, time passes, two checkers probe, an add slips in between,
     the first drain takes all three items in order, the second finds nothing *)
  bc_run 3 25 bc_init [BAdd 1%Z; BAdd 2%Z; BCheck; BTick 30; BProbe 0; BProbe 1; BTick 1; BDrain 0; BAdd 3%Z; BDrain 1; BFlush]
  = (mkBC [] 31 31 [], [None; None; None; None; None; None; None; Some [1; 2]%Z; None; Some [3%Z]; None]).
Proof. vm_compute. reflexivity. Qed.
