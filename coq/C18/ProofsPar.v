(* C18: ordered collection - parallel_map, parallel_reduce, BatchCollector. *)
From ZV.Common Require Import Base.
From ZV.C18 Require Import Model.
From Coq Require Import Permutation.
Open Scope N_scope.

Section ParProofs.
  Context {A B : Type}.
  Variable f : A -> option B.

  Lemma lookup_perm {V} (i : nat) (l l' : list (nat * V)) :
    Permutation l l' -> NoDup (map fst l) -> lookup i l = lookup i l'.
  Proof.
    intros HP. induction HP as [|[j v] l l' HP IH|[j1 v1] [j2 v2] l|l l' l'' HP1 IH1 HP2 IH2]; intros Hnd.
    - reflexivity.
    - cbn [lookup]. destruct (Nat.eqb i j); [reflexivity|]. apply IH. inversion Hnd; assumption.
    - cbn [lookup]. destruct (Nat.eqb i j2) eqn:E2; destruct (Nat.eqb i j1) eqn:E1; try reflexivity.
      apply Nat.eqb_eq in E1, E2. subst. cbn [map fst] in Hnd. inversion Hnd as [|? ? Hnin _]; subst.
      exfalso. apply Hnin. left. reflexivity.
    - rewrite IH1 by assumption. apply IH2.
      eapply Permutation_NoDup; [|exact Hnd]. apply Permutation_map. exact HP1.
  Qed.

  Lemma lookup_tagged (xs : list A) : forall s i,
    lookup (s + i) (complete f (combine (seq s (length xs)) xs)) = option_map f (nth_error xs i).
  Proof.
    induction xs as [|x r IH]; intros s i; cbn [length seq combine complete map lookup fst snd].
    - destruct i; reflexivity.
    - destruct i as [|i].
      + rewrite Nat.add_0_r, Nat.eqb_refl. reflexivity.
      + replace (Nat.eqb (s + S i) s) with false by (symmetry; apply Nat.eqb_neq; lia).
        replace (s + S i)%nat with (S s + i)%nat by lia. apply (IH (S s) i).
  Qed.

  Lemma fst_complete (l : list (nat * A)) : map fst (complete f l) = map fst l.
  Proof. unfold complete. rewrite map_map. reflexivity. Qed.

  Lemma fst_combine_seq (xs : list A) : forall s, map fst (combine (seq s (length xs)) xs) = seq s (length xs).
  Proof. induction xs as [|x r IH]; intros s; cbn [length seq combine map fst]; [reflexivity|]. rewrite IH. reflexivity. Qed.

  Lemma lookup_sched (xs : list A) (sched : list (nat * A)) i :
    Permutation sched (tagged xs) ->
    lookup i (complete f sched) = option_map f (nth_error xs i).
  Proof.
    intros HP. rewrite <- (lookup_tagged xs 0 i). cbn [Nat.add].
    symmetry. apply lookup_perm.
    - apply Permutation_map. symmetry. exact HP.
    - rewrite fst_complete. unfold tagged. rewrite fst_combine_seq. apply seq_NoDup.
  Qed.

  Definition of_seq (o : option (list B)) : res (list B) :=
    match o with Some l => ROk l | None => RErr end.

  Lemma await_from_spec (xs : list A) (sched : list (nat * A)) :
    Permutation sched (tagged xs) ->
    forall n i, (i + n = length xs)%nat ->
      await_from i n (complete f sched) = of_seq (seq_map f (skipn i xs)).
  Proof.
    intros HP. induction n as [|n IH]; intros i Hi; cbn [await_from].
    - rewrite skipn_all2 by lia. reflexivity.
    - rewrite (lookup_sched xs sched i HP).
      destruct (nth_error xs i) as [x|] eqn:Hx.
      2:{ apply nth_error_None in Hx. lia. }
      assert (Hs : skipn i xs = x :: skipn (S i) xs).
      { clear -Hx. revert i Hx. induction xs as [|a r IHr]; intros [|i] Hx; cbn [nth_error] in Hx; try discriminate.
        - inversion Hx; reflexivity.
        - cbn [skipn]. apply IHr. exact Hx. }
      rewrite Hs. cbn [option_map seq_map].
      destruct (f x) as [b|]; [|reflexivity].
      rewrite (IH (S i)) by lia.
      destruct (seq_map f (skipn (S i) xs)); reflexivity.
  Qed.

  (* order_preserved + error_surfaces: whatever order the tasks complete in, the collected result is
     the sequential application in input order; a failing item gives RErr - never a shorter or shifted
     Ok vector, never a lost handle *)
  Lemma parallel_map_spec (xs : list A) (sched : list (nat * A)) :
    Permutation sched (tagged xs) ->
    parallel_map f xs sched = of_seq (seq_map f xs).
  Proof.
    intros HP. unfold parallel_map.
    rewrite (await_from_spec xs sched HP (length xs) 0) by lia. reflexivity.
  Qed.

  Lemma seq_map_all_ok (xs : list A) (g : A -> B) :
    (forall x, In x xs -> f x = Some (g x)) -> seq_map f xs = Some (map g xs).
  Proof.
    induction xs as [|x r IH]; intros H; cbn [seq_map map]; [reflexivity|].
    rewrite (H x (or_introl eq_refl)). rewrite IH; [reflexivity|]. intros y Hy. apply H. right. exact Hy.
  Qed.

  Lemma seq_map_fail (xs : list A) : (exists x, In x xs /\ f x = None) -> seq_map f xs = None.
  Proof.
    induction xs as [|x r IH]; intros [y [Hy Hf]]; [destruct Hy|].
    cbn [seq_map]. destruct Hy as [Hy|Hy].
    - subst y. rewrite Hf. reflexivity.
    - destruct (f x); [|reflexivity]. rewrite IH; [reflexivity|]. exists y. split; assumption.
  Qed.
End ParProofs.

Lemma order_preserved_proof : forall (A B : Type) (g : A -> B) (f : A -> option B) xs sched,
  Permutation sched (tagged xs) ->
  (forall x, In x xs -> f x = Some (g x)) ->
  parallel_map f xs sched = ROk (map g xs).
Proof.
  intros A B g f xs sched HP Hok. rewrite (parallel_map_spec f xs sched HP).
  rewrite (seq_map_all_ok f xs g Hok). reflexivity.
Qed.

Lemma error_surfaces_proof : forall (A B : Type) (f : A -> option B) xs sched,
  Permutation sched (tagged xs) ->
  (exists x, In x xs /\ f x = None) ->
  parallel_map f xs sched = RErr.
Proof.
  intros A B f xs sched HP Hf. rewrite (parallel_map_spec f xs sched HP).
  rewrite (seq_map_fail f xs Hf). reflexivity.
Qed.

Example order_preserved_nontrivial :
  parallel_map stage [1; 2; 3]%Z [(2%nat, 3%Z); (0%nat, 1%Z); (1%nat, 2%Z)] = ROk [4; 7; 10]%Z
  /\ Permutation [(2%nat, 3%Z); (0%nat, 1%Z); (1%nat, 2%Z)] (tagged [1; 2; 3]%Z).
Proof.
  split; [vm_compute; reflexivity|]. unfold tagged; cbn [length seq combine].
  apply Permutation_sym. apply Permutation_cons_app with (l1 := [(2%nat, 3%Z)]) (l2 := [(1%nat, 2%Z)]).
  apply perm_swap.
Qed.

(* ---- reduce ---- *)
Lemma chunks_concat {T : Type} (k : nat) : (0 < k)%nat -> forall fuel (xs : list T),
  (length xs <= fuel)%nat -> concat (chunks_fuel fuel k xs) = xs.
Proof.
  intros Hk. induction fuel as [|fu IH]; intros xs Hl; cbn [chunks_fuel].
  - destruct xs; [reflexivity|cbn [length] in Hl; lia].
  - destruct xs as [|x r]; [reflexivity|].
    cbn [concat]. rewrite IH.
    + apply firstn_skipn.
    + rewrite skipn_length. cbn [length] in *. lia.
Qed.

Section ReduceProofs.
  Context {T : Type}.
  Variable g : T -> T -> T.
  Variable ident : T.
  Hypothesis g_assoc : forall a b c, g (g a b) c = g a (g b c).
  Hypothesis g_left : forall a, g ident a = a.
  Hypothesis g_right : forall a, g a ident = a.
  Let op (a b : T) : option T := Some (g a b).

  Lemma fold_opt_total xs : forall acc, fold_opt op acc xs = Some (fold_left g xs acc).
  Proof. induction xs as [|x r IH]; intros acc; cbn [fold_opt fold_left]; [reflexivity|]. unfold op at 1. apply IH. Qed.

  Lemma fold_left_shift xs : forall a, fold_left g xs a = g a (fold_left g xs ident).
  Proof.
    induction xs as [|x r IH]; intros a; cbn [fold_left].
    - rewrite g_right. reflexivity.
    - rewrite (IH (g a x)), (IH (g ident x)). rewrite g_left, g_assoc. reflexivity.
  Qed.

  Lemma fold_left_concat (cs : list (list T)) :
    fold_left g (map (fun c => fold_left g c ident) cs) ident = fold_left g (concat cs) ident.
  Proof.
    induction cs as [|c r IH]; cbn [map concat fold_left]; [reflexivity|].
    rewrite g_left. rewrite fold_left_app.
    rewrite (fold_left_shift (map _ r)), IH. symmetry. apply fold_left_shift.
  Qed.

  Lemma all_some_total (cs : list (list T)) :
    all_some (map (fold_opt op ident) cs) = Some (map (fun c => fold_left g c ident) cs).
  Proof.
    induction cs as [|c r IH]; cbn [map all_some]; [reflexivity|].
    rewrite fold_opt_total, IH. reflexivity.
  Qed.

  (* reduce_spec: for an associative function with a two-sided identity, chunking the input by any
     positive chunk size and folding the partial results gives the sequential left fold *)
  Lemma parallel_reduce_spec (k : nat) (xs : list T) :
    (0 < k)%nat -> parallel_reduce_k op ident k xs = Some (fold_left g xs ident).
  Proof.
    intros Hk. unfold parallel_reduce_k. destruct xs as [|x r] eqn:E; [reflexivity|]. rewrite <- E.
    rewrite all_some_total, fold_opt_total, fold_left_concat.
    unfold chunks. rewrite (chunks_concat k Hk) by lia. reflexivity.
  Qed.
End ReduceProofs.

Lemma reduce_proof : forall (T : Type) (g : T -> T -> T) (ident : T),
  (forall a b c, g (g a b) c = g a (g b c)) -> (forall a, g ident a = a) -> (forall a, g a ident = a) ->
  forall max_workers ncpu xs,
    parallel_reduce_k (fun a b => Some (g a b)) ident (fiber_chunk max_workers (length xs)) xs = Some (fold_left g xs ident) /\
    ((0 < ncpu)%nat -> parallel_reduce_k (fun a b => Some (g a b)) ident (global_chunk ncpu (length xs)) xs = Some (fold_left g xs ident)).
Proof.
  intros T g ident Ha Hl Hr mw ncpu xs. split.
  - apply parallel_reduce_spec; try assumption. unfold fiber_chunk. lia.
  - intros Hn. destruct xs as [|x r]; [reflexivity|].
    apply parallel_reduce_spec; try assumption. unfold global_chunk. cbn [length].
    apply Nat.div_str_pos. lia.
Qed.

(* a failing step surfaces: if some item makes the function fail whatever the accumulator, the chunked
   reduce fails too (`?` in the chunk fold, try_join_all / join_all over the handles) *)
Section ReduceFail.
  Context {T : Type}.
  Variable op : T -> T -> option T.
  Variable ident : T.

  Lemma fold_opt_fail x c : In x c -> (forall a, op a x = None) -> forall acc, fold_opt op acc c = None.
  Proof.
    induction c as [|y r IH]; intros Hin Hf acc; [destruct Hin|]. cbn [fold_opt].
    destruct Hin as [->|Hin]; [rewrite Hf; reflexivity|].
    destruct (op acc y); [apply IH; assumption|reflexivity].
  Qed.

  Lemma all_some_none (l : list (option T)) : In None l -> all_some l = None.
  Proof.
    induction l as [|[y|] r IH]; intros H; [destruct H| |reflexivity].
    cbn [all_some]. destruct H as [H|H]; [discriminate|]. rewrite IH by assumption. reflexivity.
  Qed.

  Lemma reduce_fail_proof k xs x :
    (0 < k)%nat -> In x xs -> (forall a, op a x = None) -> parallel_reduce_k op ident k xs = None.
  Proof.
    intros Hk Hin Hf. unfold parallel_reduce_k. destruct xs as [|x0 r] eqn:E; [destruct Hin|]. rewrite <- E in *.
    assert (Hc : In x (concat (chunks k xs))).
    { unfold chunks. rewrite (chunks_concat k Hk) by lia. exact Hin. }
    apply in_concat in Hc. destruct Hc as [c [Hc Hx]].
    rewrite all_some_none; [reflexivity|].
    apply in_map_iff. exists c. split; [|exact Hc]. apply fold_opt_fail with (x := x); assumption.
  Qed.
End ReduceFail.

Lemma reduce_error_proof : forall (T : Type) (op : T -> T -> option T) (ident : T) max_workers ncpu xs x,
  In x xs -> (forall a, op a x = None) ->
  parallel_reduce_k op ident (fiber_chunk max_workers (length xs)) xs = None /\
  ((0 < ncpu)%nat -> parallel_reduce_k op ident (global_chunk ncpu (length xs)) xs = None).
Proof.
  intros T op ident mw ncpu xs x Hin Hf. split.
  - apply reduce_fail_proof with (x := x); try assumption. unfold fiber_chunk. lia.
  - intros Hn. apply reduce_fail_proof with (x := x); try assumption.
    unfold global_chunk. destruct xs as [|y r]; [destruct Hin|]. cbn [length]. apply Nat.div_str_pos. lia.
Qed.

Example reduce_nontrivial :
  parallel_reduce_k (fun a b : list Z => Some (a ++ b)) [] 2 [[1]; [2]; [3]; [4]; [5]]%Z = Some [1; 2; 3; 4; 5]%Z.
Proof. vm_compute. reflexivity. Qed.

(* ---- BatchCollector ---- *)
Fixpoint added {A} (ops : list (option A)) : list A :=
  match ops with [] => [] | Some x :: r => x :: added r | None :: r => added r end.

Lemma coll_run_order {A} (maxb : N) (ops : list (option A)) : forall c,
  concat (cout (coll_run maxb c ops)) ++ cbuf (coll_run maxb c ops) = concat (cout c) ++ cbuf c ++ added ops.
Proof.
  induction ops as [|[x|] r IH]; intros c; cbn [coll_run added].
  - rewrite app_nil_r. reflexivity.
  - rewrite IH. unfold coll_add. destruct (maxb <=? nlen (cbuf c ++ [x])); cbn [cout cbuf].
    + rewrite concat_app. cbn [concat app]. rewrite app_nil_r, <- !app_assoc. reflexivity.
    + rewrite <- !app_assoc. reflexivity.
  - rewrite IH. unfold coll_flush. destruct (cbuf c) as [|b bs] eqn:E; [rewrite E; reflexivity|].
    cbn [cout cbuf]. rewrite concat_app. cbn [concat app]. rewrite app_nil_r, <- !app_assoc. reflexivity.
Qed.

Definition coll_ok {A} (maxb : N) (c : coll A) : Prop :=
  Forall (fun b => b <> [] /\ nlen b <= maxb) (cout c) /\ nlen (cbuf c) < maxb.

Lemma coll_run_sizes {A} (maxb : N) (ops : list (option A)) : forall c,
  coll_ok maxb c -> coll_ok maxb (coll_run maxb c ops).
Proof.
  induction ops as [|[x|] r IH]; intros c [Ho Hb]; cbn [coll_run]; [split; assumption| |].
  - apply IH. unfold coll_add. destruct (maxb <=? nlen (cbuf c ++ [x])) eqn:E; split; cbn [cout cbuf].
    + apply Forall_app. split; [exact Ho|]. constructor; [|constructor].
      split; [destruct (cbuf c); discriminate|]. rewrite nlen_app in *. cbn [nlen] in *. lia.
    + cbn [nlen]. lia.
    + exact Ho.
    + lia.
  - apply IH. unfold coll_flush. destruct (cbuf c) as [|b bs] eqn:E; [split; [exact Ho|rewrite E; exact Hb]|].
    split; cbn [cout cbuf].
    + apply Forall_app. split; [exact Ho|]. constructor; [|constructor]. split; [discriminate|lia].
    + cbn [nlen]. lia.
Qed.

(* collector_order: the emitted batches followed by the buffer are exactly the added items in order
   (nothing lost, duplicated or reordered); no batch is empty or longer than max_batch_size *)
Lemma collector_proof : forall (A : Type) (maxb : N) (ops : list (option A)),
  let c := coll_run maxb (mkC [] []) ops in
  concat (cout c) ++ cbuf c = added ops /\
  (0 < maxb -> Forall (fun b => b <> [] /\ nlen b <= maxb) (cout c) /\ nlen (cbuf c) < maxb).
Proof.
  intros A maxb ops. cbv zeta. split.
  - rewrite coll_run_order. reflexivity.
  - intros Hm. apply coll_run_sizes. split; [constructor|cbn [cbuf nlen]; exact Hm].
Qed.

Example collector_nontrivial :
  let c := coll_run 2 (mkC [] []) [Some 1%Z; Some 2%Z; Some 3%Z; None; Some 4%Z] in
  cout c = [[1; 2]; [3]]%Z /\ cbuf c = [4%Z].
Proof. vm_compute. auto. Qed.
