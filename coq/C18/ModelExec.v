(* C18 mechanism model, WorkStealingExecutor at the granularity of its atomic operations
   (src/concurrency/work_stealing.rs as written).  Definitions only.

   submit():  worker_id = next_worker.fetch_add(1) % workers.len();                       \ XProbe: one step - the fetch_add and the
              can_use_local = { lock local_queue; len < capacity };                       / capacity probe (the lock is released again)
              if can_use_local { push_local(task) -> Ok | Err("local queue push failed") }   XPush: push_local's own critical section
              else { lock global_queue; len < 10000 -> insert by priority | Err }             XGlobal
   Several threads may be inside submit() at once (x_subs: one slot per submitting thread); between the
   probe and the push another thread can fill the queue - then push_local fails and the task is dropped
   with an error (rejected, not accepted).

   worker_loop(): find_task (any of the critical sections PopLocal / PopOwnSteal / PopGlobal / StealFrom /
              StealQ / StealL of Model.v: XTake) -> the worker holds the task (PhFound);
              active_tasks += 1 (XActivate, PhRun); task.execute().await (XExecute, PhExecuted: the task has run);
              total_executed += 1 (XCount, PhCounted); active_tasks -= 1 (XDeactivate, PhBal);
              if total_executed % 100 == 0 { my_queue.balance() } (XBalCheck, back to PhIdle).
              find_task returning None goes straight to the balance check (XNone).
   is_idle() = active_tasks == 0 && total_queued() == 0, exactly as written: a task a worker holds between
   find_task and active_tasks += 1 (PhFound) is neither queued nor active.

   The queues, the global queue, next_worker, the task each worker holds and the executed list are the
   `exec` record of Model.v; every queue operation is the corresponding Model.wstep, so the queue-level
   lemmas apply unchanged. *)
From ZV.Common Require Import Base Run.
From ZV.C18 Require Import Model.
Open Scope N_scope.

Inductive wph : Type := PhIdle | PhFound | PhRun | PhExecuted | PhCounted | PhBal.
Inductive sph : Type := SbIdle | SbLocal (w : nat) (t : task) | SbGlobal (t : task).

Record xexec : Type := mkX {
  x_e : exec;
  x_ph : list wph;        (* where each worker_loop is *)
  x_subs : list sph;      (* the threads inside submit() *)
  x_active : N;           (* stats.active_tasks *)
  x_executed : N;         (* stats.total_executed *)
  x_acc : list task;      (* ghost: submissions that returned Ok *)
  x_rej : list task       (* ghost: submissions that returned Err *)
}.

Inductive xstep : Type :=
| XProbe (s : nat) (t : task)
| XPush (s : nat)
| XGlobal (s : nat)
| XTake (w : nat) (k : step)
| XNone (w : nat)
| XActivate (w : nat)
| XExecute (w : nat)
| XCount (w : nat)
| XDeactivate (w : nat)
| XBalCheck (w : nat)
| XBalance (w : nat).

Definition xinit (nw nsub : nat) : xexec :=
  mkX (init nw) (repeat PhIdle nw) (repeat SbIdle nsub) 0 0 [] [].

Definition ph_eqb (a b : wph) : bool :=
  match a, b with
  | PhIdle, PhIdle | PhFound, PhFound | PhRun, PhRun | PhExecuted, PhExecuted | PhCounted, PhCounted | PhBal, PhBal => true
  | _, _ => false
  end.
Definition phase_is (x : xexec) (w : nat) (p : wph) : bool :=
  match nth_error (x_ph x) w with Some q => ph_eqb q p | None => false end.
Definition set_ph (x : xexec) (w : nat) (p : wph) : xexec :=
  mkX (x_e x) (set_nth w p (x_ph x)) (x_subs x) (x_active x) (x_executed x) (x_acc x) (x_rej x).
Definition set_e (x : xexec) (e : exec) : xexec :=
  mkX e (x_ph x) (x_subs x) (x_active x) (x_executed x) (x_acc x) (x_rej x).
Definition set_sub (x : xexec) (s : nat) (p : sph) : xexec :=
  mkX (x_e x) (x_ph x) (set_nth s p (x_subs x)) (x_active x) (x_executed x) (x_acc x) (x_rej x).

(* the worker a find_task critical section belongs to *)
Definition taker (k : step) : option nat :=
  match k with
  | PopLocal w | PopOwnSteal w | PopGlobal w | StealFrom w _ | StealQ w _ | StealL w _ => Some w
  | _ => None
  end.

Definition xstep_fn (cap : N) (x : xexec) (s : xstep) : xexec :=
  let e := x_e x in
  match s with
  | XProbe sb t =>
      match nth_error (x_subs x) sb with
      | Some SbIdle =>
          let nw := N.of_nat (length (eqs e)) in
          let w := N.to_nat (enext e mod nw) in
          let e1 := mkE (eqs e) (eglob e) (w64 (enext e + 1)) (erun e) (edone e) in
          match nth_error (eqs e) w with
          | Some q =>
              if nlen (qlocal q) <? cap
              then set_sub (set_e x e1) sb (SbLocal w t)
              else set_sub (set_e x e1) sb (SbGlobal t)
          | None => x
          end
      | _ => x
      end
  | XPush sb =>
      match nth_error (x_subs x) sb with
      | Some (SbLocal w t) =>
          match nth_error (eqs e) w with
          | Some q =>
              match push_local cap q t with
              | Some q' =>
                  let x1 := set_sub (set_e x (set_q e w q')) sb SbIdle in
                  mkX (x_e x1) (x_ph x1) (x_subs x1) (x_active x1) (x_executed x1) (x_acc x ++ [t]) (x_rej x)
              | None =>
                  let x1 := set_sub x sb SbIdle in
                  mkX (x_e x1) (x_ph x1) (x_subs x1) (x_active x1) (x_executed x1) (x_acc x) (x_rej x ++ [t])
              end
          | None => x
          end
      | _ => x
      end
  | XGlobal sb =>
      match nth_error (x_subs x) sb with
      | Some (SbGlobal t) =>
          if nlen (eglob e) <? GLOBAL_CAP then
            let e1 := mkE (eqs e) (insert_prio t (eglob e)) (enext e) (erun e) (edone e) in
            let x1 := set_sub (set_e x e1) sb SbIdle in
            mkX (x_e x1) (x_ph x1) (x_subs x1) (x_active x1) (x_executed x1) (x_acc x ++ [t]) (x_rej x)
          else
            let x1 := set_sub x sb SbIdle in
            mkX (x_e x1) (x_ph x1) (x_subs x1) (x_active x1) (x_executed x1) (x_acc x) (x_rej x ++ [t])
      | _ => x
      end
  | XTake w k =>
      match taker k with
      | Some w' =>
          if Nat.eqb w w' && phase_is x w PhIdle && worker_free e w then
            let e1 := wstep true e k in
            if worker_free e1 w then set_e x e1 else set_ph (set_e x e1) w PhFound
          else x
      | None => x
      end
  | XNone w => if phase_is x w PhIdle then set_ph x w PhBal else x
  | XActivate w =>
      if phase_is x w PhFound then
        let x1 := set_ph x w PhRun in
        mkX (x_e x1) (x_ph x1) (x_subs x1) (x_active x + 1) (x_executed x1) (x_acc x1) (x_rej x1)
      else x
  | XExecute w =>
      if phase_is x w PhRun then set_ph (set_e x (wstep true e (Finish w))) w PhExecuted else x
  | XCount w =>
      if phase_is x w PhExecuted then
        let x1 := set_ph x w PhCounted in
        mkX (x_e x1) (x_ph x1) (x_subs x1) (x_active x1) (x_executed x + 1) (x_acc x1) (x_rej x1)
      else x
  | XDeactivate w =>
      if phase_is x w PhCounted then
        let x1 := set_ph x w PhBal in
        mkX (x_e x1) (x_ph x1) (x_subs x1) (x_active x - 1) (x_executed x1) (x_acc x1) (x_rej x1)
      else x
  | XBalCheck w =>
      if phase_is x w PhBal then
        let x1 := set_ph x w PhIdle in
        if x_executed x mod 100 =? 0 then set_e x1 (wstep true e (Balance w)) else x1
      else x
  | XBalance w => set_e x (wstep true e (Balance w))
  end.

Definition xrun (cap : N) (nw nsub : nat) (steps : list xstep) : xexec :=
  fold_left (xstep_fn cap) steps (xinit nw nsub).

(* total_queued() and is_idle() as written *)
Definition x_total_queued (x : xexec) : N := total_queued (x_e x).
Definition x_is_idle (x : xexec) : bool := (x_active x =? 0) && (x_total_queued x =? 0).

(* tasks a worker holds and has not executed yet *)
Definition x_held (x : xexec) : list task := running (x_e x).

Definition ph_active (p : wph) : bool := match p with PhRun | PhExecuted | PhCounted => true | _ => false end.
Definition ph_holds (p : wph) : bool := match p with PhFound | PhRun => true | _ => false end.
Definition ph_uncounted (p : wph) : bool := match p with PhExecuted => true | _ => false end.

(* an undisturbed submit() by thread 0: probe, then the push it decided on *)
Definition xsubmit (cap : N) (x : xexec) (t : task) : xexec :=
  let x1 := xstep_fn cap x (XProbe 0 t) in
  match nth_error (x_subs x1) 0 with
  | Some (SbLocal _ _) => xstep_fn cap x1 (XPush 0)
  | Some (SbGlobal _) => xstep_fn cap x1 (XGlobal 0)
  | _ => x1
  end.

(* ------------------------------------------------------------------ *)
(* evaluation of harness cases                                         *)
(* ------------------------------------------------------------------ *)

(* kind 16: an executor history through the hook with the admission made visible.  As Model.run_hist:
   task code = submit, 10+w = find_task of worker w (the harness then holds the task, like a worker in PhFound),
   30+w = balance; and 5 = total_queued, 6 = is_idle, 40+w = (local, steal, global) queue lengths of worker w *)
Definition lens_obs (e : exec) (w : nat) : list Z :=
  match nth_error (eqs e) w with
  | Some q => [Z.of_N (nlen (qlocal q)); Z.of_N (nlen (qsteal q)); Z.of_N (nlen (eglob e))]
  | None => [(-1)%Z]
  end.

Fixpoint run_xhist (cap : N) (x : xexec) (next : N) (ops : list Z) : xexec * list Z :=
  match ops with
  | [] => (x, [])
  | o :: r =>
      if (1000 <=? o)%Z then
        let t := dec_task next o in
        let x' := xsubmit cap x t in
        let ok := Nat.ltb (length (x_acc x)) (length (x_acc x')) in
        let '(xf, obs) := run_xhist cap x' (next + 1) r in
        (xf, (if ok then 1%Z else 0%Z) :: obs)
      else if (40 <=? o)%Z then
        let '(xf, obs) := run_xhist cap x next r in (xf, lens_obs (x_e x) (Z.to_nat (o - 40)) ++ obs)
      else if (30 <=? o)%Z then
        run_xhist cap (xstep_fn cap x (XBalance (Z.to_nat (o - 30)))) next r
      else if (10 <=? o)%Z then
        match find_task true (x_e x) (Z.to_nat (o - 10)) with
        | Some (t, e') => let '(xf, obs) := run_xhist cap (set_e x e') next r in (xf, Z.of_N (tid t) :: obs)
        | None => let '(xf, obs) := run_xhist cap x next r in (xf, (-1)%Z :: obs)
        end
      else if (o =? 6)%Z then
        let '(xf, obs) := run_xhist cap x next r in (xf, (if x_is_idle x then 1%Z else 0%Z) :: obs)
      else
        let '(xf, obs) := run_xhist cap x next r in (xf, Z.of_N (x_total_queued x) :: obs)
  end.

Definition case_xhist (nw cap : N) (ops : list Z) : list Z :=
  let '(x, obs) := run_xhist cap (xinit (N.to_nat nw) 1) 0 ops in
  obs ++ [(-7)%Z; Z.of_N (x_total_queued x); if x_is_idle x then 1%Z else 0%Z; Z.of_nat (length (x_acc x)); Z.of_nat (length (x_rej x))].

(* kind 17: one worker, everything submitted before the worker runs, tasks that finish at once: the worker
   loop as a sequence of the atomic steps; execution order, then total_executed, active_tasks, is_idle *)
Definition first_take (e : exec) (w : nat) : option step :=
  match nth_error (eqs e) w with
  | None => None
  | Some q =>
      match qlocal q with
      | _ :: _ => Some (PopLocal w)
      | [] =>
          match qsteal q with
          | _ :: _ => Some (PopOwnSteal w)
          | [] => match eglob e with _ :: _ => Some (PopGlobal w) | [] => None end
          end
      end
  end.

Definition xturn1 (cap : N) (x : xexec) : xexec :=
  match first_take (x_e x) 0 with
  | Some k =>
      fold_left (xstep_fn cap) [XTake 0 k; XActivate 0; XExecute 0; XCount 0; XDeactivate 0; XBalCheck 0] x
  | None => fold_left (xstep_fn cap) [XNone 0; XBalCheck 0] x
  end.
Fixpoint xturns (cap : N) (n : nat) (x : xexec) : xexec :=
  match n with O => x | S k => xturns cap k (xturn1 cap x) end.

Fixpoint xsubmits (cap : N) (x : xexec) (next : N) (ops : list Z) : xexec * list Z :=
  match ops with
  | [] => (x, [])
  | o :: r =>
      let x' := xsubmit cap x (dec_task next o) in
      let ok := Nat.ltb (length (x_acc x)) (length (x_acc x')) in
      let '(xf, obs) := xsubmits cap x' (next + 1) r in
      (xf, (if ok then 1%Z else 0%Z) :: obs)
  end.

Definition case_xorder (cap : N) (ops : list Z) : list Z :=
  let '(x, obs) := xsubmits cap (xinit 1 1) 0 ops in
  let x' := xturns cap (length ops + 1) x in
  obs ++ [(-7)%Z] ++ map (fun t => Z.of_N (tid t)) (edone (x_e x'))
      ++ [(-7)%Z; Z.of_N (x_total_queued x'); Z.of_N (x_executed x'); Z.of_N (x_active x'); if x_is_idle x' then 1%Z else 0%Z].
