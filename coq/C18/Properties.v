(* C18 property theorems.  Statements + exact + Print Assumptions only. *)
From ZV.Common Require Import Base.
From ZV.C18 Require Import Model ProofsQueue.
From Coq Require Import Permutation.
Open Scope N_scope.

(* No loss, no duplication by the data structures: for every worker count, queue capacity, task
   multiset and every interleaving of submit / pop_local / global pop / steal / balance / finish,
   queued + running + executed is exactly the multiset of accepted tasks. *)
Theorem conservation :
  forall fixed cap nw steps e acc,
    run fixed cap (init nw) [] steps = (e, acc) ->
    Permutation (queued e ++ running e ++ edone e) acc.
Proof. exact conservation_proof. Qed.
Check conservation :
  forall fixed cap nw steps e acc,
    run fixed cap (init nw) [] steps = (e, acc) ->
    Permutation (queued e ++ running e ++ edone e) acc.
Print Assumptions conservation.

(* Exactly once: distinct accepted tasks are never held twice, each is somewhere, and once nothing is
   queued or running the executed list is the accepted list up to order. *)
Theorem exactly_once :
  forall fixed cap nw steps e acc,
    run fixed cap (init nw) [] steps = (e, acc) ->
    NoDup (map tid acc) ->
    NoDup (map tid (queued e ++ running e ++ edone e)) /\
    (forall t, In t acc -> In t (queued e) \/ In t (running e) \/ In t (edone e)) /\
    (queued e = [] -> running e = [] -> Permutation (edone e) acc).
Proof. exact exactly_once_proof. Qed.
Check exactly_once :
  forall fixed cap nw steps e acc,
    run fixed cap (init nw) [] steps = (e, acc) ->
    NoDup (map tid acc) ->
    NoDup (map tid (queued e ++ running e ++ edone e)) /\
    (forall t, In t acc -> In t (queued e) \/ In t (running e) \/ In t (edone e)) /\
    (queued e = [] -> running e = [] -> Permutation (edone e) acc).
Print Assumptions exactly_once.
