(* C18 property theorems.  Statements + exact + Check pin + Print Assumptions only. *)
From ZV.Common Require Import Base.
From ZV.C18 Require Import Model ProofsQueue ProofsOrder ProofsProgress ProofsComplete ProofsPar ProofsStream.
From ZV.C18 Require Import ModelFiber ProofsFiber ProofsFiberReduce.
From ZV.C18 Require Import ModelPipe ProofsPipe ProofsPipeStream.
From ZV.C18 Require Import ModelExec ProofsExec ProofsExec2.
From ZV.C18 Require Import ModelGlobalPar ProofsGlobalPar.
From ZV.C18 Require Import ModelYield ProofsYield ProofsBuffered.
From ZV.C18 Require Import ModelStore ProofsStore.
From ZV.C18 Require Import ModelLife ProofsLife.
(* the dispatcher the harness-generated case files import: listed here so that building this file builds it *)
From ZV.C18 Require ModelCases.
From Coq Require Import Permutation.
Open Scope N_scope.

(* No loss, no duplication by the data structures: for every worker count, queue capacity, task
   multiset and every interleaving of submit / pop_local / global pop / steal / balance / finish -
   including the single critical sections pop_local() and steal() consist of (PopOwnSteal, StealQ,
   StealL) and submissions that lose the capacity race - before and after the pop_local repair,
   queued + running + executed is exactly the multiset of accepted tasks. *)
Theorem conservation :
  forall fixed cap nw steps e acc,
    run fixed cap (init nw) [] steps = (e, acc) ->
    Permutation (queued e ++ running e ++ edone e) acc.
Proof. exact conservation_proof. Qed.
Check conservation :
  forall fixed cap nw steps e acc,
    run fixed cap (init nw) [] steps = (e, acc) ->
    Permutation (queued e ++ running e ++ edone e) acc.
Print Assumptions conservation.

(* Exactly once: distinct accepted tasks are never held twice, each is somewhere, and once nothing is
   queued or running the executed list is the accepted list up to order. *)
Theorem exactly_once :
  forall fixed cap nw steps e acc,
    run fixed cap (init nw) [] steps = (e, acc) ->
    NoDup (map tid acc) ->
    NoDup (map tid (queued e ++ running e ++ edone e)) /\
    (forall t, In t acc -> In t (queued e) \/ In t (running e) \/ In t (edone e)) /\
    (queued e = [] -> running e = [] -> Permutation (edone e) acc).
Proof. exact exactly_once_proof. Qed.
Check exactly_once :
  forall fixed cap nw steps e acc,
    run fixed cap (init nw) [] steps = (e, acc) ->
    NoDup (map tid acc) ->
    NoDup (map tid (queued e ++ running e ++ edone e)) /\
    (forall t, In t acc -> In t (queued e) \/ In t (running e) \/ In t (edone e)) /\
    (queued e = [] -> running e = [] -> Permutation (edone e) acc).
Print Assumptions exactly_once.

(* In every reachable state every local queue and the global queue are in priority order (highest
   first) and pop_local hands out a most urgent task of a non-empty local queue. *)
Theorem priority_order :
  forall fixed cap nw steps e acc,
    run fixed cap (init nw) [] steps = (e, acc) ->
    Forall (fun q => desc (qlocal q)) (eqs e) /\ desc (eglob e) /\
    (forall w q t q', nth_error (eqs e) w = Some q -> qlocal q <> [] ->
       pop_local fixed q = (Some t, q') -> forall y, In y (qlocal q) -> tprio y <= tprio t).
Proof. exact priority_order_proof. Qed.
Check priority_order :
  forall fixed cap nw steps e acc,
    run fixed cap (init nw) [] steps = (e, acc) ->
    Forall (fun q => desc (qlocal q)) (eqs e) /\ desc (eglob e) /\
    (forall w q t q', nth_error (eqs e) w = Some q -> qlocal q <> [] ->
       pop_local fixed q = (Some t, q') -> forall y, In y (qlocal q) -> tprio y <= tprio t).
Print Assumptions priority_order.

(* After the repair: a worker whose find_task returns nothing has nothing in either of its own queues,
   and the global queue is empty - i.e. every queued task sits where its owner's find_task looks. *)
Theorem no_parked_task :
  forall e w q,
    nth_error (eqs e) w = Some q -> find_task true e w = None ->
    qlocal q = [] /\ qsteal q = [] /\ eglob e = [].
Proof. exact find_task_none_proof. Qed.
Check no_parked_task :
  forall e w q,
    nth_error (eqs e) w = Some q -> find_task true e w = None ->
    qlocal q = [] /\ qsteal q = [] /\ eglob e = [].
Print Assumptions no_parked_task.

(* After the repair: while anything is queued some worker's find_task returns a task (any state, any worker count >= 1). *)
Theorem progress :
  forall e, (0 < length (eqs e))%nat -> queued e <> [] ->
    exists w, (w < length (eqs e))%nat /\ find_task true e w <> None.
Proof. exact progress_proof. Qed.
Check progress :
  forall e, (0 < length (eqs e))%nat -> queued e <> [] ->
    exists w, (w < length (eqs e))%nat /\ find_task true e w <> None.
Print Assumptions progress.

(* After the repair: from any state with at least one worker (one included), n rounds of the worker loops
   (find_task, execute, periodic balance) for n >= number of queued tasks leave nothing queued, and
   exactly the queued tasks have been added to the executed list. *)
Theorem drains :
  forall n e, (0 < length (eqs e))%nat -> (length (queued e) <= n)%nat ->
    queued (rounds true n e) = [] /\
    Permutation (edone (rounds true n e)) (edone e ++ queued e) /\
    running (rounds true n e) = running e.
Proof. exact drains_proof. Qed.
Check drains :
  forall n e, (0 < length (eqs e))%nat -> (length (queued e) <= n)%nat ->
    queued (rounds true n e) = [] /\
    Permutation (edone (rounds true n e)) (edone e ++ queued e) /\
    running (rounds true n e) = running e.
Print Assumptions drains.

(* After the repair, for every worker count >= 1, capacity, task list and every interleaving so far
   (tasks in mid-execution included): there is a continuation made of worker steps only (no further
   submissions) after which every accepted task has been executed (executed list = accepted list up to
   order), nothing is queued or running and is_idle() holds.  No reachable state is a trap. *)
Theorem completion_reachable :
  forall cap nw steps e acc,
    (0 < nw)%nat -> run true cap (init nw) [] steps = (e, acc) ->
    exists more, no_submit more /\
      exists e', run true cap e acc more = (e', acc) /\
        Permutation (edone e') acc /\ queued e' = [] /\ running e' = [] /\ is_idle e' = true.
Proof. exact completion_reachable_proof. Qed.
Check completion_reachable :
  forall cap nw steps e acc,
    (0 < nw)%nat -> run true cap (init nw) [] steps = (e, acc) ->
    exists more, no_submit more /\
      exists e', run true cap e acc more = (e', acc) /\
        Permutation (edone e') acc /\ queued e' = [] /\ running e' = [] /\ is_idle e' = true.
Print Assumptions completion_reachable.

(* The pinned tree (pop_local without the fallback): one worker, six accepted tasks, balance() - three
   tasks stay queued for ever and is_idle() never becomes true. *)
Theorem parked_task_refuted :
  exists e acc, run false 8 (init 1) [] parked_steps = (e, acc) /\ length acc = 6%nat /\
    forall n, (3 <= n)%nat ->
      length (queued (rounds false n e)) = 3%nat /\ length (edone (rounds false n e)) = 3%nat /\
      is_idle (rounds false n e) = false.
Proof. exact parked_task_refuted_proof. Qed.
Check parked_task_refuted :
  exists e acc, run false 8 (init 1) [] parked_steps = (e, acc) /\ length acc = 6%nat /\
    forall n, (3 <= n)%nat ->
      length (queued (rounds false n e)) = 3%nat /\ length (edone (rounds false n e)) = 3%nat /\
      is_idle (rounds false n e) = false.
Print Assumptions parked_task_refuted.

(* The pinned tree, the executor's own schedule only (no external balance call): 202 tasks submitted to
   one worker; the balance at total_executed = 100 parks 51 of them for good. *)
Theorem executor_parks_refuted :
  exists e acc, run false 256 (init 1) [] (many_submits 202) = (e, acc) /\ length acc = 202%nat /\
    forall n, (151 <= n)%nat ->
      length (queued (rounds false n e)) = 51%nat /\ length (edone (rounds false n e)) = 151%nat.
Proof. exact executor_parks_refuted_proof. Qed.
Check executor_parks_refuted :
  exists e acc, run false 256 (init 1) [] (many_submits 202) = (e, acc) /\ length acc = 202%nat /\
    forall n, (151 <= n)%nat ->
      length (queued (rounds false n e)) = 51%nat /\ length (edone (rounds false n e)) = 151%nat.
Print Assumptions executor_parks_refuted.

(* parallel_map / join_all: whatever order the spawned tasks complete in (any permutation of the tagged
   inputs), awaiting the handles in index order returns the stage function applied in input order. *)
Theorem order_preserved :
  forall (A B : Type) (g : A -> B) (f : A -> option B) xs sched,
    Permutation sched (tagged xs) ->
    (forall x, In x xs -> f x = Some (g x)) ->
    parallel_map f xs sched = ROk (map g xs).
Proof. exact order_preserved_proof. Qed.
Check order_preserved :
  forall (A B : Type) (g : A -> B) (f : A -> option B) xs sched,
    Permutation sched (tagged xs) ->
    (forall x, In x xs -> f x = Some (g x)) ->
    parallel_map f xs sched = ROk (map g xs).
Print Assumptions order_preserved.

(* A failing item makes the whole call an error - never an Ok vector with a missing or shifted result, never a lost handle. *)
Theorem error_surfaces :
  forall (A B : Type) (f : A -> option B) xs sched,
    Permutation sched (tagged xs) ->
    (exists x, In x xs /\ f x = None) ->
    parallel_map f xs sched = RErr.
Proof. exact error_surfaces_proof. Qed.
Check error_surfaces :
  forall (A B : Type) (f : A -> option B) xs sched,
    Permutation sched (tagged xs) ->
    (exists x, In x xs /\ f x = None) ->
    parallel_map f xs sched = RErr.
Print Assumptions error_surfaces.

(* parallel_reduce (FiberPool: chunk = max(1, len / max_workers), any max_workers incl. 0 in the model;
   global: chunk = ceil(len / ncpu)): for an associative function with a two-sided identity the result
   is the sequential left fold. *)
Theorem reduce_sequential :
  forall (T : Type) (g : T -> T -> T) (ident : T),
    (forall a b c, g (g a b) c = g a (g b c)) -> (forall a, g ident a = a) -> (forall a, g a ident = a) ->
    forall max_workers ncpu xs,
      parallel_reduce_k (fun a b => Some (g a b)) ident (fiber_chunk max_workers (length xs)) xs = Some (fold_left g xs ident) /\
      ((0 < ncpu)%nat -> parallel_reduce_k (fun a b => Some (g a b)) ident (global_chunk ncpu (length xs)) xs = Some (fold_left g xs ident)).
Proof. exact reduce_proof. Qed.
Check reduce_sequential :
  forall (T : Type) (g : T -> T -> T) (ident : T),
    (forall a b c, g (g a b) c = g a (g b c)) -> (forall a, g ident a = a) -> (forall a, g a ident = a) ->
    forall max_workers ncpu xs,
      parallel_reduce_k (fun a b => Some (g a b)) ident (fiber_chunk max_workers (length xs)) xs = Some (fold_left g xs ident) /\
      ((0 < ncpu)%nat -> parallel_reduce_k (fun a b => Some (g a b)) ident (global_chunk ncpu (length xs)) xs = Some (fold_left g xs ident)).
Print Assumptions reduce_sequential.

(* If the reduce function fails on some item whatever the accumulator, both parallel_reduce variants fail (no partial result is returned). *)
Theorem reduce_error_surfaces :
  forall (T : Type) (op : T -> T -> option T) (ident : T) max_workers ncpu xs x,
    In x xs -> (forall a, op a x = None) ->
    parallel_reduce_k op ident (fiber_chunk max_workers (length xs)) xs = None /\
    ((0 < ncpu)%nat -> parallel_reduce_k op ident (global_chunk ncpu (length xs)) xs = None).
Proof. exact reduce_error_proof. Qed.
Check reduce_error_surfaces :
  forall (T : Type) (op : T -> T -> option T) (ident : T) max_workers ncpu xs x,
    In x xs -> (forall a, op a x = None) ->
    parallel_reduce_k op ident (fiber_chunk max_workers (length xs)) xs = None /\
    ((0 < ncpu)%nat -> parallel_reduce_k op ident (global_chunk ncpu (length xs)) xs = None).
Print Assumptions reduce_error_surfaces.

(* execute_stream (after the repair): for every number of stages, all stage functions, all inputs and every
   interleaving of the stage tasks, what has been delivered on the output channel is a prefix of the
   sequential result (each stage applied in input order, stopping at its first failure) - never a
   shifted, reordered or foreign result. *)
Theorem stream_prefix :
  forall (A : Type) (fs : list (A -> option A)) (inputs : list A) (sched : list nat),
    exists rest, stream_want fs inputs = stream_output fs inputs (stream_run fs inputs sched) ++ rest.
Proof. exact (@stream_prefix_proof). Qed.
Check stream_prefix :
  forall (A : Type) (fs : list (A -> option A)) (inputs : list A) (sched : list nat),
    exists rest, stream_want fs inputs = stream_output fs inputs (stream_run fs inputs sched) ++ rest.
Print Assumptions stream_prefix.

(* ... and when all stage tasks have ended and none reported a failure (execute_stream returns Ok), the
   output is the complete sequential result: one result per input.  Contrapositive: a missing result
   implies execute_stream returns Err. *)
Theorem stream_complete :
  forall (A : Type) (fs : list (A -> option A)) (inputs : list A) (sched : list nat),
    let st := stream_run fs inputs sched in
    stream_finished st = true -> stream_err st = false ->
    stream_output fs inputs st = stream_want fs inputs /\ length (stream_output fs inputs st) = length inputs.
Proof. exact (@stream_complete_proof). Qed.
Check stream_complete :
  forall (A : Type) (fs : list (A -> option A)) (inputs : list A) (sched : list nat),
    let st := stream_run fs inputs sched in
    stream_finished st = true -> stream_err st = false ->
    stream_output fs inputs st = stream_want fs inputs /\ length (stream_output fs inputs st) = length inputs.
Print Assumptions stream_complete.

(* BatchCollector: for every history of add / flush, the emitted batches followed by the buffer are the
   added items in order; with max_batch_size >= 1 no batch is empty or longer than max_batch_size. *)
Theorem collector_order :
  forall (A : Type) (maxb : N) (ops : list (option A)),
    let c := coll_run maxb (mkC [] []) ops in
    concat (cout c) ++ cbuf c = added ops /\
    (0 < maxb -> Forall (fun b => b <> [] /\ nlen b <= maxb) (cout c) /\ nlen (cbuf c) < maxb).
Proof. exact collector_proof. Qed.
Check collector_order :
  forall (A : Type) (maxb : N) (ops : list (option A)),
    let c := coll_run maxb (mkC [] []) ops in
    concat (cout c) ++ cbuf c = added ops /\
    (0 < maxb -> Forall (fun b => b <> [] /\ nlen b <= maxb) (cout c) /\ nlen (cbuf c) < maxb).
Print Assumptions collector_order.

(* FiberPool::parallel_map as the pool state machine (spawn with the semaphore of max_fibers permits, bodies that
   return Ok, Err or panic, handles awaited in index order with `?`): for every input, every max_fibers and EVERY
   schedule of spawn / acquire / run / finish steps, whenever the call returns it returns map g xs if every item
   succeeds (order preserved, one result per item), and Err if some item fails or panics - never a shorter, shifted
   or reordered vector; and with max_fibers >= 1 every schedule can be continued to one in which it returns
   (no deadlock on the semaphore, also with fewer permits than items) *)
Theorem parallel_map_is_map :
  forall (A B : Type) (f : A -> outcome B) (g : A -> B) (xs : list A) (maxf : N) (steps : list pstep),
    (forall r, pm_result (map f xs) (pool_run (map f xs) maxf steps) = Some r ->
       ((forall x, In x xs -> f x = OOk (g x)) -> r = ROk (map g xs)) /\
       ((exists x, In x xs /\ forall b, f x <> OOk b) -> r = RErr)) /\
    (1 <= maxf -> exists more, pm_result (map f xs) (pool_run (map f xs) maxf (steps ++ more)) <> None).
Proof. exact parallel_map_is_map_proof. Qed.
Check parallel_map_is_map :
  forall (A B : Type) (f : A -> outcome B) (g : A -> B) (xs : list A) (maxf : N) (steps : list pstep),
    (forall r, pm_result (map f xs) (pool_run (map f xs) maxf steps) = Some r ->
       ((forall x, In x xs -> f x = OOk (g x)) -> r = ROk (map g xs)) /\
       ((exists x, In x xs /\ forall b, f x <> OOk b) -> r = RErr)) /\
    (1 <= maxf -> exists more, pm_result (map f xs) (pool_run (map f xs) maxf (steps ++ more)) <> None).
Print Assumptions parallel_map_is_map.

(* parallel_for_each / every use of spawn: in every reachable state no body has run twice and only spawned bodies
   ran; once all fibers are done every body has run exactly once (the execution log is a permutation of the
   indices) - also the bodies behind a failed one, which parallel_for_each no longer waits for; an Ok return means
   every item was visited exactly once and succeeded; an Err return means some body really failed *)
Theorem parallel_for_each_visits_once :
  forall (R : Type) (jobs : list (outcome R)) (maxf : N) (steps : list pstep),
    let p := pool_run jobs maxf steps in
    NoDup (p_log p) /\ (forall i, In i (p_log p) -> (i < length jobs)%nat) /\
    (pool_done jobs p = true -> Permutation (p_log p) (seq 0 (length jobs))) /\
    (forall l, pm_result jobs p = Some (ROk l) -> Permutation (p_log p) (seq 0 (length jobs)) /\ jobs = map OOk l) /\
    (pm_result jobs p = Some RErr -> exists i o, nth_error jobs i = Some o /\ forall r, o <> OOk r).
Proof. exact parallel_for_each_visits_once_proof. Qed.
Check parallel_for_each_visits_once :
  forall (R : Type) (jobs : list (outcome R)) (maxf : N) (steps : list pstep),
    let p := pool_run jobs maxf steps in
    NoDup (p_log p) /\ (forall i, In i (p_log p) -> (i < length jobs)%nat) /\
    (pool_done jobs p = true -> Permutation (p_log p) (seq 0 (length jobs))) /\
    (forall l, pm_result jobs p = Some (ROk l) -> Permutation (p_log p) (seq 0 (length jobs)) /\ jobs = map OOk l) /\
    (pm_result jobs p = Some RErr -> exists i o, nth_error jobs i = Some o /\ forall r, o <> OOk r).
Print Assumptions parallel_for_each_visits_once.

(* The semaphore and the statistics in every reachable state: permits + fibers holding one = max_fibers (never more
   than max_fibers bodies in flight), total_spawned / completed / failed count what they say, active_fibers counts
   the permit holders plus the panicked bodies (as written: a panic skips the decrement), and when all fibers are
   done all permits are back (shutdown() returns) and completed + failed + panicked = number of items *)
Theorem fiber_pool_bounded :
  forall (R : Type) (jobs : list (outcome R)) (maxf : N) (steps : list pstep),
    let p := pool_run jobs maxf steps in
    p_permits p + N.of_nat (count holds_permit (p_fibers p)) = maxf /\
    p_spawned p = N.of_nat (length (p_fibers p)) /\
    p_completed p = N.of_nat (count is_ok_done (p_fibers p)) /\
    p_failed p = N.of_nat (count is_fail_done (p_fibers p)) /\
    p_active p = N.of_nat (count holds_permit (p_fibers p) + count is_panic_done (p_fibers p)) /\
    (pool_done jobs p = true -> p_permits p = maxf /\
       p_completed p + p_failed p + N.of_nat (count is_panic_done (p_fibers p)) = N.of_nat (length jobs)).
Proof. exact fiber_pool_bounded_proof. Qed.
Check fiber_pool_bounded :
  forall (R : Type) (jobs : list (outcome R)) (maxf : N) (steps : list pstep),
    let p := pool_run jobs maxf steps in
    p_permits p + N.of_nat (count holds_permit (p_fibers p)) = maxf /\
    p_spawned p = N.of_nat (length (p_fibers p)) /\
    p_completed p = N.of_nat (count is_ok_done (p_fibers p)) /\
    p_failed p = N.of_nat (count is_fail_done (p_fibers p)) /\
    p_active p = N.of_nat (count holds_permit (p_fibers p) + count is_panic_done (p_fibers p)) /\
    (pool_done jobs p = true -> p_permits p = maxf /\
       p_completed p + p_failed p + N.of_nat (count is_panic_done (p_fibers p)) = N.of_nat (length jobs)).
Print Assumptions fiber_pool_bounded.

(* The chunking of FiberPool::parallel_reduce as written (chunk_size = max(1, len / max(1, max_workers)),
   items.chunks(chunk_size)): for every length and worker count - len < workers, len % chunk_size <> 0, workers = 0
   included - the chunks concatenate to the input (every item in exactly one chunk, the trailing partial chunk
   included), none is empty or longer than chunk_size, and at most 2 * max(1, max_workers) fibers are spawned *)
Theorem reduce_chunks_partition :
  forall (T : Type) (mw : N) (xs : list T),
    concat (fp_chunks mw xs) = xs /\
    Forall (fun c => c <> [] /\ nlen c <= chunk_size (nlen xs) mw) (fp_chunks mw xs) /\
    nlen (fp_chunks mw xs) <= 2 * N.max 1 mw.
Proof. exact (@fp_chunks_shape). Qed.
Check reduce_chunks_partition :
  forall (T : Type) (mw : N) (xs : list T),
    concat (fp_chunks mw xs) = xs /\
    Forall (fun c => c <> [] /\ nlen c <= chunk_size (nlen xs) mw) (fp_chunks mw xs) /\
    nlen (fp_chunks mw xs) <= 2 * N.max 1 mw.
Print Assumptions reduce_chunks_partition.

(* FiberPool::parallel_reduce through the pool state machine: for an associative function with a two-sided identity,
   every input, max_workers, max_fibers and every schedule of the chunk fibers, whenever the call returns it
   returns the sequential left fold of all items; and with max_fibers >= 1 it can always return *)
Theorem parallel_reduce_is_fold :
  forall (T : Type) (g : T -> T -> T) (ident : T),
    (forall a b c, g (g a b) c = g a (g b c)) -> (forall a, g ident a = a) -> (forall a, g a ident = a) ->
    forall (mw maxf : N) (xs : list T) (steps : list pstep),
      let op := fun a b => Some (g a b) in
      (forall r, reduce_result op ident mw xs (pool_run (reduce_jobs op ident mw xs) maxf steps) = Some r ->
                 r = Some (fold_left g xs ident)) /\
      (1 <= maxf -> exists more,
         reduce_result op ident mw xs (pool_run (reduce_jobs op ident mw xs) maxf (steps ++ more)) <> None).
Proof. exact parallel_reduce_is_fold_proof. Qed.
Check parallel_reduce_is_fold :
  forall (T : Type) (g : T -> T -> T) (ident : T),
    (forall a b c, g (g a b) c = g a (g b c)) -> (forall a, g ident a = a) -> (forall a, g a ident = a) ->
    forall (mw maxf : N) (xs : list T) (steps : list pstep),
      let op := fun a b => Some (g a b) in
      (forall r, reduce_result op ident mw xs (pool_run (reduce_jobs op ident mw xs) maxf steps) = Some r ->
                 r = Some (fold_left g xs ident)) /\
      (1 <= maxf -> exists more,
         reduce_result op ident mw xs (pool_run (reduce_jobs op ident mw xs) maxf (steps ++ more)) <> None).
Print Assumptions parallel_reduce_is_fold.

(* ... and if the function fails on some item whatever the accumulator, every schedule that returns returns Err *)
Theorem parallel_reduce_error_surfaces :
  forall (T : Type) (op : T -> T -> option T) (ident : T) (mw maxf : N) (xs : list T) (steps : list pstep) (x : T),
    In x xs -> (forall a, op a x = None) ->
    forall r, reduce_result op ident mw xs (pool_run (reduce_jobs op ident mw xs) maxf steps) = Some r -> r = None.
Proof. exact parallel_reduce_error_proof. Qed.
Check parallel_reduce_error_surfaces :
  forall (T : Type) (op : T -> T -> option T) (ident : T) (mw maxf : N) (xs : list T) (steps : list pstep) (x : T),
    In x xs -> (forall a, op a x = None) ->
    forall r, reduce_result op ident mw xs (pool_run (reduce_jobs op ident mw xs) maxf steps) = Some r -> r = None.
Print Assumptions parallel_reduce_error_surfaces.

(* Pipeline::execute_stream with the join loop as written (handles awaited in stage order, the first error kept) and
   stage functions that may succeed, fail with an error of their own, time out or panic on each item: for every
   non-empty stage list, input and interleaving of the stage tasks, once all stage tasks have ended the call
   returns; if ANY stage function fails, times out or panics on an item that reaches it in the sequential run the
   call returns Err (whichever stage it is - first, middle or last); and an Err that is returned is genuine: it is the
   outcome of the lowest-numbered failed stage (all stages before it ended Ok) and the error of that stage's function
   on an item of its sequential input stream (a panic is a join error) *)
Theorem pipeline_error_surfaces :
  forall (A : Type) (fs : list (A -> sres A)) (inputs : list A) (sched : list nat),
    fs <> [] ->
    let st := pstream_run fs inputs sched in
    pstream_finished st = true ->
    (exists r, exec_stream_result fs st = Some r) /\
    ((exists j f x, nth_error fs j = Some f /\ In x (want_upto (map erase_f fs) inputs j) /\ forall y, f x <> SOk y) ->
       exists e, exec_stream_result fs st = Some (Some e)) /\
    (forall e, exec_stream_result fs st = Some (Some e) ->
       exists j f s, nth_error fs j = Some f /\ nth_error st j = Some s /\ stage_err (g_status s) = Some e /\
         (forall i s', (i < j)%nat -> nth_error st i = Some s' -> stage_err (g_status s') = None) /\
         exists x, In x (want_upto (map erase_f fs) inputs j) /\ err_of (f x) = Some e).
Proof. exact (@pipeline_error_proof). Qed.
Check pipeline_error_surfaces :
  forall (A : Type) (fs : list (A -> sres A)) (inputs : list A) (sched : list nat),
    fs <> [] ->
    let st := pstream_run fs inputs sched in
    pstream_finished st = true ->
    (exists r, exec_stream_result fs st = Some r) /\
    ((exists j f x, nth_error fs j = Some f /\ In x (want_upto (map erase_f fs) inputs j) /\ forall y, f x <> SOk y) ->
       exists e, exec_stream_result fs st = Some (Some e)) /\
    (forall e, exec_stream_result fs st = Some (Some e) ->
       exists j f s, nth_error fs j = Some f /\ nth_error st j = Some s /\ stage_err (g_status s) = Some e /\
         (forall i s', (i < j)%nat -> nth_error st i = Some s' -> stage_err (g_status s') = None) /\
         exists x, In x (want_upto (map erase_f fs) inputs j) /\ err_of (f x) = Some e).
Print Assumptions pipeline_error_surfaces.

(* ... and under every interleaving what has been delivered is a prefix of the sequential result (stage after stage
   in input order); when all stage tasks have ended and execute_stream returns Ok(()) it is the complete sequential
   result, one output per input *)
Theorem pipeline_order_preserved :
  forall (A : Type) (fs : list (A -> sres A)) (inputs : list A) (sched : list nat),
    let st := pstream_run fs inputs sched in
    (exists rest, stream_want (map erase_f fs) inputs = pstream_output fs inputs st ++ rest) /\
    (pstream_finished st = true -> exec_stream_result fs st = Some None ->
       pstream_output fs inputs st = stream_want (map erase_f fs) inputs /\
       length (pstream_output fs inputs st) = length inputs).
Proof. exact (@pipeline_order_proof). Qed.
Check pipeline_order_preserved :
  forall (A : Type) (fs : list (A -> sres A)) (inputs : list A) (sched : list nat),
    let st := pstream_run fs inputs sched in
    (exists rest, stream_want (map erase_f fs) inputs = pstream_output fs inputs st ++ rest) /\
    (pstream_finished st = true -> exec_stream_result fs st = Some None ->
       pstream_output fs inputs st = stream_want (map erase_f fs) inputs /\
       length (pstream_output fs inputs st) = length inputs).
Print Assumptions pipeline_order_preserved.

(* Pipeline::process_batch as written, item by item (path 0: one timeout per item, `??`) or through the stage's default
   process_batch under one timeout (path <> 0): Ok(l) means one result per input, in input order, each the stage's
   result for that input, and the statistics are restored (total_processed += n, items_in_flight unchanged); if some
   item fails, times out or panics the call does not return Ok; an Err is the error of the FIRST item in input order
   that is not Ok (its own error, or the per-item resp. whole-batch timeout) and every item before it succeeded *)
Theorem process_batch_is_map :
  forall (A B : Type) (path : N) (f : A -> sres B) (xs : list A) (st : pstats) r st',
    process_batch path f xs st = (r, st') ->
    (forall l, r = COk l ->
       Forall2 (fun x y => f x = SOk y) xs l /\
       ps_processed st' = ps_processed st + nlen xs /\ ps_in_flight st' = ps_in_flight st) /\
    ((exists x, In x xs /\ forall y, f x <> SOk y) -> forall l, r <> COk l) /\
    (forall e, r = CErr e ->
       exists pre x post, xs = pre ++ x :: post /\ (forall z, In z pre -> exists y, f z = SOk y) /\
                          item_err f (batch_tmo path) x = Some e).
Proof. exact process_batch_proof. Qed.
Check process_batch_is_map :
  forall (A B : Type) (path : N) (f : A -> sres B) (xs : list A) (st : pstats) r st',
    process_batch path f xs st = (r, st') ->
    (forall l, r = COk l ->
       Forall2 (fun x y => f x = SOk y) xs l /\
       ps_processed st' = ps_processed st + nlen xs /\ ps_in_flight st' = ps_in_flight st) /\
    ((exists x, In x xs /\ forall y, f x <> SOk y) -> forall l, r <> COk l) /\
    (forall e, r = CErr e ->
       exists pre x post, xs = pre ++ x :: post /\ (forall z, In z pre -> exists y, f z = SOk y) /\
                          item_err f (batch_tmo path) x = Some e).
Print Assumptions process_batch_is_map.

(* execute_two_stage = the second stage applied to the first stage's result; the first failure (error, timeout, panic) is what the caller gets *)
Theorem two_stage_composes :
  forall (A B C : Type) (f1 : A -> sres B) (f2 : B -> sres C) (x : A) (st : pstats),
    fst (exec_two_stage f1 f2 x st) =
      match f1 x with
      | SOk y => match f2 y with SOk z => COk z | SFail e => CErr (EStage e) | STimeout => CErr ETimeout | SPanic => CPanic end
      | SFail e => CErr (EStage e)
      | STimeout => CErr ETimeout
      | SPanic => CPanic
      end.
Proof. exact exec_two_stage_proof. Qed.
Check two_stage_composes :
  forall (A B C : Type) (f1 : A -> sres B) (f2 : B -> sres C) (x : A) (st : pstats),
    fst (exec_two_stage f1 f2 x st) =
      match f1 x with
      | SOk y => match f2 y with SOk z => COk z | SFail e => CErr (EStage e) | STimeout => CErr ETimeout | SPanic => CPanic end
      | SFail e => CErr (EStage e)
      | STimeout => CErr ETimeout
      | SPanic => CPanic
      end.
Print Assumptions two_stage_composes.

(* BatchCollector with a clock and concurrent checkers: for every max_batch_size, batch_timeout and every history of
   add / flush / check_timeout / passing time - check_timeout also split into its two critical sections, several
   checker tasks interleaved with adds between them - the batches the operations return, in the order of the
   operations, followed by the buffer are exactly the added items in order (nothing lost, duplicated or reordered by a
   timeout flush); no returned batch is empty; with max_batch_size >= 1 no batch is longer than it *)
Theorem batch_collector_partition :
  forall (A : Type) (maxb timeout : N) (ops : list (bop A)) bf outs,
    bc_run maxb timeout bc_init ops = (bf, outs) ->
    cat_outs outs ++ bc_buf bf = badded ops /\
    length outs = length ops /\
    Forall (fun o => match o with Some l => l <> [] | None => True end) outs /\
    (0 < maxb -> nlen (bc_buf bf) < maxb /\ Forall (fun o => match o with Some l => nlen l <= maxb | None => True end) outs).
Proof. exact batch_collector_proof. Qed.
Check batch_collector_partition :
  forall (A : Type) (maxb timeout : N) (ops : list (bop A)) bf outs,
    bc_run maxb timeout bc_init ops = (bf, outs) ->
    cat_outs outs ++ bc_buf bf = badded ops /\
    length outs = length ops /\
    Forall (fun o => match o with Some l => l <> [] | None => True end) outs /\
    (0 < maxb -> nlen (bc_buf bf) < maxb /\ Forall (fun o => match o with Some l => nlen l <= maxb | None => True end) outs).
Print Assumptions batch_collector_partition.

(* an undisturbed check_timeout returns the whole buffer exactly when it is non-empty and batch_timeout has passed since the last flush; otherwise it returns nothing and changes nothing *)
Theorem collector_timeout_not_early :
  forall (A : Type) (maxb timeout : N) (b : bcoll A),
    (bc_due timeout b = true ->
       bc_step maxb timeout b BCheck = (mkBC [] (bc_now b) (bc_now b) (bc_pending b), Some (bc_buf b))
       /\ bc_buf b <> [] /\ timeout <= bc_now b - bc_last b) /\
    (bc_due timeout b = false -> bc_step maxb timeout b BCheck = (b, None)).
Proof. exact (@bc_check_due). Qed.
Check collector_timeout_not_early :
  forall (A : Type) (maxb timeout : N) (b : bcoll A),
    (bc_due timeout b = true ->
       bc_step maxb timeout b BCheck = (mkBC [] (bc_now b) (bc_now b) (bc_pending b), Some (bc_buf b))
       /\ bc_buf b <> [] /\ timeout <= bc_now b - bc_last b) /\
    (bc_due timeout b = false -> bc_step maxb timeout b BCheck = (b, None)).
Print Assumptions collector_timeout_not_early.

(* The executor at the granularity of its atomic operations: several threads inside submit() (the fetch_add + capacity
   probe, push_local and the global insertion are separate critical sections - a submission can lose the race and
   is then rejected), every find_task critical section of every worker, active_tasks += 1, the task body,
   total_executed += 1, active_tasks -= 1, the periodic and the public balance() - for every capacity, number of
   workers, number of submitting threads and EVERY interleaving of these steps: queued + held by a worker + executed
   is exactly the multiset of the submissions that returned Ok (no accepted task is lost or duplicated, no rejected
   task is kept); with distinct identities nothing is held twice; when nothing is queued or held the executed list is
   the accepted list up to order *)
Theorem executor_conservation :
  forall (cap : N) (nw nsub : nat) (steps : list xstep),
    let x := xrun cap nw nsub steps in
    Permutation (queued (x_e x) ++ x_held x ++ edone (x_e x)) (x_acc x) /\
    (NoDup (map tid (x_acc x)) -> NoDup (map tid (queued (x_e x) ++ x_held x ++ edone (x_e x)))) /\
    (queued (x_e x) = [] -> x_held x = [] -> Permutation (edone (x_e x)) (x_acc x)).
Proof. exact executor_conservation_proof. Qed.
Check executor_conservation :
  forall (cap : N) (nw nsub : nat) (steps : list xstep),
    let x := xrun cap nw nsub steps in
    Permutation (queued (x_e x) ++ x_held x ++ edone (x_e x)) (x_acc x) /\
    (NoDup (map tid (x_acc x)) -> NoDup (map tid (queued (x_e x) ++ x_held x ++ edone (x_e x)))) /\
    (queued (x_e x) = [] -> x_held x = [] -> Permutation (edone (x_e x)) (x_acc x)).
Print Assumptions executor_conservation.

(* ... and in every reachable state the statistics mean what they say: active_tasks = number of workers between
   active_tasks += 1 and active_tasks -= 1, total_executed + workers that have run their task but not yet counted it =
   number of executed tasks, and a worker is in the phase `found / running` exactly when it holds a task *)
Theorem executor_counters :
  forall (cap : N) (nw nsub : nat) (steps : list xstep),
    let x := xrun cap nw nsub steps in
    x_active x = N.of_nat (count ph_active (x_ph x)) /\
    x_executed x + N.of_nat (count ph_uncounted (x_ph x)) = nlen (edone (x_e x)) /\
    (forall w ph, nth_error (x_ph x) w = Some ph ->
       (ph_holds ph = true <-> exists t, nth_error (erun (x_e x)) w = Some (Some t))).
Proof. exact executor_counters_proof. Qed.
Check executor_counters :
  forall (cap : N) (nw nsub : nat) (steps : list xstep),
    let x := xrun cap nw nsub steps in
    x_active x = N.of_nat (count ph_active (x_ph x)) /\
    x_executed x + N.of_nat (count ph_uncounted (x_ph x)) = nlen (edone (x_e x)) /\
    (forall w ph, nth_error (x_ph x) w = Some ph ->
       (ph_holds ph = true <-> exists t, nth_error (erun (x_e x)) w = Some (Some t))).
Print Assumptions executor_counters.

(* The capacity bound: under every interleaving (racing submitters included) no local queue ever holds more than
   queue_capacity tasks and the global queue never more than 10000 *)
Theorem executor_capacity_bound :
  forall (cap : N) (nw nsub : nat) (steps : list xstep),
    let x := xrun cap nw nsub steps in
    (forall i q, nth_error (eqs (x_e x)) i = Some q -> nlen (qlocal q) <= cap) /\
    nlen (eglob (x_e x)) <= GLOBAL_CAP.
Proof. exact executor_capacity_proof. Qed.
Check executor_capacity_bound :
  forall (cap : N) (nw nsub : nat) (steps : list xstep),
    let x := xrun cap nw nsub steps in
    (forall i q, nth_error (eqs (x_e x)) i = Some q -> nlen (qlocal q) <= cap) /\
    nlen (eglob (x_e x)) <= GLOBAL_CAP.
Print Assumptions executor_capacity_bound.

(* Admission: an undisturbed submit() (probe, then the push it decided on) in any state with at least one worker is
   exactly Model.submit - worker next_worker mod n (round robin, next_worker + 1 wrapping at 2^64), its local queue
   by priority if it has room, else the global queue by priority if it holds fewer than 10000, else rejected - and
   the submission is recorded as accepted resp. rejected accordingly; phases and counters are untouched *)
Theorem submit_admission :
  forall (cap : N) (x : xexec) (t : task),
    nth_error (x_subs x) 0 = Some SbIdle -> eqs (x_e x) <> [] ->
    x_e (xsubmit cap x t) = snd (submit cap (x_e x) t) /\
    x_acc (xsubmit cap x t) = (if fst (submit cap (x_e x) t) then x_acc x ++ [t] else x_acc x) /\
    x_rej (xsubmit cap x t) = (if fst (submit cap (x_e x) t) then x_rej x else x_rej x ++ [t]) /\
    x_ph (xsubmit cap x t) = x_ph x /\ x_active (xsubmit cap x t) = x_active x /\ x_executed (xsubmit cap x t) = x_executed x /\
    nth_error (x_subs (xsubmit cap x t)) 0 = Some SbIdle.
Proof. exact xsubmit_refines. Qed.
Check submit_admission :
  forall (cap : N) (x : xexec) (t : task),
    nth_error (x_subs x) 0 = Some SbIdle -> eqs (x_e x) <> [] ->
    x_e (xsubmit cap x t) = snd (submit cap (x_e x) t) /\
    x_acc (xsubmit cap x t) = (if fst (submit cap (x_e x) t) then x_acc x ++ [t] else x_acc x) /\
    x_rej (xsubmit cap x t) = (if fst (submit cap (x_e x) t) then x_rej x else x_rej x ++ [t]) /\
    x_ph (xsubmit cap x t) = x_ph x /\ x_active (xsubmit cap x t) = x_active x /\ x_executed (xsubmit cap x t) = x_executed x /\
    nth_error (x_subs (xsubmit cap x t)) 0 = Some SbIdle.
Print Assumptions submit_admission.

(* the race inside submit() is real in the model: two threads probe the same local queue with one free slot, the
   second push_local fails and that submission is rejected (its task is dropped, never queued) *)
Theorem submit_race_rejects :
  let a := mkT 0 0 true in let b := mkT 1 0 true in
  let x := xrun 1 1 2 [XProbe 0 a; XProbe 1 b; XPush 0; XPush 1] in
  x_acc x = [a] /\ x_rej x = [b] /\ queued (x_e x) = [a].
Proof. exact submit_race_proof. Qed.
Check submit_race_rejects :
  let a := mkT 0 0 true in let b := mkT 1 0 true in
  let x := xrun 1 1 2 [XProbe 0 a; XProbe 1 b; XPush 0; XPush 1] in
  x_acc x = [a] /\ x_rej x = [b] /\ queued (x_e x) = [a].
Print Assumptions submit_race_rejects.

(* is_idle() as written (active_tasks == 0 && total_queued() == 0), in every reachable state: if it returns true and
   no worker is between find_task and active_tasks += 1, every accepted task has been executed; and once every
   accepted task has been executed and no worker is between its increment and its decrement, it returns true
   (the executor becomes idle after the last task finishes) *)
Theorem is_idle_characterised :
  forall (cap : N) (nw nsub : nat) (steps : list xstep),
    let x := xrun cap nw nsub steps in
    (x_is_idle x = true -> (forall w, nth_error (x_ph x) w <> Some PhFound) -> Permutation (edone (x_e x)) (x_acc x)) /\
    (Permutation (edone (x_e x)) (x_acc x) -> (forall w ph, nth_error (x_ph x) w = Some ph -> ph_active ph = false) ->
       x_is_idle x = true).
Proof. exact is_idle_proof. Qed.
Check is_idle_characterised :
  forall (cap : N) (nw nsub : nat) (steps : list xstep),
    let x := xrun cap nw nsub steps in
    (x_is_idle x = true -> (forall w, nth_error (x_ph x) w <> Some PhFound) -> Permutation (edone (x_e x)) (x_acc x)) /\
    (Permutation (edone (x_e x)) (x_acc x) -> (forall w ph, nth_error (x_ph x) w = Some ph -> ph_active ph = false) ->
       x_is_idle x = true).
Print Assumptions is_idle_characterised.

(* ... and the excluded window exists: one accepted task, popped by the worker, active_tasks not yet incremented -
   is_idle() is true although nothing has run (reproduced on the real executor through the hook: after the find_task
   that takes the last task is_idle() returns true while the caller still holds the task) *)
Theorem is_idle_window_exists :
  let x := xrun 4 1 1 idle_window_steps in
  x_is_idle x = true /\ x_acc x = [idle_window_task] /\ edone (x_e x) = [] /\ x_held x = [idle_window_task] /\
  nth_error (x_ph x) 0 = Some PhFound.
Proof. exact is_idle_window_proof. Qed.
Check is_idle_window_exists :
  let x := xrun 4 1 1 idle_window_steps in
  x_is_idle x = true /\ x_acc x = [idle_window_task] /\ edone (x_e x) = [] /\ x_held x = [idle_window_task] /\
  nth_error (x_ph x) 0 = Some PhFound.
Print Assumptions is_idle_window_exists.

(* concurrency::parallel_reduce as written (chunk_size = (len + ncpu - 1) / ncpu, chunks(), one tokio task per chunk,
   join_all, final fold): for every ncpu >= 1, input and schedule of the chunk tasks the chunks partition the input
   (at most ncpu of them, none empty), and for a monoid the call returns the sequential left fold whenever it returns *)
Theorem global_reduce_is_fold :
  forall (T : Type) (g : T -> T -> T) (ident : T),
    (forall a b c, g (g a b) c = g a (g b c)) -> (forall a, g ident a = a) -> (forall a, g a ident = a) ->
    forall (ncpu maxf : N) (xs : list T) (steps : list pstep),
      0 < ncpu ->
      let op := fun a b => Some (g a b) in
      (forall r, g_reduce_result op ident ncpu xs (pool_run (g_reduce_jobs op ident ncpu xs) maxf steps) = Some r ->
                 r = Some (fold_left g xs ident)) /\
      (1 <= maxf -> exists more,
         g_reduce_result op ident ncpu xs (pool_run (g_reduce_jobs op ident ncpu xs) maxf (steps ++ more)) <> None).
Proof. exact g_reduce_is_fold_proof. Qed.
Check global_reduce_is_fold :
  forall (T : Type) (g : T -> T -> T) (ident : T),
    (forall a b c, g (g a b) c = g a (g b c)) -> (forall a, g ident a = a) -> (forall a, g a ident = a) ->
    forall (ncpu maxf : N) (xs : list T) (steps : list pstep),
      0 < ncpu ->
      let op := fun a b => Some (g a b) in
      (forall r, g_reduce_result op ident ncpu xs (pool_run (g_reduce_jobs op ident ncpu xs) maxf steps) = Some r ->
                 r = Some (fold_left g xs ident)) /\
      (1 <= maxf -> exists more,
         g_reduce_result op ident ncpu xs (pool_run (g_reduce_jobs op ident ncpu xs) maxf (steps ++ more)) <> None).
Print Assumptions global_reduce_is_fold.

(* the chunks of concurrency::parallel_reduce: concatenate to the input, none empty or longer than the chunk size, at most ncpu tasks *)
Theorem global_reduce_chunks_partition :
  forall (T : Type) (ncpu : N) (xs : list T), 0 < ncpu ->
    concat (g_chunks ncpu xs) = xs /\
    Forall (fun c => c <> [] /\ nlen c <= g_chunk_size (nlen xs) ncpu) (g_chunks ncpu xs) /\
    nlen (g_chunks ncpu xs) <= ncpu.
Proof. exact (@g_chunks_shape). Qed.
Check global_reduce_chunks_partition :
  forall (T : Type) (ncpu : N) (xs : list T), 0 < ncpu ->
    concat (g_chunks ncpu xs) = xs /\
    Forall (fun c => c <> [] /\ nlen c <= g_chunk_size (nlen xs) ncpu) (g_chunks ncpu xs) /\
    nlen (g_chunks ncpu xs) <= ncpu.
Print Assumptions global_reduce_chunks_partition.

(* a failing item makes concurrency::parallel_reduce return Err under every schedule *)
Theorem global_reduce_error_surfaces :
  forall (T : Type) (op : T -> T -> option T) (ident : T) (ncpu maxf : N) (xs : list T) (steps : list pstep) (x : T),
    0 < ncpu -> In x xs -> (forall a, op a x = None) ->
    forall r, g_reduce_result op ident ncpu xs (pool_run (g_reduce_jobs op ident ncpu xs) maxf steps) = Some r -> r = None.
Proof. exact g_reduce_error_proof. Qed.
Check global_reduce_error_surfaces :
  forall (T : Type) (op : T -> T -> option T) (ident : T) (ncpu maxf : N) (xs : list T) (steps : list pstep) (x : T),
    0 < ncpu -> In x xs -> (forall a, op a x = None) ->
    forall r, g_reduce_result op ident ncpu xs (pool_run (g_reduce_jobs op ident ncpu xs) maxf steps) = Some r -> r = None.
Print Assumptions global_reduce_error_surfaces.

(* the yielding loops of fiber_yield.rs as written (run_with_yield, process_vec_yielding, YieldingIterator::for_each / collect), for every
   function, input, yield interval (0 included) and initial budget: the result is the function applied in input order (Err as soon as an
   item fails), the function is called exactly on the items up to and including the first failing one, in order, each once *)
Theorem yield_loops_are_map :
  forall (T R : Type) (f : T -> option R) (init interval : N) (xs : list T),
    (fst (fst (yi_for_each init interval f xs)) = map_opt f xs /\
     calls (snd (yi_for_each init interval f xs)) = upto_fail f xs) /\
    (fst (fst (process_vec_yielding init interval f xs)) = map_opt f xs /\
     calls (snd (process_vec_yielding init interval f xs)) = upto_fail f xs) /\
    (fst (fst (yi_collect init interval xs)) = Some xs /\ calls (snd (yi_collect init interval xs)) = xs) /\
    (forall (h : N -> option R) (n : N),
       let idx := map N.of_nat (seq 0 (N.to_nat n)) in
       fst (fst (run_with_yield init n interval h)) = map_opt h idx /\
       calls (snd (run_with_yield init n interval h)) = upto_fail h idx) /\
    (forall g : T -> R, (forall x, In x xs -> f x = Some (g x)) -> map_opt f xs = Some (map g xs)) /\
    (forall x, In x xs -> f x = None -> map_opt f xs = None).
Proof. exact yield_loops_are_map_proof. Qed.
Check yield_loops_are_map :
  forall (T R : Type) (f : T -> option R) (init interval : N) (xs : list T),
    (fst (fst (yi_for_each init interval f xs)) = map_opt f xs /\
     calls (snd (yi_for_each init interval f xs)) = upto_fail f xs) /\
    (fst (fst (process_vec_yielding init interval f xs)) = map_opt f xs /\
     calls (snd (process_vec_yielding init interval f xs)) = upto_fail f xs) /\
    (fst (fst (yi_collect init interval xs)) = Some xs /\ calls (snd (yi_collect init interval xs)) = xs) /\
    (forall (h : N -> option R) (n : N),
       let idx := map N.of_nat (seq 0 (N.to_nat n)) in
       fst (fst (run_with_yield init n interval h)) = map_opt h idx /\
       calls (snd (run_with_yield init n interval h)) = upto_fail h idx) /\
    (forall g : T -> R, (forall x, In x xs -> f x = Some (g x)) -> map_opt f xs = Some (map g xs)) /\
    (forall x, In x xs -> f x = None -> map_opt f xs = None).
Print Assumptions yield_loops_are_map.

(* every suspension of these loops is one `tokio::task::yield_now().await` that is counted once (total_yields = number of
   suspensions in the trace: a loop over n items is suspended finitely often and always gets to its next item), and the u8 yield budget
   never leaves [0, initial_budget] (no underflow of `current_budget - 1`) *)
Theorem yield_points_return :
  forall (T R : Type) (f : T -> option R) (init interval : N) (xs : list T),
    (let '(_, p, tr) := yi_for_each init interval f xs in fy_total (yp_fy p) = yields tr /\ fy_budget (yp_fy p) <= init) /\
    (let '(_, (_, p), tr) := process_vec_yielding init interval f xs in fy_total (yp_fy p) = yields tr /\ fy_budget (yp_fy p) <= init) /\
    (let '(_, (_, p), tr) := yi_collect init interval xs in fy_total (yp_fy p) = yields tr /\ fy_budget (yp_fy p) <= init) /\
    (forall (h : N -> option R) (n : N),
       let '(_, p, tr) := run_with_yield init n interval h in fy_total (yp_fy p) = yields tr /\ fy_budget (yp_fy p) <= init).
Proof. exact yield_points_return_proof. Qed.
Check yield_points_return :
  forall (T R : Type) (f : T -> option R) (init interval : N) (xs : list T),
    (let '(_, p, tr) := yi_for_each init interval f xs in fy_total (yp_fy p) = yields tr /\ fy_budget (yp_fy p) <= init) /\
    (let '(_, (_, p), tr) := process_vec_yielding init interval f xs in fy_total (yp_fy p) = yields tr /\ fy_budget (yp_fy p) <= init) /\
    (let '(_, (_, p), tr) := yi_collect init interval xs in fy_total (yp_fy p) = yields tr /\ fy_budget (yp_fy p) <= init) /\
    (forall (h : N -> option R) (n : N),
       let '(_, p, tr) := run_with_yield init n interval h in fy_total (yp_fy p) = yields tr /\ fy_budget (yp_fy p) <= init).
Print Assumptions yield_points_return.

(* FiberIoUtils::batch_process: the chunks handed to the processor concatenate to the input (none empty, none longer than
   max(1, batch_size)), the result is the concatenation of the processor's results in chunk order, the processor is not called after a
   failing chunk, and for an item-wise processor the result is the item function applied in input order *)
Theorem batch_process_is_concat :
  forall (T R : Type) (bs : N) (proc : list T -> option (list R)) (xs : list T),
    concat (bp_chunks bs xs) = xs /\
    Forall (fun c => c <> [] /\ nlen c <= ival bs) (bp_chunks bs xs) /\
    fst (batch_process bs proc xs) =
      match map_opt proc (bp_chunks bs xs) with Some parts => Some (concat parts) | None => None end /\
    calls (snd (batch_process bs proc xs)) = upto_fail proc (bp_chunks bs xs) /\
    (forall g : T -> option R, (forall c, proc c = map_opt g c) -> fst (batch_process bs proc xs) = map_opt g xs).
Proof. exact batch_process_is_concat_proof. Qed.
Check batch_process_is_concat :
  forall (T R : Type) (bs : N) (proc : list T -> option (list R)) (xs : list T),
    concat (bp_chunks bs xs) = xs /\
    Forall (fun c => c <> [] /\ nlen c <= ival bs) (bp_chunks bs xs) /\
    fst (batch_process bs proc xs) =
      match map_opt proc (bp_chunks bs xs) with Some parts => Some (concat parts) | None => None end /\
    calls (snd (batch_process bs proc xs)) = upto_fail proc (bp_chunks bs xs) /\
    (forall g : T -> option R, (forall c, proc c = map_opt g c) -> fst (batch_process bs proc xs) = map_opt g xs).
Print Assumptions batch_process_is_concat.

(* `buffered(max_concurrent)` of concurrent_with_yield / process_files_parallel, every schedule of start / completion / hand-over steps:
   results leave the window in input order whatever the completion order, every operation is started at most once, at most
   max_concurrent operations hold a slot; the call returns map-in-input-order (Err if some operation fails); an unfinished state is never stuck *)
Theorem buffered_order :
  forall (n maxc : nat) (sch : list bstep),
    let b := b_run n maxc b_init sch in
    b_out b = seq 0 (length (b_out b)) /\
    map fst (b_win b) = seq (length (b_out b)) (length (b_win b)) /\
    (b_next b = length (b_out b) + length (b_win b))%nat /\ (b_next b <= n)%nat /\
    (length (b_win b) <= maxc)%nat /\
    (forall (R : Type) (res : nat -> option R) r, buffered_result res n b = Some r -> r = map_opt res (seq 0 n)) /\
    (forall (R : Type) (res : nat -> option R) (g : nat -> R) r,
        buffered_result res n b = Some r -> (forall i, (i < n)%nat -> res i = Some (g i)) -> r = Some (map g (seq 0 n))) /\
    (forall (R : Type) (res : nat -> option R) i r,
        buffered_result res n b = Some r -> (i < n)%nat -> res i = None -> r = None) /\
    ((1 <= maxc)%nat -> b_finished n b = false -> exists s, b_step n maxc b s <> b).
Proof. exact buffered_order_proof. Qed.
Check buffered_order :
  forall (n maxc : nat) (sch : list bstep),
    let b := b_run n maxc b_init sch in
    b_out b = seq 0 (length (b_out b)) /\
    map fst (b_win b) = seq (length (b_out b)) (length (b_win b)) /\
    (b_next b = length (b_out b) + length (b_win b))%nat /\ (b_next b <= n)%nat /\
    (length (b_win b) <= maxc)%nat /\
    (forall (R : Type) (res : nat -> option R) r, buffered_result res n b = Some r -> r = map_opt res (seq 0 n)) /\
    (forall (R : Type) (res : nat -> option R) (g : nat -> R) r,
        buffered_result res n b = Some r -> (forall i, (i < n)%nat -> res i = Some (g i)) -> r = Some (map g (seq 0 n))) /\
    (forall (R : Type) (res : nat -> option R) i r,
        buffered_result res n b = Some r -> (i < n)%nat -> res i = None -> r = None) /\
    ((1 <= maxc)%nat -> b_finished n b = false -> exists s, b_step n maxc b s <> b).
Print Assumptions buffered_order.

(* the settled states in which the harness cases of the buffered window are evaluated (all that can happen once a set of gates is
   open has happened) are runs of the step relation: buffered_order holds for them *)
Theorem buffered_settle_is_schedule :
  forall (fuel n maxc : nat) (open : nat -> bool) (b : buf),
    exists sch, b_settle fuel n maxc open b = b_run n maxc b sch.
Proof. exact b_settle_is_run_proof. Qed.
Check buffered_settle_is_schedule :
  forall (fuel n maxc : nat) (open : nat -> bool) (b : buf),
    exists sch, b_settle fuel n maxc open b = b_run n maxc b sch.
Print Assumptions buffered_settle_is_schedule.

(* the stages' own process_batch (trait default for MapStage / FilterStage / BatchMapStage without batch function; BatchMapStage
   with one): one result per input in input order or Err at the first failing item, nothing called after it, no suspension of its
   own; FilterStage keeps one entry per input (a rejected item is None in its place, nothing shifts) *)
Theorem stage_process_batch_is_map :
  forall (T R : Type) (f : T -> option R) (xs : list T),
    (fst (stage_batch_default f xs) = map_opt f xs /\
     calls (snd (stage_batch_default f xs)) = upto_fail f xs /\ yields (snd (stage_batch_default f xs)) = 0) /\
    (forall p : T -> bool,
       fst (stage_batch_default (filter_process p) xs) = Some (map (fun x => if p x then Some x else None) xs) /\
       calls (snd (stage_batch_default (filter_process p) xs)) = xs) /\
    (forall (bf : list T -> option (list R)), (forall c, bf c = map_opt f c) ->
       fst (stage_batch_func bf xs) = map_opt f xs /\ calls (snd (stage_batch_func bf xs)) = [xs]) /\
    (forall l, map_opt f xs = Some l -> length l = length xs).
Proof. exact stage_process_batch_is_map_proof. Qed.
Check stage_process_batch_is_map :
  forall (T R : Type) (f : T -> option R) (xs : list T),
    (fst (stage_batch_default f xs) = map_opt f xs /\
     calls (snd (stage_batch_default f xs)) = upto_fail f xs /\ yields (snd (stage_batch_default f xs)) = 0) /\
    (forall p : T -> bool,
       fst (stage_batch_default (filter_process p) xs) = Some (map (fun x => if p x then Some x else None) xs) /\
       calls (snd (stage_batch_default (filter_process p) xs)) = xs) /\
    (forall (bf : list T -> option (list R)), (forall c, bf c = map_opt f c) ->
       fst (stage_batch_func bf xs) = map_opt f xs /\ calls (snd (stage_batch_func bf xs)) = [xs]) /\
    (forall l, map_opt f xs = Some l -> length l = length xs).
Print Assumptions stage_process_batch_is_map.

(* AsyncMemoryBlobStore (and the trait's default batch operations): in every state in which no id at or beyond next_id is in use and
   fewer than 2^32 ids have been handed out, get_batch(put_batch(ds)) = ds - one id per blob in input order, pairwise distinct, none of
   them in use before, every older record unchanged *)
Theorem blob_batch_roundtrip :
  forall (s : mstore) (ds : list blob), bounded s -> ms_next s + nlen ds <= U32 ->
    let '(s', ids) := ms_put_batch s ds in
    ms_get_batch s' ids = Some ds /\ length ids = length ds /\ NoDup ids /\
    (forall id, In id ids -> ms_get s id = None /\ id < U32) /\
    (forall id, id < ms_next s -> ms_get s' id = ms_get s id) /\
    bounded s' /\ ms_next s' = ms_next s + nlen ds.
Proof. exact blob_batch_roundtrip_proof. Qed.
Check blob_batch_roundtrip :
  forall (s : mstore) (ds : list blob), bounded s -> ms_next s + nlen ds <= U32 ->
    let '(s', ids) := ms_put_batch s ds in
    ms_get_batch s' ids = Some ds /\ length ids = length ds /\ NoDup ids /\
    (forall id, In id ids -> ms_get s id = None /\ id < U32) /\
    (forall id, id < ms_next s -> ms_get s' id = ms_get s id) /\
    bounded s' /\ ms_next s' = ms_next s + nlen ds.
Print Assumptions blob_batch_roundtrip.

(* the state invariant holds for the new store and is kept by put / remove (put_batch: above), so it holds after every history;
   put then get returns the blob under a fresh id, remove fails exactly on an absent id, get_batch is the lookups in order and Err iff
   one id is missing *)
Theorem store_ops :
  bounded ms_new /\
  (forall s d, bounded s -> ms_next s < U32 ->
     bounded (fst (ms_put s d)) /\ ms_get (fst (ms_put s d)) (snd (ms_put s d)) = Some d /\ ms_get s (snd (ms_put s d)) = None /\
     (forall id, id <> snd (ms_put s d) -> ms_get (fst (ms_put s d)) id = ms_get s id)) /\
  (forall s id, bounded s ->
     bounded (fst (ms_remove s id)) /\ ms_get (fst (ms_remove s id)) id = None /\
     (forall id', id' <> id -> ms_get (fst (ms_remove s id)) id' = ms_get s id') /\
     (snd (ms_remove s id) = true <-> ms_get s id <> None)) /\
  (forall s ids (g : N -> blob), (forall id, In id ids -> ms_get s id = Some (g id)) -> ms_get_batch s ids = Some (map g ids)) /\
  (forall s ids id, In id ids -> ms_get s id = None -> ms_get_batch s ids = None).
Proof. exact store_ops_proof. Qed.
Check store_ops :
  bounded ms_new /\
  (forall s d, bounded s -> ms_next s < U32 ->
     bounded (fst (ms_put s d)) /\ ms_get (fst (ms_put s d)) (snd (ms_put s d)) = Some d /\ ms_get s (snd (ms_put s d)) = None /\
     (forall id, id <> snd (ms_put s d) -> ms_get (fst (ms_put s d)) id = ms_get s id)) /\
  (forall s id, bounded s ->
     bounded (fst (ms_remove s id)) /\ ms_get (fst (ms_remove s id)) id = None /\
     (forall id', id' <> id -> ms_get (fst (ms_remove s id)) id' = ms_get s id') /\
     (snd (ms_remove s id) = true <-> ms_get s id <> None)) /\
  (forall s ids (g : N -> blob), (forall id, In id ids -> ms_get s id = Some (g id)) -> ms_get_batch s ids = Some (map g ids)) /\
  (forall s ids id, In id ids -> ms_get s id = None -> ms_get_batch s ids = None).
Print Assumptions store_ops.

(* shutdown() and submit() after it, every history of executor steps and shutdowns: queued + running + executed stays exactly the
   multiset of accepted tasks, every accepted task was submitted before the first shutdown, and any number of submissions after a
   shutdown are refused without touching the executor (no task is accepted into a queue that no worker will poll) *)
Theorem shutdown_refuses :
  forall fixed cap nw h e down acc,
    l_run fixed cap (init nw) false [] h = (e, down, acc) ->
    Permutation (queued e ++ running e ++ edone e) acc /\
    (forall t, In t acc -> In t (submitted_before h)) /\
    down = has_shutdown h /\
    (forall e0 acc0 h', l_run fixed cap e0 true acc0 (map (fun t => LS (Submit t)) h') = (e0, true, acc0)).
Proof. exact shutdown_refuses_proof. Qed.
Check shutdown_refuses :
  forall fixed cap nw h e down acc,
    l_run fixed cap (init nw) false [] h = (e, down, acc) ->
    Permutation (queued e ++ running e ++ edone e) acc /\
    (forall t, In t acc -> In t (submitted_before h)) /\
    down = has_shutdown h /\
    (forall e0 acc0 h', l_run fixed cap e0 true acc0 (map (fun t => LS (Submit t)) h') = (e0, true, acc0)).
Print Assumptions shutdown_refuses.

(* every history of yield_now / force_yield / reset on one FiberYield: the u8 budget stays within [0, initial_budget] (the decrement is
   guarded, the exhausted budget is refilled by force_yield) and total_yields is the number of yield operations since the last reset *)
Theorem yield_budget_history :
  forall (init : N) (ops : list Z) (y : fy), fy_budget y <= init ->
    fy_budget (fold_left (fy_apply init) ops y) <= init /\
    fy_total (fold_left (fy_apply init) ops y) = yields_since (fy_total y) ops.
Proof. exact yield_budget_history_proof. Qed.
Check yield_budget_history :
  forall (init : N) (ops : list Z) (y : fy), fy_budget y <= init ->
    fy_budget (fold_left (fy_apply init) ops y) <= init /\
    fy_total (fold_left (fy_apply init) ops y) = yields_since (fy_total y) ops.
Print Assumptions yield_budget_history.
