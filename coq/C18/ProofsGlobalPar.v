(* C18: concurrency::parallel_reduce (ModelGlobalPar.v). *)
From ZV.Common Require Import Base.
From ZV.C18 Require Import Model ModelFiber ModelGlobalPar ProofsPar ProofsFiber ProofsFiberReduce.
Open Scope nat_scope.

Lemma g_chunk_size_pos len ncpu : (0 < ncpu)%N -> (0 < len)%N -> 0 < N.to_nat (g_chunk_size len ncpu).
Proof.
  intros Hn Hl. unfold g_chunk_size.
  assert (1 <= (len + ncpu - 1) / ncpu)%N by (apply N.div_le_lower_bound; lia). lia.
Qed.

Lemma g_chunks_shape {T} (ncpu : N) (xs : list T) : (0 < ncpu)%N ->
  concat (g_chunks ncpu xs) = xs /\
  Forall (fun c => c <> [] /\ (nlen c <= g_chunk_size (nlen xs) ncpu)%N) (g_chunks ncpu xs) /\
  (nlen (g_chunks ncpu xs) <= ncpu)%N.
Proof.
  intros Hn. destruct xs as [|x r] eqn:Exs.
  { unfold g_chunks, chunks. cbn [length chunks_fuel concat nlen]. split; [reflexivity|]. split; [constructor|lia]. }
  rewrite <- Exs. assert (Hl : (0 < nlen xs)%N) by (subst xs; cbn [nlen]; lia).
  pose proof (g_chunk_size_pos (nlen xs) ncpu Hn Hl) as Hk.
  destruct (chunks_shape (N.to_nat (g_chunk_size (nlen xs) ncpu)) Hk (length xs) xs (le_n _)) as [S1 S2].
  split; [unfold g_chunks, chunks; apply chunks_concat; [exact Hk|lia]|]. split.
  - unfold g_chunks, chunks. eapply Forall_impl; [|exact S1]. intros c [Hc Hle]. split; [exact Hc|]. rewrite nlen_length. lia.
  - unfold g_chunks, chunks. rewrite nlen_length.
    specialize (S2 ltac:(subst xs; discriminate)).
    set (n := length (chunks_fuel (length xs) (N.to_nat (g_chunk_size (nlen xs) ncpu)) xs)) in *.
    rewrite nlen_length in *. set (len := length xs) in *.
    unfold g_chunk_size in *.
    assert (Hcs : N.to_nat ((N.of_nat len + ncpu - 1) / ncpu) = (len + N.to_nat ncpu - 1) / N.to_nat ncpu).
    { rewrite N2Nat.inj_div. f_equal. lia. }
    rewrite Hcs in S2, Hk. clear Hcs S1.
    set (c := N.to_nat ncpu) in *. assert (Hc : 1 <= c) by (unfold c; lia).
    assert (Hgoal : n <= c).
    { pose proof (Nat.div_mod (len + c - 1) c ltac:(lia)) as Hdm.
      pose proof (Nat.mod_upper_bound (len + c - 1) c ltac:(lia)) as Hmod.
      set (k := (len + c - 1) / c) in *. nia. }
    unfold c in Hgoal. lia.
Qed.

Lemma g_reduce_is_fold_proof : forall (T : Type) (g : T -> T -> T) (ident : T),
  (forall a b c, g (g a b) c = g a (g b c)) -> (forall a, g ident a = a) -> (forall a, g a ident = a) ->
  forall (ncpu maxf : N) (xs : list T) (steps : list pstep),
    (0 < ncpu)%N ->
    let op := fun a b => Some (g a b) in
    (forall r, g_reduce_result op ident ncpu xs (pool_run (g_reduce_jobs op ident ncpu xs) maxf steps) = Some r ->
               r = Some (fold_left g xs ident)) /\
    ((1 <= maxf)%N -> exists more,
       g_reduce_result op ident ncpu xs (pool_run (g_reduce_jobs op ident ncpu xs) maxf (steps ++ more)) <> None).
Proof.
  intros T g ident Ha Hl Hr ncpu maxf xs steps Hn. cbv zeta. split.
  - intros r. unfold g_reduce_result. destruct xs as [|x0 xr] eqn:Exs; [intros H; inversion H; reflexivity|]. rewrite <- Exs.
    set (jobs := g_reduce_jobs (fun a b => Some (g a b)) ident ncpu xs).
    destruct (pm_result jobs (pool_run jobs maxf steps)) as [t|] eqn:Et; [|discriminate].
    apply pm_result_spec in Et. unfold jobs, g_reduce_jobs in Et. rewrite (chunk_jobs_ok g ident) in Et. subst t.
    intros H. inversion H; subst r. rewrite (fold_opt_total g).
    rewrite (fold_left_concat g ident Ha Hl Hr). destruct (g_chunks_shape ncpu xs Hn) as [Hc _]. rewrite Hc. reflexivity.
  - intros Hm. set (jobs := g_reduce_jobs (fun a b => Some (g a b)) ident ncpu xs).
    destruct (completes_from jobs maxf _ _ (pinv_run jobs maxf steps) Hm (le_n _)) as [more Hmore].
    exists more. unfold pool_run. rewrite fold_left_app. fold (pool_run jobs maxf steps).
    unfold pool_done in Hmore. apply andb_prop in Hmore. destruct Hmore as [H1 H2].
    unfold g_reduce_result. destruct xs; [discriminate|]. fold jobs. unfold pm_result. rewrite H1.
    pose proof (await_done _ H2) as Haw. destruct (await_seq _) as [[l| |]|]; try discriminate. congruence.
Qed.

Lemma g_reduce_error_proof : forall (T : Type) (op : T -> T -> option T) (ident : T) (ncpu maxf : N)
    (xs : list T) (steps : list pstep) (x : T),
  (0 < ncpu)%N -> In x xs -> (forall a, op a x = None) ->
  forall r, g_reduce_result op ident ncpu xs (pool_run (g_reduce_jobs op ident ncpu xs) maxf steps) = Some r -> r = None.
Proof.
  intros T op ident ncpu maxf xs steps x Hn Hin Hf r. unfold g_reduce_result.
  destruct xs as [|x0 xr] eqn:Exs; [destruct Hin|]. rewrite <- Exs in *.
  set (jobs := g_reduce_jobs op ident ncpu xs).
  destruct (pm_result jobs (pool_run jobs maxf steps)) as [t|] eqn:Et; [|discriminate].
  apply pm_result_spec in Et.
  assert (Hbad : seq_outcomes jobs = RErr).
  { apply seq_outcomes_bad. destruct (g_chunks_shape ncpu xs Hn) as [Hc _]. rewrite <- Hc in Hin. apply in_concat in Hin.
    destruct Hin as [c [Hcin Hx]]. apply In_nth_error in Hcin. destruct Hcin as [i Hi].
    exists i, OFail. split; [|discriminate]. unfold jobs, g_reduce_jobs. rewrite (map_nth_error _ _ _ Hi).
    unfold chunk_job. rewrite (fold_opt_fail op x c Hx Hf). reflexivity. }
  rewrite Hbad in Et. subst t. intros H. inversion H. reflexivity.
Qed.

Example g_reduce_nontrivial :
  let op := fun a b : list Z => Some (a ++ b) in
  let xs := [[1]; [2]; [3]; [4]; [5]]%Z in
  g_chunks 2 xs = [[[1]; [2]; [3]]; [[4]; [5]]]%Z /\
  g_reduce_result op [] 2 xs (pool_run (g_reduce_jobs op [] 2 xs) 8 (sched_seq 2)) = Some (Some [1; 2; 3; 4; 5]%Z).
Proof. vm_compute. auto. Qed.
