(* C18: the executor at the granularity of its atomic operations (ModelExec.v): conservation, the
   statistics counters, the capacity bounds, admission, and when is_idle() tells the truth. *)
From ZV.Common Require Import Base.
From ZV.C18 Require Import Model ModelExec ProofsQueue ProofsProgress ProofsComplete ProofsStream ProofsFiber.
From Coq Require Import Permutation.
Open Scope nat_scope.

(* ---- what a queue step does to the workers' slots and to the executed list ---- *)
Lemma take_erun e k w : taker k = Some w ->
  edone (wstep true e k) = edone e /\
  length (erun (wstep true e k)) = length (erun e) /\
  (forall v, v <> w -> nth_error (erun (wstep true e k)) v = nth_error (erun e) v).
Proof.
  intros Hk.
  assert (Hsame : edone e = edone e /\ length (erun e) = length (erun e) /\
                  (forall v, v <> w -> nth_error (erun e) v = nth_error (erun e) v)) by (repeat split).
  assert (Hset : forall e0 t, erun e0 = erun e -> edone e0 = edone e ->
            edone (set_run e0 w (Some t)) = edone e /\
            length (erun (set_run e0 w (Some t))) = length (erun e) /\
            (forall v, v <> w -> nth_error (erun (set_run e0 w (Some t))) v = nth_error (erun e) v)).
  { intros e0 t Hr Hd. unfold set_run; cbn [erun edone]. rewrite Hr, Hd. split; [reflexivity|].
    split; [apply set_nth_length|]. intros v Hv. apply nth_error_set_nth_neq. congruence. }
  destruct k as [t| |w0|w0|w0|w0 v0|w0 v0|w0 v0|w0|w0]; cbn [taker] in Hk; try discriminate;
    inversion Hk; subst w0; cbn [wstep].
  - destruct (worker_free e w); [|exact Hsame]. destruct (nth_error (eqs e) w) as [q|]; [|exact Hsame].
    destruct (pop_local true q) as [[t|] q']; [|exact Hsame]. apply Hset; reflexivity.
  - destruct (true && worker_free e w); [|exact Hsame]. destruct (nth_error (eqs e) w) as [q|]; [|exact Hsame].
    destruct (qsteal q); [exact Hsame|]. apply Hset; reflexivity.
  - destruct (worker_free e w); [|exact Hsame]. destruct (eglob e); [exact Hsame|]. apply Hset; reflexivity.
  - destruct (worker_free e w && negb (Nat.eqb w v0)); [|exact Hsame]. destruct (nth_error (eqs e) v0) as [q|]; [|exact Hsame].
    destruct (steal q) as [[t|] q']; [|exact Hsame]. apply Hset; reflexivity.
  - destruct (worker_free e w && negb (Nat.eqb w v0)); [|exact Hsame]. destruct (nth_error (eqs e) v0) as [q|]; [|exact Hsame].
    destruct (qsteal q); [exact Hsame|]. apply Hset; reflexivity.
  - destruct (worker_free e w && negb (Nat.eqb w v0)); [|exact Hsame]. destruct (nth_error (eqs e) v0) as [q|]; [|exact Hsame].
    destruct (1 <? nlen (qlocal q))%N; [|exact Hsame].
    destruct (remove_last_stealable (qlocal q)) as [[t l']|]; [|exact Hsame]. apply Hset; reflexivity.
Qed.

Lemma balance_erun e w : erun (wstep true e (Balance w)) = erun e /\ edone (wstep true e (Balance w)) = edone e.
Proof. cbn [wstep]. destruct (nth_error (eqs e) w); split; reflexivity. Qed.

Lemma worker_free_erun e1 e w : erun e1 = erun e -> worker_free e1 w = worker_free e w.
Proof. unfold worker_free. intros ->. reflexivity. Qed.

Lemma worker_free_nth e1 e w : nth_error (erun e1) w = nth_error (erun e) w -> worker_free e1 w = worker_free e w.
Proof. unfold worker_free. intros ->. reflexivity. Qed.

Lemma not_free_holds e w : w < length (erun e) -> worker_free e w = false -> exists t, nth_error (erun e) w = Some (Some t).
Proof.
  unfold worker_free. intros Hw H. destruct (nth_error (erun e) w) as [[t|]|] eqn:E; try discriminate.
  - exists t. reflexivity.
  - apply nth_error_None in E. lia.
Qed.

(* ---- conservation ---- *)
Definition xcons (x : xexec) : Prop := Permutation (all_tasks (x_e x)) (x_acc x).

Lemma all_tasks_next e n : all_tasks (mkE (eqs e) (eglob e) n (erun e) (edone e)) = all_tasks e.
Proof. reflexivity. Qed.

Lemma xstep_cons cap x s : xcons x -> xcons (xstep_fn cap x s).
Proof.
  unfold xcons. intros H. destruct s as [sb t|sb|sb|w k|w|w|w|w|w|w|w]; cbn [xstep_fn].
  - destruct (nth_error (x_subs x) sb) as [[|w0 t0|t0]|]; try exact H.
    destruct (nth_error (eqs (x_e x)) _) as [q|]; [|exact H].
    destruct (nlen (qlocal q) <? cap)%N; cbn [set_sub set_e x_e x_acc]; rewrite all_tasks_next; exact H.
  - destruct (nth_error (x_subs x) sb) as [[|w0 t0|t0]|]; try exact H.
    destruct (nth_error (eqs (x_e x)) w0) as [q|] eqn:Hq; [|exact H].
    destruct (push_local cap q t0) as [q'|] eqn:Hp; cbn [set_sub set_e x_e x_acc]; [|exact H].
    apply push_local_perm in Hp.
    unfold all_tasks, queued, running, set_q; cbn [eqs eglob erun edone].
    rewrite (set_nth_flat_add qtasks (eqs (x_e x)) w0 q q' t0 Hq Hp).
    rewrite <- H. unfold all_tasks, queued, running. cbn [app]. apply Permutation_cons_append.
  - destruct (nth_error (x_subs x) sb) as [[|w0 t0|t0]|]; try exact H.
    destruct (nlen (eglob (x_e x)) <? GLOBAL_CAP)%N; cbn [set_sub set_e x_e x_acc]; [|exact H].
    unfold all_tasks, queued, running; cbn [eqs eglob erun edone].
    rewrite insert_prio_perm.
    transitivity (t0 :: all_tasks (x_e x)); [|rewrite H; apply Permutation_cons_append].
    unfold all_tasks, queued, running. rewrite <- !app_assoc. cbn [app]. symmetry. apply Permutation_middle.
  - destruct (taker k) as [w'|] eqn:Hk; [|exact H].
    destruct (Nat.eqb w w' && phase_is x w PhIdle && worker_free (x_e x) w); [|exact H].
    assert (Hc : Permutation (all_tasks (wstep true (x_e x) k)) (all_tasks (x_e x))).
    { pose proof (wstep_conserves true (x_e x) k) as Hw. destruct k; try exact Hw; discriminate. }
    destruct (worker_free (wstep true (x_e x) k) w); cbn [set_ph set_e x_e x_acc]; rewrite Hc; exact H.
  - destruct (phase_is x w PhIdle); exact H.
  - destruct (phase_is x w PhFound); exact H.
  - destruct (phase_is x w PhRun); [|exact H]. cbn [set_ph set_e x_e x_acc].
    rewrite (wstep_conserves true (x_e x) (Finish w)). exact H.
  - destruct (phase_is x w PhExecuted); exact H.
  - destruct (phase_is x w PhCounted); exact H.
  - destruct (phase_is x w PhBal); [|exact H].
    destruct (x_executed x mod 100 =? 0)%N; cbn [set_ph set_e x_e x_acc]; [|exact H].
    rewrite (wstep_conserves true (x_e x) (Balance w)). exact H.
  - cbn [set_e x_e x_acc]. rewrite (wstep_conserves true (x_e x) (Balance w)). exact H.
Qed.

Lemma xrun_cons cap nw nsub steps : xcons (xrun cap nw nsub steps).
Proof.
  unfold xrun. assert (H0 : xcons (xinit nw nsub)) by (unfold xcons, xinit; cbn [x_e x_acc]; rewrite init_all_tasks; reflexivity).
  revert H0. generalize (xinit nw nsub). induction steps as [|s r IH]; intros x H; cbn [fold_left]; [exact H|].
  apply IH. apply xstep_cons. exact H.
Qed.

(* ---- phases and counters ---- *)
Definition ph_ok (x : xexec) : Prop :=
  length (x_ph x) = length (erun (x_e x)) /\
  (forall w ph, nth_error (x_ph x) w = Some ph -> worker_free (x_e x) w = negb (ph_holds ph)) /\
  x_active x = N.of_nat (count ph_active (x_ph x)) /\
  (x_executed x + N.of_nat (count ph_uncounted (x_ph x)))%N = nlen (edone (x_e x)).

Lemma phase_is_spec x w p : phase_is x w p = true -> nth_error (x_ph x) w = Some p.
Proof.
  unfold phase_is. destruct (nth_error (x_ph x) w) as [q|]; [|discriminate].
  destruct q, p; cbn [ph_eqb]; intros H; try discriminate; reflexivity.
Qed.

(* the phase of worker w changes from p to p', the queues part from e to e1 with the slots of the other workers untouched *)
Lemma ph_ok_change x w p p' e1 :
  ph_ok x -> nth_error (x_ph x) w = Some p ->
  length (erun e1) = length (erun (x_e x)) ->
  (forall v, v <> w -> nth_error (erun e1) v = nth_error (erun (x_e x)) v) ->
  worker_free e1 w = negb (ph_holds p') ->
  forall act exe,
    act = N.of_nat (count ph_active (set_nth w p' (x_ph x))) ->
    (exe + N.of_nat (count ph_uncounted (set_nth w p' (x_ph x))))%N = nlen (edone e1) ->
    ph_ok (mkX e1 (set_nth w p' (x_ph x)) (x_subs x) act exe (x_acc x) (x_rej x)).
Proof.
  intros [H1 [H2 [H3 H4]]] Hp HL Hoth Hw act exe Hact Hexe. unfold ph_ok; cbn [x_e x_ph x_active x_executed].
  split; [rewrite set_nth_length; lia|]. split; [|split; assumption].
  intros v ph Hv. destruct (nth_set_cases _ _ _ _ _ Hv) as [[-> ->]|[Hne Hv']].
  - exact Hw.
  - rewrite (worker_free_nth e1 (x_e x) v (Hoth v Hne)). apply H2. exact Hv'.
Qed.

Lemma nlen_snoc {A} (l : list A) x : nlen (l ++ [x]) = (nlen l + 1)%N.
Proof. rewrite nlen_app. reflexivity. Qed.

Lemma xstep_ph_ok cap x s : ph_ok x -> ph_ok (xstep_fn cap x s).
Proof.
  intros I. pose proof I as [H1 [H2 [H3 H4]]].
  (* a step that leaves phases, worker slots and executed list alone *)
  assert (Hkeep : forall e1 subs acc rej, erun e1 = erun (x_e x) -> edone e1 = edone (x_e x) ->
            ph_ok (mkX e1 (x_ph x) subs (x_active x) (x_executed x) acc rej)).
  { intros e1 subs acc rej Hr Hd. unfold ph_ok; cbn [x_e x_ph x_active x_executed]. rewrite Hr, Hd.
    split; [exact H1|]. split; [|split; assumption]. intros w ph Hw. rewrite (worker_free_erun e1 (x_e x) w Hr). apply H2. exact Hw. }
  destruct s as [sb t|sb|sb|w k|w|w|w|w|w|w|w]; cbn [xstep_fn].
  - destruct (nth_error (x_subs x) sb) as [[|w0 t0|t0]|]; try exact I.
    destruct (nth_error (eqs (x_e x)) _) as [q|]; [|exact I].
    destruct (nlen (qlocal q) <? cap)%N; apply Hkeep; reflexivity.
  - destruct (nth_error (x_subs x) sb) as [[|w0 t0|t0]|]; try exact I.
    destruct (nth_error (eqs (x_e x)) w0) as [q|]; [|exact I].
    destruct (push_local cap q t0); apply Hkeep; reflexivity.
  - destruct (nth_error (x_subs x) sb) as [[|w0 t0|t0]|]; try exact I.
    destruct (nlen (eglob (x_e x)) <? GLOBAL_CAP)%N; apply Hkeep; reflexivity.
  - destruct (taker k) as [w'|] eqn:Hk; [|exact I].
    destruct (Nat.eqb w w' && phase_is x w PhIdle && worker_free (x_e x) w) eqn:G; [|exact I].
    apply andb_prop in G. destruct G as [G G3]. apply andb_prop in G. destruct G as [G1 G2].
    apply Nat.eqb_eq in G1. subst w'. apply phase_is_spec in G2.
    destruct (take_erun (x_e x) k w Hk) as [T1 [T2 T3]].
    destruct (worker_free (wstep true (x_e x) k) w) eqn:Hfree.
    + (* nothing found: everything is as before for the phases *)
      unfold set_e. unfold ph_ok; cbn [x_e x_ph x_active x_executed]. rewrite T1, T2.
      split; [exact H1|]. split; [|split; assumption].
      intros v ph Hv. destruct (Nat.eq_dec v w) as [->|Hne].
      * rewrite Hfree. rewrite G2 in Hv. inversion Hv; subst. reflexivity.
      * rewrite (worker_free_nth _ (x_e x) v (T3 v Hne)). apply H2. exact Hv.
    + pose proof (count_set_nth ph_active (x_ph x) w PhFound PhIdle G2) as C1.
      pose proof (count_set_nth ph_uncounted (x_ph x) w PhFound PhIdle G2) as C2.
      cbn [ph_active ph_uncounted] in C1, C2.
      unfold set_ph, set_e; cbn [x_e x_ph x_subs x_active x_executed x_acc x_rej].
      apply (ph_ok_change x w PhIdle PhFound (wstep true (x_e x) k) I G2 T2 T3); [exact Hfree|lia|rewrite T1; lia].
  - destruct (phase_is x w PhIdle) eqn:G; [|exact I]. apply phase_is_spec in G.
    pose proof (count_set_nth ph_active (x_ph x) w PhBal PhIdle G) as C1.
    pose proof (count_set_nth ph_uncounted (x_ph x) w PhBal PhIdle G) as C2.
    cbn [ph_active ph_uncounted] in C1, C2.
    unfold set_ph; cbn [x_e x_ph x_subs x_active x_executed x_acc x_rej].
    apply (ph_ok_change x w PhIdle PhBal (x_e x) I G eq_refl (fun v _ => eq_refl)); [rewrite (H2 w PhIdle G); reflexivity|lia|lia].
  - destruct (phase_is x w PhFound) eqn:G; [|exact I]. apply phase_is_spec in G.
    pose proof (count_set_nth ph_active (x_ph x) w PhRun PhFound G) as C1.
    pose proof (count_set_nth ph_uncounted (x_ph x) w PhRun PhFound G) as C2.
    cbn [ph_active ph_uncounted] in C1, C2. unfold set_ph; cbn [x_e x_ph x_subs x_active x_executed x_acc x_rej].
    apply (ph_ok_change x w PhFound PhRun (x_e x) I G eq_refl (fun v _ => eq_refl)); [rewrite (H2 w PhFound G); reflexivity|lia|lia].
  - destruct (phase_is x w PhRun) eqn:G; [|exact I]. apply phase_is_spec in G.
    pose proof (H2 w PhRun G) as Hnf. cbn [ph_holds negb] in Hnf.
    assert (Hw : w < length (erun (x_e x))) by (rewrite <- H1; apply nth_error_Some; rewrite G; discriminate).
    destruct (not_free_holds _ _ Hw Hnf) as [t Ht].
    pose proof (count_set_nth ph_active (x_ph x) w PhExecuted PhRun G) as C1.
    pose proof (count_set_nth ph_uncounted (x_ph x) w PhExecuted PhRun G) as C2.
    cbn [ph_active ph_uncounted] in C1, C2.
    unfold set_ph, set_e; cbn [x_e x_ph x_subs x_active x_executed x_acc x_rej].
    assert (HF : wstep true (x_e x) (Finish w) =
                 mkE (eqs (x_e x)) (eglob (x_e x)) (enext (x_e x)) (set_nth w None (erun (x_e x))) (edone (x_e x) ++ [t])).
    { cbn [wstep]. rewrite Ht. reflexivity. }
    rewrite HF.
    apply (ph_ok_change x w PhRun PhExecuted _ I G); cbn [erun edone].
    + apply set_nth_length.
    + intros v Hv. apply nth_error_set_nth_neq. congruence.
    + unfold worker_free; cbn [erun]. rewrite nth_error_set_nth_eq by exact Hw. reflexivity.
    + lia.
    + rewrite nlen_snoc. lia.
  - destruct (phase_is x w PhExecuted) eqn:G; [|exact I]. apply phase_is_spec in G.
    pose proof (count_set_nth ph_active (x_ph x) w PhCounted PhExecuted G) as C1.
    pose proof (count_set_nth ph_uncounted (x_ph x) w PhCounted PhExecuted G) as C2.
    cbn [ph_active ph_uncounted] in C1, C2. unfold set_ph; cbn [x_e x_ph x_subs x_active x_executed x_acc x_rej].
    apply (ph_ok_change x w PhExecuted PhCounted (x_e x) I G eq_refl (fun v _ => eq_refl)); [rewrite (H2 w PhExecuted G); reflexivity|lia|lia].
  - destruct (phase_is x w PhCounted) eqn:G; [|exact I]. apply phase_is_spec in G.
    pose proof (count_set_nth ph_active (x_ph x) w PhBal PhCounted G) as C1.
    pose proof (count_set_nth ph_uncounted (x_ph x) w PhBal PhCounted G) as C2.
    cbn [ph_active ph_uncounted] in C1, C2. unfold set_ph; cbn [x_e x_ph x_subs x_active x_executed x_acc x_rej].
    apply (ph_ok_change x w PhCounted PhBal (x_e x) I G eq_refl (fun v _ => eq_refl)); [rewrite (H2 w PhCounted G); reflexivity|lia|lia].
  - destruct (phase_is x w PhBal) eqn:G; [|exact I]. apply phase_is_spec in G.
    pose proof (count_set_nth ph_active (x_ph x) w PhIdle PhBal G) as C1.
    pose proof (count_set_nth ph_uncounted (x_ph x) w PhIdle PhBal G) as C2.
    cbn [ph_active ph_uncounted] in C1, C2.
    destruct (balance_erun (x_e x) w) as [B1 B2].
    destruct (x_executed x mod 100 =? 0)%N; unfold set_e, set_ph; cbn [x_e x_ph x_subs x_active x_executed x_acc x_rej].
    + apply (ph_ok_change x w PhBal PhIdle _ I G); rewrite ?B1, ?B2; try reflexivity; try lia.
      rewrite (worker_free_erun _ (x_e x) w B1). rewrite (H2 w PhBal G). reflexivity.
    + apply (ph_ok_change x w PhBal PhIdle (x_e x) I G eq_refl (fun v _ => eq_refl)); [rewrite (H2 w PhBal G); reflexivity|lia|lia].
  - destruct (balance_erun (x_e x) w) as [B1 B2]. apply Hkeep; assumption.
Qed.

Lemma xrun_ph_ok cap nw nsub steps : ph_ok (xrun cap nw nsub steps).
Proof.
  unfold xrun.
  assert (H0 : ph_ok (xinit nw nsub)).
  { unfold ph_ok, xinit, init; cbn [x_e x_ph x_active x_executed erun edone nlen]. rewrite !repeat_length.
    split; [reflexivity|]. split; [|split].
    - intros w ph Hw.
      assert (Hlt : w < nw). { rewrite <- (repeat_length PhIdle nw). apply nth_error_Some. rewrite Hw. discriminate. }
      apply nth_error_In in Hw. apply repeat_spec in Hw. subst ph.
      unfold worker_free; cbn [erun].
      destruct (nth_error (repeat None nw) w) as [o|] eqn:E.
      + apply nth_error_In in E. apply repeat_spec in E. subst o. reflexivity.
      + apply nth_error_None in E. rewrite repeat_length in E. lia.
    - rewrite count_zero; [reflexivity|]. intros p Hp. apply repeat_spec in Hp. subst p. reflexivity.
    - rewrite count_zero; [reflexivity|]. intros p Hp. apply repeat_spec in Hp. subst p. reflexivity. }
  revert H0. generalize (xinit nw nsub). induction steps as [|s r IH]; intros x H; cbn [fold_left]; [exact H|].
  apply IH. apply xstep_ph_ok. exact H.
Qed.
