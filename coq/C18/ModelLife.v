(* C18 mechanism model: WorkStealingExecutor::shutdown and submit() after it (src/concurrency/work_stealing.rs), as written.
   Definitions only.

   `shutdown()` stores `true` into the `shutdown` flag and aborts the worker tasks; `submit()` loads the flag first and returns
   Err("executor has been shut down") before `next_worker` is touched.  A history is a list of the executor steps of Model.v
   and `LShutdown`; a worker step after the shutdown is still a step (a worker that is inside its loop body finishes its
   critical section before it is aborted at its next await; the verification hook calls find_task directly). *)
From ZV.Common Require Import Base Run.
From ZV.C18 Require Import Model.
Open Scope N_scope.

Inductive lop := LS (s : step) | LShutdown.

Fixpoint l_run (fixed : bool) (cap : N) (e : exec) (down : bool) (acc : list task) (h : list lop)
    : exec * bool * list task :=
  match h with
  | [] => (e, down, acc)
  | LShutdown :: r => l_run fixed cap e true acc r
  | LS (Submit t) :: r =>
      if down then l_run fixed cap e down acc r
      else let '(ok, e') := submit cap e t in l_run fixed cap e' down (if ok then acc ++ [t] else acc) r
  | LS SubmitRace :: r =>
      if down then l_run fixed cap e down acc r else l_run fixed cap (wstep fixed e SubmitRace) down acc r
  | LS s :: r => l_run fixed cap (wstep fixed e s) down acc r
  end.

(* the history as the executor of Model.v sees it: the refused submissions never reach it *)
Fixpoint erase (down : bool) (h : list lop) : list step :=
  match h with
  | [] => []
  | LShutdown :: r => erase true r
  | LS s :: r => if down && is_submit s then erase down r else s :: erase down r
  end.
Fixpoint has_shutdown (h : list lop) : bool :=
  match h with [] => false | LShutdown :: _ => true | _ :: r => has_shutdown r end.
(* the tasks submitted before the first shutdown *)
Fixpoint submitted_before (h : list lop) : list task :=
  match h with
  | [] => []
  | LShutdown :: _ => []
  | LS (Submit t) :: r => t :: submitted_before r
  | _ :: r => submitted_before r
  end.

(* kind 22: hook-driven history with shutdown: task code = submit (1 accepted / 0 refused), 10+w = worker w's find_task,
   30+w = balance, 7 = shutdown, anything else = total_queued; then the final passes of find_task as in Model.case_hist *)
Fixpoint run_lhist (fixed : bool) (cap : N) (e : exec) (down : bool) (next : N) (ops : list Z) : exec * list Z :=
  match ops with
  | [] => (e, [])
  | o :: r =>
      if (1000 <=? o)%Z then
        if down then let '(ef, obs) := run_lhist fixed cap e down (next + 1) r in (ef, 0%Z :: obs)
        else
          let '(ok, e') := submit cap e (dec_task next o) in
          let '(ef, obs) := run_lhist fixed cap e' down (next + 1) r in
          (ef, (if ok then 1%Z else 0%Z) :: obs)
      else if (30 <=? o)%Z then
        run_lhist fixed cap (wstep fixed e (Balance (Z.to_nat (o - 30)))) down next r
      else if (10 <=? o)%Z then
        match find_task fixed e (Z.to_nat (o - 10)) with
        | Some (t, e') => let '(ef, obs) := run_lhist fixed cap e' down next r in (ef, Z.of_N (tid t) :: obs)
        | None => let '(ef, obs) := run_lhist fixed cap e down next r in (ef, (-1)%Z :: obs)
        end
      else if (o =? 7)%Z then run_lhist fixed cap e true next r
      else
        let '(ef, obs) := run_lhist fixed cap e down next r in (ef, Z.of_N (total_queued e) :: obs)
  end.
Definition case_life (fixed : bool) (nw cap : N) (ops : list Z) : list Z :=
  let '(e, obs) := run_lhist fixed cap (init (N.to_nat nw)) false 0 ops in
  let '(e', dump) := drain_all fixed (S (N.to_nat (total_queued e))) e in
  obs ++ [(-7)%Z] ++ dump ++ [(-7)%Z; Z.of_N (total_queued e')].
