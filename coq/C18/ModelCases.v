(* C18: evaluation of harness cases - dispatcher over all case kinds (Model.run_case for kinds 0..7,
   the FiberPool / pipeline / executor models for the kinds added later).  Definitions only. *)
From ZV.Common Require Import Base Run.
From ZV.C18 Require Import Model ModelFiber.
Open Scope N_scope.

(* kind 8 FiberPool history; 9 FiberPool::parallel_map (b = 0: preceded by the result-collection model of
   Model.v on the same inputs); 10 FiberPool::parallel_for_each; 11 FiberPool::parallel_reduce
   (a = max_workers, b = 1000 * chunk size as computed by the harness + max_fibers; preceded by
   Model.case_reduce) *)
Definition run_case2 (fixed : bool) (kind a b : N) (ops : list Z) : list Z :=
  match kind with
  | 8 => case_pool a b ops
  | 9 => (if b =? 0 then case_pmap ops ++ [(-8)%Z] else []) ++ case_fp_map a ops
  | 10 => case_fp_each a ops
  | 11 => case_reduce (b / 1000) ops ++ [(-8)%Z] ++ case_fp_reduce a (b mod 1000) ops
  | _ => run_case fixed kind a b ops
  end.
