(* C18: evaluation of harness cases - dispatcher over all case kinds (Model.run_case for kinds 0..7,
   the FiberPool / pipeline / executor models for the kinds added later).  Definitions only. *)
From ZV.Common Require Import Base Run.
From ZV.C18 Require Import Model ModelFiber ModelPipe ModelExec ModelGlobalPar ModelYield ModelStore ModelLife.
Open Scope N_scope.

(* kind 8 FiberPool history; 9 FiberPool::parallel_map (b = 0: preceded by the result-collection model of
   Model.v on the same inputs; b = 1: with panicking items); 10 FiberPool::parallel_for_each;
   11 FiberPool::parallel_reduce (a = max_workers, b = 1000 * chunk size as computed by the harness + max_fibers;
   preceded by Model.case_reduce); 12 Pipeline::process_batch (a = path, b = slow + 2 * preceded by Model.case_pmap);
   13 execute_single / execute_two_stage; 14 execute_stream (ops = the error code the implementation returned,
   then the inputs; preceded by Model.case_stream); 15 BatchCollector with a clock;
   16 hook-driven executor history with is_idle (op 6) and queue-length (op 40+w) observations: Model.case_hist on
   the history without these observers, then the fine-grained executor model; 17 single-worker execution order:
   Model.case_order, then the worker loop as atomic steps with the statistics;
   18 concurrency::parallel_reduce (a = num_cpus::get());
   19 the yielding loops of fiber_yield.rs / FiberIoUtils::batch_process driven by hand (a = which, b = interval / batch size);
   20 `buffered(max_concurrent)` of concurrent_with_yield / process_files_parallel with gated operations
   (a = max_concurrent, b = number of operations, ops = items ++ gate order);
   21 AsyncMemoryBlobStore history (put_batch / put / remove / get_batch / len);
   22 hook-driven executor history with shutdown (op 7), a = workers, b = capacity;
   23 FiberYield / YieldPoint history (a = object, b = initial budget / interval) *)
Definition old_hist_op (o : Z) : bool := (1000 <=? o)%Z || ((o <? 40)%Z && negb (o =? 6)%Z).
Definition run_case2 (fixed : bool) (kind a b : N) (ops : list Z) : list Z :=
  match kind with
  | 8 => case_pool a b ops
  | 9 => (if b =? 0 then case_pmap ops ++ [(-8)%Z] else []) ++ case_fp_map a (negb (b =? 0)) ops
  | 10 => case_fp_each a ops
  | 11 => case_reduce (b / 1000) ops ++ [(-8)%Z] ++ case_fp_reduce a (b mod 1000) ops
  | 12 => (if b / 2 =? 1 then case_pmap ops ++ [(-8)%Z] else []) ++ case_pbatch a (b mod 2) ops
  | 13 => case_single (hd 0%Z ops)
  | 14 => (if b / 2 =? 0 then case_stream a (b mod 2) (tl ops) ++ [(-8)%Z] else [])
          ++ case_pstream a b (hd 0%Z ops) (tl ops)
  | 15 => case_bcoll a b ops
  | 16 => case_hist fixed a b (filter old_hist_op ops) ++ [(-8)%Z] ++ case_xhist a b ops
  | 17 => case_order fixed a ops ++ [(-8)%Z] ++ case_xorder a ops
  | 18 => case_g_reduce a ops
  | 19 => case_yield a b ops
  | 20 => case_buffered a b ops
  | 21 => case_store ops
  | 22 => case_life fixed a b ops
  | 23 => case_fy a b ops
  | _ => run_case fixed kind a b ops
  end.
