(* C18: conservation of tasks by every queue operation and every executor step. *)
From ZV.Common Require Import Base.
From ZV.C18 Require Import Model.
From Coq Require Import Permutation.
Open Scope N_scope.

Lemma insert_prio_perm t l : Permutation (insert_prio t l) (t :: l).
Proof.
  induction l as [|x r IH]; cbn [insert_prio]; [reflexivity|].
  destruct (tprio x <? tprio t); [reflexivity|].
  rewrite IH. apply perm_swap.
Qed.

Lemma rls_perm l : forall t l', remove_last_stealable l = Some (t, l') -> Permutation l (t :: l').
Proof.
  induction l as [|x r IH]; intros t l' H; cbn [remove_last_stealable] in H; [discriminate|].
  destruct (remove_last_stealable r) as [[t0 r0]|] eqn:E.
  - inversion H; subst. rewrite (IH _ _ eq_refl). apply perm_swap.
  - destruct (tsteal x); inversion H; subst. reflexivity.
Qed.

Lemma bal_loop_perm n : forall rl st rl' st',
  bal_loop n rl st = (rl', st') -> Permutation (rl' ++ st') (rl ++ st).
Proof.
  induction n as [|n IH]; intros rl st rl' st' H; cbn [bal_loop] in H.
  - inversion H; subst; reflexivity.
  - destruct rl as [|t r]; [inversion H; subst; reflexivity|].
    destruct (tsteal t).
    + apply IH in H. rewrite H. cbn [app].
      rewrite app_assoc. rewrite (Permutation_app_comm (r ++ st) [t]). reflexivity.
    + inversion H; subst; reflexivity.
Qed.

Lemma push_local_perm cap q t q' :
  push_local cap q t = Some q' -> Permutation (qtasks q') (t :: qtasks q).
Proof.
  unfold push_local, qtasks. destruct (cap <=? nlen (qlocal q)); [discriminate|].
  intros H; inversion H; subst; cbn [qlocal qsteal].
  rewrite insert_prio_perm. reflexivity.
Qed.

Lemma pop_local_some fixed q t q' :
  pop_local fixed q = (Some t, q') -> Permutation (qtasks q) (t :: qtasks q').
Proof.
  unfold pop_local, qtasks. destruct q as [l s]; cbn [qlocal qsteal].
  destruct l as [|x r].
  - destruct fixed; [|discriminate]. destruct s as [|y s']; [discriminate|].
    intros H; inversion H; subst; cbn [qlocal qsteal app]. reflexivity.
  - intros H; inversion H; subst; cbn [qlocal qsteal app]. reflexivity.
Qed.

Lemma pop_local_none fixed q q' : pop_local fixed q = (None, q') -> q' = q.
Proof.
  unfold pop_local. destruct (qlocal q) as [|x r]; [|discriminate].
  destruct fixed; [|intros H; inversion H; reflexivity].
  destruct (qsteal q); [intros H; inversion H; reflexivity|discriminate].
Qed.

Lemma steal_some q t q' : steal q = (Some t, q') -> Permutation (qtasks q) (t :: qtasks q').
Proof.
  unfold steal, qtasks. destruct q as [l s]; cbn [qlocal qsteal].
  destruct s as [|y s'].
  - destruct (1 <? nlen l); [|discriminate].
    destruct (remove_last_stealable l) as [[t0 l0]|] eqn:E; [|discriminate].
    intros H; inversion H; subst; cbn [qlocal qsteal]. rewrite !app_nil_r.
    apply rls_perm; assumption.
  - intros H; inversion H; subst; cbn [qlocal qsteal].
    symmetry. apply Permutation_middle.
Qed.

Lemma steal_none q q' : steal q = (None, q') -> q' = q.
Proof.
  unfold steal. destruct (qsteal q); [|discriminate].
  destruct (1 <? nlen (qlocal q)); [|intros H; inversion H; reflexivity].
  destruct (remove_last_stealable (qlocal q)) as [[t0 l0]|]; [discriminate|].
  intros H; inversion H; reflexivity.
Qed.

Lemma balance_perm q : Permutation (qtasks (balance q)) (qtasks q).
Proof.
  unfold balance, qtasks.
  destruct (nlen (qsteal q) + 1 <? nlen (qlocal q)); [|reflexivity].
  destruct (bal_loop _ _ _) as [rl st] eqn:E. cbn [qlocal qsteal].
  apply bal_loop_perm in E.
  rewrite <- (Permutation_rev rl). rewrite E.
  rewrite <- (Permutation_rev (qlocal q)). reflexivity.
Qed.

(* ---- lists of queues ---- *)

Lemma set_nth_flat {A B} (f : A -> list B) (l : list A) : forall i x y,
  nth_error l i = Some x ->
  Permutation (flat_map f (set_nth i y l) ++ f x) (flat_map f l ++ f y).
Proof.
  induction l as [|a r IH]; intros i x y H.
  - destruct i; discriminate.
  - destruct i as [|i]; cbn [nth_error] in H; cbn [set_nth flat_map].
    + inversion H; subst.
      rewrite <- !app_assoc. rewrite (Permutation_app_comm (flat_map f r) (f x)).
      rewrite (Permutation_app_comm (flat_map f r) (f y)).
      rewrite !app_assoc. apply Permutation_app_tail. apply Permutation_app_comm.
    + rewrite <- !app_assoc. apply Permutation_app_head. apply IH; assumption.
Qed.

Lemma set_nth_flat_cons {A B} (f : A -> list B) (l : list A) i x y (t : B) :
  nth_error l i = Some x ->
  Permutation (f x) (t :: f y) ->
  Permutation (flat_map f l) (t :: flat_map f (set_nth i y l)).
Proof.
  intros Hn Hp.
  pose proof (set_nth_flat f l i x y Hn) as H.
  apply (Permutation_app_inv_r (f y)).
  rewrite <- H. cbn [app]. rewrite Hp.
  rewrite <- Permutation_middle. reflexivity.
Qed.

Lemma set_nth_flat_same {A B} (f : A -> list B) (l : list A) i x y :
  nth_error l i = Some x ->
  Permutation (f y) (f x) ->
  Permutation (flat_map f (set_nth i y l)) (flat_map f l).
Proof.
  intros Hn Hp.
  pose proof (set_nth_flat f l i x y Hn) as H.
  apply (Permutation_app_inv_r (f x)).
  rewrite H. apply Permutation_app_head. assumption.
Qed.

Lemma set_nth_flat_add {A B} (f : A -> list B) (l : list A) i x y (t : B) :
  nth_error l i = Some x ->
  Permutation (f y) (t :: f x) ->
  Permutation (flat_map f (set_nth i y l)) (t :: flat_map f l).
Proof.
  intros Hn Hp.
  pose proof (set_nth_flat f l i x y Hn) as H.
  apply (Permutation_app_inv_r (f x)).
  rewrite H. rewrite Hp. cbn [app].
  rewrite <- Permutation_middle. reflexivity.
Qed.

Lemma cat_some_set_none {A} (l : list (option A)) : forall w t,
  nth_error l w = Some (Some t) ->
  Permutation (cat_some l) (t :: cat_some (set_nth w None l)).
Proof.
  induction l as [|a r IH]; intros w t H.
  - destruct w; discriminate.
  - destruct w as [|w]; cbn [nth_error] in H; cbn [set_nth cat_some].
    + inversion H; subst. reflexivity.
    + destruct a as [a|].
      * rewrite (IH _ _ H). apply perm_swap.
      * apply IH; assumption.
Qed.

Lemma cat_some_set_some {A} (l : list (option A)) : forall w t,
  nth_error l w = Some None ->
  Permutation (cat_some (set_nth w (Some t) l)) (t :: cat_some l).
Proof.
  induction l as [|a r IH]; intros w t H.
  - destruct w; discriminate.
  - destruct w as [|w]; cbn [nth_error] in H; cbn [set_nth cat_some].
    + inversion H; subst. reflexivity.
    + destruct a as [a|].
      * rewrite (IH _ _ H). apply perm_swap.
      * apply IH; assumption.
Qed.

Lemma worker_free_spec e w : worker_free e w = true -> nth_error (erun e) w = Some None.
Proof.
  unfold worker_free. destruct (nth_error (erun e) w) as [[t|]|]; try discriminate. reflexivity.
Qed.

(* moving a task from the queued part to the running part keeps the whole *)
Lemma move_to_run (Q Q' G R R' D : list task) t :
  Permutation Q (t :: Q') -> Permutation R' (t :: R) ->
  Permutation ((Q' ++ G) ++ R' ++ D) ((Q ++ G) ++ R ++ D).
Proof.
  intros HQ HR. rewrite HQ, HR. cbn [app].
  rewrite <- Permutation_middle. reflexivity.
Qed.

Lemma take_conserves e w v q q' t :
  nth_error (eqs e) v = Some q -> Permutation (qtasks q) (t :: qtasks q') -> worker_free e w = true ->
  Permutation (all_tasks (set_run (set_q e v q') w (Some t))) (all_tasks e).
Proof.
  intros Hq Hp Hf.
  unfold all_tasks, queued, running, set_run, set_q; cbn [eqs eglob erun edone].
  apply move_to_run with (t := t).
  - eapply set_nth_flat_cons; eassumption.
  - apply cat_some_set_some. apply worker_free_spec; assumption.
Qed.

Lemma wstep_conserves fixed e s :
  match s with Submit _ => True | _ => Permutation (all_tasks (wstep fixed e s)) (all_tasks e) end.
Proof.
  destruct s as [t| |w|w|w|w v|w v|w v|w|w]; [exact I| | | | | | | | |]; cbn [wstep].
  - (* SubmitRace *) reflexivity.
  - (* PopLocal *)
    destruct (worker_free e w) eqn:Hf; [|reflexivity].
    destruct (nth_error (eqs e) w) as [q|] eqn:Hq; [|reflexivity].
    destruct (pop_local fixed q) as [[t|] q'] eqn:Hp; [|reflexivity].
    eapply take_conserves; [eassumption| |assumption]. eapply pop_local_some; eassumption.
  - (* PopOwnSteal *)
    destruct (fixed && worker_free e w) eqn:Hf; [|reflexivity].
    apply andb_prop in Hf. destruct Hf as [_ Hf].
    destruct (nth_error (eqs e) w) as [q|] eqn:Hq; [|reflexivity].
    destruct (qsteal q) as [|t r] eqn:Hs; [reflexivity|].
    eapply take_conserves; [eassumption| |assumption].
    unfold qtasks; cbn [qlocal qsteal]. rewrite Hs. symmetry. apply Permutation_middle.
  - (* PopGlobal *)
    destruct (worker_free e w) eqn:Hf; [|reflexivity].
    destruct (eglob e) as [|t r] eqn:Hg; [reflexivity|].
    unfold all_tasks, queued, running, set_run; cbn [eqs eglob erun edone]. rewrite Hg.
    rewrite (cat_some_set_some _ _ t (worker_free_spec _ _ Hf)).
    cbn [app]. rewrite <- !Permutation_middle. reflexivity.
  - (* StealFrom *)
    destruct (worker_free e w && negb (Nat.eqb w v)) eqn:Hf; [|reflexivity].
    apply andb_prop in Hf. destruct Hf as [Hf _].
    destruct (nth_error (eqs e) v) as [q|] eqn:Hq; [|reflexivity].
    destruct (steal q) as [[t|] q'] eqn:Hp; [|reflexivity].
    eapply take_conserves; [eassumption| |assumption]. eapply steal_some; eassumption.
  - (* StealQ *)
    destruct (worker_free e w && negb (Nat.eqb w v)) eqn:Hf; [|reflexivity].
    apply andb_prop in Hf. destruct Hf as [Hf _].
    destruct (nth_error (eqs e) v) as [q|] eqn:Hq; [|reflexivity].
    destruct (qsteal q) as [|t r] eqn:Hs; [reflexivity|].
    eapply take_conserves; [eassumption| |assumption].
    unfold qtasks; cbn [qlocal qsteal]. rewrite Hs. symmetry. apply Permutation_middle.
  - (* StealL *)
    destruct (worker_free e w && negb (Nat.eqb w v)) eqn:Hf; [|reflexivity].
    apply andb_prop in Hf. destruct Hf as [Hf _].
    destruct (nth_error (eqs e) v) as [q|] eqn:Hq; [|reflexivity].
    destruct (1 <? nlen (qlocal q)); [|reflexivity].
    destruct (remove_last_stealable (qlocal q)) as [[t l']|] eqn:Hr; [|reflexivity].
    eapply take_conserves; [eassumption| |assumption].
    unfold qtasks; cbn [qlocal qsteal]. rewrite (rls_perm _ _ _ Hr). reflexivity.
  - (* Balance *)
    destruct (nth_error (eqs e) w) as [q|] eqn:Hq; [|reflexivity].
    unfold all_tasks, queued, running, set_q; cbn [eqs eglob erun edone].
    apply Permutation_app_tail. apply Permutation_app_tail.
    eapply set_nth_flat_same; [eassumption|]. apply balance_perm.
  - (* Finish *)
    destruct (nth_error (erun e) w) as [[t|]|] eqn:Hr; try reflexivity.
    unfold all_tasks, queued, running; cbn [eqs eglob erun edone].
    apply Permutation_app_head.
    rewrite (cat_some_set_none _ _ _ Hr). cbn [app].
    rewrite app_assoc. rewrite <- Permutation_middle. rewrite app_nil_r.
    reflexivity.
Qed.

Lemma submit_conserves cap e t ok e' :
  submit cap e t = (ok, e') ->
  Permutation (all_tasks e') ((if ok then [t] else []) ++ all_tasks e).
Proof.
  unfold submit.
  destruct (nth_error (eqs e) _) as [q|] eqn:Hq.
  2:{ intros H; inversion H; subst. reflexivity. }
  destruct (nlen (qlocal q) <? cap).
  - destruct (push_local cap q t) as [q'|] eqn:Hp.
    + intros H; inversion H; subst.
      unfold all_tasks, queued, running, set_q; cbn [eqs eglob erun edone app].
      apply push_local_perm in Hp.
      rewrite (set_nth_flat_add qtasks (eqs e) _ q q' t Hq Hp).
      reflexivity.
    + intros H; inversion H; subst. reflexivity.
  - destruct (nlen (eglob e) <? GLOBAL_CAP).
    + intros H; inversion H; subst.
      unfold all_tasks, queued, running; cbn [eqs eglob erun edone app].
      rewrite insert_prio_perm. rewrite <- !app_assoc. cbn [app].
      rewrite <- Permutation_middle. reflexivity.
    + intros H; inversion H; subst. reflexivity.
Qed.

(* every history: what the executor holds is what it started with plus what submit accepted *)
Lemma run_conserves fixed cap steps : forall e acc e' acc',
  run fixed cap e acc steps = (e', acc') ->
  exists added, acc' = acc ++ added /\ Permutation (all_tasks e') (all_tasks e ++ added).
Proof.
  induction steps as [|s r IH]; intros e acc e' acc' H; cbn [run] in H.
  - inversion H; subst. exists []. rewrite !app_nil_r. split; reflexivity.
  - destruct s as [t| |w|w|w|w v|w v|w v|w|w];
      try (apply IH in H; destruct H as [added [Ha Hp]]; exists added; split; [assumption|];
           rewrite Hp; apply Permutation_app_tail;
           match goal with |- Permutation (all_tasks (wstep _ _ ?s)) _ => exact (wstep_conserves fixed e s) end).
    destruct (submit cap e t) as [ok e1] eqn:Hs.
    apply IH in H. destruct H as [added [Ha Hp]].
    apply submit_conserves in Hs.
    destruct ok.
    + exists (t :: added). split; [rewrite Ha, <- app_assoc; reflexivity|].
      rewrite Hp, Hs. cbn [app]. rewrite <- Permutation_middle. reflexivity.
    + exists added. split; [assumption|]. rewrite Hp, Hs. reflexivity.
Qed.

Lemma flat_map_repeat_nil {A B} (f : A -> list B) x n : f x = [] -> flat_map f (repeat x n) = [].
Proof. intros H. induction n; cbn [repeat flat_map]; [reflexivity|]. rewrite H, IHn. reflexivity. Qed.
Lemma cat_some_repeat_none {A} n : cat_some (repeat (@None A) n) = [].
Proof. induction n; cbn [repeat cat_some]; auto. Qed.

Lemma init_all_tasks nw : all_tasks (init nw) = [].
Proof.
  unfold all_tasks, queued, running, init; cbn [eqs eglob erun edone].
  rewrite flat_map_repeat_nil by reflexivity. rewrite cat_some_repeat_none. reflexivity.
Qed.

Lemma conservation_proof : forall fixed cap nw steps e acc,
  run fixed cap (init nw) [] steps = (e, acc) ->
  Permutation (queued e ++ running e ++ edone e) acc.
Proof.
  intros fixed cap nw steps e acc H.
  apply run_conserves in H. destruct H as [added [Ha Hp]].
  cbn [app] in Ha. subst acc. rewrite init_all_tasks in Hp. exact Hp.
Qed.

(* exactly once: with distinct task identities, no task is held twice anywhere, and at
   quiescence the executed list is exactly the accepted list up to order *)
Lemma exactly_once_proof : forall fixed cap nw steps e acc,
  run fixed cap (init nw) [] steps = (e, acc) ->
  NoDup (map tid acc) ->
  NoDup (map tid (queued e ++ running e ++ edone e)) /\
  (forall t, In t acc -> In t (queued e) \/ In t (running e) \/ In t (edone e)) /\
  (queued e = [] -> running e = [] -> Permutation (edone e) acc).
Proof.
  intros fixed cap nw steps e acc H Hnd.
  pose proof (conservation_proof _ _ _ _ _ _ H) as Hp.
  split; [|split].
  - eapply Permutation_NoDup; [|exact Hnd]. apply Permutation_map. symmetry. exact Hp.
  - intros t Ht. apply (Permutation_in t (Permutation_sym Hp)) in Ht.
    apply in_app_or in Ht. destruct Ht as [Ht|Ht]; [left; exact Ht|].
    apply in_app_or in Ht. destruct Ht as [Ht|Ht]; [right; left; exact Ht|right; right; exact Ht].
  - intros Hq Hr. rewrite Hq, Hr in Hp. exact Hp.
Qed.

Example conservation_nontrivial :
  let t0 := mkT 0 1 true in let t1 := mkT 1 0 true in let t2 := mkT 2 5 false in
  exists e acc, run true 1 (init 2) [] [Submit t0; Submit t1; Submit t2; PopLocal 0; Balance 1; StealFrom 1 0; PopGlobal 1; Finish 0] = (e, acc)
    /\ length acc = 3%nat /\ length (edone e) = 1%nat /\ length (running e) = 1%nat.
Proof. cbv zeta. eexists. eexists. split; [vm_compute; reflexivity|]. vm_compute. auto. Qed.
