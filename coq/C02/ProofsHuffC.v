(* C02: HuffmanCompressor end to end (ModelComp.v): HuffmanTree::serialize / deserialize over a table in any
   HashMap order, the header of src/compression/mod.rs, and the Huffman coder theorems of coq/C01. *)
From ZV.Common Require Import Base.
From Coq Require Import Permutation.
From ZV.C02 Require Import Model ModelComp ProofsFrame.
From ZV.C01 Require Import Model ProofsBits ProofsHuff ProofsTree ProofsHeap.
Open Scope N_scope.

(* ---------------- pack: length ---------------- *)
Lemma pack_length bs : length (pack bs) = ((length bs + 7) / 8)%nat.
Proof.
  pose proof (f_equal (@length bool) (pack_unpack_proof bs)) as H.
  rewrite unpack_length, app_length, repeat_length in H.
  pose proof (pad_len_lt (length bs)). pose proof (pad_len_sum (length bs)) as Hs.
  apply Nat.mod_divides in Hs; [|lia]. destruct Hs as [k Hk].
  assert (length (pack bs) = k) by lia. subst k.
  apply Nat.div_unique with (r := (7 - pad_len (length bs))%nat); lia.
Qed.
Lemma unpack_pack_firstn bs : firstn (length bs) (unpack (pack bs)) = bs.
Proof. rewrite pack_unpack_proof. rewrite firstn_app, Nat.sub_diag, firstn_all. cbn [firstn]. apply app_nil_r. Qed.

(* ---------------- serialize / deserialize ---------------- *)
Definition short_codes (tb : table) : Prop := Forall (fun e => (length (snd e) < 256)%nat) tb.

Lemma deser_ser_entries tb : short_codes tb -> forall rest,
  deser_entries (length tb) (flat_map ser_entry tb ++ rest) = Some tb.
Proof.
  induction 1 as [|[s c] tb Hc _ IH]; intros rest; [reflexivity|].
  cbn [length flat_map deser_entries]. unfold ser_entry at 1. cbn [fst snd] in *. cbn [app].
  rewrite N.mod_small by lia.
  assert (Hbc : (N.of_nat (length c) + 7) / 8 = N.of_nat (length (pack c))).
  { rewrite pack_length. rewrite Nat2N.inj_div. f_equal. lia. }
  rewrite Hbc. rewrite <- app_assoc.
  destruct (N.ltb_spec (nlen (pack c ++ flat_map ser_entry tb ++ rest)) (N.of_nat (length (pack c)))) as [Hlt|_].
  { rewrite nlen_app, nlen_length in Hlt. lia. }
  rewrite !Nat2N.id. rewrite skipn_app, skipn_all, Nat.sub_diag. cbn [skipn app].
  rewrite IH. rewrite firstn_app, firstn_all, Nat.sub_diag. cbn [firstn]. rewrite app_nil_r.
  now rewrite unpack_pack_firstn.
Qed.

(* a list with distinct keys is its own HashMap *)
Lemma hm_insert_fresh tb s c : ~ In s (map fst tb) -> hm_insert tb s c = tb ++ [(s, c)].
Proof.
  induction tb as [|[s' c'] tb IH]; intros Hn; [reflexivity|]. cbn [hm_insert map fst In] in *.
  destruct (N.eqb_spec s' s) as [E|E]; [exfalso; apply Hn; now left|].
  rewrite IH; [reflexivity|]. intros Hc. apply Hn. now right.
Qed.
Lemma hm_fold_nodup l : forall acc, NoDup (map fst (acc ++ l)) ->
  fold_left (fun m e => hm_insert m (fst e) (snd e)) l acc = acc ++ l.
Proof.
  induction l as [|[s c] l IH]; intros acc Hnd; [now rewrite app_nil_r|]. cbn [fold_left fst snd].
  rewrite hm_insert_fresh.
  - rewrite IH; rewrite <- app_assoc; [reflexivity|exact Hnd].
  - rewrite map_app in Hnd. cbn [map fst] in Hnd. apply NoDup_remove_2 in Hnd. intros Hc. apply Hnd.
    apply in_or_app. now left.
Qed.
Lemma hm_of_list_nodup l : NoDup (map fst l) -> hm_of_list l = l.
Proof. intros H. unfold hm_of_list. now rewrite hm_fold_nodup. Qed.

(* ---------------- prefix_free is a property of the set of entries ---------------- *)
Definition apart (a b : N * list bool) : bool :=
  negb (is_prefix (snd a) (snd b)) && negb (is_prefix (snd b) (snd a)).
Lemma apart_sym a b : apart a b = apart b a.
Proof. unfold apart. apply andb_comm. Qed.
Lemma prefix_free_cons e tb :
  prefix_free (e :: tb) = nonempty (snd e) && forallb (apart e) tb && prefix_free tb.
Proof. destruct e as [s c]. reflexivity. Qed.
Lemma forallb_perm {A} (f : A -> bool) a b : Permutation a b -> forallb f a = forallb f b.
Proof.
  induction 1 as [|x a b _ IH|x y a|a b c _ IH1 _ IH2]; cbn [forallb].
  - reflexivity.
  - now rewrite IH.
  - rewrite !andb_assoc. f_equal. apply andb_comm.
  - now rewrite IH1.
Qed.
Lemma prefix_free_perm a b : Permutation a b -> prefix_free a = prefix_free b.
Proof.
  induction 1 as [|x a b Hp IH|x y a|a b c _ IH1 _ IH2].
  - reflexivity.
  - rewrite !prefix_free_cons, IH. now rewrite (forallb_perm _ _ _ Hp).
  - rewrite !prefix_free_cons. cbn [forallb]. rewrite (apart_sym x y).
    destruct (nonempty (snd x)), (nonempty (snd y)), (apart y x), (forallb (apart x) a), (forallb (apart y) a); reflexivity.
  - now rewrite IH1.
Qed.
Lemma prefix_free_app a b :
  prefix_free a = true -> prefix_free b = true ->
  (forall x y, In x a -> In y b -> apart x y = true) -> prefix_free (a ++ b) = true.
Proof.
  induction a as [|e a IH]; intros Ha Hb Hx; [exact Hb|].
  cbn [app]. rewrite prefix_free_cons in *. apply andb_true_iff in Ha. destruct Ha as [Ha Hpa].
  apply andb_true_iff in Ha. destruct Ha as [Hne Hfa].
  rewrite Hne, forallb_app, Hfa. cbn [andb].
  rewrite IH; [|exact Hpa|exact Hb|intros x y Hi Hj; apply Hx; [now right|exact Hj]].
  rewrite andb_true_r. apply forallb_forall. intros y Hy. apply Hx; [now left|exact Hy].
Qed.

(* generate_codes: the codes of a tree are pairwise prefix-free *)
Lemma is_prefix_app_diff pre : forall s1 s2 (b1 b2 : bool), b1 <> b2 -> is_prefix (pre ++ b1 :: s1) (pre ++ b2 :: s2) = false.
Proof.
  induction pre as [|p pre IH]; intros s1 s2 b1 b2 Hb; cbn [app is_prefix].
  - destruct b1, b2; try congruence; reflexivity.
  - rewrite IH by exact Hb. apply andb_false_r.
Qed.
Lemma gen_codes_prefix_free t : forall pre, (pre <> [] \/ is_node t = true) -> prefix_free (gen_codes t pre) = true.
Proof.
  induction t as [x| |l IHl r IHr]; intros pre Hp; cbn [gen_codes].
  - destruct Hp as [Hp|Hp]; [|discriminate]. cbn [prefix_free forallb]. destruct pre; [congruence|reflexivity].
  - reflexivity.
  - apply prefix_free_app.
    + apply IHl. left. destruct pre; discriminate.
    + apply IHr. left. destruct pre; discriminate.
    + intros [s1 c1] [s2 c2] H1 H2.
      destruct (gen_codes_walk _ _ _ _ H1) as [u1 [-> _]]. destruct (gen_codes_walk _ _ _ _ H2) as [u2 [-> _]].
      unfold apart. cbn [snd]. rewrite <- !app_assoc. cbn [app].
      rewrite !is_prefix_app_diff by discriminate. reflexivity.
Qed.
Lemma gen_codes_keys t : forall pre, map fst (gen_codes t pre) = leaves t.
Proof.
  induction t as [x| |l IHl r IHr]; intros pre; cbn [gen_codes leaves map fst]; [reflexivity|reflexivity|].
  now rewrite map_app, IHl, IHr.
Qed.
Lemma fixed_codes_keys syms : forall i, map fst (fixed_codes_go syms i) = syms.
Proof. induction syms as [|s syms IH]; intros i; cbn [fixed_codes_go map fst]; [reflexivity|now rewrite IH]. Qed.
Lemma max_len_bound tb e : In e tb -> (length (snd e) <= max_len tb)%nat.
Proof.
  induction tb as [|x tb IH]; intros Hin; [destruct Hin|]. unfold max_len in *. cbn [fold_right].
  destruct Hin as [->|Hin]; [lia|]. specialize (IH Hin). lia.
Qed.
Lemma fixed_codes_len syms : forall i e, In e (fixed_codes_go syms i) -> length (snd e) = 8%nat.
Proof. intros i e He. destruct (fixed_codes_in _ _ _ He) as [j [_ ->]]. apply bits_of_n_length. Qed.

(* what from_frequencies builds: distinct keys = the present symbols, prefix-free short codes *)
Lemma ht_from_heap_table syms heap ht :
  (length syms <= 256)%nat -> NoDup syms -> heap_run (map Leaf syms) heap -> ht_from_heap syms heap = Some ht ->
  Permutation (map fst (ht_codes ht)) syms /\ (syms <> [] -> prefix_free (ht_codes ht) = true) /\ short_codes (ht_codes ht).
Proof.
  intros Hlen Hnd Hrun Hht. unfold ht_from_heap in Hht. destruct syms as [|s1 [|s2 syms]].
  - injection Hht as <-. cbn [ht_codes map]. split; [constructor|]. split; [congruence|constructor].
  - injection Hht as <-. cbn [ht_codes map fst]. split; [reflexivity|]. split; [reflexivity|].
    constructor; [cbn; lia|constructor].
  - set (ss := s1 :: s2 :: syms) in *.
    assert (Hnode : is_node heap = true).
    { apply (heap_run_node _ _ Hrun). rewrite map_length. unfold ss. cbn [length]. lia. }
    destruct (64 <? max_len (gen_codes heap []))%nat eqn:Emax.
    + destruct (build_root (fixed_codes ss)); [|discriminate]. injection Hht as <-. cbn [ht_codes].
      unfold fixed_codes. split; [now rewrite fixed_codes_keys|]. split.
      * intros _. apply fixed_codes_prefix_free. lia.
      * apply Forall_forall. intros e He. rewrite (fixed_codes_len _ _ _ He). lia.
    + injection Hht as <-. cbn [ht_codes]. split.
      * rewrite gen_codes_keys. rewrite (heap_run_leaves _ _ Hrun). now rewrite flat_map_leaf.
      * split; [intros _; apply gen_codes_prefix_free; now right|].
        apply Forall_forall. intros e He. pose proof (max_len_bound _ _ He).
        apply Nat.ltb_ge in Emax. lia.
Qed.

(* ---------------- a table with distinct keys, read through get_code ---------------- *)
Lemma get_code_nodup tb : NoDup (map fst tb) -> forall s c, In (s, c) tb -> get_code tb s = Some c.
Proof.
  induction tb as [|[s' c'] tb IH]; intros Hnd s c Hin; [destruct Hin|].
  unfold get_code. cbn [find fst]. inversion Hnd as [|? ? Hni Hnd']; subst.
  destruct Hin as [E|Hin].
  - injection E as -> ->. now rewrite N.eqb_refl.
  - destruct (N.eqb_spec s' s) as [->|_].
    + exfalso. apply Hni. apply in_map_iff. exists (s, c). now split.
    + apply (IH Hnd' _ _ Hin).
Qed.
Lemma get_code_perm a b : Permutation a b -> NoDup (map fst a) -> forall s, get_code a s = get_code b s.
Proof.
  intros Hp Hnd s. assert (Hndb : NoDup (map fst b)) by (eapply Permutation_NoDup; [apply Permutation_map; exact Hp|exact Hnd]).
  destruct (get_code a s) as [c|] eqn:Ea.
  - symmetry. apply get_code_nodup; [exact Hndb|]. apply (Permutation_in _ Hp). now apply get_code_in.
  - destruct (get_code b s) as [c|] eqn:Eb; [|reflexivity]. apply get_code_in in Eb.
    apply (Permutation_in _ (Permutation_sym Hp)) in Eb. now rewrite (get_code_nodup _ Hnd _ _ Eb) in Ea.
Qed.
Lemma code_bits_ext a b : (forall s, get_code a s = get_code b s) -> forall d, code_bits a d = code_bits b d.
Proof. intros H. induction d as [|s d IH]; cbn [code_bits]; [reflexivity|]. now rewrite H, IH. Qed.

Lemma wf_ht_perm r a b : Permutation a b -> wf_ht (mkHT r a) = wf_ht (mkHT r b).
Proof.
  intros Hp. unfold wf_ht. cbn [ht_root ht_codes]. destruct r as [[x| |l rr]|].
  - now apply forallb_perm.
  - reflexivity.
  - now apply forallb_perm.
  - destruct a as [|e a], b as [|e' b]; try reflexivity.
    + apply Permutation_nil in Hp. discriminate.
    + apply Permutation_sym, Permutation_nil in Hp. discriminate.
Qed.

(* ---------------- the tree bytes ---------------- *)
Lemma le_bytes2 v : v < 65536 -> L.le_bytes 2 v = [v mod 256; v / 256].
Proof. intros Hv. cbn [L.le_bytes]. rewrite (N.mod_small (v / 256)) by lia. reflexivity. Qed.

(* deserialize(serialize(table)) - in whatever orders the two HashMaps are iterated - is a HuffmanTree with the
   same table (in serialisation order) and a decoding tree that agrees with it *)
Lemma deser_ser_tree ord2 tb :
  (forall t, Permutation (ord2 t) t) ->
  NoDup (map fst tb) -> (length tb <= 256)%nat -> tb <> [] -> prefix_free tb = true -> short_codes tb ->
  exists t, deser_tree ord2 (ser_table tb) = Some (mkHT (Some t) tb) /\ wf_ht (mkHT (Some t) tb) = true.
Proof.
  intros Hord Hnd Hlen Hne Hpf Hsc. unfold ser_table, deser_tree.
  assert (Hn : nlen tb mod 65536 = nlen tb) by (apply N.mod_small; rewrite nlen_length; lia).
  rewrite Hn, le_bytes2 by (rewrite nlen_length; lia). cbn [app].
  replace (nlen tb mod 256 + 256 * (nlen tb / 256)) with (nlen tb) by lia.
  rewrite nlen_length, Nat2N.id. rewrite <- (app_nil_r (flat_map ser_entry tb)).
  rewrite deser_ser_entries by exact Hsc. rewrite hm_of_list_nodup by exact Hnd.
  destruct (build_root_wf_proof (ord2 tb)) as [t [Hb Hw]].
  - rewrite (prefix_free_perm _ _ (Hord tb)). exact Hpf.
  - intros E. pose proof (Hord tb) as Hp. rewrite E in Hp. apply Permutation_nil in Hp. congruence.
  - rewrite Hb. exists t. split; [reflexivity|]. rewrite <- (wf_ht_perm _ _ _ (Hord tb)). exact Hw.
Qed.

Lemma ser_entry_len e : (length (snd e) < 256)%nat -> nlen (ser_entry e) <= 34.
Proof.
  intros H. unfold ser_entry. cbn [nlen]. rewrite nlen_length, pack_length.
  assert (Hk : ((length (snd e) + 7) / 8 < 33)%nat) by (apply Nat.div_lt_upper_bound; lia).
  remember ((length (snd e) + 7) / 8)%nat as k. clear Heqk. lia.
Qed.
Lemma ser_table_len tb : short_codes tb -> nlen (ser_table tb) <= 2 + 34 * nlen tb.
Proof.
  intros H. unfold ser_table. rewrite nlen_app. rewrite (nlen_length (L.le_bytes _ _)).
  assert (Hl : length (L.le_bytes 2 (nlen tb mod 65536)) = 2%nat) by reflexivity. rewrite Hl.
  assert (G : nlen (flat_map ser_entry tb) <= 34 * nlen tb).
  { induction H as [|e tb He _ IH]; cbn [flat_map nlen]; [lia|]. rewrite nlen_app. pose proof (ser_entry_len e He). lia. }
  lia.
Qed.

(* ---------------- HuffmanCompressor ---------------- *)
(* the frame law: whatever payload the instance accepts, every instance decodes the frame *)
Lemma huffman_frame_law syms heap ht ord1 ord2 :
    (length syms <= 256)%nat -> NoDup syms -> heap_run (map Leaf syms) heap -> ht_from_heap syms heap = Some ht ->
    (forall t, Permutation (ord1 t) t) -> (forall t, Permutation (ord2 t) t) ->
    forall x z, nlen x < W32 -> huffc_compress (huff_new_from ord1 ht) x = Some z ->
    forall other, huffc_decompress ord2 other z = Some x.
Proof.
  intros Hlen Hnd Hrun Hht Ho1 Ho2 x z Hx Hz other.
  destruct x as [|x0 x'].
  { unfold huffc_compress, huff_compress in Hz. injection Hz as <-. reflexivity. }
  set (x := x0 :: x') in *.
  assert (Henc : exists b, huff_encode ht x = Some b).
  { unfold huffc_compress, huff_new_from, huff_compress in Hz. cbn [hc_bytes hc_tree] in Hz. unfold x in Hz at 1. fold x in Hz.
    destruct (huff_encode ht x) as [b|]; [eexists; reflexivity|discriminate]. }
  destruct Henc as [b Henc].
  assert (Hsy : syms <> []).
  { intros E. subst syms. unfold ht_from_heap in Hht. injection Hht as <-. cbn in Henc. discriminate. }
  destruct (ht_from_heap_table syms heap ht Hlen Hnd Hrun Hht) as (Hkeys & Hpf & Hsc).
  specialize (Hpf Hsy). set (tb := ht_codes ht) in *. set (tb1 := ord1 tb).
  assert (Hp1 : Permutation tb1 tb) by apply Ho1.
  assert (Hnd1 : NoDup (map fst tb1)).
  { eapply Permutation_NoDup; [apply Permutation_sym, Permutation_map; exact Hp1|].
    eapply Permutation_NoDup; [apply Permutation_sym; exact Hkeys|exact Hnd]. }
  assert (Hlen1 : (length tb1 <= 256)%nat).
  { rewrite (Permutation_length Hp1). rewrite <- (map_length fst). rewrite (Permutation_length Hkeys). exact Hlen. }
  assert (Hne1 : tb1 <> []).
  { intros E. rewrite E in Hp1. apply Permutation_nil in Hp1.
    rewrite Hp1 in Hkeys. cbn [map] in Hkeys. apply Permutation_nil in Hkeys. congruence. }
  assert (Hpf1 : prefix_free tb1 = true) by (rewrite (prefix_free_perm _ _ Hp1); exact Hpf).
  assert (Hsc1 : short_codes tb1).
  { unfold short_codes in *. rewrite Forall_forall in *. intros e He. apply Hsc. apply (Permutation_in _ Hp1 He). }
  destruct (deser_ser_tree ord2 tb1 Ho2 Hnd1 Hlen1 Hne1 Hpf1 Hsc1) as (t & Hdes & Hwf).
  set (bytes := ser_table tb1) in *.
  assert (Hbl : nlen bytes < 4294967296).
  { pose proof (ser_table_len tb1 Hsc1). fold bytes in H. rewrite (nlen_length tb1) in H. lia. }
  assert (Hcoder : forall data zz, huff_encode ht data = Some zz ->
            huff_decode (mkHT (Some t) tb1) zz (N.to_nat (nlen data)) = Some data).
  { intros data zz He. rewrite nlen_length, Nat2N.id. apply huff_roundtrip_proof; [exact Hwf|].
    unfold huff_encode in *. cbn [ht_codes]. fold tb in He.
    rewrite (code_bits_ext tb1 tb); [exact He|]. intros s. apply get_code_perm; [exact Hp1|exact Hnd1]. }
  unfold huffc_compress, huff_new_from in Hz. cbn [hc_bytes hc_tree] in Hz. fold tb in Hz. fold tb1 in Hz. fold bytes in Hz.
  unfold huffc_decompress.
  apply (huff_frame_roundtrip_proof hufftree bytes (huff_encode ht) (deser_tree ord2)
           (fun t0 payload n => huff_decode t0 payload (N.to_nat n)) (mkHT (Some t) tb1) Hdes Hcoder x z Hbl Hx Hz).
Qed.

(* Trained on any corpus (syms = its distinct bytes, in the order of the frequency array; heap = whatever tree the
   BinaryHeap loop built), every payload over those symbols shorter than 2^32 bytes is compressed, and the frame is
   decoded by every instance (the tree travels in the header): u32 tree size, the serialised table in any HashMap order
   (u16 entry count, u8 symbol, u8 code length, packed bits), u32 original size, packed code bits. *)
Theorem huffman_compressor_roundtrip_proof :
  forall syms heap ord1 ord2 x,
    (length syms <= 256)%nat -> NoDup syms -> heap_run (map Leaf syms) heap ->
    (forall t, Permutation (ord1 t) t) -> (forall t, Permutation (ord2 t) t) ->
    (forall s, In s x -> In s syms) -> nlen x < W32 ->
    exists ht z, ht_from_heap syms heap = Some ht /\
      huffc_compress (huff_new_from ord1 ht) x = Some z /\
      forall other, huffc_decompress ord2 other z = Some x.
Proof.
  intros syms heap ord1 ord2 x Hlen Hnd Hrun Ho1 Ho2 Hsub Hx.
  destruct (from_frequencies_roundtrip_proof syms heap x Hlen Hrun Hsub) as (ht & b & Hht & Henc & _).
  exists ht.
  assert (Hz : exists z, huffc_compress (huff_new_from ord1 ht) x = Some z).
  { unfold huffc_compress, huff_new_from, huff_compress. cbn [hc_bytes hc_tree].
    destruct x as [|x0 x']; [eexists; reflexivity|]. rewrite Henc. cbn [obind]. eexists; reflexivity. }
  destruct Hz as [z Hz]. exists z. split; [exact Hht|]. split; [exact Hz|].
  apply (huffman_frame_law syms heap ht ord1 ord2 Hlen Hnd Hrun Hht Ho1 Ho2 x z Hx Hz).
Qed.

(* the original-size field written through `as u16` (a layout that was tried) loses payloads of 64 KiB and more:
   the decoder stops after (size mod 65536) symbols *)
Definition ht_a : hufftree := mkHT (Some (Leaf 97)) [(97, [false])].
Lemma nlen_repeat {A} (a : A) n : nlen (repeat a n) = N.of_nat n.
Proof. rewrite nlen_length, repeat_length. reflexivity. Qed.
Lemma size16_nonempty self d : d <> [] ->
  huffc_compress_size16 self d = obind (huff_encode (hc_tree self) d) (fun z =>
    Some (le32 (nlen (hc_bytes self) mod 4294967296) ++ hc_bytes self ++ le32 (nlen d mod 65536) ++ z)).
Proof. destruct d; [congruence|reflexivity]. Qed.
Lemma huff_size16_refuted_proof :
  exists x z, nlen x < W32 /\ huffc_compress_size16 (huff_new_from (fun t => t) ht_a) x = Some z /\
              huffc_decompress (fun t => t) (huff_new_from (fun t => t) ht_a) z <> Some x.
Proof.
  set (x := repeat 97 (N.to_nat 65536)).
  assert (Hn : nlen x = 65536) by (unfold x; rewrite nlen_repeat; lia).
  destruct (huff_encode_total_proof ht_a x) as [b Hb].
  { intros s Hs. unfold x in Hs. apply repeat_spec in Hs. subst s. vm_compute. discriminate. }
  assert (Hx : exists k, x = 97 :: k).
  { unfold x. destruct (N.to_nat 65536) eqn:E; [lia|]. cbn [repeat]. eexists; reflexivity. }
  destruct Hx as [k Hk].
  exists x. eexists. split; [rewrite Hn; unfold W32; lia|]. split.
  - rewrite size16_nonempty by (rewrite Hk; discriminate). cbn [hc_tree huff_new_from]. rewrite Hb. cbn [obind]. reflexivity.
  - rewrite Hn. change (65536 mod 65536) with 0.
    set (bytes := hc_bytes (huff_new_from (fun t : table => t) ht_a)).
    assert (Hl : nlen bytes mod 4294967296 = nlen bytes) by (vm_compute; reflexivity). rewrite Hl.
    unfold huffc_decompress.
    rewrite (huff_decompress_frame hufftree (fun _ => None) _ _ ht_a ltac:(intros; discriminate)) by (vm_compute; reflexivity).
    assert (Hd : deser_tree (fun t : table => t) bytes = Some ht_a) by (vm_compute; reflexivity).
    rewrite Hd. cbn [obind]. change (N.to_nat 0) with 0%nat.
    assert (Hz : huff_decode ht_a b 0 = Some []) by (unfold huff_decode; destruct b; reflexivity).
    rewrite Hz. rewrite Hk. discriminate.
Qed.
