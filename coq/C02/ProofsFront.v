(* C02: the real-time and adaptive front ends (ModelFront.v): whatever the clock says, whatever the mode / algorithm
   history, the tag written is the tag of the producer of the bytes and decompress inverts the block - given the
   round-trip law of every component codec. *)
From ZV.Common Require Import Base.
From ZV.C02 Require Import Model ModelFront ProofsFrame.
Open Scope N_scope.

Section FrontProofs.
  Variable codec_of : N -> codec.
  Hypothesis codecs_ok : forall a, codec_ok (codec_of a).

  (* ---------------- real time ---------------- *)
  Lemma rt_handle_timeout_rt st data z :
    rt_handle_timeout st data = Some z -> z = BLOCK_STORED :: data /\ rt_decompress codec_of st z = Some data.
  Proof.
    unfold rt_handle_timeout. destruct (rt_fallback st); [|discriminate]. intros H. injection H as <-.
    split; [reflexivity|]. reflexivity.
  Qed.

  (* the tag of a block is the tag of its producer, and the body is the producer's output *)
  Lemma rt_block_producer st data ck z :
    rt_compress_with_deadline codec_of st data ck = Some z ->
    exists body, z = tag_of (rt_producer st data ck) :: body /\
      match rt_producer st data ck with
      | PStored => body = data
      | PCodec a => a = rt_alg st /\ c_compress (codec_of a) data = Some body
      end.
  Proof.
    unfold rt_compress_with_deadline, rt_producer. destruct ck as [l0 l1 t0]. cbn [late0 late1 timed_out].
    destruct l0; [|destruct l1; [|destruct t0]]; cbn [orb].
    1-3: intros H; apply rt_handle_timeout_rt in H; destruct H as [-> _]; exists data; split; reflexivity.
    unfold rt_compress_internal.
    destruct ((nlen data <? SMALL_BLOCK) && (rt_mode st =? MODE_ULTRA)).
    - intros H. injection H as <-. exists data. split; reflexivity.
    - destruct (c_compress (codec_of (rt_alg st)) data) as [b|] eqn:E; [|discriminate].
      intros H. injection H as <-. exists b. split; [reflexivity|]. split; reflexivity.
  Qed.

  (* every mode, every current algorithm (any set_mode history), every fallback setting, every clock reading,
     compress / compress_with_deadline alike: a block that is returned decodes to the payload *)
  Theorem realtime_block_roundtrip_proof :
    forall st data ck z,
      rt_compress_with_deadline codec_of st data ck = Some z -> rt_decompress codec_of st z = Some data.
  Proof.
    intros st data ck z H. destruct (rt_block_producer _ _ _ _ H) as (body & -> & Hp).
    destruct (rt_producer st data ck) as [|a]; cbn [tag_of].
    - subst body. reflexivity.
    - destruct Hp as [-> Hc]. unfold rt_decompress. cbn [N.eqb]. change (BLOCK_COMPRESSED =? BLOCK_STORED) with false.
      change (BLOCK_COMPRESSED =? BLOCK_COMPRESSED) with true. cbn iota. apply (codecs_ok _ _ _ Hc).
  Qed.

  (* compress_batch: whatever it returns (it may stop early), block j decodes to item j *)
  Theorem realtime_batch_roundtrip_proof :
    forall st items cks zs,
      rt_compress_batch codec_of st items cks = Some zs ->
      (length zs <= length items)%nat /\
      forall j z, nth_error zs j = Some z -> exists it, nth_error items j = Some it /\ rt_decompress codec_of st z = Some it.
  Proof.
    intros st items. induction items as [|it rest IH]; intros cks zs H; cbn [rt_compress_batch] in H.
    - injection H as <-. split; [cbn; lia|]. intros j z Hj. destruct j; discriminate.
    - destruct (match cks with c :: _ => c | [] => (on_time, false) end) as [ck stop].
      destruct (rt_compress_with_deadline codec_of st it ck) as [z0|] eqn:E; [|discriminate].
      pose proof (realtime_block_roundtrip_proof _ _ _ _ E) as Hz0.
      destruct stop.
      + injection H as <-. split; [cbn [length]; lia|]. intros j z Hj. destruct j as [|j]; cbn [nth_error] in Hj.
        * injection Hj as <-. exists it. split; [reflexivity|exact Hz0].
        * destruct j; discriminate.
      + destruct (rt_compress_batch codec_of st rest (tl cks)) as [zs'|] eqn:Er; [|discriminate]. injection H as <-.
        destruct (IH _ _ Er) as [Hl Hn]. split; [cbn [length]; lia|]. intros j z Hj. destruct j as [|j]; cbn [nth_error] in *.
        * injection Hj as <-. exists it. split; [reflexivity|exact Hz0].
        * apply Hn. exact Hj.
  Qed.

  (* compress never fails when the fallback is on and the codec accepts the payload; with the fallback off the only
     failures are a missed deadline and a refusing codec *)
  Lemma rt_compress_defined st data ck :
    (rt_fallback st = true \/ ck = on_time) -> (exists b, c_compress (codec_of (rt_alg st)) data = Some b) ->
    exists z, rt_compress_with_deadline codec_of st data ck = Some z.
  Proof.
    intros Hf [b Hb]. unfold rt_compress_with_deadline, rt_handle_timeout, rt_compress_internal.
    destruct Hf as [Hf| ->].
    - rewrite Hf. destruct (late0 ck); [eexists; reflexivity|]. destruct (late1 ck); [eexists; reflexivity|].
      destruct (timed_out ck); [eexists; reflexivity|]. rewrite Hb. destruct (_ && _); eexists; reflexivity.
    - cbn [late0 late1 timed_out on_time]. rewrite Hb. destruct (_ && _); eexists; reflexivity.
  Qed.

  (* ---------------- adaptive ---------------- *)
  Variable creatable : N -> bool.

  (* the block is decoded by the algorithm that wrote it: compress returns the state in which decompress inverts it *)
  Theorem adaptive_step_roundtrip_proof :
    forall guarded switching cfg st data pick improves z st',
      ad_compress codec_of creatable guarded switching cfg st data pick improves = AdOk z st' ->
      ad_decompress codec_of st' z = Some data /\
      (switching = false -> ad_alg st' = ad_alg st).
  Proof.
    intros guarded switching cfg st data pick improves z st' H. unfold ad_compress in H.
    destruct (ad_maybe_adapt guarded cfg (ad_count st + 1)) eqn:Ea; [| |discriminate].
    - destruct (c_compress (codec_of (ad_alg st)) data) as [b|] eqn:E; [|discriminate].
      injection H as <- <-. unfold ad_decompress. cbn [ad_alg]. split; [apply (codecs_ok _ _ _ E)|reflexivity].
    - set (alg := if switching && improves && negb (pick =? ad_alg st) && creatable pick then pick else ad_alg st) in *.
      destruct (c_compress (codec_of alg) data) as [b|] eqn:E; [|discriminate].
      injection H as <- <-. unfold ad_decompress. cbn [ad_alg]. split; [apply (codecs_ok _ _ _ E)|].
      intros ->. reflexivity.
  Qed.

  (* whatever history of set_algorithm / train / compress / decompress came before (and whatever the cost model picked):
     the next compress, if it returns a block, returns one that the compressor then decodes to the payload; with the
     zero-interval guard in place no history panics *)
  Theorem adaptive_roundtrip_proof :
    forall switching cfg ops st data pick improves,
      ad_run codec_of creatable true switching cfg ad_new ops = Some st ->
      match ad_compress codec_of creatable true switching cfg st data pick improves with
      | AdOk z st' => ad_decompress codec_of st' z = Some data
      | AdErr _ => c_compress (codec_of (ad_alg st)) data = None \/ switching = true
      | AdPanic => False
      end.
  Proof.
    intros switching cfg ops st data pick improves _.
    destruct (ad_compress codec_of creatable true switching cfg st data pick improves) as [z st'| st'|] eqn:E.
    - apply (adaptive_step_roundtrip_proof _ _ _ _ _ _ _ _ _ E).
    - unfold ad_compress in E. destruct (ad_maybe_adapt true cfg (ad_count st + 1)) eqn:Ea; [| |discriminate].
      + destruct (c_compress (codec_of (ad_alg st)) data) eqn:Ec; [discriminate|]. now left.
      + destruct switching; [now right|]. cbn [andb] in E.
        destruct (c_compress (codec_of (ad_alg st)) data) eqn:Ec; [discriminate|]. now left.
    - unfold ad_compress in E. destruct (ad_maybe_adapt true cfg (ad_count st + 1)) eqn:Ea.
      + destruct (c_compress _ data); discriminate.
      + destruct (c_compress _ data); discriminate.
      + unfold ad_maybe_adapt in Ea. destruct (_ <? _); [discriminate|]. destruct (ad_interval cfg =? 0); [discriminate|].
        destruct (negb _); discriminate.
  Qed.
  Lemma ad_run_total : forall switching cfg ops st, exists st', ad_run codec_of creatable true switching cfg st ops = Some st'.
  Proof.
    intros switching cfg ops. induction ops as [|op rest IH]; intros st; [eexists; reflexivity|]. cbn [ad_run].
    destruct op as [a| |d p i|z]; try apply IH.
    destruct (ad_compress codec_of creatable true switching cfg st d p i) eqn:E; try apply IH.
    exfalso. unfold ad_compress in E. destruct (ad_maybe_adapt true cfg (ad_count st + 1)) eqn:Ea.
    - destruct (c_compress _ d); discriminate.
    - destruct (c_compress _ d); discriminate.
    - unfold ad_maybe_adapt in Ea. destruct (_ <? _); [discriminate|]. destruct (ad_interval cfg =? 0); [discriminate|].
      destruct (negb _); discriminate.
  Qed.
End FrontProofs.

(* ---------------- what the code did before the fixes / what the tag cannot do ---------------- *)
(* evaluation_interval = 0 without the guard: the first compress at or past min_operations panics *)
Lemma adaptive_zero_interval_refuted_proof :
  exists cfg data, forall codec_of creatable pick improves,
    ad_compress codec_of creatable false false cfg ad_new data pick improves = AdPanic.
Proof. exists (mkAdCfg 1 0 false 16), [7]. intros. reflexivity. Qed.

(* a codec that is not the identity: prefixes a marker byte *)
Definition marking_codec : codec :=
  mkCodec (fun x => Some (42 :: x)) (fun z => match z with 42 :: t => Some t | _ => None end).
Definition identity_codec : codec := mkCodec (fun x => Some x) (fun z => Some z).
Definition two_codecs (a : N) : codec := if a =? 0 then identity_codec else marking_codec.
Lemma two_codecs_ok : forall a, codec_ok (two_codecs a).
Proof. intros a x z. unfold two_codecs. destruct (a =? 0); cbn; intros H; injection H as <-; reflexivity. Qed.

(* the COMPRESSED tag does not name the algorithm: a block written before set_mode is handed to the new mode's decoder
   (by design of the one-byte tag; stated so that the limit of realtime_block_roundtrip is explicit) *)
Lemma realtime_stale_block_proof :
  exists st data z mode, (forall a, codec_ok (two_codecs a)) /\
    rt_compress_with_deadline two_codecs st data on_time = Some z /\
    rt_decompress two_codecs st z = Some data /\
    rt_decompress two_codecs (rt_set_mode st mode) z <> Some data.
Proof.
  exists (rt_new 2 true), [1; 2; 3], [1; 42; 1; 2; 3], 0. split; [exact two_codecs_ok|].
  split; [reflexivity|]. split; [reflexivity|]. vm_compute. discriminate.
Qed.
Lemma adaptive_stale_block_proof :
  exists st data z st' a, (forall a, codec_ok (two_codecs a)) /\
    ad_compress two_codecs (fun _ => true) true false (mkAdCfg 50 100 false 16) st data 0 false = AdOk z st' /\
    ad_decompress two_codecs st' z = Some data /\
    (exists st'', ad_set_algorithm (fun _ => true) st' a = Some st'' /\ ad_decompress two_codecs st'' z <> Some data).
Proof.
  exists (ad_new), [1; 2; 3], [42; 1; 2; 3]. eexists. exists 0. split; [exact two_codecs_ok|].
  split; [reflexivity|]. split; [reflexivity|]. eexists. split; [reflexivity|]. vm_compute. discriminate.
Qed.
