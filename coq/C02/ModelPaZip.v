(* C02 mechanism model, part E: PaZipCompressor::compress, legacy path (use_reference_encoding = false),
   src/compression/dict_zip/compressor.rs as written:
     compress, compress_sequential -> compress_sequential_legacy (the per-position loop), compress_parallel
     (block-wise path), calculate_strategy_costs / calculate_local_match_cost / calculate_global_match_cost
     (candidate list), select_optimal_strategy (an arbitrary choice among the candidates: the f64 cost model
     is an input `choice`), apply_compression_strategy (= ModelRec.write_record);
   src/compression/dict_zip/compression_types.rs as written:
     choose_best_compression_type, can_use_reference_logic, get_encoding_meta (type only),
     choose_best_compression_type_legacy with calculate_encoding_cost_legacy on its dummy matches.
   The match finders (find_local_match / find_global_match) are inputs: one answer per loop iteration.
   Machine integers are N; usize values are unbounded here, every narrowing cast is an explicit `mod`.
   Definitions only. *)
From ZV.Common Require Import Base.
From ZV.C02 Require Import Model ModelRec.
Open Scope N_scope.

(* ------------------------------------------------------------------ *)
(* compression_types.rs: choose_best_compression_type                   *)
(* ------------------------------------------------------------------ *)

Definition can_use_reference_logic (d len : N) : bool :=
  if len =? 0 then false
  else if d =? 0 then len =? 1
  else true.

(* get_encoding_meta(distance, length).compression_type; 258 + 65535 = 65793 *)
Definition encoding_meta_type (d len : N) : N :=
  if len =? 1 then 0
  else if (d =? 1) && (len <=? 33) then 2
  else if (2 <=? d) && (d <=? 9) && (len <=? 5) then 3
  else if (2 <=? d) && (d <=? 257) && (len <=? 33) then 4
  else if (258 <=? d) && (d <=? 258 + 65535) && (len <=? 33) then 5
  else if (d <=? 65535) && (34 <=? len) then 6
  else 7.

Definition FAR2_LONG_LENGTH_THRESHOLD : N := 64.
Definition FAR3_LONG_LENGTH_THRESHOLD : N := 35.

(* calculate_encoding_cost_legacy on the dummy match choose_best_compression_type_legacy builds for
   type t: the fields are `length as u8 / u16 / u32`; distances do not enter the cost *)
Definition legacy_cost (t len : N) : N :=
  match t with
  | 0 => 3 + 5 + (len mod 256) * 8
  | 2 => 3 + (8 + 5)
  | 3 => 3 + (3 + 2)
  | 4 => 3 + (8 + 5)
  | 5 => 3 + (16 + 5)
  | 6 => if len mod 65536 <=? FAR2_LONG_LENGTH_THRESHOLD then 3 * 8 else 6 * 8
  | _ => if len mod 4294967296 <=? FAR3_LONG_LENGTH_THRESHOLD then 4 * 8 else 7 * 8
  end.

(* Iterator::min_by_key: of several equally small elements the first one is returned *)
Fixpoint min_by_key (key : N -> N) (best : N) (l : list N) : N :=
  match l with
  | [] => best
  | c :: t => if key c <? key best then min_by_key key c t else min_by_key key best t
  end.

Definition legacy_type_candidates : list N := [0; 2; 3; 4; 5; 6; 7].

Definition choose_type_legacy (d len : N) : option N :=
  match filter (fun t => supports t d len) legacy_type_candidates with
  | [] => None
  | c :: t => Some (min_by_key (fun t => legacy_cost t len) c t)
  end.

(* choose_best_compression_type(distance, length): the discriminant of the CompressionType, None = None.
   Every (d, len) is modelled; there is no left-out region. *)
Definition choose_type (d len : N) : option N :=
  if can_use_reference_logic d len then Some (encoding_meta_type d len)
  else choose_type_legacy d len.

(* ------------------------------------------------------------------ *)
(* compressor.rs: candidates, selection                                 *)
(* ------------------------------------------------------------------ *)

Definition U32 : N := 4294967296.

(* what the match finders answered at one position, and which candidate the cost model picked:
   a_local = (distance, length) of the LocalMatch, a_global = (dict_position, length) of the global Match
   (usize values), a_choice = index into the candidate list *)
Record answer := mkAns { a_local : option (N * N); a_global : option (N * N); a_choice : nat }.

(* the repair: a local candidate whose fields do not fit the record of its type is dropped *)
Definition local_fits (t d len : N) : bool :=
  match local_kind t with
  | KFar2L => (d <=? 65535) && (len <=? 65535)
  | KFar3L => (d <? U32) && (len <? U32)
  | _ => true
  end.

(* calculate_local_match_cost: the strategy (the cost does not decide whether there is a candidate).
   guard_local = false is the code as it stands. *)
Definition local_candidate (guard_local : bool) (d len : N) : option strategy :=
  match choose_type d len with
  | Some t => if guard_local && negb (local_fits t d len) then None
              else Some (SLocal (d mod U32) (len mod U32) t)
  | None => None
  end.

(* calculate_global_match_cost.  guard_global = true is the code as it stands (fix a57c307). *)
Definition global_candidate (guard_global : bool) (p len : N) : option strategy :=
  if guard_global && ((65535 <? p) || (65535 <? len)) then None
  else Some (SGlobal (p mod U32) (len mod U32)).

Definition olist {A} (o : option A) : list A := match o with Some a => [a] | None => [] end.

(* calculate_strategy_costs: the strategies in the order they are pushed *)
Definition candidates (guard_local guard_global : bool) (loc glo : option (N * N)) : list strategy :=
  SLiteral 1
  :: olist (match loc with Some (d, len) => local_candidate guard_local d len | None => None end)
  ++ olist (match glo with Some (p, len) => global_candidate guard_global p len | None => None end).

(* select_optimal_strategy returns an element of the list (Literal{1} for an empty one) *)
Definition select (cands : list strategy) (choice : nat) : strategy :=
  nth choice cands (hd (SLiteral 1) cands).

Definition chosen (guard_local guard_global : bool) (a : answer) : strategy :=
  select (candidates guard_local guard_global (a_local a) (a_global a)) (a_choice a).

(* ------------------------------------------------------------------ *)
(* compressor.rs: the loops.  `pick` turns the per-iteration input into the selected strategy:            *)
(*   pick = chosen gl gg over answers is the compressor, pick = id over strategies is a replay.           *)
(* ------------------------------------------------------------------ *)

Inductive cres (A : Type) : Type :=
| CDone (a : A)
| CFuel        (* the loop did not end within the fuel (the code would still be running) *)
| CStarved.    (* the list of per-iteration inputs ran out *)
Arguments CDone {A} a.
Arguments CFuel {A}.
Arguments CStarved {A}.

(* compress_sequential_legacy: while pos < input.len() { find; candidates; select; apply; pos += advance },
   records appended to self.output_buffer (`buf`) *)
Fixpoint seq_loop {A} (pick : A -> strategy) (fuel : nat) (input : list N) (pos : N) (items : list A)
    (buf : list N) : cres (list N) :=
  match fuel with
  | O => CFuel
  | S f =>
      if pos <? nlen input then
        match items with
        | [] => CStarved
        | a :: t =>
            let r := write_record input pos (pick a) in
            seq_loop pick f input (pos + snd r) t (buf ++ fst r)
        end
      else CDone buf
  end.

(* the (position, item) pairs the loop visits *)
Fixpoint seq_trace {A} (pick : A -> strategy) (fuel : nat) (input : list N) (pos : N) (items : list A)
    : list (N * A) :=
  match fuel with
  | O => []
  | S f =>
      if pos <? nlen input then
        match items with
        | [] => []
        | a :: t => (pos, a) :: seq_trace pick f input (pos + snd (write_record input pos (pick a))) t
        end
      else []
  end.

(* compress_sequential (legacy): state = (self.output_buffer, output); output.extend_from_slice(&self.output_buffer) *)
Definition compress_sequential {A} (pick : A -> strategy) (fuel : nat) (input : list N) (items : list A)
    (scratch output : list N) : cres (list N * list N) :=
  match seq_loop pick fuel input 0 items scratch with
  | CDone scratch' => CDone (scratch', output ++ scratch')
  | CFuel => CFuel
  | CStarved => CStarved
  end.

Definition num_blocks (block_size len : N) : N := (len + block_size - 1) / block_size.

(* for i in 0..num_blocks { block = input[i*BS .. min(i*BS+BS, len)]; [self.output_buffer.clear();]
   block_output = []; compress_sequential(block, &mut block_output); compressed_blocks.push(block_output) }
   `blocks` is the concatenation of compressed_blocks; the i-th block consumes the i-th item list *)
Fixpoint blocks_loop {A} (pick : A -> strategy) (clear_per_block : bool) (block_size : N) (fuel : nat)
    (input : list N) (nb : nat) (i : N) (itemss : list (list A)) (scratch blocks : list N)
    : cres (list N * list N) :=
  match nb with
  | O => CDone (scratch, blocks)
  | S k =>
      let block := slice input (i * block_size) block_size in
      let scratch0 := if clear_per_block then [] else scratch in
      match compress_sequential pick fuel block (nth (N.to_nat i) itemss []) scratch0 [] with
      | CDone (scratch', block_output) =>
          blocks_loop pick clear_per_block block_size fuel input k (i + 1) itemss scratch' (blocks ++ block_output)
      | CFuel => CFuel
      | CStarved => CStarved
      end
  end.

(* compress_parallel: output.clear() before the blocks are copied out *)
Definition compress_parallel {A} (pick : A -> strategy) (clear_per_block : bool) (parallel_threshold block_size : N)
    (fuel : nat) (input : list N) (itemss : list (list A)) (scratch output : list N) : cres (list N * list N) :=
  if nlen input <? parallel_threshold then
    compress_sequential pick fuel input (nth 0 itemss []) scratch output
  else
    blocks_loop pick clear_per_block block_size fuel input
                (N.to_nat (num_blocks block_size (nlen input))) 0 itemss scratch [].

(* compress: self.output_buffer.clear(); empty input -> output untouched;
   config = (enable_multithreading, multithreading_threshold).  The incoming scratch buffer is whatever an
   earlier call left behind.  itemss: one list per call of compress_sequential. *)
Definition pz_compress_g {A} (pick : A -> strategy) (clear_per_block : bool) (parallel_threshold block_size : N)
    (enable_mt : bool) (mt_threshold : N) (fuel : nat) (input : list N) (itemss : list (list A))
    (scratch output : list N) : cres (list N * list N) :=
  let scratch := @nil N in
  match input with
  | [] => CDone (scratch, output)
  | _ :: _ =>
      if enable_mt && (mt_threshold <=? nlen input) then
        compress_parallel pick clear_per_block parallel_threshold block_size fuel input itemss scratch output
      else
        compress_sequential pick fuel input (nth 0 itemss []) scratch output
  end.

Definition PARALLEL_THRESHOLD : N := 1048576.
Definition BLOCK_SIZE : N := 65536.

(* the compressor: guard_local = false is today's code, true the repaired candidate generator *)
Definition pz_compress (guard_local : bool) := pz_compress_g (chosen guard_local true) true.
(* before fix b7089e7: no self.output_buffer.clear() per block *)
Definition pz_compress_old (guard_local : bool) := pz_compress_g (chosen guard_local true) false.
(* before fix a57c307: no u16 guard in calculate_global_match_cost *)
Definition pz_compress_noglobalguard (guard_local : bool) := pz_compress_g (chosen guard_local false) true.
(* replay of given strategies *)
Definition pz_replay := pz_compress_g (fun s : strategy => s) true.

(* the compressed bytes of a finished run *)
Definition cres_output (r : cres (list N * list N)) : option (list N) :=
  match r with CDone (_, out) => Some out | _ => None end.

(* the path `compress` takes for an input of this length *)
Definition blockwise (parallel_threshold : N) (enable_mt : bool) (mt_threshold : N) (input : list N) : bool :=
  enable_mt && (mt_threshold <=? nlen input) && negb (nlen input <? parallel_threshold).

(* ------------------------------------------------------------------ *)
(* what the match finders must guarantee                                *)
(* ------------------------------------------------------------------ *)

(* a true local match: the bytes at pos are the periodic continuation of the bytes d back (overlap allowed) *)
Definition local_true (input : list N) (pos d len : N) : Prop :=
  1 <= d /\ d <= pos /\ 1 <= len /\ pos + len <= nlen input /\
  forall i, i < len -> nth (N.to_nat (pos + i)) input 0 = nth (N.to_nat (pos + i - d)) input 0.
Definition global_true (dict input : list N) (pos p len : N) : Prop :=
  1 <= len /\ pos + len <= nlen input /\ p + len <= nlen dict /\
  forall i, i < len -> nth (N.to_nat (p + i)) dict 0 = nth (N.to_nat (pos + i)) input 0.

Definition answer_true (dict input : list N) (pos : N) (a : answer) : Prop :=
  match a_local a with Some (d, len) => local_true input pos d len | None => True end /\
  match a_global a with Some (p, len) => global_true dict input pos p len | None => True end.
(* the `as u32` casts of calculate_local_match_cost lose nothing *)
Definition answer_width (a : answer) : Prop :=
  match a_local a with Some (d, len) => d < U32 /\ len < U32 | None => True end.
(* a match that gets type Far2Long (distance <= 65535, length >= 34) is no longer than the u16 length field *)
Definition answer_len16 (a : answer) : Prop :=
  match a_local a with Some (d, len) => d <= 65535 -> len <= 65535 | None => True end.
(* today's code needs all three, the repaired candidate generator only the first *)
Definition answer_ok (guard_local : bool) (dict input : list N) (pos : N) (a : answer) : Prop :=
  answer_true dict input pos a /\ (guard_local = false -> answer_width a /\ answer_len16 a).

(* one call of compress_sequential: enough answers (one per byte is always enough, surplus answers are never
   looked at), and every answer given at a visited position is good *)
Definition seq_hyp_g (guard_local guard_global : bool) (dict : list N) (fuel : nat) (x : list N)
    (answers : list answer) : Prop :=
  (length x <= length answers)%nat /\
  Forall (fun pa => answer_ok guard_local dict x (fst pa) (snd pa))
         (seq_trace (chosen guard_local guard_global) fuel x 0 answers).
Definition seq_hyp (guard_local : bool) := seq_hyp_g guard_local true.
(* the same without the Far2Long length bound (for the refutation) *)
Definition seq_hyp_nolen16 (dict : list N) (fuel : nat) (x : list N) (answers : list answer) : Prop :=
  (length x <= length answers)%nat /\
  Forall (fun pa => answer_true dict x (fst pa) (snd pa) /\ answer_width (snd pa))
         (seq_trace (chosen false true) fuel x 0 answers).

(* `compress` as a whole: in the block-wise path positions and distances are relative to the block *)
Definition compress_hyp (guard_local : bool) (dict : list N) (parallel_threshold block_size : N)
    (enable_mt : bool) (mt_threshold : N) (fuel : nat) (x : list N) (answers : list (list answer)) : Prop :=
  if blockwise parallel_threshold enable_mt mt_threshold x then
    forall i, i < num_blocks block_size (nlen x) ->
      seq_hyp guard_local dict fuel (slice x (i * block_size) block_size) (nth (N.to_nat i) answers [])
  else seq_hyp guard_local dict fuel x (nth 0 answers []).

(* --- decidable versions (for examples and harness cases) --- *)
Definition local_trueb (input : list N) (pos d len : N) : bool :=
  (1 <=? d) && (d <=? pos) && (1 <=? len) && (pos + len <=? nlen input) &&
  forallb (fun i => nth (N.to_nat (pos + N.of_nat i)) input 0 =? nth (N.to_nat (pos + N.of_nat i - d)) input 0)
          (seq 0 (N.to_nat len)).
Definition global_trueb (dict input : list N) (pos p len : N) : bool :=
  (1 <=? len) && (pos + len <=? nlen input) && (p + len <=? nlen dict) &&
  forallb (fun i => nth (N.to_nat (p + N.of_nat i)) dict 0 =? nth (N.to_nat (pos + N.of_nat i)) input 0)
          (seq 0 (N.to_nat len)).
Definition answer_trueb (dict input : list N) (pos : N) (a : answer) : bool :=
  match a_local a with Some (d, len) => local_trueb input pos d len | None => true end &&
  match a_global a with Some (p, len) => global_trueb dict input pos p len | None => true end.
Definition answer_widthb (a : answer) : bool :=
  match a_local a with Some (d, len) => (d <? U32) && (len <? U32) | None => true end.
Definition answer_len16b (a : answer) : bool :=
  match a_local a with Some (d, len) => negb (d <=? 65535) || (len <=? 65535) | None => true end.
Definition answer_okb (guard_local : bool) (dict input : list N) (pos : N) (a : answer) : bool :=
  answer_trueb dict input pos a && (guard_local || (answer_widthb a && answer_len16b a)).
Definition seq_hypb_g (guard_local guard_global : bool) (dict : list N) (fuel : nat) (x : list N)
    (answers : list answer) : bool :=
  (length x <=? length answers)%nat &&
  forallb (fun pa => answer_okb guard_local dict x (fst pa) (snd pa))
          (seq_trace (chosen guard_local guard_global) fuel x 0 answers).
Definition seq_hypb (guard_local : bool) := seq_hypb_g guard_local true.
Definition compress_hypb (guard_local : bool) (dict : list N) (parallel_threshold block_size : N)
    (enable_mt : bool) (mt_threshold : N) (fuel : nat) (x : list N) (answers : list (list answer)) : bool :=
  if blockwise parallel_threshold enable_mt mt_threshold x then
    forallb (fun n => let i := N.of_nat n in
                      seq_hypb guard_local dict fuel (slice x (i * block_size) block_size) (nth n answers []))
            (seq 0 (N.to_nat (num_blocks block_size (nlen x))))
  else seq_hypb guard_local dict fuel x (nth 0 answers []).
