(* PaZipCompressor::compress as a whole (sequential and block-wise path), the decidable forms of the
   hypotheses, the replay form of the loops, the refutations and the examples. *)
From ZV.Common Require Import Base.
From ZV.C02 Require Import Model ModelRec ProofsRec ModelPaZip ProofsPaZip.
Open Scope N_scope.

(* ---------------- block-wise path ---------------- *)
Lemma length_slice_le l pos n : (length (slice l pos n) <= length l)%nat.
Proof. unfold slice. rewrite firstn_length, skipn_length. lia. Qed.

Lemma num_blocks_covers bs len : 1 <= bs -> len <= num_blocks bs len * bs.
Proof. intros H. unfold num_blocks. lia. Qed.

Lemma blocks_loop_ok gl dict bs x fuel answers :
  1 <= bs -> (length x < fuel)%nat ->
  (forall i, i < num_blocks bs (nlen x) ->
     seq_hyp gl dict fuel (slice x (i * bs) bs) (nth (N.to_nat i) answers [])) ->
  forall nb i scratch acc,
    i + N.of_nat nb = num_blocks bs (nlen x) ->
    decodes_as dict acc [] (firstn (N.to_nat (i * bs)) x) ->
    exists s' z, blocks_loop (chosen gl true) true bs fuel x nb i answers scratch acc = CDone (s', z) /\
                 decodes_as dict z [] x.
Proof.
  intros Hbs Hfuel Hh. induction nb as [|k IH]; intros i scratch acc Hi Hacc.
  - cbn [blocks_loop]. exists scratch, acc. split; [reflexivity|].
    pose proof (num_blocks_covers bs (nlen x) Hbs) as Hc.
    rewrite firstn_all2 in Hacc; [exact Hacc|]. rewrite nlen_length in Hc.
    replace i with (num_blocks bs (nlen x)) by lia. rewrite nlen_length. lia.
  - cbn [blocks_loop].
    assert (Hlt : i < num_blocks bs (nlen x)) by lia.
    pose proof (length_slice_le x (i * bs) bs) as Hlen.
    destruct (compress_sequential_ok gl dict (firstn (N.to_nat (i * bs)) x) (slice x (i * bs) bs)
                (nth (N.to_nat i) answers []) fuel [] []) as (st & Er & Hd); [lia|apply Hh; exact Hlt|].
    rewrite Er. cbn [app].
    apply IH; [lia|]. eapply decodes_as_app; [exact Hacc|].
    rewrite firstn_slice_app in Hd. replace ((i + 1) * bs) with (i * bs + bs) by lia. exact Hd.
Qed.

Theorem pazip_compress_roundtrip_proof :
  forall (guard_local : bool) (dict : list N) (parallel_threshold block_size : N)
         (enable_mt : bool) (mt_threshold : N) (x : list N) (answers : list (list answer))
         (fuel : nat) (scratch : list N),
    1 <= block_size -> (length x < fuel)%nat ->
    compress_hyp guard_local dict parallel_threshold block_size enable_mt mt_threshold fuel x answers ->
    exists scratch' z,
      pz_compress guard_local parallel_threshold block_size enable_mt mt_threshold fuel x answers scratch []
      = CDone (scratch', z) /\
      legacy_decompress dict z = Some x.
Proof.
  intros gl dict pt bs mt thr x answers fuel scratch Hbs Hfuel Hh.
  unfold pz_compress, pz_compress_g. destruct x as [|b x'] eqn:Ex.
  - exists [], []. split; reflexivity.
  - rewrite <- Ex in *. clear Ex b x'.
    unfold compress_hyp, blockwise in Hh.
    assert (Hseq : seq_hyp gl dict fuel x (nth 0 answers []) ->
                   exists scratch' z,
                     compress_sequential (chosen gl true) fuel x (nth 0 answers []) [] [] = CDone (scratch', z) /\
                     legacy_decompress dict z = Some x).
    { intros H. destruct (pazip_sequential_roundtrip_proof gl dict x _ fuel Hfuel H) as (z & Er & Hd).
      exists z, z. split; assumption. }
    destruct (mt && (thr <=? nlen x)) eqn:E.
    + unfold compress_parallel. destruct (nlen x <? pt) eqn:E2; cbn [negb andb] in Hh.
      * apply Hseq. exact Hh.
      * destruct (blocks_loop_ok gl dict bs x fuel answers Hbs Hfuel Hh
                    (N.to_nat (num_blocks bs (nlen x))) 0 [] []) as (s' & z & Er & Hd);
          [lia|apply decodes_as_nil|].
        exists s', z. split; [exact Er|]. apply decodes_as_decompress. exact Hd.
    + cbn [andb] in Hh. apply Hseq. exact Hh.
Qed.

(* with the repaired candidate generator the hypothesis is plain truthfulness *)
Lemma answer_ok_guarded dict x pos a : answer_ok true dict x pos a <-> answer_true dict x pos a.
Proof. unfold answer_ok. split; [intros (H & _); exact H|intros H; split; [exact H|intros G; discriminate G]]. Qed.

(* ---------------- the loops as a replay of the selected strategies ---------------- *)
Lemma seq_loop_map {A} (pick : A -> strategy) : forall fuel x pos items buf,
  seq_loop pick fuel x pos items buf = seq_loop (fun s => s) fuel x pos (map pick items) buf.
Proof.
  induction fuel as [|f IH]; intros x pos items buf; [reflexivity|]. cbn [seq_loop].
  destruct (pos <? nlen x); [|reflexivity]. destruct items as [|a t]; [reflexivity|]. cbn [map]. apply IH.
Qed.
Lemma compress_sequential_map {A} (pick : A -> strategy) fuel x items scratch out :
  compress_sequential pick fuel x items scratch out
  = compress_sequential (fun s => s) fuel x (map pick items) scratch out.
Proof. unfold compress_sequential. rewrite seq_loop_map. reflexivity. Qed.
Lemma nth_map_map {A} (pick : A -> strategy) (itemss : list (list A)) n :
  nth n (map (map pick) itemss) [] = map pick (nth n itemss []).
Proof. change (@nil strategy) with (map pick []). apply map_nth. Qed.
Lemma blocks_loop_map {A} (pick : A -> strategy) clr bs fuel x itemss : forall nb i scratch acc,
  blocks_loop pick clr bs fuel x nb i itemss scratch acc
  = blocks_loop (fun s => s) clr bs fuel x nb i (map (map pick) itemss) scratch acc.
Proof.
  induction nb as [|k IH]; intros i scratch acc; [reflexivity|]. cbn [blocks_loop].
  rewrite nth_map_map, <- compress_sequential_map.
  destruct (compress_sequential pick fuel (slice x (i * bs) bs) (nth (N.to_nat i) itemss [])
              (if clr then [] else scratch) []) as [[s' bo]| |]; [apply IH|reflexivity|reflexivity].
Qed.
(* the compressor run on answers is the replay of the strategies it selected *)
Lemma pz_compress_as_replay_proof :
  forall (A : Type) (pick : A -> strategy) clr pt bs mt thr fuel x (itemss : list (list A)) scratch out,
    pz_compress_g pick clr pt bs mt thr fuel x itemss scratch out
    = pz_compress_g (fun s => s) clr pt bs mt thr fuel x (map (map pick) itemss) scratch out.
Proof.
  intros. unfold pz_compress_g, compress_parallel. destruct x as [|b x']; [reflexivity|].
  rewrite nth_map_map, <- compress_sequential_map, <- blocks_loop_map. reflexivity.
Qed.

(* ---------------- decidable hypotheses ---------------- *)
Lemma local_trueb_sound input pos d len : local_trueb input pos d len = true -> local_true input pos d len.
Proof.
  unfold local_trueb, local_true. intros H.
  apply andb_prop in H. destruct H as (H & Hall). repeat (split; [lia|]).
  intros i Hi. rewrite forallb_forall in Hall.
  specialize (Hall (N.to_nat i)). rewrite N2Nat.id in Hall. apply N.eqb_eq. apply Hall.
  apply in_seq. lia.
Qed.
Lemma global_trueb_sound dict input pos p len :
  global_trueb dict input pos p len = true -> global_true dict input pos p len.
Proof.
  unfold global_trueb, global_true. intros H.
  apply andb_prop in H. destruct H as (H & Hall). repeat (split; [lia|]).
  intros i Hi. rewrite forallb_forall in Hall.
  specialize (Hall (N.to_nat i)). rewrite N2Nat.id in Hall. apply N.eqb_eq. apply Hall.
  apply in_seq. lia.
Qed.
Lemma answer_trueb_sound dict input pos a : answer_trueb dict input pos a = true -> answer_true dict input pos a.
Proof.
  unfold answer_trueb, answer_true. intros H. apply andb_prop in H. destruct H as (Hl & Hg). split.
  - destruct (a_local a) as [[d len]|]; [apply local_trueb_sound; exact Hl|exact I].
  - destruct (a_global a) as [[p len]|]; [apply global_trueb_sound; exact Hg|exact I].
Qed.
Lemma answer_okb_sound gl dict input pos a : answer_okb gl dict input pos a = true -> answer_ok gl dict input pos a.
Proof.
  unfold answer_okb, answer_ok. intros H. apply andb_prop in H. destruct H as (Ht & Hw).
  split; [apply answer_trueb_sound; exact Ht|]. intros G. subst gl. cbn [orb] in Hw.
  unfold answer_widthb, answer_len16b, answer_width, answer_len16, U32 in *.
  destruct (a_local a) as [[d len]|]; [lia|split; exact I].
Qed.
Lemma seq_hypb_g_sound gl gg dict fuel x answers :
  seq_hypb_g gl gg dict fuel x answers = true -> seq_hyp_g gl gg dict fuel x answers.
Proof.
  unfold seq_hypb_g, seq_hyp_g. intros H. apply andb_prop in H. destruct H as (Hl & Hall).
  split; [apply Nat.leb_le; exact Hl|]. rewrite forallb_forall in Hall. apply Forall_forall.
  intros pa Hin. apply answer_okb_sound. apply Hall. exact Hin.
Qed.
Lemma seq_hypb_sound gl dict fuel x answers : seq_hypb gl dict fuel x answers = true -> seq_hyp gl dict fuel x answers.
Proof. apply seq_hypb_g_sound. Qed.
Lemma compress_hypb_sound gl dict pt bs mt thr fuel x answers :
  compress_hypb gl dict pt bs mt thr fuel x answers = true -> compress_hyp gl dict pt bs mt thr fuel x answers.
Proof.
  unfold compress_hypb, compress_hyp. destruct (blockwise pt mt thr x); [|apply seq_hypb_sound].
  intros H i Hi. rewrite forallb_forall in H. specialize (H (N.to_nat i)). cbv zeta in H.
  rewrite N2Nat.id in H. apply seq_hypb_sound. apply H. apply in_seq. lia.
Qed.

(* ---------------- refutations ---------------- *)
(* before fix b7089e7 every block carried the records of all earlier blocks *)
Theorem pazip_blockwise_old_refuted_proof :
  exists dict parallel_threshold block_size enable_mt mt_threshold x answers fuel scratch,
    1 <= block_size /\ (length x < fuel)%nat /\
    compress_hyp false dict parallel_threshold block_size enable_mt mt_threshold fuel x answers /\
    exists z, cres_output (pz_compress_old false parallel_threshold block_size enable_mt mt_threshold
                                           fuel x answers scratch []) = Some z /\
              legacy_decompress dict z <> Some x.
Proof.
  exists [], 4, 2, true, 0, [1; 2; 3; 4],
         [[mkAns None None 0; mkAns None None 0]; [mkAns None None 0; mkAns None None 0]], 5%nat, [].
  split; [lia|]. split; [cbn; lia|]. split; [apply compress_hypb_sound; vm_compute; reflexivity|].
  eexists. split; [vm_compute; reflexivity|]. vm_compute. discriminate.
Qed.

(* a true local match of 65536 bytes at a distance below 65536 is typed Far2Long and its length is written as 0 *)
Definition f2l_lit : answer := mkAns None None 0.
Definition f2l_match : answer := mkAns (Some (1, 65536)) None 1.
Definition f2l_x : list N := repeat 7 (N.to_nat 65537).
Definition f2l_answers : list answer := f2l_lit :: f2l_match :: repeat f2l_lit (N.to_nat 65535).

Lemma f2l_x_cons : f2l_x = 7 :: repeat 7 (N.to_nat 65536).
Proof. unfold f2l_x. replace (N.to_nat 65537) with (S (N.to_nat 65536)) by lia. reflexivity. Qed.
Lemma f2l_nlen : nlen f2l_x = 65537.
Proof. unfold f2l_x. rewrite nlen_length, repeat_length. lia. Qed.
Lemma f2l_chosen1 : chosen false true f2l_lit = SLiteral 1.
Proof. reflexivity. Qed.
Lemma f2l_chosen2 : chosen false true f2l_match = SLocal 1 65536 6.
Proof. vm_compute. reflexivity. Qed.
Lemma f2l_rec1 : write_record f2l_x 0 (SLiteral 1) = ([0; 1; 7], 1).
Proof. rewrite f2l_x_cons. reflexivity. Qed.
Lemma f2l_rec2 : write_record f2l_x 1 (SLocal 1 65536 6) = ([6; 1; 0; 0; 0], 65536).
Proof. reflexivity. Qed.

Lemma f2l_run m :
  seq_loop (chosen false true) (S (S (S m))) f2l_x 0 f2l_answers [] = CDone [0; 1; 7; 6; 1; 0; 0; 0] /\
  seq_trace (chosen false true) (S (S (S m))) f2l_x 0 f2l_answers = [(0, f2l_lit); (1, f2l_match)].
Proof.
  unfold f2l_answers. cbn [seq_loop seq_trace]. rewrite f2l_nlen.
  change (0 <? 65537) with true. cbv iota.
  rewrite f2l_chosen1, f2l_rec1. cbn [fst snd]. change (0 + 1) with 1.
  change (1 <? 65537) with true. cbv iota.
  rewrite f2l_chosen2, f2l_rec2. cbn [fst snd]. change (1 + 65536) with 65537.
  change (65537 <? 65537) with false. cbv iota. split; reflexivity.
Qed.

Theorem pazip_far2long_len65536_refuted_proof :
  exists dict x answers fuel,
    (length x < fuel)%nat /\ seq_hyp_nolen16 dict fuel x answers /\
    exists z, compress_sequential (chosen false true) fuel x answers [] [] = CDone (z, z) /\
              legacy_decompress dict z <> Some x.
Proof.
  exists [], f2l_x, f2l_answers, (S (length f2l_x)).
  assert (HL : length f2l_x = S (S (N.to_nat 65535))) by (unfold f2l_x; rewrite repeat_length; lia).
  split; [lia|]. rewrite HL. destruct (f2l_run (N.to_nat 65535)) as (Er & Et). split; [split|].
  - unfold f2l_x, f2l_answers. cbn [length]. rewrite !repeat_length. lia.
  - rewrite Et. apply Forall_cons; [|apply Forall_cons; [|apply Forall_nil]]; cbn [fst snd].
    + split; [split; exact I|exact I].
    + split; [split; [|exact I]|unfold answer_width, U32; cbn [a_local f2l_match]; lia].
      cbn [a_local f2l_match]. unfold local_true. rewrite f2l_nlen. repeat (split; [lia|]).
      intros i Hi. unfold f2l_x. rewrite !nth_repeat_lt by lia. reflexivity.
  - exists [0; 1; 7; 6; 1; 0; 0; 0]. unfold compress_sequential. rewrite Er. split; [reflexivity|].
    assert (Ed : legacy_decompress [] [0; 1; 7; 6; 1; 0; 0; 0] = Some [7]) by (vm_compute; reflexivity).
    rewrite Ed. intros E. assert (E' : [7] = f2l_x) by congruence.
    apply (f_equal (@length N)) in E'. rewrite HL in E'. discriminate E'.
Qed.
