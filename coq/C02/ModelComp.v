(* C02 mechanism model, part D: the compressors of src/compression/mod.rs end to end - the header each one
   writes around its entropy coder, composed with the coder models of coq/C01.  Definitions only.

     RansCompressor::{new, compress, decompress}      over C01.ModelRans (Rans64Encoder / Rans64Decoder <ParallelX1>)
     DictCompressor::{new, compress, decompress}      over C01.ModelLz   (entropy::dictionary::DictionaryCompressor, min 3 / max 258)
     HuffmanCompressor::{new, compress, decompress}   over C01.Model     (HuffmanTree / HuffmanEncoder / HuffmanDecoder),
        with HuffmanTree::{serialize, deserialize} (src/entropy/huffman.rs), which C01 does not model:
        the code table is a HashMap, so serialize writes its entries in an arbitrary order and
        build_decoding_tree_from_codes inserts them in another arbitrary order - both orders are parameters.

   Stored fields and their widths (everything little-endian):
     rANS     256 x u32 symbol counts (the counts `new` made, NOT the normalised table) | u32 original size | rANS bytes
     Huffman  u32 tree size | tree bytes | u32 original size | packed code bits
              tree bytes = u16 entry count | per entry: u8 symbol, u8 code length, ceil(len/8) bytes of code bits, LSB first
     Dict     no header: the token stream of DictionaryCompressor (0 b | 1 off32 len32)
   The width of a field is a parameter of the generalised definitions (`cw` = bytes per stored count, `sat` = the
   cast saturates instead of wrapping) so that the narrower layouts that were tried can be refuted. *)
From ZV.Common Require Import Base.
From ZV.C02 Require Import Model.
From ZV.C01 Require Model ModelLz ModelRans.
Open Scope N_scope.

Module H := ZV.C01.Model.
Module L := ZV.C01.ModelLz.
Module R := ZV.C01.ModelRans.

(* ------------------------------------------------------------------ *)
(* RansCompressor                                                      *)
(* ------------------------------------------------------------------ *)
(* for &byte in training_data { frequencies[byte] += 1 }  - a u32 per symbol; the addition is checked, so a
   count reaching 2^32 is a panic (None) *)
Fixpoint count_byte (s : N) (d : list N) : N :=
  match d with [] => 0 | b :: t => (if b =? s then 1 else 0) + count_byte s t end.
Definition counts_of (d : list N) : list N := map (fun i => count_byte (N.of_nat i) d) (seq 0 256).

(* Rans64Encoder::new: the checked sum of the counts (Err when it does not fit a u32), then the table *)
Definition rans_encoder_new (raw : list N) : option (list N) :=
  if W32 <=? R.sum_list raw then None else R.table_of_counts raw.

Record rans_inst := mkRans { rc_counts : list N; rc_table : list N }.

(* RansCompressor::new: Err on empty training data *)
Definition rans_new (train : list N) : option rans_inst :=
  match train with
  | [] => None
  | _ => let raw := counts_of train in
         if existsb (fun c => W32 <=? c) raw then None
         else match rans_encoder_new raw with Some t => Some (mkRans raw t) | None => None end
  end.

(* a stored count: `cw` bytes, wrapping (`as uN`) or saturating *)
Definition store_count (cw : nat) (sat : bool) (c : N) : list N :=
  let m := 256 ^ N.of_nat cw in
  L.le_bytes cw (if sat then N.min c (m - 1) else c mod m).

Definition rans_compress_g (cw : nat) (sat : bool) (self : rans_inst) (data : list N) : option (list N) :=
  match data with
  | [] => Some []
  | _ => match R.encode 1 (rc_table self) data with
         | Some z => Some (concat (map (store_count cw sat) (rc_counts self)) ++ L.le_bytes 4 (nlen data mod W32) ++ z)
         | None => None
         end
  end.
(* `self` is not consulted: the table is rebuilt from the header *)
Definition rans_decompress_body (cw : nat) (data : list N) : option (list N) :=
  if nlen data <? 256 * N.of_nat cw + 4 then None
  else match R.take_words 256 cw data with
       | None => None
       | Some (raw, rest) =>
           match R.take_words 1 4 rest with
           | Some ([n], payload) =>
               match rans_encoder_new raw with
               | Some t => R.decode 1 t payload (N.to_nat n)
               | None => None
               end
           | _ => None
           end
       end.
Definition rans_decompress_g (cw : nat) (self : rans_inst) (data : list N) : option (list N) :=
  match data with
  | [] => Some []
  | _ => rans_decompress_body cw data
  end.
(* the code: 4-byte counts, plain `to_le_bytes` of a u32 *)
Definition rans_compress := rans_compress_g 4 false.
Definition rans_decompress := rans_decompress_g 4.

(* ------------------------------------------------------------------ *)
(* DictCompressor                                                      *)
(* ------------------------------------------------------------------ *)
(* DictCompressor::new builds a pattern dictionary from the training data and hands it to
   DictionaryCompressor::new, whose compress never looks at it (LZ77 over the payload's own window):
   an instance is characterised by (min_match_length, max_match_length) = (3, 258) *)
Definition DICT_MIN : N := 3.
Definition DICT_MAX : N := 258.
Definition dict_new (train : list N) : option unit := match train with [] => None | _ => Some tt end.
Definition dict_compress (_ : unit) (data : list N) : option (list N) :=
  match data with [] => Some [] | _ => Some (L.compress DICT_MIN DICT_MAX data) end.
Definition dict_decompress (_ : unit) (data : list N) : option (list N) :=
  match data with [] => Some [] | _ => L.decompress data end.

(* ------------------------------------------------------------------ *)
(* HuffmanTree::serialize / deserialize                                *)
(* ------------------------------------------------------------------ *)
(* result.push(symbol); result.push(code.len() as u8); the bits packed LSB first, last byte zero-padded
   (the same loop as the payload packing of HuffmanEncoder::encode) *)
Definition ser_entry (e : N * list bool) : list N :=
  fst e :: (N.of_nat (length (snd e)) mod 256) :: H.pack (snd e).
(* symbol_count as u16, then the entries in the HashMap's iteration order (`tb` is the table in that order) *)
Definition ser_table (tb : H.table) : list N :=
  L.le_bytes 2 (nlen tb mod 65536) ++ flat_map ser_entry tb.

(* for _ in 0..symbol_count { symbol; code_length; ceil(len/8) bytes; bit i = (byte[i/8] >> (i%8)) & 1 } *)
Fixpoint deser_entries (cnt : nat) (data : list N) : option H.table :=
  match cnt with
  | O => Some []
  | S k =>
      match data with
      | s :: l :: rest =>
          let bc := (l + 7) / 8 in
          if nlen rest <? bc then None    (* "Truncated Huffman code data" *)
          else match deser_entries k (skipn (N.to_nat bc) rest) with
               | Some tb => Some ((s, firstn (N.to_nat l) (H.unpack (firstn (N.to_nat bc) rest))) :: tb)
               | None => None
               end
      | _ => None                         (* "Truncated Huffman tree data" *)
      end
  end.
(* codes.insert(symbol, code): a later entry for the same symbol replaces the earlier one *)
Fixpoint hm_insert (tb : H.table) (s : N) (c : list bool) : H.table :=
  match tb with
  | [] => [(s, c)]
  | (s', c') :: t => if s' =? s then (s, c) :: t else (s', c') :: hm_insert t s c
  end.
Definition hm_of_list (l : H.table) : H.table := fold_left (fun m e => hm_insert m (fst e) (snd e)) l [].
(* `ord` = the iteration order of the HashMap that build_decoding_tree_from_codes sees *)
Definition deser_tree (ord : H.table -> H.table) (data : list N) : option H.hufftree :=
  match data with
  | c0 :: c1 :: rest =>
      match deser_entries (N.to_nat (c0 + 256 * c1)) rest with
      | Some l => let m := hm_of_list l in
                  match H.build_root (ord m) with
                  | Some r => Some (H.mkHT r m)
                  | None => None                 (* "Code collision ..." *)
                  end
      | None => None
      end
  | _ => None                                    (* "Huffman tree data too short" *)
  end.

(* ------------------------------------------------------------------ *)
(* HuffmanCompressor                                                   *)
(* ------------------------------------------------------------------ *)
(* an instance: the encoder's tree and the tree bytes serialize() produced once, in `new` *)
Record huff_inst := mkHuff { hc_tree : H.hufftree; hc_bytes : list N }.
(* `ord1` = the iteration order serialize() saw *)
Definition huff_new_from (ord1 : H.table -> H.table) (ht : H.hufftree) : huff_inst :=
  mkHuff ht (ser_table (ord1 (H.ht_codes ht))).

(* the frame of Model.v instantiated with the real coder *)
Definition huffc_compress (self : huff_inst) (data : list N) : option (list N) :=
  huff_compress (hc_bytes self) (H.huff_encode (hc_tree self)) data.
Definition huffc_decompress (ord2 : H.table -> H.table) (self : huff_inst) (data : list N) : option (list N) :=
  huff_decompress H.hufftree (deser_tree ord2) (fun t payload n => H.huff_decode t payload (N.to_nat n)) data.

(* the size field written through a narrower cast (`as u16`): what a regression would do *)
Definition huffc_compress_size16 (self : huff_inst) (data : list N) : option (list N) :=
  match data with
  | [] => Some []
  | _ => obind (H.huff_encode (hc_tree self) data) (fun z =>
         Some (le32 (nlen (hc_bytes self) mod 4294967296) ++ hc_bytes self ++ le32 (nlen data mod 65536) ++ z))
  end.
