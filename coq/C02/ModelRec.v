(* C02 mechanism model, part C: the byte-level record format of PaZipCompressor
   (src/compression/dict_zip/compressor.rs): apply_compression_strategy (writer),
   decompress / decompress_match / copy_from_distance (reader).  Definitions only.
   Strategy fields: Literal.length is u8; Local.distance/length and Global.dict_offset/length are u32;
   match_type is the CompressionType discriminant. *)
From ZV.Common Require Import Base.
From ZV.C02 Require Import Model.
Open Scope N_scope.

Inductive strategy : Type :=
| SLiteral (length : N)
| SLocal (distance length mt : N)
| SGlobal (dict_offset length : N).

(* the arm of `match match_type { RLE | NearShort | Far1Short | Far2Short | Far2Long | Far3Long | _ }` *)
Inductive lkind : Type := KRle | KNear | KFar1 | KFar2 | KFar2L | KFar3L | KOther.
Definition local_kind (mt : N) : lkind :=
  if mt =? 2 then KRle else if mt =? 3 then KNear else if mt =? 4 then KFar1 else if mt =? 5 then KFar2
  else if mt =? 6 then KFar2L else if mt =? 7 then KFar3L else KOther.

Definition le16 (v : N) : list N := [v mod 256; (v / 256) mod 256].
(* input[pos .. min(pos+n, len)] *)
Definition slice (l : list N) (pos n : N) : list N := firstn (N.to_nat n) (skipn (N.to_nat pos) l).

(* apply_compression_strategy(input, pos, strategy, output) : bytes appended, advance returned *)
Definition write_record (input : list N) (pos : N) (s : strategy) : list N * N :=
  match s with
  | SLiteral l => let d := slice input pos l in (0 :: l :: d, nlen d)
  | SLocal d l mt =>
      match local_kind mt with
      | KRle => ([2; nth (N.to_nat pos) input 0; l mod 256], l)
      | KNear => ([3; d mod 256; l mod 256], l)
      | KFar1 => (4 :: le16 (d mod 65536) ++ [l mod 256], l)
      | KFar2 => (5 :: le32 d ++ [l mod 256], l)
      | KFar2L => (6 :: le16 (d mod 65536) ++ le16 (l mod 65536), l)
      | KFar3L => (7 :: le32 d ++ le32 l, l)
      | KOther => (0 :: (l mod 256) :: slice input pos l, l)   (* "fallback to literal for unsupported types" *)
      end
  | SGlobal off l => (1 :: le16 (off mod 65536) ++ le16 (l mod 65536), l)
  end.

(* copy_from_distance: pushes output[start + i % distance] for i < length; every index read lies in the
   part of `output` that existed on entry (start + distance = old length), so the `break` is dead *)
Definition copy_from_distance (out : list N) (d l : N) : option (list N) :=
  if (d =? 0) || (nlen out <? d) then None
  else let start := nlen out - d in
       Some (out ++ map (fun i => nth (N.to_nat (start + N.of_nat i mod d)) out 0) (seq 0 (N.to_nat l))).

Definition with_rest {A} (tl : list N) (o : option A) : option (list N * A) :=
  match o with Some x => Some (tl, x) | None => None end.

(* decompress_match(input, pos, type, output): `rest` is input[pos..]; Some (rest', out') or None = Err.
   A record cut short by the end of the input is skipped (`return Ok(new_pos)`). *)
Definition decompress_match (dict : list N) (t : N) (rest out : list N) : option (list N * list N) :=
  match t with
  | 1 => match rest with
         | a :: b :: c :: d :: tl =>
             let off := a + 256 * b in let len := c + 256 * d in
             if off + len <=? nlen dict then Some (tl, out ++ slice dict off len) else None
         | _ => Some (rest, out)
         end
  | 2 => match rest with
         | b :: l :: tl => Some (tl, out ++ repeat b (N.to_nat l))
         | _ => Some (rest, out)
         end
  | 3 => match rest with
         | d :: l :: tl => with_rest tl (copy_from_distance out d l)
         | _ => Some (rest, out)
         end
  | 4 => match rest with
         | a :: b :: l :: tl => with_rest tl (copy_from_distance out (a + 256 * b) l)
         | _ => Some (rest, out)
         end
  | 5 => match rest with
         | a :: b :: c :: d :: l :: tl =>
             with_rest tl (copy_from_distance out (a + 256 * b + 65536 * c + 16777216 * d) l)
         | _ => Some (rest, out)
         end
  | 6 => match rest with
         | a :: b :: c :: d :: tl => with_rest tl (copy_from_distance out (a + 256 * b) (c + 256 * d))
         | _ => Some (rest, out)
         end
  | 7 => match rest with
         | a :: b :: c :: d :: e :: f :: g :: h :: tl =>
             with_rest tl (copy_from_distance out (a + 256 * b + 65536 * c + 16777216 * d)
                                                  (e + 256 * f + 65536 * g + 16777216 * h))
         | _ => Some (rest, out)
         end
  | _ => (* 0, and any byte above 7 ("default to literal") *)
         match rest with
         | [] => Some (rest, out)
         | l :: tl => if nlen tl <? l then None
                      else Some (skipn (N.to_nat l) tl, out ++ firstn (N.to_nat l) tl)
         end
  end.

(* while pos < input.len() { type byte; decompress_match } - every round consumes the type byte *)
Fixpoint decompress_loop (fuel : nat) (dict input out : list N) : option (list N) :=
  match fuel with
  | O => None
  | S f => match input with
           | [] => Some out
           | t :: rest => match decompress_match dict t rest out with
                          | Some (rest', out') => decompress_loop f dict rest' out'
                          | None => None
                          end
           end
  end.
Definition legacy_decompress (dict input : list N) : option (list N) :=
  decompress_loop (S (length input)) dict input [].

(* --- what a strategy means: the bytes it stands for, given the output so far --- *)
Definition sem (dict x out : list N) (s : strategy) : option (list N) :=
  match s with
  | SLiteral l => let d := slice x (nlen out) l in if nlen d =? l then Some (out ++ d) else None
  | SLocal d l mt =>
      match local_kind mt with
      | KRle => Some (out ++ repeat (nth (N.to_nat (nlen out)) x 0) (N.to_nat l))
      | KOther => let d := slice x (nlen out) l in if nlen d =? l then Some (out ++ d) else None
      | _ => copy_from_distance out d l
      end
  | SGlobal off l => if off + l <=? nlen dict then Some (out ++ slice dict off l) else None
  end.
(* the fields fit the widths the writer casts them to *)
Definition fits (s : strategy) : bool :=
  match s with
  | SLiteral l => l <? 256
  | SLocal d l mt =>
      match local_kind mt with
      | KRle => l <? 256
      | KNear => (d <? 256) && (l <? 256)
      | KFar1 => (d <? 65536) && (l <? 256)
      | KFar2 => (d <? 4294967296) && (l <? 256)
      | KFar2L => (d <? 65536) && (l <? 65536)
      | KFar3L => (d <? 4294967296) && (l <? 4294967296)
      | KOther => l <? 256
      end
  | SGlobal off l => (off <? 65536) && (l <? 65536)
  end.

(* run a parse from the output `out`: the bytes the parse stands for and the record stream the writer produces *)
Fixpoint run_parse (dict x : list N) (ps : list strategy) (out : list N) : option (list N * list N) :=
  match ps with
  | [] => Some (out, [])
  | s :: t => if fits s then
                match sem dict x out s with
                | Some out' => match run_parse dict x t out' with
                               | Some (o, st) => Some (o, fst (write_record x (nlen out) s) ++ st)
                               | None => None
                               end
                | None => None
                end
              else None
  end.
