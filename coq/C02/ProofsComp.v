(* C02: RansCompressor and DictCompressor end to end (ModelComp.v) over the coder theorems of coq/C01. *)
From ZV.Common Require Import Base.
From ZV.C02 Require Import Model ModelComp.
From ZV.C01 Require Import ModelLz ModelRans ProofsRans ProofsRansPar ProofsRansNorm ProofsLz.
Open Scope N_scope.

(* ---------------- counting ---------------- *)
Lemma count_byte_le s d : count_byte s d <= nlen d.
Proof. induction d as [|b d IH]; cbn [count_byte nlen]; [lia|]. destruct (b =? s); lia. Qed.
Lemma count_byte_pos s d : In s d -> 0 < count_byte s d.
Proof.
  induction d as [|b d IH]; intros Hin; [destruct Hin|]. cbn [count_byte].
  destruct Hin as [->|Hin]; [rewrite N.eqb_refl; lia|]. specialize (IH Hin). destruct (b =? s); lia.
Qed.
Lemma counts_of_length d : length (counts_of d) = 256%nat.
Proof. unfold counts_of. now rewrite map_length, seq_length. Qed.
Lemma nth_map_default {A B} (f : A -> B) l : forall i dA dB, (i < length l)%nat -> nth i (map f l) dB = f (nth i l dA).
Proof. induction l as [|x l IH]; intros [|i] dA dB Hi; cbn [length map nth] in *; try lia; [reflexivity|]. apply IH. lia. Qed.
Lemma counts_of_nth d s : s < 256 -> nth (N.to_nat s) (counts_of d) 0 = count_byte s d.
Proof.
  intros Hs. unfold counts_of.
  rewrite (nth_map_default _ _ _ 0%nat) by (rewrite seq_length; lia). rewrite seq_nth by lia. cbn [Nat.add]. now rewrite N2Nat.id.
Qed.

Lemma sum_list_cons x l : sum_list (x :: l) = x + sum_list l.
Proof. reflexivity. Qed.
(* the sum of the counts of the bytes below `k` is at most the length *)
Lemma sum_counts_nil (l : list nat) : sum_list (map (fun i => count_byte (N.of_nat i) []) l) = 0.
Proof. induction l as [|i l IHl]; [reflexivity|]. cbn [map]. rewrite sum_list_cons, IHl. reflexivity. Qed.
Lemma count_byte_cons s b d : count_byte s (b :: d) = (if b =? s then 1 else 0) + count_byte s d.
Proof. reflexivity. Qed.
Lemma sum_counts_step b d : forall l, NoDup l ->
  sum_list (map (fun i => count_byte (N.of_nat i) (b :: d)) l)
  <= 1 + sum_list (map (fun i => count_byte (N.of_nat i) d) l) /\
  (~ In (N.to_nat b) l ->
   sum_list (map (fun i => count_byte (N.of_nat i) (b :: d)) l)
   = sum_list (map (fun i => count_byte (N.of_nat i) d) l)).
Proof.
  induction l as [|i l IHl]; intros Hnd; cbn [map]; [split; [cbn; lia|reflexivity]|].
  rewrite !sum_list_cons.
  inversion Hnd as [|? ? Hni Hnd']; subst. destruct (IHl Hnd') as [H1 H2].
  rewrite count_byte_cons. destruct (N.eqb_spec b (N.of_nat i)) as [E|E].
  - assert (Hb : N.to_nat b = i) by (subst b; apply Nat2N.id). rewrite H2 by (now rewrite Hb).
    split; [lia|]. intros Hn. exfalso. apply Hn. left. now symmetry.
  - split; [lia|]. intros Hn. rewrite H2; [lia|]. intros Hc. apply Hn. now right.
Qed.
Lemma sum_counts_le d : forall k, sum_list (map (fun i => count_byte (N.of_nat i) d) (seq 0 k)) <= nlen d.
Proof.
  induction d as [|b d IH]; intros k.
  - rewrite sum_counts_nil. cbn [nlen]. lia.
  - specialize (IH k). cbn [nlen].
    destruct (sum_counts_step b d (seq 0 k) (seq_NoDup k 0)) as [H1 _]. lia.
Qed.
Lemma sum_counts_of_le d : sum_list (counts_of d) <= nlen d.
Proof. apply sum_counts_le. Qed.

(* the two sum_list definitions (fold_right in C01, fold_left in C02.Model) *)
Lemma sum_left_right l : forall a, fold_left N.add l a = a + sum_list l.
Proof.
  induction l as [|x l IH]; intros a; cbn [fold_left sum_list fold_right]; [lia|].
  fold (sum_list l). rewrite IH. lia.
Qed.
Lemma model_sum_list l : ZV.C02.Model.sum_list l = sum_list l.
Proof. unfold ZV.C02.Model.sum_list. rewrite sum_left_right. lia. Qed.

Lemma sum_zero_nth l : sum_list l = 0 -> forall i, nth i l 0 = 0.
Proof.
  induction l as [|x l IH]; intros Hs i; [destruct i; reflexivity|].
  cbn [sum_list fold_right] in Hs. fold (sum_list l) in Hs. destruct i; cbn [nth]; [lia|apply IH; lia].
Qed.

Lemma present_or_zero raw : (exists i, 0 < nth i raw 0) \/ (forall i, nth i raw 0 = 0).
Proof.
  induction raw as [|x raw IH]; [right; intros i; destruct i; reflexivity|].
  destruct (N.eq_dec x 0) as [->|Hx]; [|left; exists 0%nat; cbn [nth]; lia].
  destruct IH as [[i Hi]|H]; [left; exists (S i); exact Hi|right].
  intros i; destruct i; cbn [nth]; [reflexivity|apply H].
Qed.

(* Rans64Encoder::new never fails on counts whose sum fits a u32 *)
Lemma rans_encoder_new_defined raw : sum_list raw < W32 -> exists t, rans_encoder_new raw = Some t.
Proof.
  intros Hs. unfold rans_encoder_new. destruct (N.leb_spec W32 (R.sum_list raw)) as [H|_]; [lia|].
  unfold R.table_of_counts, ZV.C02.Model.rans_table. rewrite model_sum_list.
  destruct (N.eqb_spec (sum_list raw) 0) as [E|E]; [eexists; reflexivity|].
  apply normalize_defined_proof. unfold present.
  destruct (present_or_zero raw) as [H|H]; [exact H|]. exfalso. apply E.
  clear -H. induction raw as [|x raw IH]; [reflexivity|]. rewrite sum_list_cons.
  rewrite IH; [|intros i; apply (H (S i))]. specialize (H 0%nat). cbn [nth] in H. lia.
Qed.

(* ---------------- the rANS header ---------------- *)
Lemma store_count_4 c : c < W32 -> store_count 4 false c = le_bytes 4 c.
Proof. intros Hc. unfold store_count. cbn [negb]. change (256 ^ N.of_nat 4) with W32. now rewrite N.mod_small. Qed.
Lemma map_store_count raw : Forall (fun c => c < W32) raw -> map (store_count 4 false) raw = map (le_bytes 4) raw.
Proof. induction 1 as [|c raw Hc _ IH]; [reflexivity|]. cbn [map]. now rewrite store_count_4, IH. Qed.
Lemma take_one_word v rest : v < W32 -> take_words 1 4 (le_bytes 4 v ++ rest) = Some ([v], rest).
Proof.
  intros Hv. pose proof (take_words_emit 4 [v] rest) as H. cbn [length map concat] in H. rewrite app_nil_r in H.
  apply H. constructor; [exact Hv|constructor].
Qed.
Lemma nlen_concat_le4 raw : nlen (concat (map (le_bytes 4) raw)) = 4 * nlen raw.
Proof.
  induction raw as [|c raw IH]; [reflexivity|]. cbn [map concat nlen]. rewrite nlen_app, IH.
  rewrite nlen_length, length_le_bytes. lia.
Qed.

(* the frame alone: whatever instance wrote it (256 counts below 2^32 whose table is `t`), every instance reads it back *)
Lemma rans_frame_roundtrip c x z :
  length (rc_counts c) = 256%nat -> Forall (fun v => v < W32) (rc_counts c) ->
  rans_encoder_new (rc_counts c) = Some (rc_table c) ->
  nlen x <= MAX_DECOMPRESSED_SIZE ->
  rans_compress c x = Some z -> forall c', rans_decompress c' z = Some x.
Proof.
  intros Hlen Hw Ht Hx Hc c'. unfold rans_compress, rans_compress_g in Hc.
  destruct x as [|x0 x']; [injection Hc as <-; reflexivity|]. set (x := x0 :: x') in *.
  destruct (encode 1 (rc_table c) x) as [e|] eqn:He; [|discriminate].
  assert (Hzz : z = concat (map (store_count 4 false) (rc_counts c)) ++ le_bytes 4 (nlen x mod W32) ++ e) by congruence.
  subst z. clear Hc.
  rewrite map_store_count by exact Hw.
  assert (Hn : nlen x mod W32 = nlen x) by (apply N.mod_small; unfold MAX_DECOMPRESSED_SIZE, W32 in *; lia).
  rewrite Hn.
  set (z := concat (map (le_bytes 4) (rc_counts c)) ++ le_bytes 4 (nlen x) ++ e).
  assert (Hz : nlen z = 1028 + nlen e).
  { unfold z. rewrite !nlen_app, nlen_concat_le4, nlen_length, Hlen. rewrite (nlen_length (le_bytes _ _)), length_le_bytes. lia. }
  assert (Hb : rans_decompress c' z = rans_decompress_body 4 z).
  { unfold rans_decompress, rans_decompress_g. destruct z; [cbn [nlen] in Hz; lia|reflexivity]. }
  rewrite Hb. unfold rans_decompress_body.
  change (256 * N.of_nat 4 + 4) with 1028.
  destruct (N.ltb_spec (nlen z) 1028) as [Hlt|_]; [lia|].
  unfold z. replace 256%nat with (length (rc_counts c)).
  rewrite take_words_emit by (eapply Forall_impl; [|exact Hw]; intros v Hv; exact Hv).
  rewrite take_one_word by (unfold MAX_DECOMPRESSED_SIZE, W32 in *; lia).
  rewrite Ht. rewrite nlen_length, Nat2N.id.
  assert (Hwf : wf_table (rc_table c)).
  { unfold rans_encoder_new in Ht. destruct (W32 <=? R.sum_list (rc_counts c)); [discriminate|].
    apply (table_of_counts_wf_proof _ _ ltac:(rewrite nlen_length, Hlen; lia) Ht). }
  apply rans_roundtrip_x1_proof; [exact Hwf|rewrite <- nlen_length; exact Hx|exact He].
Qed.

Lemma rans_new_defined train : train <> [] -> nlen train < W32 ->
  exists c, rans_new train = Some c /\ rc_counts c = counts_of train /\
            rans_encoder_new (counts_of train) = Some (rc_table c).
Proof.
  intros Hne Hl. unfold rans_new. destruct train as [|b tr]; [congruence|]. set (train := b :: tr) in *.
  destruct (existsb (fun c => W32 <=? c) (counts_of train)) eqn:Eex.
  - exfalso. apply existsb_exists in Eex. destruct Eex as (c & Hin & Hc). unfold counts_of in Hin.
    apply in_map_iff in Hin. destruct Hin as (i & <- & _). pose proof (count_byte_le (N.of_nat i) train). lia.
  - destruct (rans_encoder_new_defined (counts_of train)) as [t Et].
    { pose proof (sum_counts_of_le train). lia. }
    rewrite Et. eexists. split; [reflexivity|]. split; reflexivity.
Qed.

Lemma counts_bound train : nlen train < W32 -> Forall (fun v => v < W32) (counts_of train).
Proof.
  intros Hl. apply Forall_forall. intros v Hin. unfold counts_of in Hin. apply in_map_iff in Hin.
  destruct Hin as (i & <- & _). pose proof (count_byte_le (N.of_nat i) train). lia.
Qed.

(* RansCompressor: trained on any non-empty corpus (fewer than 2^32 bytes, so that every u32 count is exact), every payload
   of at most MAX_DECOMPRESSED_SIZE bytes whose symbols occur in the corpus is compressed, and the frame is decoded by the
   same instance and by an instance trained on any other corpus (the counts travel in the header, 4 bytes each) *)
Theorem rans_compressor_roundtrip_proof :
  forall train other x,
    train <> [] -> nlen train < W32 -> other <> [] -> nlen other < W32 ->
    Forall (fun b => b < 256) x -> (forall s, In s x -> In s train) ->
    nlen x <= MAX_DECOMPRESSED_SIZE ->
    exists c1 c2 z, rans_new train = Some c1 /\ rans_new other = Some c2 /\
      rans_compress c1 x = Some z /\ rans_decompress c1 z = Some x /\ rans_decompress c2 z = Some x.
Proof.
  intros train other x Ht Htl Ho Hol Hb Hsub Hx.
  destruct (rans_new_defined train Ht Htl) as (c1 & E1 & Hc1 & Et1).
  destruct (rans_new_defined other Ho Hol) as (c2 & E2 & _ & _).
  assert (Hz : exists z, rans_compress c1 x = Some z).
  { unfold rans_compress, rans_compress_g. destruct x as [|x0 x']; [eexists; reflexivity|]. set (x := x0 :: x') in *.
    assert (Hwf : wf_table (rc_table c1) /\ covers (rc_table c1) x).
    { unfold rans_encoder_new in Et1. destruct (W32 <=? R.sum_list (counts_of train)); [discriminate|].
      destruct (table_of_counts_wf_proof _ _ ltac:(rewrite nlen_length, counts_of_length; lia) Et1) as [Hw Hcov].
      split; [exact Hw|]. apply Hcov. unfold covers. apply Forall_forall. intros s Hs. unfold freq_of.
      rewrite Forall_forall in Hb. rewrite counts_of_nth by (apply Hb; exact Hs). apply count_byte_pos. now apply Hsub. }
    destruct Hwf as [Hw Hcov]. destruct (enc_all_defined _ _ Hw Hcov) as [[st rout] Est].
    unfold encode. cbn [Nat.eqb]. unfold x at 1. unfold encode_single. fold x. rewrite Est. eexists; reflexivity. }
  destruct Hz as [z Hz]. exists c1, c2, z. split; [exact E1|]. split; [exact E2|]. split; [exact Hz|].
  assert (G : forall c', rans_decompress c' z = Some x).
  { apply (rans_frame_roundtrip c1 x z); [rewrite Hc1; apply counts_of_length|rewrite Hc1; now apply counts_bound|
      rewrite Hc1; exact Et1|exact Hx|exact Hz]. }
  split; apply G.
Qed.

Example rans_compressor_inhabited :
  let train := [104; 101; 108; 108; 111; 32; 119; 111; 114; 108; 100] in
  train <> [] /\ nlen train < W32 /\ Forall (fun b => b < 256) [108; 111; 108] /\ (forall s, In s [108; 111; 108] -> In s train).
Proof. cbn zeta. split; [discriminate|]. split; [vm_compute; reflexivity|]. split; [repeat constructor|]. intros s Hs. cbn in *. intuition. Qed.

(* counts stored as saturating u16 (a layout that was tried): a decoder reading them back builds another table *)
Lemma rans_counts_u16_refuted_proof :
  exists raw, length raw = 256%nat /\ Forall (fun v => v < W32) raw /\
    rans_encoder_new (map (fun c => N.min c 65535) raw) <> rans_encoder_new raw.
Proof.
  exists (200000 :: 70000 :: 3 :: repeat 0 253). split; [reflexivity|]. split.
  - apply Forall_forall. intros v [<-|[<-|[<-|Hv]]]; try (unfold W32; lia). apply repeat_spec in Hv. subst. unfold W32. lia.
  - vm_compute. discriminate.
Qed.

(* ---------------- DictCompressor ---------------- *)
Theorem dict_compressor_roundtrip_proof :
  forall train other x, train <> [] -> other <> [] -> nlen x <= MAX_DECOMPRESSED_SIZE ->
  exists c1 c2 z, dict_new train = Some c1 /\ dict_new other = Some c2 /\
    dict_compress c1 x = Some z /\ dict_decompress c1 z = Some x /\ dict_decompress c2 z = Some x.
Proof.
  intros train other x Ht Ho Hx. exists tt, tt.
  destruct train as [|t0 tr]; [congruence|]. destruct other as [|o0 ot]; [congruence|].
  destruct x as [|x0 x']; [exists []; repeat split; reflexivity|]. set (x := x0 :: x') in *.
  exists (L.compress DICT_MIN DICT_MAX x). split; [reflexivity|]. split; [reflexivity|]. split; [reflexivity|].
  pose proof (lz_decode_encode_proof DICT_MIN DICT_MAX x ltac:(unfold DICT_MAX, W32; lia) Hx) as Hd.
  unfold dict_decompress. destruct (L.compress DICT_MIN DICT_MAX x) as [|z0 z'] eqn:Ez.
  - exfalso. unfold L.decompress in Hd. cbn in Hd. discriminate.
  - split; exact Hd.
Qed.
