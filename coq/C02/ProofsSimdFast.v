(* The output-reversed reconstruction used for evaluating harness cases equals the model of
   reconstruct_from_matches (for every substitution of the literals). *)
From ZV.Common Require Import Base Run.
From ZV.C02 Require Import Model ModelRec ModelSimd ProofsSimdCopy.
Open Scope N_scope.

Lemma nlen_rev (l : list N) : nlen (rev l) = nlen l.
Proof. rewrite !nlen_length, rev_length. reflexivity. Qed.

Lemma copy_loop_rcopy d start : 1 <= d ->
  forall k i cur, nlen cur = start + d + i ->
  simd_copy_loop k i start cur = Ok (rev (rcopy k (N.to_nat (d - 1)) (rev cur))).
Proof.
  intros Hd. induction k as [|k IH]; intros i cur Hlen; cbn [simd_copy_loop rcopy].
  - rewrite rev_involutive. reflexivity.
  - replace (nlen cur - start) with (d + i) by lia.
    destruct (N.eqb_spec (d + i) 0) as [Hz|_]; [exfalso; lia|].
    rewrite (N.mod_small i (d + i)) by lia.
    pose proof (nlen_length cur) as Hc.
    rewrite (nth_error_nth' cur 0) by lia.
    rewrite rev_nth by lia.
    replace (length cur - S (N.to_nat (d - 1)))%nat with (N.to_nat (start + i)) by lia.
    rewrite IH by (rewrite nlen_app; cbn [nlen]; lia).
    rewrite rev_unit. reflexivity.
Qed.

Lemma copy_backward_rcopy out d len :
  1 <= d <= nlen out ->
  simd_copy_backward out d len = Ok (rev (rcopy (N.to_nat len) (N.to_nat (d - 1)) (rev out))).
Proof.
  intros Hd. unfold simd_copy_backward.
  destruct (N.eqb_spec d 0) as [Hz|_]; [exfalso; lia|].
  destruct (N.ltb_spec (nlen out) d) as [Hx|_]; [exfalso; lia|]. cbn [orb].
  apply copy_loop_rcopy; lia.
Qed.

Definition rmap (f : list N -> list N) (r : res (list N)) : res (list N) :=
  match r with Ok a => Ok (f a) | Err => Err | Panic => Panic | Fuel => Fuel end.

Lemma rev_append_app (a out : list N) : rev_append a (rev out) = rev (out ++ a).
Proof. rewrite rev_append_rev, rev_app_distr. reflexivity. Qed.

Lemma fast_backref_eq ph out d len :
  fast_backref ph (rev out) d len = rmap (@rev N) (simd_backref ph out d len).
Proof.
  unfold fast_backref, simd_backref. rewrite nlen_rev.
  destruct (N.leb_spec d (nlen out)) as [Hle|Hgt].
  - destruct (N.eqb_spec d 0) as [->|Hnz].
    + unfold simd_copy_backward. change (0 =? 0) with true. reflexivity.
    + rewrite copy_backward_rcopy by lia. cbn [rmap]. rewrite rev_involutive. reflexivity.
  - cbn [rmap]. rewrite rev_append_app. reflexivity.
Qed.

Lemma fast_step_eq lit out m :
  fast_step lit (rev out) m = rmap (@rev N) (simd_step lit out m).
Proof.
  unfold fast_step, simd_step. rewrite nlen_rev.
  destruct (MAX_DECOMPRESSED_SIZE - nlen out <? m_length m); [reflexivity|].
  destruct m; cbn [rmap]; try apply fast_backref_eq; rewrite rev_append_app; reflexivity.
Qed.

Lemma fast_reconstruct_from_eq lit ms : forall out,
  fast_reconstruct_from lit ms (rev out) = simd_reconstruct_from lit ms out.
Proof.
  induction ms as [|m t IH]; intros out; cbn [fast_reconstruct_from simd_reconstruct_from].
  - unfold rev'. rewrite <- rev_alt, rev_involutive. reflexivity.
  - rewrite fast_step_eq. destruct (simd_step lit out m) as [out'| | |]; cbn [rmap rbind]; try reflexivity.
    apply IH.
Qed.

Lemma simd_reconstruct_fast_eq_proof :
  forall lit ms, simd_reconstruct_fast_g lit ms = simd_reconstruct_g lit ms.
Proof. intros. unfold simd_reconstruct_fast_g, simd_reconstruct_g. apply (fast_reconstruct_from_eq lit ms []). Qed.

Lemma simd_decompress_fast_eq_proof : forall z, simd_decompress_fast z = simd_decompress z.
Proof.
  intros z. unfold simd_decompress_fast, simd_decompress, simd_decompress_g.
  destruct z as [|z0 zt]; [reflexivity|].
  destruct (simd_decode_matches (z0 :: zt)) as [ms| | |]; cbn [rbind]; try reflexivity.
  apply simd_reconstruct_fast_eq_proof.
Qed.
