(* Framing of the compressor layer: the hybrid tag byte, the Huffman header, the rANS table. *)
From ZV.Common Require Import Base.
From ZV.C02 Require Import Model.
Open Scope N_scope.

(* a component codec that round-trips whatever it accepts *)
Definition codec_ok (c : codec) : Prop :=
  forall x z, c_compress c x = Some z -> c_decompress c z = Some x.

(* ---------- HybridCompressor ---------- *)
Definition sel_inv (raw : N) (cs : list codec) (data : list N) (bound : N) (best : list N) (tag : N) : Prop :=
  (tag = raw /\ best = data) \/
  (tag < bound /\ exists c, nth_error cs (N.to_nat tag) = Some c /\ c_compress c data = Some best).

Lemma hybrid_select_inv raw data : forall suffix pre best tag,
  sel_inv raw (pre ++ suffix) data (nlen pre) best tag ->
  let '(b, t) := hybrid_select suffix (nlen pre) data best tag in
  sel_inv raw (pre ++ suffix) data (nlen (pre ++ suffix)) b t.
Proof.
  induction suffix as [|c t IH]; intros pre best tag Hinv; cbn [hybrid_select].
  - rewrite app_nil_r in *. exact Hinv.
  - assert (Hstep : forall b' t', sel_inv raw (pre ++ c :: t) data (nlen (pre ++ [c])) b' t' ->
              let '(b, tg) := hybrid_select t (nlen pre + 1) data b' t' in
              sel_inv raw (pre ++ c :: t) data (nlen (pre ++ c :: t)) b tg).
    { intros b' t' H. specialize (IH (pre ++ [c]) b' t').
      rewrite <- app_assoc in IH. cbn [app] in IH. rewrite nlen_app in IH. cbn [nlen] in IH.
      replace (nlen pre + (1 + 0)) with (nlen pre + 1) in IH by lia. apply IH.
      rewrite nlen_app in H. cbn [nlen] in H. replace (nlen pre + (1 + 0)) with (nlen pre + 1) in H by lia.
      exact H. }
    assert (Hkeep : sel_inv raw (pre ++ c :: t) data (nlen (pre ++ [c])) best tag).
    { rewrite nlen_app. cbn [nlen]. destruct Hinv as [H|(Hb & H)]; [left; exact H|right]. split; [lia|exact H]. }
    destruct (c_compress c data) as [z|] eqn:Ez; [|apply Hstep; exact Hkeep].
    destruct (nlen z <? nlen best); [|apply Hstep; exact Hkeep].
    apply Hstep. right. split; [rewrite nlen_app; cbn [nlen]; lia|].
    exists c. split; [|exact Ez].
    rewrite nlen_length, Nnat.Nat2N.id. rewrite nth_error_app2 by lia.
    rewrite PeanoNat.Nat.sub_diag. reflexivity.
Qed.

Lemma hybrid_roundtrip_proof :
  forall cs data, Forall codec_ok cs -> nlen cs <= 255 ->
  exists z, hybrid_compress cs data = Some z /\ hybrid_decompress cs z = Some data.
Proof.
  intros cs data Hok Hlen. unfold hybrid_compress, hybrid_compress_g, hybrid_decompress, hybrid_decompress_g.
  destruct data as [|d0 dt]; [exists []; split; reflexivity|].
  pose proof (hybrid_select_inv HYBRID_RAW (d0 :: dt) cs [] (d0 :: dt) HYBRID_RAW) as H.
  cbn [app nlen] in H. specialize (H ltac:(left; split; reflexivity)).
  destruct (hybrid_select cs 0 (d0 :: dt) (d0 :: dt) HYBRID_RAW) as [best tag].
  exists (tag :: best). split; [reflexivity|]. cbn [andb].
  destruct H as [(Ht & Hb)|(Ht & c & Hn & Hc)].
  - subst. rewrite N.eqb_refl. reflexivity.
  - unfold HYBRID_RAW in *. destruct (N.eqb_spec tag 255) as [Hx|_]; [exfalso; lia|].
    rewrite Hn. rewrite Forall_forall in Hok. apply (Hok c); [|exact Hc].
    eapply nth_error_In. exact Hn.
Qed.

(* the same statement fails for the code before the fix: one well-behaved component that
   lengthens its input is enough *)
Definition expanding_codec : codec :=
  mkCodec (fun x => Some (0 :: x)) (fun z => match z with 0 :: t => Some t | _ => None end).
Lemma hybrid_old_refuted_proof :
  exists cs data, Forall codec_ok cs /\ nlen cs <= 255 /\
    forall z, hybrid_compress_old cs data = Some z -> hybrid_decompress_old cs z <> Some data.
Proof.
  exists [expanding_codec], [1]. split; [|split].
  - constructor; [|constructor]. intros x z H. cbn in H. inversion H. reflexivity.
  - cbn. lia.
  - intros z H. vm_compute in H. inversion H; subst. vm_compute. discriminate.
Qed.

(* ---------- 4-byte little-endian size fields ---------- *)
Lemma rd32_le32 v rest : v < 4294967296 -> rd32 (le32 v ++ rest) = Some (v, rest).
Proof.
  intros Hv. unfold le32, rd32. cbn [app]. do 2 f_equal. lia.
Qed.
Lemma nlen_le32 v : nlen (le32 v) = 4.
Proof. reflexivity. Qed.
Lemma take_n_app a b : take_n (length a) (a ++ b) = Some (a, b).
Proof. induction a as [|x a IH]; cbn [length take_n app]; [reflexivity|]. rewrite IH. reflexivity. Qed.

Section HuffFrameProofs.
  Variable tree : Type.
  Variable tree_bytes : list N.
  Variable enc : list N -> option (list N).
  Variable deser : list N -> option tree.
  Variable dec : tree -> list N -> N -> option (list N).
  Variable t0 : tree.
  Hypothesis deser_ok : deser tree_bytes = Some t0.
  Hypothesis coder_ok : forall data z, enc data = Some z -> dec t0 z (nlen data) = Some data.

  Lemma huff_decompress_frame tb n p :
    nlen tb < 4294967296 -> n < 4294967296 ->
    huff_decompress tree deser dec (le32 (nlen tb) ++ tb ++ le32 n ++ p) =
    obind (deser tb) (fun t => dec t p n).
  Proof.
    intros Ht Hn. unfold huff_decompress.
    remember (le32 (nlen tb) ++ tb ++ le32 n ++ p) as whole eqn:Ew.
    assert (Hlen : nlen whole = 8 + nlen tb + nlen p).
    { rewrite Ew, !nlen_app, !nlen_le32. lia. }
    destruct whole as [|w0 wt']; [cbn [nlen] in Hlen; exfalso; lia|].
    destruct (N.ltb_spec (nlen (w0 :: wt')) 8) as [Hx|_]; [exfalso; lia|].
    rewrite Ew at 1. rewrite rd32_le32 by assumption. cbn [obind].
    destruct (N.ltb_spec (nlen (w0 :: wt')) (8 + nlen tb)) as [Hx|_]; [exfalso; lia|].
    rewrite nlen_length, Nnat.Nat2N.id, take_n_app. cbn [obind].
    destruct (deser tb); cbn [obind]; [|reflexivity].
    rewrite rd32_le32 by assumption. reflexivity.
  Qed.

  Lemma huff_frame_roundtrip_proof :
    forall data z, nlen tree_bytes < 4294967296 -> nlen data < 4294967296 ->
    huff_compress tree_bytes enc data = Some z ->
    huff_decompress tree deser dec z = Some data.
  Proof using deser_ok coder_ok.
    intros data z Ht Hd. unfold huff_compress.
    destruct data as [|d0 dt]; [intros H; inversion H; reflexivity|].
    destruct (enc (d0 :: dt)) as [p|] eqn:Ep; cbn [obind]; [|discriminate].
    intros H. injection H as Hz. subst z.
    rewrite (N.mod_small (nlen tree_bytes)) by exact Ht.
    rewrite (N.mod_small (nlen (d0 :: dt))) by exact Hd.
    change (huff_decompress tree deser dec
              (le32 (nlen tree_bytes) ++ tree_bytes ++ le32 (nlen (d0 :: dt)) ++ p) = Some (d0 :: dt)).
    rewrite huff_decompress_frame by assumption.
    rewrite deser_ok. cbn [obind]. apply coder_ok. exact Ep.
  Qed.
End HuffFrameProofs.

(* ---------- rANS header ---------- *)
Definition byte_counts (x : list N) : list N :=
  map (fun i => N.of_nat (count_occ N.eq_dec x (N.of_nat i))) (seq 0 256).
Definition hello_world : list N := [104; 101; 108; 108; 111; 32; 119; 111; 114; 108; 100].

(* before the fix the decoder normalised the already normalised table, which moves it *)
Lemma rans_header_refuted_proof :
  exists raw, length raw = 256%nat /\ rans_decoder_table_old raw <> rans_table raw.
Proof.
  exists (byte_counts hello_world). split; [reflexivity|]. vm_compute. discriminate.
Qed.

(* also on a table that is already normalised (sums to 4096) *)
Lemma normalize_not_idempotent_proof :
  exists f, sum_list f = 4096 /\ rans_table f <> Some f.
Proof.
  exists [2048; 2048]. split; [reflexivity|]. vm_compute. discriminate.
Qed.

Lemma rans_header_proof : forall raw, rans_decoder_table raw = rans_table raw.
Proof. reflexivity. Qed.
