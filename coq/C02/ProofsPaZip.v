(* PaZipCompressor::compress (legacy path), sequential loop: whatever the cost model selects, if the match
   finders only report true matches the records written decode to the payload. *)
From ZV.Common Require Import Base.
From ZV.C02 Require Import Model ModelRec ProofsRec ModelPaZip.
Open Scope N_scope.

(* ---------------- list helpers ---------------- *)
Lemma nth_skipn_nat {A} (l : list A) p i d : nth i (skipn p l) d = nth (p + i) l d.
Proof.
  revert l; induction p as [|p IH]; intros l; [reflexivity|].
  destruct l as [|a l]; cbn [skipn]; [destruct i; reflexivity|]. apply IH.
Qed.
Lemma nth_firstn_nat {A} (l : list A) n i d : (i < n)%nat -> nth i (firstn n l) d = nth i l d.
Proof.
  revert l i; induction n as [|n IH]; intros l i Hi; [lia|].
  destruct l as [|a l]; [reflexivity|]. destruct i as [|i]; [reflexivity|]. cbn [firstn nth]. apply IH. lia.
Qed.
Lemma nth_slice l pos n i : (i < N.to_nat n)%nat -> nth i (slice l pos n) 0 = nth (N.to_nat pos + i) l 0.
Proof. intros Hi. unfold slice. rewrite nth_firstn_nat by exact Hi. apply nth_skipn_nat. Qed.
Lemma length_slice l pos n : pos + n <= nlen l -> length (slice l pos n) = N.to_nat n.
Proof. intros H. unfold slice. rewrite firstn_length, skipn_length. rewrite nlen_length in H. lia. Qed.
Lemma nlen_slice l pos n : pos + n <= nlen l -> nlen (slice l pos n) = n.
Proof. intros H. rewrite nlen_length, length_slice by exact H. lia. Qed.
Lemma firstn_firstn_skipn {A} (l : list A) p n : firstn p l ++ firstn n (skipn p l) = firstn (p + n) l.
Proof.
  revert l; induction p as [|p IH]; intros l; [reflexivity|].
  destruct l as [|a l]; [cbn; destruct n; reflexivity|]. cbn [firstn skipn app Nat.add]. f_equal. apply IH.
Qed.
Lemma firstn_slice_app l pos n : firstn (N.to_nat pos) l ++ slice l pos n = firstn (N.to_nat (pos + n)) l.
Proof. unfold slice. rewrite firstn_firstn_skipn. f_equal. lia. Qed.
Lemma skipn_app_plus {A} (pre l : list A) k : skipn (length pre + k) (pre ++ l) = skipn k l.
Proof. induction pre as [|a pre IH]; [reflexivity|]. exact IH. Qed.
Lemma to_nat_nlen_add {A} (pre : list A) pos : N.to_nat (nlen pre + pos) = (length pre + N.to_nat pos)%nat.
Proof. rewrite nlen_length. lia. Qed.
Lemma slice_app_shift pre blk pos n : slice (pre ++ blk) (nlen pre + pos) n = slice blk pos n.
Proof. unfold slice. rewrite to_nat_nlen_add, skipn_app_plus. reflexivity. Qed.
Lemma nth_app_shift (pre blk : list N) pos :
  nth (N.to_nat (nlen pre + pos)) (pre ++ blk) 0 = nth (N.to_nat pos) blk 0.
Proof. rewrite to_nat_nlen_add. apply app_nth2_plus. Qed.
Lemma nlen_prefix (pre blk : list N) pos :
  pos <= nlen blk -> nlen (pre ++ firstn (N.to_nat pos) blk) = nlen pre + pos.
Proof. intros H. rewrite nlen_app. f_equal. rewrite nlen_length, firstn_length. rewrite nlen_length in H. lia. Qed.
Lemma nth_repeat_lt (a : N) m n : (n < m)%nat -> nth n (repeat a m) 0 = a.
Proof. revert n; induction m as [|m IH]; intros n Hn; [lia|]. destruct n as [|n]; [reflexivity|]. apply IH. lia. Qed.
Lemma nth_map_seq (f : nat -> N) len n : (n < len)%nat -> nth n (map f (seq 0 len)) 0 = f n.
Proof.
  intros Hn. rewrite (nth_indep _ 0 (f 0%nat)) by (rewrite map_length, seq_length; exact Hn).
  rewrite map_nth, seq_nth by exact Hn. reflexivity.
Qed.

Lemma write_record_shift pre blk pos s : write_record (pre ++ blk) (nlen pre + pos) s = write_record blk pos s.
Proof.
  destruct s as [l|d l mt|off l]; cbn [write_record]; [rewrite slice_app_shift; reflexivity| |reflexivity].
  rewrite slice_app_shift, nth_app_shift. reflexivity.
Qed.

(* ---------------- a true match is what the reader reconstructs ---------------- *)
Lemma mod_sub_self i d : d <> 0 -> d <= i -> (i - d) mod d = i mod d.
Proof.
  intros Hd Hi. replace i with ((i - d) + 1 * d) at 2 by lia. rewrite N.mod_add by exact Hd. reflexivity.
Qed.

Lemma periodic blk pos d len : local_true blk pos d len ->
  forall i, i < len -> nth (N.to_nat (pos + i)) blk 0 = nth (N.to_nat (pos - d + i mod d)) blk 0.
Proof.
  intros (Hd1 & Hdp & Hl1 & Hend & Hper).
  assert (G : forall n i, (N.to_nat i < n)%nat -> i < len ->
              nth (N.to_nat (pos + i)) blk 0 = nth (N.to_nat (pos - d + i mod d)) blk 0).
  { induction n as [|n IH]; intros i Hn Hi; [lia|].
    rewrite (Hper i Hi). destruct (N.ltb_spec i d) as [Hlt|Hge].
    - rewrite N.mod_small by exact Hlt. f_equal. lia.
    - rewrite <- (mod_sub_self i d) by lia. rewrite <- IH by lia. f_equal. lia. }
  intros i Hi. apply (G (S (N.to_nat i))); [lia|exact Hi].
Qed.

Lemma copy_true pre blk pos d len : local_true blk pos d len ->
  copy_from_distance (pre ++ firstn (N.to_nat pos) blk) d len
  = Some (pre ++ firstn (N.to_nat (pos + len)) blk).
Proof.
  intros Ht. pose proof (periodic blk pos d len Ht) as Hper.
  destruct Ht as (Hd1 & Hdp & Hl1 & Hend & _).
  unfold copy_from_distance. rewrite nlen_prefix by lia.
  destruct (N.eqb_spec d 0) as [Hz|_]; [exfalso; lia|].
  destruct (N.ltb_spec (nlen pre + pos) d) as [Hx|_]; [exfalso; lia|]. cbn [orb].
  f_equal. rewrite <- firstn_slice_app, app_assoc. f_equal.
  apply (nth_ext _ _ 0 0).
  - rewrite map_length, seq_length, length_slice by lia. reflexivity.
  - intros n Hn. rewrite map_length, seq_length in Hn.
    rewrite nth_map_seq by exact Hn. rewrite nth_slice by exact Hn.
    assert (Hi : N.of_nat n < len) by lia.
    specialize (Hper (N.of_nat n) Hi).
    assert (Hm : N.of_nat n mod d < d) by (apply N.mod_lt; lia).
    replace (N.to_nat (nlen pre + pos - d + N.of_nat n mod d))
      with (length pre + N.to_nat (pos - d + N.of_nat n mod d))%nat by (rewrite nlen_length; lia).
    rewrite app_nth2_plus. rewrite nth_firstn_nat by lia. rewrite <- Hper. f_equal. lia.
Qed.

Lemma rle_true blk pos len : local_true blk pos 1 len ->
  repeat (nth (N.to_nat pos) blk 0) (N.to_nat len) = slice blk pos len.
Proof.
  intros Ht. pose proof (periodic blk pos 1 len Ht) as Hper.
  destruct Ht as (_ & Hdp & Hl1 & Hend & _).
  apply (nth_ext _ _ 0 0).
  - rewrite repeat_length, length_slice by lia. reflexivity.
  - intros n Hn. rewrite repeat_length in Hn. rewrite nth_repeat_lt by exact Hn. rewrite nth_slice by exact Hn.
    assert (H0 : 0 < len) by lia. pose proof (Hper 0 H0) as E0.
    assert (Hi : N.of_nat n < len) by lia. pose proof (Hper (N.of_nat n) Hi) as En.
    rewrite N.mod_1_r in E0, En. rewrite N.add_0_r in E0.
    rewrite E0, <- En. f_equal. lia.
Qed.

Lemma global_slice dict blk pos p len : global_true dict blk pos p len -> slice dict p len = slice blk pos len.
Proof.
  intros (Hl1 & Hend & Hdict & Heq).
  apply (nth_ext _ _ 0 0).
  - rewrite !length_slice by lia. reflexivity.
  - intros n Hn. rewrite length_slice in Hn by lia. rewrite !nth_slice by exact Hn.
    assert (Hi : N.of_nat n < len) by lia. specialize (Heq (N.of_nat n) Hi).
    replace (N.to_nat p + n)%nat with (N.to_nat (p + N.of_nat n)) by lia.
    replace (N.to_nat pos + n)%nat with (N.to_nat (pos + N.of_nat n)) by lia. exact Heq.
Qed.

(* ---------------- sem of the three strategy shapes on a payload prefix ---------------- *)
Lemma slice_sem pre blk pos n :
  pos + n <= nlen blk ->
  (let d := slice (pre ++ blk) (nlen (pre ++ firstn (N.to_nat pos) blk)) n in
   if nlen d =? n then Some ((pre ++ firstn (N.to_nat pos) blk) ++ d) else None)
  = Some (pre ++ firstn (N.to_nat (pos + n)) blk).
Proof.
  intros H. cbv zeta. rewrite nlen_prefix by lia. rewrite slice_app_shift, nlen_slice by exact H.
  rewrite N.eqb_refl. rewrite <- firstn_slice_app, app_assoc. reflexivity.
Qed.

Lemma literal_sem dict pre blk pos n :
  pos + n <= nlen blk ->
  sem dict (pre ++ blk) (pre ++ firstn (N.to_nat pos) blk) (SLiteral n)
  = Some (pre ++ firstn (N.to_nat (pos + n)) blk).
Proof. intros H. cbn [sem]. apply slice_sem. exact H. Qed.

Lemma local_sem dict pre blk pos d d' len t :
  local_true blk pos d len -> (local_kind t = KOther \/ d' = d) -> (local_kind t = KRle -> d = 1) ->
  sem dict (pre ++ blk) (pre ++ firstn (N.to_nat pos) blk) (SLocal d' len t)
  = Some (pre ++ firstn (N.to_nat (pos + len)) blk).
Proof.
  intros Ht Hd Hr. assert (Hend : pos + len <= nlen blk) by (destruct Ht as (_ & _ & _ & H & _); exact H).
  cbn [sem]. destruct (local_kind t) eqn:K.
  - (* RLE *) specialize (Hr eq_refl). subst d.
    rewrite nlen_prefix by lia. rewrite nth_app_shift, (rle_true blk pos len Ht).
    rewrite <- firstn_slice_app, app_assoc. reflexivity.
  - destruct Hd as [Hd|Hd]; [discriminate|subst d']. apply copy_true; exact Ht.
  - destruct Hd as [Hd|Hd]; [discriminate|subst d']. apply copy_true; exact Ht.
  - destruct Hd as [Hd|Hd]; [discriminate|subst d']. apply copy_true; exact Ht.
  - destruct Hd as [Hd|Hd]; [discriminate|subst d']. apply copy_true; exact Ht.
  - destruct Hd as [Hd|Hd]; [discriminate|subst d']. apply copy_true; exact Ht.
  - apply slice_sem. exact Hend.
Qed.

Lemma global_sem dict pre blk pos p len :
  global_true dict blk pos p len ->
  sem dict (pre ++ blk) (pre ++ firstn (N.to_nat pos) blk) (SGlobal p len)
  = Some (pre ++ firstn (N.to_nat (pos + len)) blk).
Proof.
  intros Ht. pose proof (global_slice dict blk pos p len Ht) as Hs. destruct Ht as (Hl1 & Hend & Hdict & _).
  cbn [sem]. destruct (N.leb_spec (p + len) (nlen dict)) as [_|Hx]; [|exfalso; lia].
  rewrite Hs, <- firstn_slice_app, app_assoc. reflexivity.
Qed.

(* ---------------- the candidates ---------------- *)
Lemma emt_cases d len : 1 <= d -> 1 <= len ->
  (encoding_meta_type d len = 0 /\ len = 1) \/
  (encoding_meta_type d len = 2 /\ d = 1 /\ len <= 33) \/
  (encoding_meta_type d len = 3 /\ d <= 9 /\ len <= 5) \/
  (encoding_meta_type d len = 4 /\ d <= 257 /\ len <= 33) \/
  (encoding_meta_type d len = 5 /\ d <= 65793 /\ len <= 33) \/
  (encoding_meta_type d len = 6 /\ d <= 65535 /\ 34 <= len) \/
  encoding_meta_type d len = 7.
Proof.
  intros Hd Hl. unfold encoding_meta_type.
  destruct (len =? 1) eqn:E0; [left; lia|].
  destruct ((d =? 1) && (len <=? 33)) eqn:E1; [right; left; lia|].
  destruct ((2 <=? d) && (d <=? 9) && (len <=? 5)) eqn:E2; [right; right; left; lia|].
  destruct ((2 <=? d) && (d <=? 257) && (len <=? 33)) eqn:E3; [right; right; right; left; lia|].
  destruct ((258 <=? d) && (d <=? 258 + 65535) && (len <=? 33)) eqn:E4; [right; right; right; right; left; lia|].
  destruct ((d <=? 65535) && (34 <=? len)) eqn:E5; [right; right; right; right; right; left; lia|].
  right; right; right; right; right; right; reflexivity.
Qed.

Lemma choose_type_match d len : 1 <= d -> 1 <= len -> choose_type d len = Some (encoding_meta_type d len).
Proof.
  intros Hd Hl. unfold choose_type, can_use_reference_logic.
  destruct (N.eqb_spec len 0) as [Hx|_]; [exfalso; lia|].
  destruct (N.eqb_spec d 0) as [Hx|_]; [exfalso; lia|]. reflexivity.
Qed.

(* a local candidate for a true match: advance = length, the fields fit, the kind decodes *)
Lemma local_candidate_shape gl d len t s :
  choose_type d len = Some t -> local_candidate gl d len = Some s ->
  s = SLocal (d mod 4294967296) (len mod 4294967296) t /\ (gl = true -> local_fits t d len = true).
Proof.
  intros Ht Hc. unfold local_candidate, U32 in Hc. rewrite Ht in Hc.
  destruct gl; cbn [andb] in Hc.
  - destruct (local_fits t d len); cbn [negb] in Hc; [|discriminate Hc].
    split; [congruence|reflexivity].
  - split; [congruence|intros G; discriminate G].
Qed.

Lemma fits_local_small d len t :
  d < 256 -> len < 256 -> t < 6 -> fits (SLocal d len t) = true.
Proof.
  intros Hd Hl Ht. cbn [fits]. unfold local_kind.
  destruct (t =? 2); [lia|]. destruct (t =? 3); [lia|]. destruct (t =? 4); [lia|]. destruct (t =? 5); [lia|].
  destruct (N.eqb_spec t 6); [exfalso; lia|]. destruct (N.eqb_spec t 7); [exfalso; lia|]. lia.
Qed.
Lemma fits_other d len : len < 256 -> fits (SLocal d len 0) = true.
Proof. intros Hl. change (fits (SLocal d len 0)) with (len <? 256). lia. Qed.
Lemma fits_far1 d len : d < 65536 -> len < 256 -> fits (SLocal d len 4) = true.
Proof. intros Hd Hl. change (fits (SLocal d len 4)) with ((d <? 65536) && (len <? 256)). lia. Qed.
Lemma fits_far2 d len : d < 4294967296 -> len < 256 -> fits (SLocal d len 5) = true.
Proof. intros Hd Hl. change (fits (SLocal d len 5)) with ((d <? 4294967296) && (len <? 256)). lia. Qed.
Lemma fits_far2l d len : d < 65536 -> len < 65536 -> fits (SLocal d len 6) = true.
Proof. intros Hd Hl. change (fits (SLocal d len 6)) with ((d <? 65536) && (len <? 65536)). lia. Qed.
Lemma fits_far3l d len : d < 4294967296 -> len < 4294967296 -> fits (SLocal d len 7) = true.
Proof. intros Hd Hl. change (fits (SLocal d len 7)) with ((d <? 4294967296) && (len <? 4294967296)). lia. Qed.
Lemma local_fits_6 d len : local_fits 6 d len = true -> d <= 65535 /\ len <= 65535.
Proof. change (local_fits 6 d len) with ((d <=? 65535) && (len <=? 65535)). lia. Qed.
Lemma local_fits_7 d len : local_fits 7 d len = true -> d < 4294967296 /\ len < 4294967296.
Proof. change (local_fits 7 d len) with ((d <? 4294967296) && (len <? 4294967296)). lia. Qed.

Lemma local_candidate_ok gl d len s :
  1 <= d -> 1 <= len ->
  (gl = false -> (d < U32 /\ len < U32) /\ (d <= 65535 -> len <= 65535)) ->
  local_candidate gl d len = Some s ->
  exists d' t, s = SLocal d' len t /\ fits s = true /\ (local_kind t = KOther \/ d' = d) /\
               (local_kind t = KRle -> d = 1).
Proof.
  intros Hd Hl Hw Hc. unfold U32 in Hw.
  destruct (local_candidate_shape gl d len _ s (choose_type_match d len Hd Hl) Hc) as (Es & Hg).
  destruct (emt_cases d len Hd Hl) as [(Et & H1)|[(Et & H1 & H2)|[(Et & H1 & H2)|[(Et & H1 & H2)|[(Et & H1 & H2)|[(Et & H1 & H2)|Et]]]]]];
    rewrite Et in Es, Hg.
  - (* Literal type, length 1 *)
    rewrite (N.mod_small len) in Es by lia. subst s.
    exists (d mod 4294967296), 0. split; [reflexivity|].
    split; [apply fits_other; lia|]. split; [left; reflexivity|]. intros K; discriminate K.
  - rewrite !N.mod_small in Es by lia. subst s. exists d, 2. split; [reflexivity|].
    split; [apply fits_local_small; lia|]. split; [right; reflexivity|]. intros _; exact H1.
  - rewrite !N.mod_small in Es by lia. subst s. exists d, 3. split; [reflexivity|].
    split; [apply fits_local_small; lia|]. split; [right; reflexivity|]. intros K; discriminate K.
  - rewrite !N.mod_small in Es by lia. subst s. exists d, 4. split; [reflexivity|].
    split; [apply fits_far1; lia|]. split; [right; reflexivity|]. intros K; discriminate K.
  - rewrite !N.mod_small in Es by lia. subst s. exists d, 5. split; [reflexivity|].
    split; [apply fits_far2; lia|]. split; [right; reflexivity|]. intros K; discriminate K.
  - (* Far2Long *)
    assert (Hlen : len <= 65535).
    { destruct gl; [apply (local_fits_6 d len); apply Hg; reflexivity|apply Hw; [reflexivity|exact H1]]. }
    rewrite !N.mod_small in Es by lia. subst s. exists d, 6. split; [reflexivity|].
    split; [apply fits_far2l; lia|]. split; [right; reflexivity|]. intros K; discriminate K.
  - (* Far3Long *)
    assert (Hdl : d < 4294967296 /\ len < 4294967296).
    { destruct gl; [apply (local_fits_7 d len); apply Hg; reflexivity|apply Hw; reflexivity]. }
    rewrite !N.mod_small in Es by lia. subst s. exists d, 7. split; [reflexivity|].
    split; [apply fits_far3l; lia|]. split; [right; reflexivity|]. intros K; discriminate K.
Qed.

Lemma global_candidate_ok p len s :
  global_candidate true p len = Some s -> s = SGlobal p len /\ fits s = true.
Proof.
  unfold global_candidate, U32. cbn [andb]. intros Hc.
  destruct (N.ltb_spec 65535 p) as [Hp|Hp]; [discriminate|].
  destruct (N.ltb_spec 65535 len) as [Hl|Hl]; [discriminate|]. cbn [orb] in Hc.
  assert (Es : s = SGlobal (p mod 4294967296) (len mod 4294967296)) by congruence.
  rewrite !N.mod_small in Es by lia. subst s. split; [reflexivity|]. cbn [fits]. lia.
Qed.

Lemma select_in cands choice : cands <> [] -> In (select cands choice) cands.
Proof.
  intros Hne. unfold select. destruct (Nat.lt_ge_cases choice (length cands)) as [Hlt|Hge].
  - apply nth_In. exact Hlt.
  - rewrite nth_overflow by exact Hge. destruct cands as [|c t]; [congruence|left; reflexivity].
Qed.

(* one iteration of the loop on a good answer *)
Lemma chosen_step gl dict pre blk pos a :
  pos < nlen blk -> answer_ok gl dict blk pos a ->
  exists adv, snd (write_record blk pos (chosen gl true a)) = adv /\ 1 <= adv /\ pos + adv <= nlen blk /\
    fits (chosen gl true a) = true /\
    sem dict (pre ++ blk) (pre ++ firstn (N.to_nat pos) blk) (chosen gl true a)
    = Some (pre ++ firstn (N.to_nat (pos + adv)) blk).
Proof.
  intros Hpos ((Hloc & Hglo) & Hw). unfold chosen.
  set (cands := candidates gl true (a_local a) (a_global a)).
  assert (Hin : In (select cands (a_choice a)) cands) by (apply select_in; unfold cands, candidates; discriminate).
  generalize dependent (select cands (a_choice a)). intros s Hin.
  unfold cands, candidates in Hin. destruct Hin as [Hs|Hin].
  - (* Literal{1} *)
    subst s. exists 1. cbn [write_record snd]. split; [apply nlen_slice; lia|].
    split; [lia|]. split; [lia|]. split; [reflexivity|]. apply literal_sem. lia.
  - apply in_app_or in Hin. destruct Hin as [Hin|Hin].
    + (* the local candidate *)
      destruct (a_local a) as [[d len]|] eqn:Ea; [|destruct Hin].
      destruct (local_candidate gl d len) as [s'|] eqn:Ec; [|destruct Hin].
      destruct Hin as [Hs|[]]. subst s'.
      assert (Hw' : gl = false -> (d < U32 /\ len < U32) /\ (d <= 65535 -> len <= 65535)).
      { intros G. specialize (Hw G). unfold answer_width, answer_len16 in Hw. rewrite Ea in Hw. exact Hw. }
      pose proof Hloc as (Hd1 & Hdp & Hl1 & Hend & _).
      destruct (local_candidate_ok gl d len s Hd1 Hl1 Hw' Ec) as (d' & t & Es & Hf & Hk & Hr).
      subst s. exists len. split; [cbn [write_record]; destruct (local_kind t); reflexivity|].
      split; [exact Hl1|]. split; [exact Hend|]. split; [exact Hf|].
      apply (local_sem dict pre blk pos d d' len t Hloc Hk Hr).
    + (* the global candidate *)
      destruct (a_global a) as [[p len]|] eqn:Ea; [|destruct Hin].
      destruct (global_candidate true p len) as [s'|] eqn:Ec; [|destruct Hin].
      destruct Hin as [Hs|[]]. subst s'.
      destruct (global_candidate_ok p len s Ec) as (Es & Hf). subst s.
      pose proof Hglo as (Hl1 & Hend & _).
      exists len. split; [reflexivity|]. split; [exact Hl1|]. split; [exact Hend|]. split; [exact Hf|].
      apply global_sem. exact Hglo.
Qed.

(* ---------------- the loop ---------------- *)
(* `st` is a sequence of whole records that takes the reader from output `out` to output `out'` *)
Definition decodes_as (dict st out out' : list N) : Prop :=
  exists k, (k <= length st)%nat /\
    forall tail f, decompress_loop (k + f) dict (st ++ tail) out = decompress_loop f dict tail out'.

Lemma decodes_as_nil dict out : decodes_as dict [] out out.
Proof. exists 0%nat. split; [cbn; lia|]. intros tail f. reflexivity. Qed.
Lemma decodes_as_app dict st1 st2 a b c :
  decodes_as dict st1 a b -> decodes_as dict st2 b c -> decodes_as dict (st1 ++ st2) a c.
Proof.
  intros (k1 & Hk1 & H1) (k2 & Hk2 & H2). exists (k1 + k2)%nat. split; [rewrite app_length; lia|].
  intros tail f. rewrite <- app_assoc, <- Nat.add_assoc, H1. apply H2.
Qed.
Lemma decodes_as_record dict x out s out' :
  fits s = true -> sem dict x out s = Some out' ->
  decodes_as dict (fst (write_record x (nlen out) s)) out out'.
Proof.
  intros Hf Hs. exists 1%nat. split; [apply record_nonempty|].
  intros tail f. apply (record_step dict x out s out' Hf Hs).
Qed.
Lemma decodes_as_decompress dict st x : decodes_as dict st [] x -> legacy_decompress dict st = Some x.
Proof.
  intros (k & Hk & H). unfold legacy_decompress.
  replace (S (length st)) with (k + S (length st - k))%nat by lia.
  rewrite <- (app_nil_r st) at 2. rewrite H. reflexivity.
Qed.

Lemma seq_loop_ok gl dict pre blk : forall fuel pos answers buf,
  pos <= nlen blk -> (N.to_nat (nlen blk - pos) < fuel)%nat -> nlen blk - pos <= nlen answers ->
  Forall (fun pa => answer_ok gl dict blk (fst pa) (snd pa)) (seq_trace (chosen gl true) fuel blk pos answers) ->
  exists st, seq_loop (chosen gl true) fuel blk pos answers buf = CDone (buf ++ st) /\
             decodes_as dict st (pre ++ firstn (N.to_nat pos) blk) (pre ++ blk).
Proof.
  induction fuel as [|f IH]; intros pos answers buf Hpos Hfuel Hans Hall; [exfalso; lia|].
  cbn [seq_loop seq_trace] in *. destruct (N.ltb_spec pos (nlen blk)) as [Hlt|Hge].
  - destruct answers as [|a t]; [exfalso; cbn [nlen] in Hans; lia|].
    pose proof (Forall_inv Hall) as Ha. cbn [fst snd] in Ha. apply Forall_inv_tail in Hall.
    destruct (chosen_step gl dict pre blk pos a Hlt Ha) as (adv & Eadv & Hadv1 & Hend & Hf & Hs).
    rewrite Eadv in *. cbn [nlen] in Hans.
    destruct (IH (pos + adv) t (buf ++ fst (write_record blk pos (chosen gl true a)))) as (st & Er & Hd);
      [lia|lia|lia|exact Hall|].
    exists (fst (write_record blk pos (chosen gl true a)) ++ st). split; [rewrite Er, app_assoc; reflexivity|].
    eapply decodes_as_app; [|exact Hd].
    rewrite <- (write_record_shift pre blk pos), <- (nlen_prefix pre blk pos) by lia.
    apply decodes_as_record; assumption.
  - exists []. split; [rewrite app_nil_r; reflexivity|].
    rewrite firstn_all2 by (rewrite nlen_length in Hge; lia). apply decodes_as_nil.
Qed.

Lemma seq_hyp_use gl dict fuel x answers :
  seq_hyp gl dict fuel x answers ->
  nlen x - 0 <= nlen answers /\
  Forall (fun pa => answer_ok gl dict x (fst pa) (snd pa)) (seq_trace (chosen gl true) fuel x 0 answers).
Proof. intros (Hl & Hall). split; [rewrite !nlen_length; lia|exact Hall]. Qed.

(* compress_sequential on a block `blk` that follows `pre` in the payload *)
Lemma compress_sequential_ok gl dict pre blk answers fuel scratch out0 :
  (length blk < fuel)%nat -> seq_hyp gl dict fuel blk answers ->
  exists st, compress_sequential (chosen gl true) fuel blk answers scratch out0
             = CDone (scratch ++ st, out0 ++ scratch ++ st) /\
             decodes_as dict st pre (pre ++ blk).
Proof.
  intros Hfuel Hh. destruct (seq_hyp_use gl dict fuel blk answers Hh) as (Hl & Hall).
  destruct (seq_loop_ok gl dict pre blk fuel 0 answers scratch) as (st & Er & Hd);
    [lia|rewrite nlen_length; lia|exact Hl|exact Hall|].
  exists st. unfold compress_sequential. rewrite Er. split; [reflexivity|].
  cbn [N.to_nat firstn] in Hd. rewrite app_nil_r in Hd. exact Hd.
Qed.

Theorem pazip_sequential_roundtrip_proof :
  forall (guard_local : bool) (dict x : list N) (answers : list answer) (fuel : nat),
    (length x < fuel)%nat ->
    seq_hyp guard_local dict fuel x answers ->
    exists z, compress_sequential (chosen guard_local true) fuel x answers [] [] = CDone (z, z) /\
              legacy_decompress dict z = Some x.
Proof.
  intros gl dict x answers fuel Hfuel Hh.
  destruct (compress_sequential_ok gl dict [] x answers fuel [] [] Hfuel Hh) as (st & Er & Hd).
  exists st. split; [exact Er|]. apply decodes_as_decompress. exact Hd.
Qed.
