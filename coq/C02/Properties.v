(* C02 property theorems.  Nothing but statements closed by `exact`, a pin, and
   Print Assumptions.  The driver parses this file's output. *)
From ZV.Common Require Import Base.
From ZV.C02 Require Import Model ModelRec RunCase ProofsBits ProofsMatch ProofsSeq ProofsFrame ProofsRec.
From ZV.C02 Require Import ModelComp RunCaseX ProofsComp ProofsHuffC ModelFront ProofsFront.
From ZV.C01 Require ProofsHeap.
From Coq Require Import Permutation.
Open Scope N_scope.

(* BitWriter::write_bits appends the low `bits` bits of the value to the stream (a little-endian
   number of wlen bits), for every writer state reachable from BitWriter::new *)
Theorem write_bits_refines :
  forall w v bits, winv w -> bits <= 32 ->
  exists w', write_bits w v bits = Some w' /\ winv w' /\
             wnum w' = wnum w + (v mod 2 ^ bits) * 2 ^ wlen w /\ wlen w' = wlen w + bits.
Proof. exact write_bits_spec. Qed.
Check write_bits_refines :
  forall w v bits, winv w -> bits <= 32 ->
  exists w', write_bits w v bits = Some w' /\ winv w' /\
             wnum w' = wnum w + (v mod 2 ^ bits) * 2 ^ wlen w /\ wlen w' = wlen w + bits.
Print Assumptions write_bits_refines.

(* BitReader::read_bits returns the low `bits` bits of the unread stream and leaves the rest *)
Theorem read_bits_refines :
  forall r bits, rinv r -> bits <= 32 -> bits <= ravail r ->
  exists r', read_bits r bits = Some (rnum r mod 2 ^ bits, r') /\ rinv r' /\
             rnum r' = rnum r / 2 ^ bits /\ ravail r' = ravail r - bits /\
             bit_position r' = bit_position r + bits.
Proof. exact read_bits_spec. Qed.
Check read_bits_refines :
  forall r bits, rinv r -> bits <= 32 -> bits <= ravail r ->
  exists r', read_bits r bits = Some (rnum r mod 2 ^ bits, r') /\ rinv r' /\
             rnum r' = rnum r / 2 ^ bits /\ ravail r' = ravail r - bits /\
             bit_position r' = bit_position r + bits.
Print Assumptions read_bits_refines.

(* decode_match(encode_match(m)) = (m, bits written), for all 8 kinds and all field values *)
Theorem match_roundtrip :
  forall m, wt m ->
  forall n w, encode_match m writer_new = Some (n, w) ->
  exists r, decode_match (reader_new (finish w)) = Ok (m, n, r).
Proof. exact match_roundtrip_proof. Qed.
Check match_roundtrip :
  forall m, wt m ->
  forall n w, encode_match m writer_new = Some (n, w) ->
  exists r, decode_match (reader_new (finish w)) = Ok (m, n, r).
Print Assumptions match_roundtrip.

(* decode_matches(encode_matches(ms)) = (ms, total bits) for every list of matches *)
Theorem matches_roundtrip :
  forall ms, Forall wt ms ->
  forall bytes total, encode_matches ms = Some (bytes, total) ->
  decode_matches bytes = Ok (ms, total).
Proof. exact matches_roundtrip_proof. Qed.
Check matches_roundtrip :
  forall ms, Forall wt ms ->
  forall bytes total, encode_matches ms = Some (bytes, total) ->
  decode_matches bytes = Ok (ms, total).
Print Assumptions matches_roundtrip.

(* encode_matches succeeds exactly on lists of matches that pass validate() and whose long
   lengths fit the 30-bit variable-length form *)
Theorem encode_matches_defined :
  forall ms, Forall wt ms ->
  (forallb encodable ms = true <-> exists bytes total, encode_matches ms = Some (bytes, total)).
Proof. exact encode_matches_defined_proof. Qed.
Check encode_matches_defined :
  forall ms, Forall wt ms ->
  (forallb encodable ms = true <-> exists bytes total, encode_matches ms = Some (bytes, total)).
Print Assumptions encode_matches_defined.

(* every encoded match takes between 8 and 59 bits: the reason 8 is the right loop guard *)
Theorem bits_len_ge_8 :
  forall m w n w', wt m -> winv w -> encode_match m w = Some (n, w') -> 8 <= n <= 59.
Proof. exact bits_len_proof. Qed.
Check bits_len_ge_8 :
  forall m w n w', wt m -> winv w -> encode_match m w = Some (n, w') -> 8 <= n <= 59.
Print Assumptions bits_len_ge_8.

(* the loop guard before the fix (3 bits) fails on a single Global match *)
Theorem decode_matches_padding_refuted :
  exists ms bytes total, Forall wt ms /\ encode_matches ms = Some (bytes, total) /\
                         decode_matches_g 3 bytes = Err.
Proof. exact padding_refuted_proof. Qed.
Check decode_matches_padding_refuted :
  exists ms bytes total, Forall wt ms /\ encode_matches ms = Some (bytes, total) /\
                         decode_matches_g 3 bytes = Err.
Print Assumptions decode_matches_padding_refuted.

(* a validated Far3Long whose length does not fit 30 bits is refused (it used to be masked) *)
Theorem far3long_len_refused :
  exists m, wt m /\ validate m = true /\ encode_match m writer_new = None.
Proof. exact far3long_unencodable_proof. Qed.
Check far3long_len_refused :
  exists m, wt m /\ validate m = true /\ encode_match m writer_new = None.
Print Assumptions far3long_len_refused.

(* HybridCompressor over any components that round-trip: always produces an output and
   decompress inverts it, whichever branch the selector took (incl. "nothing helped") *)
Theorem hybrid_roundtrip :
  forall cs data, Forall codec_ok cs -> nlen cs <= 255 ->
  exists z, hybrid_compress cs data = Some z /\ hybrid_decompress cs z = Some data.
Proof. exact hybrid_roundtrip_proof. Qed.
Check hybrid_roundtrip :
  forall cs data, Forall codec_ok cs -> nlen cs <= 255 ->
  exists z, hybrid_compress cs data = Some z /\ hybrid_decompress cs z = Some data.
Print Assumptions hybrid_roundtrip.

(* the code before the fix (raw payload tagged 0) fails with one well-behaved component *)
Theorem hybrid_refuted_nothing_helped :
  exists cs data, Forall codec_ok cs /\ nlen cs <= 255 /\
    forall z, hybrid_compress_old cs data = Some z -> hybrid_decompress_old cs z <> Some data.
Proof. exact hybrid_old_refuted_proof. Qed.
Check hybrid_refuted_nothing_helped :
  exists cs data, Forall codec_ok cs /\ nlen cs <= 255 /\
    forall z, hybrid_compress_old cs data = Some z -> hybrid_decompress_old cs z <> Some data.
Print Assumptions hybrid_refuted_nothing_helped.

(* HuffmanCompressor framing over any tree (de)serialiser and entropy coder that round-trip *)
Theorem huffman_frame_roundtrip :
  forall (tree : Type) (tree_bytes : list N) (enc : list N -> option (list N))
         (deser : list N -> option tree) (dec : tree -> list N -> N -> option (list N)) (t0 : tree),
    deser tree_bytes = Some t0 ->
    (forall data z, enc data = Some z -> dec t0 z (nlen data) = Some data) ->
    forall data z, nlen tree_bytes < 4294967296 -> nlen data < 4294967296 ->
    huff_compress tree_bytes enc data = Some z ->
    huff_decompress tree deser dec z = Some data.
Proof. exact huff_frame_roundtrip_proof. Qed.
Check huffman_frame_roundtrip :
  forall (tree : Type) (tree_bytes : list N) (enc : list N -> option (list N))
         (deser : list N -> option tree) (dec : tree -> list N -> N -> option (list N)) (t0 : tree),
    deser tree_bytes = Some t0 ->
    (forall data z, enc data = Some z -> dec t0 z (nlen data) = Some data) ->
    forall data z, nlen tree_bytes < 4294967296 -> nlen data < 4294967296 ->
    huff_compress tree_bytes enc data = Some z ->
    huff_decompress tree deser dec z = Some data.
Print Assumptions huffman_frame_roundtrip.

(* RansCompressor before the fix: the decoder's table differs from the encoder's *)
Theorem rans_compressor_refuted :
  exists raw, length raw = 256%nat /\ rans_decoder_table_old raw <> rans_table raw.
Proof. exact rans_header_refuted_proof. Qed.
Check rans_compressor_refuted :
  exists raw, length raw = 256%nat /\ rans_decoder_table_old raw <> rans_table raw.
Print Assumptions rans_compressor_refuted.

Theorem normalize_not_idempotent :
  exists f, sum_list f = 4096 /\ rans_table f <> Some f.
Proof. exact normalize_not_idempotent_proof. Qed.
Check normalize_not_idempotent :
  exists f, sum_list f = 4096 /\ rans_table f <> Some f.
Print Assumptions normalize_not_idempotent.

(* PA-Zip byte-level records: any parse of x into strategies whose fields fit their casts is
   written by apply_compression_strategy as a stream that decompress turns back into x *)
Theorem legacy_stream_roundtrip :
  forall dict x ps stream, run_parse dict x ps [] = Some (x, stream) -> legacy_decompress dict stream = Some x.
Proof. exact legacy_stream_roundtrip_proof. Qed.
Check legacy_stream_roundtrip :
  forall dict x ps stream, run_parse dict x ps [] = Some (x, stream) -> legacy_decompress dict stream = Some x.
Print Assumptions legacy_stream_roundtrip.

(* the Far1Short reader before the fix (one-byte distance) disagrees with the writer's layout *)
Theorem far1short_old_reader_refuted :
  exists out d l tail,
    copy_from_distance out d l <> None /\
    decompress_match_old_far1 4 (le16 d ++ [l] ++ tail) out <>
    decompress_match [] 4 (le16 d ++ [l] ++ tail) out.
Proof. exact far1short_old_reader_refuted_proof. Qed.
Check far1short_old_reader_refuted :
  exists out d l tail,
    copy_from_distance out d l <> None /\
    decompress_match_old_far1 4 (le16 d ++ [l] ++ tail) out <>
    decompress_match [] 4 (le16 d ++ [l] ++ tail) out.
Print Assumptions far1short_old_reader_refuted.

(* ---------------------------------------------------------------------------------------------
   Compressors end to end (ModelComp.v over the coder models of coq/C01)
   --------------------------------------------------------------------------------------------- *)
(* RansCompressor: header = 256 x u32 counts (the counts `new` made) | u32 original size | rANS bytes.
   Trained on any non-empty corpus of fewer than 2^32 bytes (every u32 count exact), every payload of at most
   MAX_DECOMPRESSED_SIZE bytes over the corpus' symbols is compressed, and the frame is decoded by the same instance
   and by an instance trained on any other corpus. *)
Theorem rans_compressor_roundtrip :
  forall train other x,
    train <> [] -> nlen train < W32 -> other <> [] -> nlen other < W32 ->
    Forall (fun b => b < 256) x -> (forall s, In s x -> In s train) ->
    nlen x <= L.MAX_DECOMPRESSED_SIZE ->
    exists c1 c2 z, rans_new train = Some c1 /\ rans_new other = Some c2 /\
      rans_compress c1 x = Some z /\ rans_decompress c1 z = Some x /\ rans_decompress c2 z = Some x.
Proof. exact rans_compressor_roundtrip_proof. Qed.
Check rans_compressor_roundtrip :
  forall train other x,
    train <> [] -> nlen train < W32 -> other <> [] -> nlen other < W32 ->
    Forall (fun b => b < 256) x -> (forall s, In s x -> In s train) ->
    nlen x <= L.MAX_DECOMPRESSED_SIZE ->
    exists c1 c2 z, rans_new train = Some c1 /\ rans_new other = Some c2 /\
      rans_compress c1 x = Some z /\ rans_decompress c1 z = Some x /\ rans_decompress c2 z = Some x.
Print Assumptions rans_compressor_roundtrip.

(* the frame alone, for any instance holding 256 counts below 2^32 and their table *)
Theorem rans_frame_roundtrip :
  forall c x z, length (rc_counts c) = 256%nat -> Forall (fun v => v < W32) (rc_counts c) ->
    rans_encoder_new (rc_counts c) = Some (rc_table c) -> nlen x <= L.MAX_DECOMPRESSED_SIZE ->
    rans_compress c x = Some z -> forall c', rans_decompress c' z = Some x.
Proof. exact ProofsComp.rans_frame_roundtrip. Qed.
Check rans_frame_roundtrip :
  forall c x z, length (rc_counts c) = 256%nat -> Forall (fun v => v < W32) (rc_counts c) ->
    rans_encoder_new (rc_counts c) = Some (rc_table c) -> nlen x <= L.MAX_DECOMPRESSED_SIZE ->
    rans_compress c x = Some z -> forall c', rans_decompress c' z = Some x.
Print Assumptions rans_frame_roundtrip.

(* counts stored as saturating u16 (a narrower layout): the decoder rebuilds another table than the encoder used *)
Theorem rans_counts_u16_refuted :
  exists raw, length raw = 256%nat /\ Forall (fun v => v < W32) raw /\
    rans_encoder_new (map (fun c => N.min c 65535) raw) <> rans_encoder_new raw.
Proof. exact rans_counts_u16_refuted_proof. Qed.
Check rans_counts_u16_refuted :
  exists raw, length raw = 256%nat /\ Forall (fun v => v < W32) raw /\
    rans_encoder_new (map (fun c => N.min c 65535) raw) <> rans_encoder_new raw.
Print Assumptions rans_counts_u16_refuted.

(* DictCompressor: no header; the token stream of DictionaryCompressor (min 3 / max 258) decodes to the payload on
   every instance, for every payload of at most MAX_DECOMPRESSED_SIZE bytes *)
Theorem dict_compressor_roundtrip :
  forall train other x, train <> [] -> other <> [] -> nlen x <= L.MAX_DECOMPRESSED_SIZE ->
  exists c1 c2 z, dict_new train = Some c1 /\ dict_new other = Some c2 /\
    dict_compress c1 x = Some z /\ dict_decompress c1 z = Some x /\ dict_decompress c2 z = Some x.
Proof. exact dict_compressor_roundtrip_proof. Qed.
Check dict_compressor_roundtrip :
  forall train other x, train <> [] -> other <> [] -> nlen x <= L.MAX_DECOMPRESSED_SIZE ->
  exists c1 c2 z, dict_new train = Some c1 /\ dict_new other = Some c2 /\
    dict_compress c1 x = Some z /\ dict_decompress c1 z = Some x /\ dict_decompress c2 z = Some x.
Print Assumptions dict_compressor_roundtrip.

(* HuffmanCompressor: header = u32 tree size | serialised code table (u16 entry count; per entry u8 symbol, u8 code
   length, packed bits) | u32 original size | packed code bits.  For every training corpus (syms = its distinct bytes,
   heap = whatever tree the BinaryHeap loop built - C01's heap_run), both HashMap iteration orders (serialize and
   build_decoding_tree_from_codes) and every payload over the corpus' symbols shorter than 2^32 bytes: compress
   succeeds and every instance decodes the frame. *)
Theorem huffman_compressor_roundtrip :
  forall syms heap ord1 ord2 x,
    (length syms <= 256)%nat -> NoDup syms -> ProofsHeap.heap_run (map H.Leaf syms) heap ->
    (forall t, Permutation (ord1 t) t) -> (forall t, Permutation (ord2 t) t) ->
    (forall s, In s x -> In s syms) -> nlen x < W32 ->
    exists ht z, H.ht_from_heap syms heap = Some ht /\
      huffc_compress (huff_new_from ord1 ht) x = Some z /\
      forall other, huffc_decompress ord2 other z = Some x.
Proof. exact huffman_compressor_roundtrip_proof. Qed.
Check huffman_compressor_roundtrip :
  forall syms heap ord1 ord2 x,
    (length syms <= 256)%nat -> NoDup syms -> ProofsHeap.heap_run (map H.Leaf syms) heap ->
    (forall t, Permutation (ord1 t) t) -> (forall t, Permutation (ord2 t) t) ->
    (forall s, In s x -> In s syms) -> nlen x < W32 ->
    exists ht z, H.ht_from_heap syms heap = Some ht /\
      huffc_compress (huff_new_from ord1 ht) x = Some z /\
      forall other, huffc_decompress ord2 other z = Some x.
Print Assumptions huffman_compressor_roundtrip.

(* HuffmanTree::deserialize(serialize(table)) for any table with distinct keys and prefix-free codes shorter than 256
   bits, in whatever order the two HashMaps are iterated: the same table and a decoding tree that agrees with it *)
Theorem huffman_tree_serialize_roundtrip :
  forall ord2 tb, (forall t, Permutation (ord2 t) t) ->
  NoDup (map fst tb) -> (length tb <= 256)%nat -> tb <> [] -> H.prefix_free tb = true -> short_codes tb ->
  exists t, deser_tree ord2 (ser_table tb) = Some (H.mkHT (Some t) tb) /\ H.wf_ht (H.mkHT (Some t) tb) = true.
Proof. exact deser_ser_tree. Qed.
Check huffman_tree_serialize_roundtrip :
  forall ord2 tb, (forall t, Permutation (ord2 t) t) ->
  NoDup (map fst tb) -> (length tb <= 256)%nat -> tb <> [] -> H.prefix_free tb = true -> short_codes tb ->
  exists t, deser_tree ord2 (ser_table tb) = Some (H.mkHT (Some t) tb) /\ H.wf_ht (H.mkHT (Some t) tb) = true.
Print Assumptions huffman_tree_serialize_roundtrip.

(* the original-size field written through `as u16` (a narrower layout) loses a payload of 64 KiB *)
Theorem huffman_size_u16_refuted :
  exists x z, nlen x < W32 /\ huffc_compress_size16 (huff_new_from (fun t => t) ht_a) x = Some z /\
              huffc_decompress (fun t => t) (huff_new_from (fun t => t) ht_a) z <> Some x.
Proof. exact huff_size16_refuted_proof. Qed.
Check huffman_size_u16_refuted :
  exists x z, nlen x < W32 /\ huffc_compress_size16 (huff_new_from (fun t => t) ht_a) x = Some z /\
              huffc_decompress (fun t => t) (huff_new_from (fun t => t) ht_a) z <> Some x.
Print Assumptions huffman_size_u16_refuted.

(* ---------------------------------------------------------------------------------------------
   Front ends as decision automata (ModelFront.v): the clock readings and the cost model are inputs
   --------------------------------------------------------------------------------------------- *)
(* RealtimeCompressor: every mode, every current algorithm (any set_mode history), fallback on or off, every clock reading
   (deadline passed on entry / after the permit / tokio timeout / on time), compress and compress_with_deadline alike:
   a block that is returned decodes to the payload, given the round-trip law of every component codec *)
Theorem realtime_block_roundtrip :
  forall codec_of, (forall a, codec_ok (codec_of a)) ->
  forall st data ck z,
    rt_compress_with_deadline codec_of st data ck = Some z -> rt_decompress codec_of st z = Some data.
Proof. exact realtime_block_roundtrip_proof. Qed.
Check realtime_block_roundtrip :
  forall codec_of, (forall a, codec_ok (codec_of a)) ->
  forall st data ck z,
    rt_compress_with_deadline codec_of st data ck = Some z -> rt_decompress codec_of st z = Some data.
Print Assumptions realtime_block_roundtrip.

(* the tag written is the tag of the codec that produced the bytes: STORED with the payload itself (missed deadline, small
   block in ultra-low-latency configuration), COMPRESSED with the output of the current algorithm *)
Theorem realtime_tag_names_producer :
  forall codec_of st data ck z,
    rt_compress_with_deadline codec_of st data ck = Some z ->
    exists body, z = tag_of (rt_producer st data ck) :: body /\
      match rt_producer st data ck with
      | PStored => body = data
      | PCodec a => a = rt_alg st /\ c_compress (codec_of a) data = Some body
      end.
Proof. exact rt_block_producer. Qed.
Check realtime_tag_names_producer :
  forall codec_of st data ck z,
    rt_compress_with_deadline codec_of st data ck = Some z ->
    exists body, z = tag_of (rt_producer st data ck) :: body /\
      match rt_producer st data ck with
      | PStored => body = data
      | PCodec a => a = rt_alg st /\ c_compress (codec_of a) data = Some body
      end.
Print Assumptions realtime_tag_names_producer.

(* compress_batch: whatever it returns - it stops when the batch deadline passes - block j decodes to item j *)
Theorem realtime_batch_roundtrip :
  forall codec_of, (forall a, codec_ok (codec_of a)) ->
  forall st items cks zs,
    rt_compress_batch codec_of st items cks = Some zs ->
    (length zs <= length items)%nat /\
    forall j z, nth_error zs j = Some z -> exists it, nth_error items j = Some it /\ rt_decompress codec_of st z = Some it.
Proof. exact realtime_batch_roundtrip_proof. Qed.
Check realtime_batch_roundtrip :
  forall codec_of, (forall a, codec_ok (codec_of a)) ->
  forall st items cks zs,
    rt_compress_batch codec_of st items cks = Some zs ->
    (length zs <= length items)%nat /\
    forall j z, nth_error zs j = Some z -> exists it, nth_error items j = Some it /\ rt_decompress codec_of st z = Some it.
Print Assumptions realtime_batch_roundtrip.

(* AdaptiveCompressor: after any history of set_algorithm / train / compress / decompress, whatever the cost model picked
   (and even if maybe_adapt performed the switch it only logs today: `switching`), the next compress never panics, fails
   only when the current codec refuses the payload, and returns a block the compressor then decodes to the payload *)
Theorem adaptive_roundtrip :
  forall codec_of, (forall a, codec_ok (codec_of a)) ->
  forall creatable switching cfg ops st data pick improves,
    ad_run codec_of creatable true switching cfg ad_new ops = Some st ->
    match ad_compress codec_of creatable true switching cfg st data pick improves with
    | AdOk z st' => ad_decompress codec_of st' z = Some data
    | AdErr _ => c_compress (codec_of (ad_alg st)) data = None \/ switching = true
    | AdPanic => False
    end.
Proof. exact adaptive_roundtrip_proof. Qed.
Check adaptive_roundtrip :
  forall codec_of, (forall a, codec_ok (codec_of a)) ->
  forall creatable switching cfg ops st data pick improves,
    ad_run codec_of creatable true switching cfg ad_new ops = Some st ->
    match ad_compress codec_of creatable true switching cfg st data pick improves with
    | AdOk z st' => ad_decompress codec_of st' z = Some data
    | AdErr _ => c_compress (codec_of (ad_alg st)) data = None \/ switching = true
    | AdPanic => False
    end.
Print Assumptions adaptive_roundtrip.

(* ... and no history panics or gets stuck *)
Theorem adaptive_history_total :
  forall codec_of creatable switching cfg ops st, exists st', ad_run codec_of creatable true switching cfg st ops = Some st'.
Proof. exact ad_run_total. Qed.
Check adaptive_history_total :
  forall codec_of creatable switching cfg ops st, exists st', ad_run codec_of creatable true switching cfg st ops = Some st'.
Print Assumptions adaptive_history_total.

(* before the fix: evaluation_interval = 0 made the first compress at or past min_operations panic *)
Theorem adaptive_zero_interval_refuted :
  exists cfg data, forall codec_of creatable pick improves,
    ad_compress codec_of creatable false false cfg ad_new data pick improves = AdPanic.
Proof. exact adaptive_zero_interval_refuted_proof. Qed.
Check adaptive_zero_interval_refuted :
  exists cfg data, forall codec_of creatable pick improves,
    ad_compress codec_of creatable false false cfg ad_new data pick improves = AdPanic.
Print Assumptions adaptive_zero_interval_refuted.

(* the limit of the one-byte tag: it says "compressed", not by which algorithm - a block written before set_mode /
   set_algorithm is handed to the new decoder *)
Theorem realtime_stale_block_limit :
  exists st data z mode, (forall a, codec_ok (two_codecs a)) /\
    rt_compress_with_deadline two_codecs st data on_time = Some z /\
    rt_decompress two_codecs st z = Some data /\
    rt_decompress two_codecs (rt_set_mode st mode) z <> Some data.
Proof. exact realtime_stale_block_proof. Qed.
Check realtime_stale_block_limit :
  exists st data z mode, (forall a, codec_ok (two_codecs a)) /\
    rt_compress_with_deadline two_codecs st data on_time = Some z /\
    rt_decompress two_codecs st z = Some data /\
    rt_decompress two_codecs (rt_set_mode st mode) z <> Some data.
Print Assumptions realtime_stale_block_limit.

(* non-vacuity of the hypotheses above *)
Example legacy_stream_inhabited :
  let x := [7; 7; 7; 7; 9; 7; 9; 7; 9; 116; 104; 101] in
  exists stream, run_parse [116; 104; 101; 32] x [SLiteral 1; SLocal 1 3 2; SLiteral 1; SLocal 2 4 3; SGlobal 0 3] [] = Some (x, stream).
Proof. cbn zeta. eexists. vm_compute. reflexivity. Qed.
Example match_roundtrip_inhabited :
  wt (Far3Long 70000 100000) /\ exists n w, encode_match (Far3Long 70000 100000) writer_new = Some (n, w).
Proof. split; [cbn; lia|]. do 2 eexists. vm_compute. reflexivity. Qed.
Example matches_roundtrip_inhabited :
  let ms := [Literal 32; Global 4294967295 65535; RLE 255 33; NearShort 9 5; Far1Short 257 33;
             Far2Short 65793 2; Far2Long 65535 65535; Far3Long 16777215 1073774625] in
  Forall wt ms /\ forallb encodable ms = true.
Proof. cbn zeta. split; [repeat constructor; cbn; lia|vm_compute; reflexivity]. Qed.
Example hybrid_roundtrip_inhabited : Forall codec_ok [expanding_codec] /\ nlen [expanding_codec] <= 255.
Proof. split; [|cbn; lia]. constructor; [|constructor]. intros x z H. cbn in H. inversion H. reflexivity. Qed.
Example winv_inhabited : exists w, write_bits writer_new 5 3 = Some w /\ winv w /\ wlen w = 3.
Proof. destruct writer_new_inv as (I & _ & L). destruct (write_bits_spec writer_new 5 3 I ltac:(lia)) as (w & E & I' & _ & L').
  exists w. split; [exact E|]. split; [exact I'|]. rewrite L', L. reflexivity. Qed.
Example rans_compressor_roundtrip_inhabited :
  let train := [104; 101; 108; 108; 111; 32; 119; 111; 114; 108; 100] in
  train <> [] /\ nlen train < W32 /\ Forall (fun b => b < 256) [108; 111; 108] /\ (forall s, In s [108; 111; 108] -> In s train).
Proof. exact rans_compressor_inhabited. Qed.
Example huffman_compressor_roundtrip_inhabited :
  ProofsHeap.heap_run (map H.Leaf [97; 98; 99]) (H.Node (H.Leaf 99) (H.Node (H.Leaf 97) (H.Leaf 98))) /\ NoDup [97; 98; 99].
Proof.
  split.
  - eapply ProofsHeap.heap_merge with (a := H.Leaf 97) (b := H.Leaf 98) (l' := [H.Leaf 99]); [reflexivity|].
    eapply ProofsHeap.heap_merge with (a := H.Leaf 99) (b := H.Node (H.Leaf 97) (H.Leaf 98)) (l' := []); [apply perm_swap|].
    apply ProofsHeap.heap_done.
  - repeat constructor; cbn; intuition; discriminate.
Qed.
Example huffman_tree_serialize_inhabited :
  let tb := [(99, [false]); (97, [true; false]); (98, [true; true])] in
  NoDup (map fst tb) /\ H.prefix_free tb = true /\ short_codes tb.
Proof. cbn zeta. split; [repeat constructor; cbn; intuition; discriminate|]. split; [reflexivity|]. repeat constructor; cbn; lia. Qed.
Example realtime_block_roundtrip_inhabited :
  (forall a, codec_ok (two_codecs a)) /\
  rt_compress_with_deadline two_codecs (rt_set_mode (rt_new 0 true) 2) (repeat 7 (N.to_nat 70)) on_time = Some (1 :: 42 :: repeat 7 (N.to_nat 70)) /\
  rt_compress_with_deadline two_codecs (rt_set_mode (rt_new 0 true) 2) [7; 7] on_time = Some [0; 7; 7] /\
  rt_compress_with_deadline two_codecs (rt_new 3 true) [7; 7] (mkClock false false true) = Some [0; 7; 7] /\
  rt_compress_with_deadline two_codecs (rt_new 3 false) [7; 7] (mkClock true false false) = None.
Proof. split; [exact two_codecs_ok|]. repeat split; reflexivity. Qed.
Example adaptive_roundtrip_inhabited :
  exists st, ad_run two_codecs (fun a => a <? 50) true false (mkAdCfg 1 1 true 16) ad_new
               [OpSet 2; OpCompress [1] 0 true; OpSet 50; OpTrain; OpCompress [2] 3 false] = Some st /\ ad_alg st = 2 /\ ad_done st = 2.
Proof. eexists. split; [reflexivity|]. split; reflexivity. Qed.
