(* C02 property theorems.  Nothing but statements closed by `exact`, a pin, and
   Print Assumptions.  The driver parses this file's output. *)
From ZV.Common Require Import Base.
From ZV.C02 Require Import Model ModelRec RunCase ProofsBits ProofsMatch ProofsSeq ProofsFrame ProofsRec.
From ZV.C02 Require Import ModelComp RunCaseX ProofsComp ProofsHuffC ModelFront ProofsFront ProofsHybridC.
From ZV.C02 Require Import ModelSimd RunCaseS ProofsSimdSeq ProofsSimdCopy ProofsSimdFast ProofsSimd.
From ZV.C02 Require Import ModelPaZip RunCaseP ProofsPaZip ProofsPaZipBlocks ProofsPaZipEx.
From ZV.C01 Require ProofsHeap.
From Coq Require Import Permutation.
Open Scope N_scope.

(* BitWriter::write_bits appends the low `bits` bits of the value to the stream (a little-endian
   number of wlen bits), for every writer state reachable from BitWriter::new *)
Theorem write_bits_refines :
  forall w v bits, winv w -> bits <= 32 ->
  exists w', write_bits w v bits = Some w' /\ winv w' /\
             wnum w' = wnum w + (v mod 2 ^ bits) * 2 ^ wlen w /\ wlen w' = wlen w + bits.
Proof. exact write_bits_spec. Qed.
Check write_bits_refines :
  forall w v bits, winv w -> bits <= 32 ->
  exists w', write_bits w v bits = Some w' /\ winv w' /\
             wnum w' = wnum w + (v mod 2 ^ bits) * 2 ^ wlen w /\ wlen w' = wlen w + bits.
Print Assumptions write_bits_refines.

(* BitReader::read_bits returns the low `bits` bits of the unread stream and leaves the rest *)
Theorem read_bits_refines :
  forall r bits, rinv r -> bits <= 32 -> bits <= ravail r ->
  exists r', read_bits r bits = Some (rnum r mod 2 ^ bits, r') /\ rinv r' /\
             rnum r' = rnum r / 2 ^ bits /\ ravail r' = ravail r - bits /\
             bit_position r' = bit_position r + bits.
Proof. exact read_bits_spec. Qed.
Check read_bits_refines :
  forall r bits, rinv r -> bits <= 32 -> bits <= ravail r ->
  exists r', read_bits r bits = Some (rnum r mod 2 ^ bits, r') /\ rinv r' /\
             rnum r' = rnum r / 2 ^ bits /\ ravail r' = ravail r - bits /\
             bit_position r' = bit_position r + bits.
Print Assumptions read_bits_refines.

(* decode_match(encode_match(m)) = (m, bits written), for all 8 kinds and all field values *)
Theorem match_roundtrip :
  forall m, wt m ->
  forall n w, encode_match m writer_new = Some (n, w) ->
  exists r, decode_match (reader_new (finish w)) = Ok (m, n, r).
Proof. exact match_roundtrip_proof. Qed.
Check match_roundtrip :
  forall m, wt m ->
  forall n w, encode_match m writer_new = Some (n, w) ->
  exists r, decode_match (reader_new (finish w)) = Ok (m, n, r).
Print Assumptions match_roundtrip.

(* decode_matches(encode_matches(ms)) = (ms, total bits) for every list of matches *)
Theorem matches_roundtrip :
  forall ms, Forall wt ms ->
  forall bytes total, encode_matches ms = Some (bytes, total) ->
  decode_matches bytes = Ok (ms, total).
Proof. exact matches_roundtrip_proof. Qed.
Check matches_roundtrip :
  forall ms, Forall wt ms ->
  forall bytes total, encode_matches ms = Some (bytes, total) ->
  decode_matches bytes = Ok (ms, total).
Print Assumptions matches_roundtrip.

(* encode_matches succeeds exactly on lists of matches that pass validate() and whose long
   lengths fit the 30-bit variable-length form *)
Theorem encode_matches_defined :
  forall ms, Forall wt ms ->
  (forallb encodable ms = true <-> exists bytes total, encode_matches ms = Some (bytes, total)).
Proof. exact encode_matches_defined_proof. Qed.
Check encode_matches_defined :
  forall ms, Forall wt ms ->
  (forallb encodable ms = true <-> exists bytes total, encode_matches ms = Some (bytes, total)).
Print Assumptions encode_matches_defined.

(* every encoded match takes between 8 and 59 bits: the reason 8 is the right loop guard *)
Theorem bits_len_ge_8 :
  forall m w n w', wt m -> winv w -> encode_match m w = Some (n, w') -> 8 <= n <= 59.
Proof. exact bits_len_proof. Qed.
Check bits_len_ge_8 :
  forall m w n w', wt m -> winv w -> encode_match m w = Some (n, w') -> 8 <= n <= 59.
Print Assumptions bits_len_ge_8.

(* the loop guard before the fix (3 bits) fails on a single Global match *)
Theorem decode_matches_padding_refuted :
  exists ms bytes total, Forall wt ms /\ encode_matches ms = Some (bytes, total) /\
                         decode_matches_g 3 bytes = Err.
Proof. exact padding_refuted_proof. Qed.
Check decode_matches_padding_refuted :
  exists ms bytes total, Forall wt ms /\ encode_matches ms = Some (bytes, total) /\
                         decode_matches_g 3 bytes = Err.
Print Assumptions decode_matches_padding_refuted.

(* a validated Far3Long whose length does not fit 30 bits is refused (it used to be masked) *)
Theorem far3long_len_refused :
  exists m, wt m /\ validate m = true /\ encode_match m writer_new = None.
Proof. exact far3long_unencodable_proof. Qed.
Check far3long_len_refused :
  exists m, wt m /\ validate m = true /\ encode_match m writer_new = None.
Print Assumptions far3long_len_refused.

(* HybridCompressor over any components that round-trip: always produces an output and
   decompress inverts it, whichever branch the selector took (incl. "nothing helped") *)
Theorem hybrid_roundtrip :
  forall cs data, Forall codec_ok cs -> nlen cs <= 255 ->
  exists z, hybrid_compress cs data = Some z /\ hybrid_decompress cs z = Some data.
Proof. exact hybrid_roundtrip_proof. Qed.
Check hybrid_roundtrip :
  forall cs data, Forall codec_ok cs -> nlen cs <= 255 ->
  exists z, hybrid_compress cs data = Some z /\ hybrid_decompress cs z = Some data.
Print Assumptions hybrid_roundtrip.

(* the code before the fix (raw payload tagged 0) fails with one well-behaved component *)
Theorem hybrid_refuted_nothing_helped :
  exists cs data, Forall codec_ok cs /\ nlen cs <= 255 /\
    forall z, hybrid_compress_old cs data = Some z -> hybrid_decompress_old cs z <> Some data.
Proof. exact hybrid_old_refuted_proof. Qed.
Check hybrid_refuted_nothing_helped :
  exists cs data, Forall codec_ok cs /\ nlen cs <= 255 /\
    forall z, hybrid_compress_old cs data = Some z -> hybrid_decompress_old cs z <> Some data.
Print Assumptions hybrid_refuted_nothing_helped.

(* HuffmanCompressor framing over any tree (de)serialiser and entropy coder that round-trip *)
Theorem huffman_frame_roundtrip :
  forall (tree : Type) (tree_bytes : list N) (enc : list N -> option (list N))
         (deser : list N -> option tree) (dec : tree -> list N -> N -> option (list N)) (t0 : tree),
    deser tree_bytes = Some t0 ->
    (forall data z, enc data = Some z -> dec t0 z (nlen data) = Some data) ->
    forall data z, nlen tree_bytes < 4294967296 -> nlen data < 4294967296 ->
    huff_compress tree_bytes enc data = Some z ->
    huff_decompress tree deser dec z = Some data.
Proof. exact huff_frame_roundtrip_proof. Qed.
Check huffman_frame_roundtrip :
  forall (tree : Type) (tree_bytes : list N) (enc : list N -> option (list N))
         (deser : list N -> option tree) (dec : tree -> list N -> N -> option (list N)) (t0 : tree),
    deser tree_bytes = Some t0 ->
    (forall data z, enc data = Some z -> dec t0 z (nlen data) = Some data) ->
    forall data z, nlen tree_bytes < 4294967296 -> nlen data < 4294967296 ->
    huff_compress tree_bytes enc data = Some z ->
    huff_decompress tree deser dec z = Some data.
Print Assumptions huffman_frame_roundtrip.

(* RansCompressor before the fix: the decoder's table differs from the encoder's *)
Theorem rans_compressor_refuted :
  exists raw, length raw = 256%nat /\ rans_decoder_table_old raw <> rans_table raw.
Proof. exact rans_header_refuted_proof. Qed.
Check rans_compressor_refuted :
  exists raw, length raw = 256%nat /\ rans_decoder_table_old raw <> rans_table raw.
Print Assumptions rans_compressor_refuted.

Theorem normalize_not_idempotent :
  exists f, sum_list f = 4096 /\ rans_table f <> Some f.
Proof. exact normalize_not_idempotent_proof. Qed.
Check normalize_not_idempotent :
  exists f, sum_list f = 4096 /\ rans_table f <> Some f.
Print Assumptions normalize_not_idempotent.

(* PA-Zip byte-level records: any parse of x into strategies whose fields fit their casts is
   written by apply_compression_strategy as a stream that decompress turns back into x *)
Theorem legacy_stream_roundtrip :
  forall dict x ps stream, run_parse dict x ps [] = Some (x, stream) -> legacy_decompress dict stream = Some x.
Proof. exact legacy_stream_roundtrip_proof. Qed.
Check legacy_stream_roundtrip :
  forall dict x ps stream, run_parse dict x ps [] = Some (x, stream) -> legacy_decompress dict stream = Some x.
Print Assumptions legacy_stream_roundtrip.

(* the Far1Short reader before the fix (one-byte distance) disagrees with the writer's layout *)
Theorem far1short_old_reader_refuted :
  exists out d l tail,
    copy_from_distance out d l <> None /\
    decompress_match_old_far1 4 (le16 d ++ [l] ++ tail) out <>
    decompress_match [] 4 (le16 d ++ [l] ++ tail) out.
Proof. exact far1short_old_reader_refuted_proof. Qed.
Check far1short_old_reader_refuted :
  exists out d l tail,
    copy_from_distance out d l <> None /\
    decompress_match_old_far1 4 (le16 d ++ [l] ++ tail) out <>
    decompress_match [] 4 (le16 d ++ [l] ++ tail) out.
Print Assumptions far1short_old_reader_refuted.

(* ---------------------------------------------------------------------------------------------
   Compressors end to end (ModelComp.v over the coder models of coq/C01)
   --------------------------------------------------------------------------------------------- *)
(* RansCompressor: header = 256 x u32 counts (the counts `new` made) | u32 original size | rANS bytes.
   Trained on any non-empty corpus of fewer than 2^32 bytes (every u32 count exact), every payload of at most
   MAX_DECOMPRESSED_SIZE bytes over the corpus' symbols is compressed, and the frame is decoded by the same instance
   and by an instance trained on any other corpus. *)
Theorem rans_compressor_roundtrip :
  forall train other x,
    train <> [] -> nlen train < W32 -> other <> [] -> nlen other < W32 ->
    Forall (fun b => b < 256) x -> (forall s, In s x -> In s train) ->
    nlen x <= L.MAX_DECOMPRESSED_SIZE ->
    exists c1 c2 z, rans_new train = Some c1 /\ rans_new other = Some c2 /\
      rans_compress c1 x = Some z /\ rans_decompress c1 z = Some x /\ rans_decompress c2 z = Some x.
Proof. exact rans_compressor_roundtrip_proof. Qed.
Check rans_compressor_roundtrip :
  forall train other x,
    train <> [] -> nlen train < W32 -> other <> [] -> nlen other < W32 ->
    Forall (fun b => b < 256) x -> (forall s, In s x -> In s train) ->
    nlen x <= L.MAX_DECOMPRESSED_SIZE ->
    exists c1 c2 z, rans_new train = Some c1 /\ rans_new other = Some c2 /\
      rans_compress c1 x = Some z /\ rans_decompress c1 z = Some x /\ rans_decompress c2 z = Some x.
Print Assumptions rans_compressor_roundtrip.

(* the frame alone, for any instance holding 256 counts below 2^32 and their table *)
Theorem rans_frame_roundtrip :
  forall c x z, length (rc_counts c) = 256%nat -> Forall (fun v => v < W32) (rc_counts c) ->
    rans_encoder_new (rc_counts c) = Some (rc_table c) -> nlen x <= L.MAX_DECOMPRESSED_SIZE ->
    rans_compress c x = Some z -> forall c', rans_decompress c' z = Some x.
Proof. exact ProofsComp.rans_frame_roundtrip. Qed.
Check rans_frame_roundtrip :
  forall c x z, length (rc_counts c) = 256%nat -> Forall (fun v => v < W32) (rc_counts c) ->
    rans_encoder_new (rc_counts c) = Some (rc_table c) -> nlen x <= L.MAX_DECOMPRESSED_SIZE ->
    rans_compress c x = Some z -> forall c', rans_decompress c' z = Some x.
Print Assumptions rans_frame_roundtrip.

(* counts stored as saturating u16 (a narrower layout): the decoder rebuilds another table than the encoder used *)
Theorem rans_counts_u16_refuted :
  exists raw, length raw = 256%nat /\ Forall (fun v => v < W32) raw /\
    rans_encoder_new (map (fun c => N.min c 65535) raw) <> rans_encoder_new raw.
Proof. exact rans_counts_u16_refuted_proof. Qed.
Check rans_counts_u16_refuted :
  exists raw, length raw = 256%nat /\ Forall (fun v => v < W32) raw /\
    rans_encoder_new (map (fun c => N.min c 65535) raw) <> rans_encoder_new raw.
Print Assumptions rans_counts_u16_refuted.

(* DictCompressor: no header; the token stream of DictionaryCompressor (min 3 / max 258) decodes to the payload on
   every instance, for every payload of at most MAX_DECOMPRESSED_SIZE bytes *)
Theorem dict_compressor_roundtrip :
  forall train other x, train <> [] -> other <> [] -> nlen x <= L.MAX_DECOMPRESSED_SIZE ->
  exists c1 c2 z, dict_new train = Some c1 /\ dict_new other = Some c2 /\
    dict_compress c1 x = Some z /\ dict_decompress c1 z = Some x /\ dict_decompress c2 z = Some x.
Proof. exact dict_compressor_roundtrip_proof. Qed.
Check dict_compressor_roundtrip :
  forall train other x, train <> [] -> other <> [] -> nlen x <= L.MAX_DECOMPRESSED_SIZE ->
  exists c1 c2 z, dict_new train = Some c1 /\ dict_new other = Some c2 /\
    dict_compress c1 x = Some z /\ dict_decompress c1 z = Some x /\ dict_decompress c2 z = Some x.
Print Assumptions dict_compressor_roundtrip.

(* HuffmanCompressor: header = u32 tree size | serialised code table (u16 entry count; per entry u8 symbol, u8 code
   length, packed bits) | u32 original size | packed code bits.  For every training corpus (syms = its distinct bytes,
   heap = whatever tree the BinaryHeap loop built - C01's heap_run), both HashMap iteration orders (serialize and
   build_decoding_tree_from_codes) and every payload over the corpus' symbols shorter than 2^32 bytes: compress
   succeeds and every instance decodes the frame. *)
Theorem huffman_compressor_roundtrip :
  forall syms heap ord1 ord2 x,
    (length syms <= 256)%nat -> NoDup syms -> ProofsHeap.heap_run (map H.Leaf syms) heap ->
    (forall t, Permutation (ord1 t) t) -> (forall t, Permutation (ord2 t) t) ->
    (forall s, In s x -> In s syms) -> nlen x < W32 ->
    exists ht z, H.ht_from_heap syms heap = Some ht /\
      huffc_compress (huff_new_from ord1 ht) x = Some z /\
      forall other, huffc_decompress ord2 other z = Some x.
Proof. exact huffman_compressor_roundtrip_proof. Qed.
Check huffman_compressor_roundtrip :
  forall syms heap ord1 ord2 x,
    (length syms <= 256)%nat -> NoDup syms -> ProofsHeap.heap_run (map H.Leaf syms) heap ->
    (forall t, Permutation (ord1 t) t) -> (forall t, Permutation (ord2 t) t) ->
    (forall s, In s x -> In s syms) -> nlen x < W32 ->
    exists ht z, H.ht_from_heap syms heap = Some ht /\
      huffc_compress (huff_new_from ord1 ht) x = Some z /\
      forall other, huffc_decompress ord2 other z = Some x.
Print Assumptions huffman_compressor_roundtrip.

(* HuffmanTree::deserialize(serialize(table)) for any table with distinct keys and prefix-free codes shorter than 256
   bits, in whatever order the two HashMaps are iterated: the same table and a decoding tree that agrees with it *)
Theorem huffman_tree_serialize_roundtrip :
  forall ord2 tb, (forall t, Permutation (ord2 t) t) ->
  NoDup (map fst tb) -> (length tb <= 256)%nat -> tb <> [] -> H.prefix_free tb = true -> short_codes tb ->
  exists t, deser_tree ord2 (ser_table tb) = Some (H.mkHT (Some t) tb) /\ H.wf_ht (H.mkHT (Some t) tb) = true.
Proof. exact deser_ser_tree. Qed.
Check huffman_tree_serialize_roundtrip :
  forall ord2 tb, (forall t, Permutation (ord2 t) t) ->
  NoDup (map fst tb) -> (length tb <= 256)%nat -> tb <> [] -> H.prefix_free tb = true -> short_codes tb ->
  exists t, deser_tree ord2 (ser_table tb) = Some (H.mkHT (Some t) tb) /\ H.wf_ht (H.mkHT (Some t) tb) = true.
Print Assumptions huffman_tree_serialize_roundtrip.

(* the original-size field written through `as u16` (a narrower layout) loses a payload of 64 KiB *)
Theorem huffman_size_u16_refuted :
  exists x z, nlen x < W32 /\ huffc_compress_size16 (huff_new_from (fun t => t) ht_a) x = Some z /\
              huffc_decompress (fun t => t) (huff_new_from (fun t => t) ht_a) z <> Some x.
Proof. exact huff_size16_refuted_proof. Qed.
Check huffman_size_u16_refuted :
  exists x z, nlen x < W32 /\ huffc_compress_size16 (huff_new_from (fun t => t) ht_a) x = Some z /\
              huffc_decompress (fun t => t) (huff_new_from (fun t => t) ht_a) z <> Some x.
Print Assumptions huffman_size_u16_refuted.

(* HybridCompressor over its three real components: the component laws that hybrid_roundtrip assumes are discharged by the
   three theorems above.  Any non-empty training corpus, every payload of at most MAX_DECOMPRESSED_SIZE bytes (also one whose
   symbols the corpus lacks: the entropy coders then refuse and the dictionary coder or the stored marker wins) *)
Theorem hybrid_compressor_roundtrip :
  forall train syms heap ord1 ord2 x,
    train <> [] -> nlen train < W32 ->
    (length syms <= 256)%nat -> NoDup syms -> ProofsHeap.heap_run (map H.Leaf syms) heap ->
    (forall t, Permutation (ord1 t) t) -> (forall t, Permutation (ord2 t) t) ->
    nlen x <= L.MAX_DECOMPRESSED_SIZE ->
    exists ht rc cs z,
      H.ht_from_heap syms heap = Some ht /\ rans_new train = Some rc /\
      cs = [huff_codec ord2 (huff_new_from ord1 ht); rans_codec rc; dict_codec] /\
      hybrid_compress cs x = Some z /\ hybrid_decompress cs z = Some x.
Proof. exact hybrid_compressor_roundtrip_proof. Qed.
Check hybrid_compressor_roundtrip :
  forall train syms heap ord1 ord2 x,
    train <> [] -> nlen train < W32 ->
    (length syms <= 256)%nat -> NoDup syms -> ProofsHeap.heap_run (map H.Leaf syms) heap ->
    (forall t, Permutation (ord1 t) t) -> (forall t, Permutation (ord2 t) t) ->
    nlen x <= L.MAX_DECOMPRESSED_SIZE ->
    exists ht rc cs z,
      H.ht_from_heap syms heap = Some ht /\ rans_new train = Some rc /\
      cs = [huff_codec ord2 (huff_new_from ord1 ht); rans_codec rc; dict_codec] /\
      hybrid_compress cs x = Some z /\ hybrid_decompress cs z = Some x.
Print Assumptions hybrid_compressor_roundtrip.

(* ---------------------------------------------------------------------------------------------
   Front ends as decision automata (ModelFront.v): the clock readings and the cost model are inputs
   --------------------------------------------------------------------------------------------- *)
(* RealtimeCompressor: every mode, every current algorithm (any set_mode history), fallback on or off, every clock reading
   (deadline passed on entry / after the permit / tokio timeout / on time), compress and compress_with_deadline alike:
   a block that is returned decodes to the payload, given the round-trip law of every component codec *)
Theorem realtime_block_roundtrip :
  forall codec_of, (forall a, codec_ok (codec_of a)) ->
  forall st data ck z,
    rt_compress_with_deadline codec_of st data ck = Some z -> rt_decompress codec_of st z = Some data.
Proof. exact realtime_block_roundtrip_proof. Qed.
Check realtime_block_roundtrip :
  forall codec_of, (forall a, codec_ok (codec_of a)) ->
  forall st data ck z,
    rt_compress_with_deadline codec_of st data ck = Some z -> rt_decompress codec_of st z = Some data.
Print Assumptions realtime_block_roundtrip.

(* the tag written is the tag of the codec that produced the bytes: STORED with the payload itself (missed deadline, small
   block in ultra-low-latency configuration), COMPRESSED with the output of the current algorithm *)
Theorem realtime_tag_names_producer :
  forall codec_of st data ck z,
    rt_compress_with_deadline codec_of st data ck = Some z ->
    exists body, z = tag_of (rt_producer st data ck) :: body /\
      match rt_producer st data ck with
      | PStored => body = data
      | PCodec a => a = rt_alg st /\ c_compress (codec_of a) data = Some body
      end.
Proof. exact rt_block_producer. Qed.
Check realtime_tag_names_producer :
  forall codec_of st data ck z,
    rt_compress_with_deadline codec_of st data ck = Some z ->
    exists body, z = tag_of (rt_producer st data ck) :: body /\
      match rt_producer st data ck with
      | PStored => body = data
      | PCodec a => a = rt_alg st /\ c_compress (codec_of a) data = Some body
      end.
Print Assumptions realtime_tag_names_producer.

(* compress_batch: whatever it returns - it stops when the batch deadline passes - block j decodes to item j *)
Theorem realtime_batch_roundtrip :
  forall codec_of, (forall a, codec_ok (codec_of a)) ->
  forall st items cks zs,
    rt_compress_batch codec_of st items cks = Some zs ->
    (length zs <= length items)%nat /\
    forall j z, nth_error zs j = Some z -> exists it, nth_error items j = Some it /\ rt_decompress codec_of st z = Some it.
Proof. exact realtime_batch_roundtrip_proof. Qed.
Check realtime_batch_roundtrip :
  forall codec_of, (forall a, codec_ok (codec_of a)) ->
  forall st items cks zs,
    rt_compress_batch codec_of st items cks = Some zs ->
    (length zs <= length items)%nat /\
    forall j z, nth_error zs j = Some z -> exists it, nth_error items j = Some it /\ rt_decompress codec_of st z = Some it.
Print Assumptions realtime_batch_roundtrip.

(* AdaptiveCompressor: after any history of set_algorithm / train / compress / decompress, whatever the cost model picked
   (and even if maybe_adapt performed the switch it only logs today: `switching`), the next compress never panics, fails
   only when the current codec refuses the payload, and returns a block the compressor then decodes to the payload *)
Theorem adaptive_roundtrip :
  forall codec_of, (forall a, codec_ok (codec_of a)) ->
  forall creatable switching cfg ops st data pick improves,
    ad_run codec_of creatable true switching cfg ad_new ops = Some st ->
    match ad_compress codec_of creatable true switching cfg st data pick improves with
    | AdOk z st' => ad_decompress codec_of st' z = Some data
    | AdErr _ => c_compress (codec_of (ad_alg st)) data = None \/ switching = true
    | AdPanic => False
    end.
Proof. exact adaptive_roundtrip_proof. Qed.
Check adaptive_roundtrip :
  forall codec_of, (forall a, codec_ok (codec_of a)) ->
  forall creatable switching cfg ops st data pick improves,
    ad_run codec_of creatable true switching cfg ad_new ops = Some st ->
    match ad_compress codec_of creatable true switching cfg st data pick improves with
    | AdOk z st' => ad_decompress codec_of st' z = Some data
    | AdErr _ => c_compress (codec_of (ad_alg st)) data = None \/ switching = true
    | AdPanic => False
    end.
Print Assumptions adaptive_roundtrip.

(* ... and no history panics or gets stuck *)
Theorem adaptive_history_total :
  forall codec_of creatable switching cfg ops st, exists st', ad_run codec_of creatable true switching cfg st ops = Some st'.
Proof. exact ad_run_total. Qed.
Check adaptive_history_total :
  forall codec_of creatable switching cfg ops st, exists st', ad_run codec_of creatable true switching cfg st ops = Some st'.
Print Assumptions adaptive_history_total.

(* before the fix: evaluation_interval = 0 made the first compress at or past min_operations panic *)
Theorem adaptive_zero_interval_refuted :
  exists cfg data, forall codec_of creatable pick improves,
    ad_compress codec_of creatable false false cfg ad_new data pick improves = AdPanic.
Proof. exact adaptive_zero_interval_refuted_proof. Qed.
Check adaptive_zero_interval_refuted :
  exists cfg data, forall codec_of creatable pick improves,
    ad_compress codec_of creatable false false cfg ad_new data pick improves = AdPanic.
Print Assumptions adaptive_zero_interval_refuted.

(* the limit of the one-byte tag: it says "compressed", not by which algorithm - a block written before set_mode /
   set_algorithm is handed to the new decoder *)
Theorem realtime_stale_block_limit :
  exists st data z mode, (forall a, codec_ok (two_codecs a)) /\
    rt_compress_with_deadline two_codecs st data on_time = Some z /\
    rt_decompress two_codecs st z = Some data /\
    rt_decompress two_codecs (rt_set_mode st mode) z <> Some data.
Proof. exact realtime_stale_block_proof. Qed.
Check realtime_stale_block_limit :
  exists st data z mode, (forall a, codec_ok (two_codecs a)) /\
    rt_compress_with_deadline two_codecs st data on_time = Some z /\
    rt_decompress two_codecs st z = Some data /\
    rt_decompress two_codecs (rt_set_mode st mode) z <> Some data.
Print Assumptions realtime_stale_block_limit.

(* ---------------------------------------------------------------------------------------------
   SimdLz77Compressor, inherent compress / decompress (ModelSimd.v): token stream = the PA-Zip bit codec, decode loop with
   guard has_bits(3), reconstruction with placeholder literals.  The positive theorems say what is right (back-reference
   copying, kind selection, casts) and isolate the exact conditions under which the format loses data; the refutations are
   the recorded finding simd_lz77_literals_not_stored and its neighbours (padding bits, early termination).
   --------------------------------------------------------------------------------------------- *)

(* copy_backward_reference (growing modulus `i % (output.len() - start)`) is the plain overlapping LZ copy: same refusals, same bytes as copy_from_distance, never a panic *)
Theorem simd_copy_is_lz_copy :
  forall out d len,
  simd_copy_backward out d len =
  match copy_from_distance out d len with Some o => Ok o | None => Err end.
Proof. exact simd_copy_is_lz_copy_proof. Qed.
Check simd_copy_is_lz_copy :
  forall out d len,
  simd_copy_backward out d len =
  match copy_from_distance out d len with Some o => Ok o | None => Err end.
Print Assumptions simd_copy_is_lz_copy.

(* stated directly: for 1 <= d <= |out| the copy appends out[|out| - d + (i mod d)], i < len (the periodic extension) *)
Theorem simd_copy_periodic :
  forall out d len, 1 <= d <= nlen out ->
  simd_copy_backward out d len =
  Ok (out ++ map (fun i => nth (N.to_nat (nlen out - d + N.of_nat i mod d)) out 0) (seq 0 (N.to_nat len))).
Proof. exact simd_copy_periodic_proof. Qed.
Check simd_copy_periodic :
  forall out d len, 1 <= d <= nlen out ->
  simd_copy_backward out d len =
  Ok (out ++ map (fun i => nth (N.to_nat (nlen out - d + N.of_nat i mod d)) out 0) (seq 0 (N.to_nat len))).
Print Assumptions simd_copy_periodic.

(* SimdLz77's decode loop (guard has_bits(3)) returns every encoded token list whose stream ends with fewer than 3 padding bits *)
Theorem simd_tokens_roundtrip :
  forall ms, Forall wt ms ->
  forall bytes total, encode_matches ms = Some (bytes, total) ->
  pad_bits total < 3 ->
  decode_matches_g 3 bytes = Ok (ms, total).
Proof. exact simd_tokens_roundtrip_proof. Qed.
Check simd_tokens_roundtrip :
  forall ms, Forall wt ms ->
  forall bytes total, encode_matches ms = Some (bytes, total) ->
  pad_bits total < 3 ->
  decode_matches_g 3 bytes = Ok (ms, total).
Print Assumptions simd_tokens_roundtrip.

(* ... and with 3..7 padding bits it ALWAYS fails (padding read as a Literal tag, 5-bit length missing) *)
Theorem simd_tokens_padding_err :
  forall ms, Forall wt ms ->
  forall bytes total, encode_matches ms = Some (bytes, total) ->
  3 <= pad_bits total ->
  decode_matches_g 3 bytes = Err.
Proof. exact simd_tokens_padding_err_proof. Qed.
Check simd_tokens_padding_err :
  forall ms, Forall wt ms ->
  forall bytes total, encode_matches ms = Some (bytes, total) ->
  3 <= pad_bits total ->
  decode_matches_g 3 bytes = Err.
Print Assumptions simd_tokens_padding_err.

(* witness: the single token Far2Long(40,40) the compressor emits for the answer (40,40): 27 bits, decode fails *)
Theorem simd_decode_padding_refuted :
  exists ms bytes total, Forall wt ms /\ encode_matches ms = Some (bytes, total) /\
                         simd_token 40 40 = Some (Far2Long 40 40) /\ ms = [Far2Long 40 40] /\
                         simd_decode_matches bytes = Err.
Proof. exact simd_decode_padding_refuted_proof. Qed.
Check simd_decode_padding_refuted :
  exists ms bytes total, Forall wt ms /\ encode_matches ms = Some (bytes, total) /\
                         simd_token 40 40 = Some (Far2Long 40 40) /\ ms = [Far2Long 40 40] /\
                         simd_decode_matches bytes = Err.
Print Assumptions simd_decode_padding_refuted.

(* any parse (however found) whose literals/RLE runs are what the decoder substitutes, whose back-references are true matches, that covers the payload and ends with < 3 padding bits decompresses to the payload *)
Theorem simd_stream_roundtrip :
  forall x ms z total,
  Forall wt ms -> encode_matches ms = Some (z, total) ->
  simd_lits_ok x ms = true -> simd_rles_ok x ms = true -> simd_refs_ok x ms = true ->
  simd_pad_ok ms = true -> simd_covers x ms = true -> nlen x <= MAX_DECOMPRESSED_SIZE ->
  simd_decompress z = Ok x.
Proof. exact simd_stream_roundtrip_proof. Qed.
Check simd_stream_roundtrip :
  forall x ms z total,
  Forall wt ms -> encode_matches ms = Some (z, total) ->
  simd_lits_ok x ms = true -> simd_rles_ok x ms = true -> simd_refs_ok x ms = true ->
  simd_pad_ok ms = true -> simd_covers x ms = true -> nlen x <= MAX_DECOMPRESSED_SIZE ->
  simd_decompress z = Ok x.
Print Assumptions simd_stream_roundtrip.

(* compress then decompress over EVERY finder answering true matches, every early-termination setting: the payload comes back provided (i) literals = placeholder, (ii) RLE runs = byte 0, (iii) < 3 padding bits, (iv) parse covers the payload, (vi) |x| <= 100 MiB; no width hypothesis is needed (a truncating cast only shortens the match) *)
Theorem simd_lz77_roundtrip :
  forall et stop find x ms z,
  finder_sound x find ->
  simd_find_matches et stop find x = Ok ms -> simd_compress et stop find x = Ok z ->
  simd_lits_ok x ms = true -> simd_rles_ok x ms = true -> simd_pad_ok ms = true ->
  simd_covers x ms = true -> nlen x <= MAX_DECOMPRESSED_SIZE ->
  simd_decompress z = Ok x.
Proof. exact simd_lz77_roundtrip_proof. Qed.
Check simd_lz77_roundtrip :
  forall et stop find x ms z,
  finder_sound x find ->
  simd_find_matches et stop find x = Ok ms -> simd_compress et stop find x = Ok z ->
  simd_lits_ok x ms = true -> simd_rles_ok x ms = true -> simd_pad_ok ms = true ->
  simd_covers x ms = true -> nlen x <= MAX_DECOMPRESSED_SIZE ->
  simd_decompress z = Ok x.
Print Assumptions simd_lz77_roundtrip.

(* (iv) holds whenever the early-termination test is false on the final token list (enable_early_termination = false, or <= 1000 tokens, or average below threshold) *)
Theorem simd_covers_unless_early :
  forall et stop find x ms,
  finder_sound x find -> nlen x <= MAX_DECOMPRESSED_SIZE ->
  simd_find_matches et stop find x = Ok ms ->
  simd_early et stop ms = false -> simd_covers x ms = true.
Proof. exact simd_covers_proof. Qed.
Check simd_covers_unless_early :
  forall et stop find x ms,
  finder_sound x find -> nlen x <= MAX_DECOMPRESSED_SIZE ->
  simd_find_matches et stop find x = Ok ms ->
  simd_early et stop ms = false -> simd_covers x ms = true.
Print Assumptions simd_covers_unless_early.

(* the fuel of the loop model is never exhausted (every round advances by >= 1) *)
Theorem simd_find_never_fuel :
  forall et stop find x, simd_find_matches et stop find x <> Fuel.
Proof. exact simd_find_never_fuel_proof. Qed.
Check simd_find_never_fuel :
  forall et stop find x, simd_find_matches et stop find x <> Fuel.
Print Assumptions simd_find_never_fuel.

(* the token constructor accepts every answer with 1 <= d <= 65793, 1 <= len <= 65535 (covers the default config: window 32768, max length 258) *)
Theorem simd_token_defined :
  forall d len, 1 <= d <= 65793 -> 1 <= len <= 65535 -> exists m, simd_token d len = Some m.
Proof. exact simd_token_defined_proof. Qed.
Check simd_token_defined :
  forall d len, 1 <= d <= 65793 -> 1 <= len <= 65535 -> exists m, simd_token d len = Some m.
Print Assumptions simd_token_defined.

(* compress returns Ok for every sound finder that never fails and stays within those bounds (the encoder itself never refuses a sound parse of a payload <= 100 MiB) *)
Theorem simd_compress_defined :
  forall et stop find x,
  finder_sound x find -> nlen x <= MAX_DECOMPRESSED_SIZE ->
  (forall pos, pos < nlen x -> find pos <> AErr) ->
  (forall pos d len, pos < nlen x -> find pos = AMatch d len -> d <= 65793 /\ len <= 65535) ->
  exists z, simd_compress et stop find x = Ok z.
Proof. exact simd_compress_defined_proof. Qed.
Check simd_compress_defined :
  forall et stop find x,
  finder_sound x find -> nlen x <= MAX_DECOMPRESSED_SIZE ->
  (forall pos, pos < nlen x -> find pos <> AErr) ->
  (forall pos d len, pos < nlen x -> find pos = AMatch d len -> d <= 65793 /\ len <= 65535) ->
  exists z, simd_compress et stop find x = Ok z.
Print Assumptions simd_compress_defined.

(* the output-reversed reconstruction evaluated by run_case_s equals the model of reconstruct_from_matches *)
Theorem simd_reconstruct_fast_eq :
  forall lit ms, simd_reconstruct_fast_g lit ms = simd_reconstruct_g lit ms.
Proof. exact simd_reconstruct_fast_eq_proof. Qed.
Check simd_reconstruct_fast_eq :
  forall lit ms, simd_reconstruct_fast_g lit ms = simd_reconstruct_g lit ms.
Print Assumptions simd_reconstruct_fast_eq.

(* likewise for decompress *)
Theorem simd_decompress_fast_eq :
  forall z, simd_decompress_fast z = simd_decompress z.
Proof. exact simd_decompress_fast_eq_proof. Qed.
Check simd_decompress_fast_eq :
  forall z, simd_decompress_fast z = simd_decompress z.
Print Assumptions simd_decompress_fast_eq.

(* (i) refuted: x = [71], one literal token, stream [0], decompress gives [104] *)
Theorem simd_lz77_literal_refuted :
  exists et stop find x z,
    finder_sound x find /\ simd_compress et stop find x = Ok z /\ simd_decompress z <> Ok x.
Proof. exact simd_lz77_literal_refuted_proof. Qed.
Check simd_lz77_literal_refuted :
  exists et stop find x z,
    finder_sound x find /\ simd_compress et stop find x = Ok z /\ simd_decompress z <> Ok x.
Print Assumptions simd_lz77_literal_refuted.

(* (ii) refuted: x = hhh parsed literal + RLE(d=1,len=2): stream [0;2;0], decompress gives h 0 0 although (i),(iii),(iv) hold *)
Theorem simd_lz77_rle_refuted :
  exists et stop find x ms z,
    finder_sound x find /\ simd_find_matches et stop find x = Ok ms /\ simd_compress et stop find x = Ok z /\
    simd_lits_ok x ms = true /\ simd_pad_ok ms = true /\ simd_covers x ms = true /\
    simd_decompress z = Ok [104; 0; 0] /\ x = [104; 104; 104].
Proof. exact simd_lz77_rle_refuted_proof. Qed.
Check simd_lz77_rle_refuted :
  exists et stop find x ms z,
    finder_sound x find /\ simd_find_matches et stop find x = Ok ms /\ simd_compress et stop find x = Ok z /\
    simd_lits_ok x ms = true /\ simd_pad_ok ms = true /\ simd_covers x ms = true /\
    simd_decompress z = Ok [104; 0; 0] /\ x = [104; 104; 104].
Print Assumptions simd_lz77_rle_refuted.

(* (iii) refuted: x = h^80 parsed 40 literals + Far2Long(40,40): 347 bits, decompress = Err although (i),(ii),(iv) hold *)
Theorem simd_lz77_padding_refuted :
  exists et stop find x ms z,
    finder_sound x find /\ simd_find_matches et stop find x = Ok ms /\ simd_compress et stop find x = Ok z /\
    simd_lits_ok x ms = true /\ simd_rles_ok x ms = true /\ simd_covers x ms = true /\
    simd_pad_ok ms = false /\ simd_decompress z = Err.
Proof. exact simd_lz77_padding_refuted_proof. Qed.
Check simd_lz77_padding_refuted :
  exists et stop find x ms z,
    finder_sound x find /\ simd_find_matches et stop find x = Ok ms /\ simd_compress et stop find x = Ok z /\
    simd_lits_ok x ms = true /\ simd_rles_ok x ms = true /\ simd_covers x ms = true /\
    simd_pad_ok ms = false /\ simd_decompress z = Err.
Print Assumptions simd_lz77_padding_refuted.

(* (iv) refuted: with enable_early_termination and the average test true, the loop stops after token 1001: h^1002 comes back as h^1001 *)
Theorem simd_lz77_early_termination_refuted :
  exists stop find x ms z,
    finder_sound x find /\ simd_find_matches true stop find x = Ok ms /\ simd_compress true stop find x = Ok z /\
    simd_lits_ok x ms = true /\ simd_rles_ok x ms = true /\ simd_pad_ok ms = true /\
    simd_covers x ms = false /\ simd_decompress z = Ok (repeat 104 1001) /\ nlen x = 1002.
Proof. exact simd_lz77_early_termination_refuted_proof. Qed.
Check simd_lz77_early_termination_refuted :
  exists stop find x ms z,
    finder_sound x find /\ simd_find_matches true stop find x = Ok ms /\ simd_compress true stop find x = Ok z /\
    simd_lits_ok x ms = true /\ simd_rles_ok x ms = true /\ simd_pad_ok ms = true /\
    simd_covers x ms = false /\ simd_decompress z = Ok (repeat 104 1001) /\ nlen x = 1002.
Print Assumptions simd_lz77_early_termination_refuted.

(* the same with the literal substitution as a parameter: the defect is exactly `lit` (the code: placeholder_lit) and byte_value 0 *)
Theorem simd_lz77_roundtrip_g :
  forall lit et stop find x ms z, (forall l, length (lit l) = N.to_nat l) ->
  finder_sound x find ->
  simd_find_matches et stop find x = Ok ms -> simd_compress et stop find x = Ok z ->
  simd_lits_ok_g lit x ms = true -> simd_rles_ok x ms = true -> simd_pad_ok ms = true ->
  simd_covers x ms = true -> nlen x <= MAX_DECOMPRESSED_SIZE ->
  simd_decompress_g lit z = Ok x.
Proof. exact simd_lz77_roundtrip_g_proof. Qed.
Check simd_lz77_roundtrip_g :
  forall lit et stop find x ms z, (forall l, length (lit l) = N.to_nat l) ->
  finder_sound x find ->
  simd_find_matches et stop find x = Ok ms -> simd_compress et stop find x = Ok z ->
  simd_lits_ok_g lit x ms = true -> simd_rles_ok x ms = true -> simd_pad_ok ms = true ->
  simd_covers x ms = true -> nlen x <= MAX_DECOMPRESSED_SIZE ->
  simd_decompress_g lit z = Ok x.
Print Assumptions simd_lz77_roundtrip_g.

(* ---------------------------------------------------------------------------------------------
   PA-Zip compress, legacy path (ModelPaZip.v): candidate strategies, guards, the per-position loop, the block-wise path,
   over abstract match finders that only return true matches and an abstract selector
   --------------------------------------------------------------------------------------------- *)
(* compress_sequential_legacy over an abstract match finder and an abstract selector: for every dictionary, payload and answer
   sequence (local (distance, length), global (dict_position, length), index of the chosen candidate) whose answers are true matches,
   the per-position loop ends within |x| iterations and decompress returns x.  guard_local = true is the code (fix 3d9b359: local
   candidates that do not fit their record are dropped); guard_local = false is the code before it, which needs the extra
   hypotheses answer_width / answer_len16 (seq_hyp). *)
Theorem pazip_sequential_roundtrip :
  forall (guard_local : bool) (dict x : list N) (answers : list answer) (fuel : nat),
    (length x < fuel)%nat -> seq_hyp guard_local dict fuel x answers ->
    exists z, compress_sequential (chosen guard_local true) fuel x answers [] [] = CDone (z, z) /\
              legacy_decompress dict z = Some x.
Proof. exact pazip_sequential_roundtrip_proof. Qed.
Check pazip_sequential_roundtrip :
  forall (guard_local : bool) (dict x : list N) (answers : list answer) (fuel : nat),
    (length x < fuel)%nat -> seq_hyp guard_local dict fuel x answers ->
    exists z, compress_sequential (chosen guard_local true) fuel x answers [] [] = CDone (z, z) /\
              legacy_decompress dict z = Some x.
Print Assumptions pazip_sequential_roundtrip.

(* PaZipCompressor::compress as a whole: every configuration (multithreading on/off, any threshold), every PARALLEL_THRESHOLD and
   BLOCK_SIZE >= 1 (the code: 1 MiB / 64 KiB), sequential or block-wise path (answers per block, positions relative to the block), any
   stale scratch buffer on entry: decompress (compress x) = x *)
Theorem pazip_compress_roundtrip :
  forall (guard_local : bool) (dict : list N) (parallel_threshold block_size : N)
         (enable_mt : bool) (mt_threshold : N) (x : list N) (answers : list (list answer))
         (fuel : nat) (scratch : list N),
    1 <= block_size -> (length x < fuel)%nat ->
    compress_hyp guard_local dict parallel_threshold block_size enable_mt mt_threshold fuel x answers ->
    exists scratch' z,
      pz_compress guard_local parallel_threshold block_size enable_mt mt_threshold fuel x answers scratch [] = CDone (scratch', z) /\
      legacy_decompress dict z = Some x.
Proof. exact pazip_compress_roundtrip_proof. Qed.
Check pazip_compress_roundtrip :
  forall (guard_local : bool) (dict : list N) (parallel_threshold block_size : N)
         (enable_mt : bool) (mt_threshold : N) (x : list N) (answers : list (list answer))
         (fuel : nat) (scratch : list N),
    1 <= block_size -> (length x < fuel)%nat ->
    compress_hyp guard_local dict parallel_threshold block_size enable_mt mt_threshold fuel x answers ->
    exists scratch' z,
      pz_compress guard_local parallel_threshold block_size enable_mt mt_threshold fuel x answers scratch [] = CDone (scratch', z) /\
      legacy_decompress dict z = Some x.
Print Assumptions pazip_compress_roundtrip.

(* ... at the constants of the code *)
Theorem pazip_compress_roundtrip_real :
  forall (guard_local : bool) (dict : list N) (enable_mt : bool) (mt_threshold : N) (x : list N)
         (answers : list (list answer)) (fuel : nat) (scratch : list N),
    (length x < fuel)%nat ->
    compress_hyp guard_local dict PARALLEL_THRESHOLD BLOCK_SIZE enable_mt mt_threshold fuel x answers ->
    exists scratch' z,
      pz_compress guard_local PARALLEL_THRESHOLD BLOCK_SIZE enable_mt mt_threshold fuel x answers scratch []
      = CDone (scratch', z) /\
      legacy_decompress dict z = Some x.
Proof. exact pazip_compress_roundtrip_real_proof. Qed.
Check pazip_compress_roundtrip_real :
  forall (guard_local : bool) (dict : list N) (enable_mt : bool) (mt_threshold : N) (x : list N)
         (answers : list (list answer)) (fuel : nat) (scratch : list N),
    (length x < fuel)%nat ->
    compress_hyp guard_local dict PARALLEL_THRESHOLD BLOCK_SIZE enable_mt mt_threshold fuel x answers ->
    exists scratch' z,
      pz_compress guard_local PARALLEL_THRESHOLD BLOCK_SIZE enable_mt mt_threshold fuel x answers scratch []
      = CDone (scratch', z) /\
      legacy_decompress dict z = Some x.
Print Assumptions pazip_compress_roundtrip_real.

(* with the guard of fix 3d9b359 the only thing asked of the match finders is truthfulness *)
Theorem pazip_answer_ok_guarded :
  forall dict x pos a, answer_ok true dict x pos a <-> answer_true dict x pos a.
Proof. exact answer_ok_guarded. Qed.
Check pazip_answer_ok_guarded :
  forall dict x pos a, answer_ok true dict x pos a <-> answer_true dict x pos a.
Print Assumptions pazip_answer_ok_guarded.

(* with both guards every candidate strategy fits the record of its type, whatever the match finders answer *)
Theorem pazip_guarded_candidates_fit :
  forall loc glo s, In s (candidates true true loc glo) -> fits s = true.
Proof. exact guarded_candidates_fit_proof. Qed.
Check pazip_guarded_candidates_fit :
  forall loc glo s, In s (candidates true true loc glo) -> fits s = true.
Print Assumptions pazip_guarded_candidates_fit.

(* ... which the candidate generator before fix 3d9b359 did not guarantee (Far2Long of length 65536) *)
Theorem pazip_unguarded_candidate_unfit :
  exists loc glo s, In s (candidates false true loc glo) /\ fits s = false.
Proof. exact unguarded_candidate_unfit_proof. Qed.
Check pazip_unguarded_candidate_unfit :
  exists loc glo s, In s (candidates false true loc glo) /\ fits s = false.
Print Assumptions pazip_unguarded_candidate_unfit.

(* before fix 3d9b359: a true local match of length 65536 at distance 1 is written as a Far2Long record with length 0 *)
Theorem pazip_far2long_len65536_refuted :
  exists dict x answers fuel, (length x < fuel)%nat /\ seq_hyp_nolen16 dict fuel x answers /\
    exists z, compress_sequential (chosen false true) fuel x answers [] [] = CDone (z, z) /\ legacy_decompress dict z <> Some x.
Proof. exact pazip_far2long_len65536_refuted_proof. Qed.
Check pazip_far2long_len65536_refuted :
  exists dict x answers fuel, (length x < fuel)%nat /\ seq_hyp_nolen16 dict fuel x answers /\
    exists z, compress_sequential (chosen false true) fuel x answers [] [] = CDone (z, z) /\ legacy_decompress dict z <> Some x.
Print Assumptions pazip_far2long_len65536_refuted.

(* before fix b7089e7: the block-wise path without the per-block clear of the scratch buffer *)
Theorem pazip_blockwise_old_refuted :
  exists dict parallel_threshold block_size enable_mt mt_threshold x answers fuel scratch,
    1 <= block_size /\ (length x < fuel)%nat /\
    compress_hyp false dict parallel_threshold block_size enable_mt mt_threshold fuel x answers /\
    exists z, cres_output (pz_compress_old false parallel_threshold block_size enable_mt mt_threshold fuel x answers scratch []) = Some z /\
              legacy_decompress dict z <> Some x.
Proof. exact pazip_blockwise_old_refuted_proof. Qed.
Check pazip_blockwise_old_refuted :
  exists dict parallel_threshold block_size enable_mt mt_threshold x answers fuel scratch,
    1 <= block_size /\ (length x < fuel)%nat /\
    compress_hyp false dict parallel_threshold block_size enable_mt mt_threshold fuel x answers /\
    exists z, cres_output (pz_compress_old false parallel_threshold block_size enable_mt mt_threshold fuel x answers scratch []) = Some z /\
              legacy_decompress dict z <> Some x.
Print Assumptions pazip_blockwise_old_refuted.

(* before fix a57c307: without the u16 guard a true global match at dictionary offset 65536 is written with offset 0 *)
Theorem pazip_global_guard_needed :
  exists dict x answers fuel, (length x < fuel)%nat /\ seq_hyp_g false false dict fuel x answers /\
    exists z, compress_sequential (chosen false false) fuel x answers [] [] = CDone (z, z) /\ legacy_decompress dict z <> Some x.
Proof. exact pazip_global_guard_needed_proof. Qed.
Check pazip_global_guard_needed :
  exists dict x answers fuel, (length x < fuel)%nat /\ seq_hyp_g false false dict fuel x answers /\
    exists z, compress_sequential (chosen false false) fuel x answers [] [] = CDone (z, z) /\ legacy_decompress dict z <> Some x.
Print Assumptions pazip_global_guard_needed.

(* the compressor run on answers equals the replay of the strategies it selected (what the harness replays, op 31 / 33) *)
Theorem pazip_compress_as_replay :
  forall (A : Type) (pick : A -> strategy) clr pt bs mt thr fuel x (itemss : list (list A)) scratch out,
    pz_compress_g pick clr pt bs mt thr fuel x itemss scratch out
    = pz_compress_g (fun s => s) clr pt bs mt thr fuel x (map (map pick) itemss) scratch out.
Proof. exact pz_compress_as_replay_proof. Qed.
Check pazip_compress_as_replay :
  forall (A : Type) (pick : A -> strategy) clr pt bs mt thr fuel x (itemss : list (list A)) scratch out,
    pz_compress_g pick clr pt bs mt thr fuel x itemss scratch out
    = pz_compress_g (fun s => s) clr pt bs mt thr fuel x (map (map pick) itemss) scratch out.
Print Assumptions pazip_compress_as_replay.

(* choose_best_compression_type on a true match always takes the reference path (get_encoding_meta) *)
Theorem pazip_choose_type_true_match :
  forall d len, 1 <= d -> 1 <= len -> choose_type d len = Some (encoding_meta_type d len).
Proof. exact choose_type_match. Qed.
Check pazip_choose_type_true_match :
  forall d len, 1 <= d -> 1 <= len -> choose_type d len = Some (encoding_meta_type d len).
Print Assumptions pazip_choose_type_true_match.

(* non-vacuity of the hypotheses above *)
Example legacy_stream_inhabited :
  let x := [7; 7; 7; 7; 9; 7; 9; 7; 9; 116; 104; 101] in
  exists stream, run_parse [116; 104; 101; 32] x [SLiteral 1; SLocal 1 3 2; SLiteral 1; SLocal 2 4 3; SGlobal 0 3] [] = Some (x, stream).
Proof. cbn zeta. eexists. vm_compute. reflexivity. Qed.
Example match_roundtrip_inhabited :
  wt (Far3Long 70000 100000) /\ exists n w, encode_match (Far3Long 70000 100000) writer_new = Some (n, w).
Proof. split; [cbn; lia|]. do 2 eexists. vm_compute. reflexivity. Qed.
Example matches_roundtrip_inhabited :
  let ms := [Literal 32; Global 4294967295 65535; RLE 255 33; NearShort 9 5; Far1Short 257 33;
             Far2Short 65793 2; Far2Long 65535 65535; Far3Long 16777215 1073774625] in
  Forall wt ms /\ forallb encodable ms = true.
Proof. cbn zeta. split; [repeat constructor; cbn; lia|vm_compute; reflexivity]. Qed.
Example hybrid_roundtrip_inhabited : Forall codec_ok [expanding_codec] /\ nlen [expanding_codec] <= 255.
Proof. split; [|cbn; lia]. constructor; [|constructor]. intros x z H. cbn in H. inversion H. reflexivity. Qed.
Example winv_inhabited : exists w, write_bits writer_new 5 3 = Some w /\ winv w /\ wlen w = 3.
Proof. destruct writer_new_inv as (I & _ & L). destruct (write_bits_spec writer_new 5 3 I ltac:(lia)) as (w & E & I' & _ & L').
  exists w. split; [exact E|]. split; [exact I'|]. rewrite L', L. reflexivity. Qed.
Example rans_compressor_roundtrip_inhabited :
  let train := [104; 101; 108; 108; 111; 32; 119; 111; 114; 108; 100] in
  train <> [] /\ nlen train < W32 /\ Forall (fun b => b < 256) [108; 111; 108] /\ (forall s, In s [108; 111; 108] -> In s train).
Proof. exact rans_compressor_inhabited. Qed.
Example huffman_compressor_roundtrip_inhabited :
  ProofsHeap.heap_run (map H.Leaf [97; 98; 99]) (H.Node (H.Leaf 99) (H.Node (H.Leaf 97) (H.Leaf 98))) /\ NoDup [97; 98; 99].
Proof.
  split.
  - eapply ProofsHeap.heap_merge with (a := H.Leaf 97) (b := H.Leaf 98) (l' := [H.Leaf 99]); [reflexivity|].
    eapply ProofsHeap.heap_merge with (a := H.Leaf 99) (b := H.Node (H.Leaf 97) (H.Leaf 98)) (l' := []); [apply perm_swap|].
    apply ProofsHeap.heap_done.
  - repeat constructor; cbn; intuition; discriminate.
Qed.
Example huffman_tree_serialize_inhabited :
  let tb := [(99, [false]); (97, [true; false]); (98, [true; true])] in
  NoDup (map fst tb) /\ H.prefix_free tb = true /\ short_codes tb.
Proof. cbn zeta. split; [repeat constructor; cbn; intuition; discriminate|]. split; [reflexivity|]. repeat constructor; cbn; lia. Qed.
Example realtime_block_roundtrip_inhabited :
  (forall a, codec_ok (two_codecs a)) /\
  rt_compress_with_deadline two_codecs (rt_set_mode (rt_new 0 true) 2) (repeat 7 (N.to_nat 70)) on_time = Some (1 :: 42 :: repeat 7 (N.to_nat 70)) /\
  rt_compress_with_deadline two_codecs (rt_set_mode (rt_new 0 true) 2) [7; 7] on_time = Some [0; 7; 7] /\
  rt_compress_with_deadline two_codecs (rt_new 3 true) [7; 7] (mkClock false false true) = Some [0; 7; 7] /\
  rt_compress_with_deadline two_codecs (rt_new 3 false) [7; 7] (mkClock true false false) = None.
Proof. split; [exact two_codecs_ok|]. repeat split; reflexivity. Qed.
Example adaptive_roundtrip_inhabited :
  exists st, ad_run two_codecs (fun a => a <? 50) true false (mkAdCfg 1 1 true 16) ad_new
               [OpSet 2; OpCompress [1] 0 true; OpSet 50; OpTrain; OpCompress [2] 3 false] = Some st /\ ad_alg st = 2 /\ ad_done st = 2.
Proof. eexists. split; [reflexivity|]. split; reflexivity. Qed.
Example simd_lz77_roundtrip_inhabited_ex :
  finder_sound ProofsSimd.ex_x ex_find /\ simd_find_matches true no_stop ex_find ProofsSimd.ex_x = Ok ex_ms /\
  simd_lits_ok ProofsSimd.ex_x ex_ms = true /\ simd_rles_ok ProofsSimd.ex_x ex_ms = true /\ simd_pad_ok ex_ms = true /\
  simd_covers ProofsSimd.ex_x ex_ms = true.
Proof. destruct simd_lz77_roundtrip_inhabited as (H1 & H2 & _ & H4 & H5 & _ & H7 & H8 & _).
  split; [exact H1|]. split; [exact H2|]. split; [exact H4|]. split; [exact H5|]. split; [exact H7|exact H8]. Qed.
Example pazip_sequential_roundtrip_inhabited :
  forall gl : bool, seq_hyp gl ex_dict 19 ProofsPaZipEx.ex_x ex_answers.
Proof. intros gl. destruct (pazip_sequential_example gl) as [H _]. exact H. Qed.
Example pazip_compress_roundtrip_inhabited :
  forall gl : bool, blockwise 8 true 1 ex_bx = true /\ compress_hyp gl [] 8 4 true 1 9 ex_bx ex_banswers.
Proof. intros gl. destruct (pazip_compress_example gl) as (H1 & H2 & _). split; assumption. Qed.
