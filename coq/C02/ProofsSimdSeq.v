(* SimdLz77Compressor::decode_matches: the decode loop with the guard has_bits(3).
   It returns the encoded token list exactly when the stream ends with fewer than 3 padding bits;
   with 3..7 padding bits it ALWAYS fails (the zero padding is read as a Literal tag and the
   5-bit length field is missing). *)
From ZV.Common Require Import Base.
From ZV.C02 Require Import Model ProofsBits ProofsMatch ProofsSeq ModelSimd.
Open Scope N_scope.

(* the loop over an encoded list, any guard between the padding and 8 *)
Lemma decode_loop_guard g ms : forall fuel r acc total pad,
  (length ms < fuel)%nat -> forallb encodable ms = true -> Forall wt ms ->
  rinv r -> rnum r = packs ms 0 -> ravail r = widths ms + pad -> pad < g -> g <= 8 ->
  decode_matches_loop g fuel r acc total = Ok (acc ++ ms, total + widths ms).
Proof.
  induction ms as [|m t IH]; intros fuel r acc total pad Hfuel He Hwt I Hn Hav Hpad Hg;
    (destruct fuel as [|f]; [cbn [length] in Hfuel; exfalso; lia|]);
    cbn [decode_matches_loop packs widths] in *.
  - rewrite has_bits_ravail, Hav.
    destruct (N.leb_spec g (0 + pad)) as [Hx|_]; [exfalso; lia|].
    rewrite app_nil_r. do 2 f_equal. lia.
  - cbn [forallb] in He. apply andb_true_iff in He. destruct He as [Hm Ht].
    inversion Hwt as [|? ? Wm Wt]; subst.
    pose proof (width_ge_8 m) as H8.
    rewrite has_bits_ravail, Hav.
    destruct (N.leb_spec g (width (fields m) + widths t + pad)) as [_|Hx]; [|exfalso; lia].
    destruct (decode_match_spec m r (packs t 0) Hm Wm I Hn ltac:(lia)) as (r' & E & I' & N' & A').
    rewrite E. cbn [rbind].
    rewrite (IH f r' (acc ++ [m]) (total + width (fields m)) pad); try assumption.
    + rewrite <- app_assoc. cbn [app]. do 2 f_equal. lia.
    + cbn [length] in Hfuel. lia.
    + rewrite A', Hav. lia.
Qed.

(* the same loop when 3..7 zero padding bits are left at the end: one more round, which fails *)
Lemma decode_loop_guard3_err ms : forall fuel r acc total pad,
  (length ms < fuel)%nat -> forallb encodable ms = true -> Forall wt ms ->
  rinv r -> rnum r = packs ms 0 -> ravail r = widths ms + pad -> 3 <= pad < 8 ->
  decode_matches_loop 3 fuel r acc total = Err.
Proof.
  induction ms as [|m t IH]; intros fuel r acc total pad Hfuel He Hwt I Hn Hav Hpad;
    (destruct fuel as [|f]; [cbn [length] in Hfuel; exfalso; lia|]);
    cbn [decode_matches_loop packs widths] in *.
  - rewrite has_bits_ravail, Hav.
    destruct (N.leb_spec 3 (0 + pad)) as [_|Hx]; [|exfalso; lia].
    unfold decode_match.
    destruct (read_field r 0 0 3 I ltac:(rewrite Hn; reflexivity) ltac:(cbn; lia) ltac:(lia) ltac:(lia))
      as (r1 & E1 & I1 & N1 & A1 & _).
    rewrite E1. cbn [rbind]. unfold rd at 1.
    rewrite (read_fails r1 5 I1 ltac:(lia) ltac:(lia)). reflexivity.
  - cbn [forallb] in He. apply andb_true_iff in He. destruct He as [Hm Ht].
    inversion Hwt as [|? ? Wm Wt]; subst.
    pose proof (width_ge_8 m) as H8.
    rewrite has_bits_ravail, Hav.
    destruct (N.leb_spec 3 (width (fields m) + widths t + pad)) as [_|Hx]; [|exfalso; lia].
    destruct (decode_match_spec m r (packs t 0) Hm Wm I Hn ltac:(lia)) as (r' & E & I' & N' & A').
    rewrite E. cbn [rbind].
    apply (IH f r' (acc ++ [m]) (total + width (fields m)) pad); try assumption.
    + cbn [length] in Hfuel. lia.
    + rewrite A', Hav. lia.
Qed.

Lemma pad_bits_val total : pad_bits total = 8 * ((total + 7) / 8) - total.
Proof. unfold pad_bits. lia. Qed.

Lemma encoded_facts ms bytes total :
  Forall wt ms -> encode_matches ms = Some (bytes, total) ->
  forallb encodable ms = true /\ total = widths ms /\ le_num bytes = packs ms 0 /\
  nlen bytes = (widths ms + 7) / 8 /\ bytes_ok bytes.
Proof.
  intros Hwt E. destruct (forallb encodable ms) eqn:He.
  - destruct (encode_matches_spec ms He) as (b' & E' & Hn & Hl & Hok).
    rewrite E in E'. assert (bytes = b') by congruence. assert (total = widths ms) by congruence.
    subst. repeat split; assumption.
  - exfalso. unfold encode_matches in E. destruct writer_new_inv as (I0 & _).
    rewrite (encode_go_refuses ms writer_new 0 I0 Hwt He) in E. discriminate.
Qed.

Lemma simd_tokens_roundtrip_proof :
  forall ms, Forall wt ms ->
  forall bytes total, encode_matches ms = Some (bytes, total) ->
  pad_bits total < 3 ->
  decode_matches_g 3 bytes = Ok (ms, total).
Proof.
  intros ms Hwt bytes total E Hp.
  destruct (encoded_facts ms bytes total Hwt E) as (He & -> & Hnum & Hlen & Hok).
  rewrite pad_bits_val in Hp. unfold decode_matches_g.
  destruct (reader_new_inv bytes Hok) as (I & Nn & A & _).
  rewrite (decode_loop_guard 3 ms (S (length bytes)) (reader_new bytes) [] 0
             (8 * ((widths ms + 7) / 8) - widths ms)); try assumption.
  - reflexivity.
  - pose proof (widths_ge ms). rewrite !nlen_length in *. lia.
  - rewrite Nn. exact Hnum.
  - rewrite A, Hlen. lia.
  - lia.
Qed.

Lemma simd_tokens_padding_err_proof :
  forall ms, Forall wt ms ->
  forall bytes total, encode_matches ms = Some (bytes, total) ->
  3 <= pad_bits total ->
  decode_matches_g 3 bytes = Err.
Proof.
  intros ms Hwt bytes total E Hp.
  destruct (encoded_facts ms bytes total Hwt E) as (He & -> & Hnum & Hlen & Hok).
  rewrite pad_bits_val in Hp. unfold decode_matches_g.
  destruct (reader_new_inv bytes Hok) as (I & Nn & A & _).
  apply (decode_loop_guard3_err ms (S (length bytes)) (reader_new bytes) [] 0
             (8 * ((widths ms + 7) / 8) - widths ms)); try assumption.
  - pose proof (widths_ge ms). rewrite !nlen_length in *. lia.
  - rewrite Nn. exact Hnum.
  - rewrite A, Hlen. lia.
  - lia.
Qed.

(* hypotheses inhabited: 62 bits, 2 padding bits *)
Example simd_tokens_roundtrip_inhabited :
  let ms := [Literal 1; Far2Long 2 40; Far2Long 2 40] in
  Forall wt ms /\ encode_matches ms = Some ([0; 22; 0; 96; 176; 0; 0; 3], 62) /\ pad_bits 62 = 2.
Proof.
  cbv zeta. split; [|split; vm_compute; reflexivity].
  repeat constructor; cbn; lia.
Qed.
(* 27 bits, 5 padding bits: the decode fails *)
Example simd_tokens_padding_err_inhabited :
  let ms := [Far2Long 40 40] in
  Forall wt ms /\ encode_matches ms = Some ([70; 1; 96; 0], 27) /\ pad_bits 27 = 5.
Proof.
  cbv zeta. split; [|split; vm_compute; reflexivity].
  repeat constructor; cbn; lia.
Qed.
