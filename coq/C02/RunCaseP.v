(* Entry point evaluated by harness-generated case files for the PA-Zip compress model (definitions only). *)
From ZV.Common Require Import Base Run.
From ZV.C02 Require Import Model ModelRec ModelPaZip.
Open Scope N_scope.

(* strategies as quadruples (k, p1, p2, p3): k = 0 Literal (p1 = length), 1 Local (p1 = distance, p2 = length,
   p3 = type discriminant), 2 Global (p1 = dict_offset, p2 = length) - as RunCase.run_case op 4 *)
Definition flat_strategy (s : strategy) : list N :=
  match s with
  | SLiteral l => [0; l; 0; 0]
  | SLocal d l t => [1; d; l; t]
  | SGlobal off l => [2; off; l; 0]
  end.
Definition mk_strategy (k p1 p2 p3 : N) : strategy :=
  match k with 0 => SLiteral p1 | 1 => SLocal p1 p2 p3 | _ => SGlobal p1 p2 end.
Fixpoint unflat4 (l : list N) : list strategy :=
  match l with k :: p1 :: p2 :: p3 :: t => mk_strategy k p1 p2 p3 :: unflat4 t | _ => [] end.

(* groups of strategies, one per call of compress_sequential: n :: (n quadruples) *)
Fixpoint parse_groups (fuel : nat) (l : list N) : list (list strategy) :=
  match fuel with
  | O => []
  | S f => match l with
           | [] => []
           | n :: rest => let k := (4 * N.to_nat n)%nat in
                          unflat4 (firstn k rest) :: parse_groups f (skipn k rest)
           end
  end.

Definition id_strategy (s : strategy) : strategy := s.

(* where a replay of `ss` over payload b ends, and whether every strategy was used *)
Definition replay_end (b : list N) (ss : list strategy) : N * bool :=
  let tr := seq_trace id_strategy (S (length ss)) b 0 ss in
  (match rev tr with
   | [] => 0
   | (p, s) :: _ => p + snd (write_record b p s)
   end,
   (length tr =? length ss)%nat).

Definition run_case_p (op : N) (a b : list N) : list N :=
  match op with
  | 30 => match a with
          | has_local :: d :: len :: has_global :: p :: glen :: gl :: _ =>
              flat_map flat_strategy
                (candidates (gl =? 1) true
                            (if has_local =? 1 then Some (d, len) else None)
                            (if has_global =? 1 then Some (p, glen) else None))
          | _ => [98]
          end
  | 31 => let ss := unflat4 a in
          match seq_loop id_strategy (S (length ss)) b 0 ss [] with
          | CDone buf => let '(e, all_used) := replay_end b ss in
                         if all_used && (e =? nlen b) then 1 :: buf else [0]
          | _ => [0]
          end
  | 32 => match a with
          | d :: len :: _ => match choose_type d len with Some t => [1; t] | None => [0] end
          | _ => [98]
          end
  | 33 => match a with
          | pt :: bs :: mt :: thr :: groups =>
              match cres_output (pz_compress_g id_strategy true pt bs (mt =? 1) thr (S (length b)) b
                                               (parse_groups (length groups) groups) [] []) with
              | Some z => 1 :: z
              | None => [0]
              end
          | _ => [98]
          end
  | _ => [99]
  end.
