(* C02 mechanism model, part D: the token stream of SimdLz77Compressor
   (src/compression/simd_lz77.rs), the INHERENT compress / decompress (not the Compressor trait impl).
   Definitions only.

   Modelled as written:
     choose_best_compression_type_reference = get_encoding_meta(..).compression_type  -> simd_type
     create_pa_zip_match (the `as u8/u16/u32` casts, the validating constructors)      -> simd_make_match
     create_literal_match (Match::literal(1): no literal byte is stored anywhere)      -> simd_literal_token
     SimdLz77Match::new: `.length` = pa_zip_match.length()                             -> simd_advance
     find_lz77_matches (greedy loop, `position += length.max(1)`, the early-termination `break`)
                                                                                       -> simd_find_loop
     encode_matches / decode_matches (`while reader.has_bits(3)`)                      -> simd_encode / simd_decode_matches
     reconstruct_from_matches, copy_backward_reference(_scalar/_simd)                  -> simd_reconstruct, simd_copy_backward
   Abstract: find_best_match_at_position, i.e. the search itself (pattern matcher, verify_and_extend_match,
   is_better_than): per position an `answer`.  What is done WITH an answer (type choice, casts, validation,
   how far the loop advances) is modelled.  The f64 average of the efficiency ratios that decides the early
   termination is an abstract function `stop` of the tokens pushed so far. *)
From ZV.Common Require Import Base Run.
From ZV.C02 Require Import Model ModelRec.
Open Scope N_scope.

(* ------------------------------------------------------------------ *)
(* compress side                                                        *)
(* ------------------------------------------------------------------ *)

(* get_encoding_meta(distance, length).compression_type, as the CompressionType discriminant *)
Definition simd_type (d len : N) : N :=
  if len =? 1 then 0
  else if (d =? 1) && (len <=? 33) then 2
  else if (2 <=? d) && (d <=? 9) && (len <=? 5) then 3
  else if (2 <=? d) && (d <=? 257) && (len <=? 33) then 4
  else if (258 <=? d) && (d <=? 258 + 65535) && (len <=? 33) then 5
  else if (d <=? 65535) && (34 <=? len) then 6
  else 7.

(* Match::literal / global / rle / ... : construct, validate()?, Ok(m) *)
Definition checked (m : pmatch) : option pmatch := if validate m then Some m else None.

(* create_pa_zip_match(compression_type, distance, length): usize arguments, `as` casts truncate *)
Definition simd_make_match (t d len : N) : option pmatch :=
  match t with
  | 0 => checked (Literal (len mod 256))
  | 1 => checked (Global (d mod 4294967296) (len mod 65536))
  | 2 => checked (RLE 0 (len mod 256))                    (* "not available here, use 0" *)
  | 3 => checked (NearShort (d mod 256) (len mod 256))
  | 4 => checked (Far1Short (d mod 65536) (len mod 256))
  | 5 => checked (Far2Short (d mod 4294967296) (len mod 256))
  | 6 => checked (Far2Long (d mod 65536) (len mod 65536))
  | _ => checked (Far3Long (d mod 4294967296) (len mod 4294967296))
  end.

(* the token find_best_match_at_position builds for a candidate (distance, actual_length) *)
Definition simd_token (d len : N) : option pmatch := simd_make_match (simd_type d len) d len.
(* create_literal_match: Match::literal(1)? - the byte at `position` is not looked at *)
Definition simd_literal_token : option pmatch := checked (Literal 1).
(* best_match.length.max(1), where .length = pa_zip_match.length() (the value AFTER the casts) *)
Definition simd_advance (m : pmatch) : N := N.max (m_length m) 1.

(* what find_best_match_at_position returns at a position *)
Inductive answer : Type :=
| ANone                    (* Ok(None): the loop emits a literal token *)
| AMatch (d len : N)       (* Ok(Some(m)) with m built from (distance, actual_length) *)
| AErr.                    (* Err: the pattern matcher failed, or a candidate was refused by its constructor *)

Definition answer_token (a : answer) : option pmatch :=
  match a with
  | ANone => simd_literal_token
  | AMatch d len => simd_token d len
  | AErr => None
  end.
Definition answer_advance (a : answer) (m : pmatch) : N :=
  match a with ANone => 1 | _ => simd_advance m end.

(* the early-termination test after every push:
   enable_early_termination && matches.len() > 1000 && avg_efficiency >= early_termination_efficiency *)
Definition simd_early (et : bool) (stop : list pmatch -> bool) (acc : list pmatch) : bool :=
  if et then (1000 <? nlen acc) && stop acc else false.

(* find_lz77_matches: n = input.len(); the loop looks at the input only through the finder *)
Fixpoint simd_find_loop (et : bool) (stop : list pmatch -> bool) (find : N -> answer)
    (fuel : nat) (n pos : N) (acc : list pmatch) : res (list pmatch) :=
  match fuel with
  | O => Fuel
  | S f =>
      if pos <? n then
        match answer_token (find pos) with
        | None => Err
        | Some m =>
            let acc' := acc ++ [m] in
            if simd_early et stop acc' then Ok acc'      (* break: the rest of the input is dropped *)
            else simd_find_loop et stop find f n (pos + answer_advance (find pos) m) acc'
        end
      else Ok acc
  end.
Definition simd_find_matches (et : bool) (stop : list pmatch -> bool) (find : N -> answer) (x : list N)
  : res (list pmatch) :=
  simd_find_loop et stop find (S (length x)) (nlen x) 0 [].

(* encode_matches(&self, matches): encode_match per token into one BitWriter, finish *)
Definition simd_encode (ms : list pmatch) : res (list N) :=
  match encode_matches ms with Some (bytes, _) => Ok bytes | None => Err end.

Definition simd_compress (et : bool) (stop : list pmatch -> bool) (find : N -> answer) (x : list N)
  : res (list N) :=
  match x with
  | [] => Ok []
  | _ => rbind (simd_find_matches et stop find x) simd_encode
  end.

(* ------------------------------------------------------------------ *)
(* decompress side                                                      *)
(* ------------------------------------------------------------------ *)
Definition SIMD_DECODE_GUARD : N := 3.
(* decode_matches(&self, compressed): while reader.has_bits(3) { decode_match } *)
Definition simd_decode_matches (z : list N) : res (list pmatch) :=
  match decode_matches_g SIMD_DECODE_GUARD z with
  | Ok (ms, _) => Ok ms | Err => Err | Panic => Panic | Fuel => Fuel
  end.

Definition MAX_DECOMPRESSED_SIZE : N := 104857600.   (* crate::entropy: 100 * 1024 * 1024 *)

(* b"hello world universe compression" *)
Definition PLACEHOLDER : list N :=
  [104; 101; 108; 108; 111; 32; 119; 111; 114; 108; 100; 32; 117; 110; 105; 118; 101; 114; 115; 101; 32;
   99; 111; 109; 112; 114; 101; 115; 115; 105; 111; 110].
(* PLACEHOLDER.iter().cycle().take(length) - restarted from `h` for every literal token *)
Definition placeholder_lit (l : N) : list N :=
  map (fun i => nth (Nat.modulo i (length PLACEHOLDER)) PLACEHOLDER 0) (seq 0 (N.to_nat l)).

(* copy_backward_reference_scalar / _simd (the two bodies are identical):
     for i in 0..length { let src_pos = start_pos + (i % (output.len() - start_pos));
                          let byte = output[src_pos]; output.push(byte); }
   output.len() is re-read in every round.  Panic = remainder by zero / index out of bounds. *)
Fixpoint simd_copy_loop (k : nat) (i start : N) (out : list N) : res (list N) :=
  match k with
  | O => Ok out
  | S k' =>
      let m := nlen out - start in
      if m =? 0 then Panic
      else match nth_error out (N.to_nat (start + i mod m)) with
           | Some b => simd_copy_loop k' (i + 1) start (out ++ [b])
           | None => Panic
           end
  end.
(* copy_backward_reference *)
Definition simd_copy_backward (out : list N) (d len : N) : res (list N) :=
  if (d =? 0) || (nlen out <? d) then Err
  else simd_copy_loop (N.to_nat len) 0 (nlen out - d) out.

(* the back-reference arms: `if distance <= output.len() { copy_backward_reference? } else { placeholder letter }` *)
Definition simd_backref (ph : N) (out : list N) (d len : N) : res (list N) :=
  if d <=? nlen out then simd_copy_backward out d len
  else Ok (out ++ repeat ph (N.to_nat len)).

(* one round of reconstruct_from_matches; `lit` is what is substituted for a literal token *)
Definition simd_step (lit : N -> list N) (out : list N) (m : pmatch) : res (list N) :=
  if MAX_DECOMPRESSED_SIZE - nlen out <? m_length m then Err     (* saturating_sub *)
  else match m with
       | Literal l => Ok (out ++ lit l)
       | RLE b l => Ok (out ++ repeat b (N.to_nat l))
       | Global _ l => Ok (out ++ repeat 71 (N.to_nat l))           (* b'G' *)
       | NearShort d l => simd_backref 78 out d l                   (* b'N' *)
       | Far1Short d l => simd_backref 70 out d l                   (* b'F' *)
       | Far2Short d l => simd_backref 50 out d l                   (* b'2' *)
       | Far2Long d l => simd_backref 76 out d l                    (* b'L' *)
       | Far3Long d l => simd_backref 51 out d l                    (* b'3' *)
       end.
Fixpoint simd_reconstruct_from (lit : N -> list N) (ms : list pmatch) (out : list N) : res (list N) :=
  match ms with
  | [] => Ok out
  | m :: t => rbind (simd_step lit out m) (simd_reconstruct_from lit t)
  end.
Definition simd_reconstruct_g (lit : N -> list N) (ms : list pmatch) : res (list N) :=
  simd_reconstruct_from lit ms [].
(* the code: literals are the placeholder text *)
Definition simd_reconstruct (ms : list pmatch) : res (list N) := simd_reconstruct_g placeholder_lit ms.

Definition simd_decompress_g (lit : N -> list N) (z : list N) : res (list N) :=
  match z with
  | [] => Ok []
  | _ => rbind (simd_decode_matches z) (simd_reconstruct_g lit)
  end.
Definition simd_decompress (z : list N) : res (list N) := simd_decompress_g placeholder_lit z.

(* ------------------------------------------------------------------ *)
(* decidable conditions on (payload, parse)                             *)
(* ------------------------------------------------------------------ *)
(* walk the parse with the input position of every token *)
Fixpoint simd_walk (p : N -> pmatch -> bool) (ms : list pmatch) (pos : N) : bool :=
  match ms with
  | [] => true
  | m :: t => p pos m && simd_walk p t (pos + m_length m)
  end.

(* (i) every literal token stands for exactly the bytes the decoder substitutes *)
Definition lit_okb (lit : N -> list N) (x : list N) (pos : N) (m : pmatch) : bool :=
  match m with Literal l => eqb_ln (slice x pos l) (lit l) | _ => true end.
Definition simd_lits_ok_g (lit : N -> list N) (x : list N) (ms : list pmatch) : bool :=
  simd_walk (lit_okb lit x) ms 0.
Definition simd_lits_ok (x : list N) (ms : list pmatch) : bool := simd_lits_ok_g placeholder_lit x ms.

(* (ii) every RLE token stands for a run of its byte_value (the compressor always writes 0) *)
Definition rle_okb (x : list N) (pos : N) (m : pmatch) : bool :=
  match m with RLE b l => eqb_ln (slice x pos l) (repeat b (N.to_nat l)) | _ => true end.
Definition simd_rles_ok (x : list N) (ms : list pmatch) : bool := simd_walk (rle_okb x) ms 0.

(* a back-reference (d, len) at pos is a true match of the payload *)
Definition true_match (x : list N) (pos d len : N) : Prop :=
  1 <= d <= pos /\ 1 <= len /\ pos + len <= nlen x /\
  forall i, i < len -> nth (N.to_nat (pos + i)) x 0 = nth (N.to_nat (pos + i - d)) x 0.
Definition true_matchb (x : list N) (pos d len : N) : bool :=
  (1 <=? d) && (d <=? pos) && (1 <=? len) && (pos + len <=? nlen x) &&
  forallb (fun i => nth (N.to_nat (pos + N.of_nat i)) x 0 =? nth (N.to_nat (pos + N.of_nat i - d)) x 0)
          (seq 0 (N.to_nat len)).
(* every back-reference token is a true match; there is no Global token *)
Definition ref_okb (x : list N) (pos : N) (m : pmatch) : bool :=
  match m with
  | Literal _ | RLE _ _ => true
  | Global _ _ => false
  | NearShort d l | Far1Short d l | Far2Short d l | Far2Long d l | Far3Long d l => true_matchb x pos d l
  end.
Definition simd_refs_ok (x : list N) (ms : list pmatch) : bool := simd_walk (ref_okb x) ms 0.

(* (iii) the encoded stream ends with fewer than 3 padding bits *)
Definition pad_bits (total : N) : N := (8 - total mod 8) mod 8.
Definition simd_pad_ok (ms : list pmatch) : bool :=
  match encode_matches ms with Some (_, total) => pad_bits total <? 3 | None => false end.

(* (iv) the parse covers the payload (nothing was dropped by the early termination) *)
Fixpoint tok_sum (ms : list pmatch) : N :=
  match ms with [] => 0 | m :: t => m_length m + tok_sum t end.
Definition simd_covers (x : list N) (ms : list pmatch) : bool := tok_sum ms =? nlen x.

(* the finder answers true matches only *)
Definition finder_sound (x : list N) (find : N -> answer) : Prop :=
  forall pos d len, pos < nlen x -> find pos = AMatch d len -> true_match x pos d len.
Definition finder_soundb (x : list N) (find : N -> answer) : bool :=
  forallb (fun i => match find (N.of_nat i) with
                    | AMatch d len => true_matchb x (N.of_nat i) d len
                    | _ => true
                    end) (seq 0 (length x)).

(* ------------------------------------------------------------------ *)
(* an output-reversed reconstruction for cheap evaluation (proved equal to simd_reconstruct_g in
   ProofsSimdFast.v): the LZ copy conses the (d-1)-th element of the reversed output          *)
(* ------------------------------------------------------------------ *)
Fixpoint rcopy (k : nat) (dm1 : nat) (rout : list N) : list N :=
  match k with O => rout | S k' => rcopy k' dm1 (nth dm1 rout 0 :: rout) end.
Definition fast_backref (ph : N) (rout : list N) (d len : N) : res (list N) :=
  if d <=? nlen rout then
    (if d =? 0 then Err else Ok (rcopy (N.to_nat len) (N.to_nat (d - 1)) rout))
  else Ok (rev_append (repeat ph (N.to_nat len)) rout).
Definition fast_step (lit : N -> list N) (rout : list N) (m : pmatch) : res (list N) :=
  if MAX_DECOMPRESSED_SIZE - nlen rout <? m_length m then Err
  else match m with
       | Literal l => Ok (rev_append (lit l) rout)
       | RLE b l => Ok (rev_append (repeat b (N.to_nat l)) rout)
       | Global _ l => Ok (rev_append (repeat 71 (N.to_nat l)) rout)
       | NearShort d l => fast_backref 78 rout d l
       | Far1Short d l => fast_backref 70 rout d l
       | Far2Short d l => fast_backref 50 rout d l
       | Far2Long d l => fast_backref 76 rout d l
       | Far3Long d l => fast_backref 51 rout d l
       end.
Fixpoint fast_reconstruct_from (lit : N -> list N) (ms : list pmatch) (rout : list N) : res (list N) :=
  match ms with
  | [] => Ok (rev' rout)
  | m :: t => rbind (fast_step lit rout m) (fast_reconstruct_from lit t)
  end.
Definition simd_reconstruct_fast_g (lit : N -> list N) (ms : list pmatch) : res (list N) :=
  fast_reconstruct_from lit ms [].
Definition simd_reconstruct_fast (ms : list pmatch) : res (list N) :=
  simd_reconstruct_fast_g placeholder_lit ms.
Definition simd_decompress_fast (z : list N) : res (list N) :=
  match z with
  | [] => Ok []
  | _ => rbind (simd_decode_matches z) simd_reconstruct_fast
  end.
