(* encode_matches / decode_matches on whole lists, and the end-to-end statements on bytes. *)
From ZV.Common Require Import Base.
From ZV.C02 Require Import Model ProofsBits ProofsMatch.
Open Scope N_scope.

Fixpoint packs (ms : list pmatch) (rest : N) : N :=
  match ms with [] => rest | m :: t => pack (fields m) (packs t rest) end.
Fixpoint widths (ms : list pmatch) : N :=
  match ms with [] => 0 | m :: t => width (fields m) + widths t end.

Lemma encode_go_spec ms : forall w total,
  winv w -> forallb encodable ms = true ->
  exists w', encode_matches_go ms w total = Some (w', total + widths ms) /\ winv w' /\
             wnum w' = wnum w + packs ms 0 * 2 ^ wlen w /\ wlen w' = wlen w + widths ms.
Proof.
  induction ms as [|m t IH]; intros w total I He; cbn [encode_matches_go packs widths].
  - exists w. split; [do 2 f_equal; lia|]. split; [exact I|]. split; lia.
  - cbn [forallb] in He. apply andb_true_iff in He. destruct He as [Hm Ht].
    destruct (encode_match_spec m w I Hm) as (w1 & E1 & I1 & N1 & L1).
    rewrite E1. cbn [obind].
    destruct (IH w1 (total + width (fields m)) I1 Ht) as (w2 & E2 & I2 & N2 & L2).
    exists w2. split; [rewrite E2; do 2 f_equal; lia|]. split; [exact I2|]. split.
    + rewrite N2, N1, L1. rewrite (pack_rest (fields m) (packs t 0)). rewrite N.pow_add_r. lia.
    + rewrite L2, L1. lia.
Qed.

Lemma encode_go_refuses ms : forall w total,
  winv w -> Forall wt ms -> forallb encodable ms = false -> encode_matches_go ms w total = None.
Proof.
  induction ms as [|m t IH]; intros w total I Hwt He; cbn [encode_matches_go forallb] in *.
  - discriminate.
  - inversion Hwt as [|? ? Hm Ht]; subst.
    destruct (encodable m) eqn:Em.
    + cbn [andb] in He. destruct (encode_match_spec m w I Em) as (w1 & E1 & I1 & _).
      rewrite E1. cbn [obind]. apply IH; assumption.
    + rewrite (encode_match_refuses m w I Hm Em). reflexivity.
Qed.

Lemma encode_matches_spec ms :
  forallb encodable ms = true ->
  exists bytes, encode_matches ms = Some (bytes, widths ms) /\ le_num bytes = packs ms 0 /\
                nlen bytes = (widths ms + 7) / 8 /\ bytes_ok bytes.
Proof.
  intros He. destruct writer_new_inv as (I0 & N0 & L0).
  destruct (encode_go_spec ms writer_new 0 I0 He) as (w & E & I & Nn & L).
  destruct (finish_spec w I) as (F1 & F2 & F3).
  exists (finish w). unfold encode_matches. rewrite E. cbn [obind].
  split; [do 2 f_equal; lia|]. split; [|split; [|exact F3]].
  - rewrite F1, Nn, N0, L0. cbn. lia.
  - rewrite F2, L, L0. f_equal.
Qed.

Lemma widths_ge ms : 8 * nlen ms <= widths ms.
Proof.
  induction ms as [|m t IH]; cbn [nlen widths]; [lia|]. pose proof (width_ge_8 m). lia.
Qed.

Lemma decode_loop_spec ms : forall fuel r acc total pad,
  (length ms < fuel)%nat -> forallb encodable ms = true -> Forall wt ms ->
  rinv r -> rnum r = packs ms 0 -> ravail r = widths ms + pad -> pad < 8 ->
  decode_matches_loop 8 fuel r acc total = Ok (acc ++ ms, total + widths ms).
Proof.
  induction ms as [|m t IH]; intros fuel r acc total pad Hfuel He Hwt I Hn Hav Hpad;
    (destruct fuel as [|f]; [cbn [length] in Hfuel; exfalso; lia|]);
    cbn [decode_matches_loop packs widths] in *.
  - rewrite has_bits_ravail, Hav.
    destruct (N.leb_spec 8 (0 + pad)) as [Hx|_]; [exfalso; lia|].
    rewrite app_nil_r. do 2 f_equal. lia.
  - cbn [forallb] in He. apply andb_true_iff in He. destruct He as [Hm Ht].
    inversion Hwt as [|? ? Wm Wt]; subst.
    pose proof (width_ge_8 m) as H8.
    rewrite has_bits_ravail, Hav.
    destruct (N.leb_spec 8 (width (fields m) + widths t + pad)) as [_|Hx]; [|exfalso; lia].
    destruct (decode_match_spec m r (packs t 0) Hm Wm I Hn ltac:(lia)) as (r' & E & I' & N' & A').
    rewrite E. cbn [rbind].
    rewrite (IH f r' (acc ++ [m]) (total + width (fields m)) pad); try assumption.
    + rewrite <- app_assoc. cbn [app]. do 2 f_equal. lia.
    + cbn [length] in Hfuel. lia.
    + rewrite A', Hav. lia.
Qed.

Lemma decode_encoded ms bytes :
  forallb encodable ms = true -> Forall wt ms ->
  le_num bytes = packs ms 0 -> nlen bytes = (widths ms + 7) / 8 -> bytes_ok bytes ->
  decode_matches bytes = Ok (ms, widths ms).
Proof.
  intros He Hwt Hnum Hlen Hok. unfold decode_matches, decode_matches_g, DECODE_GUARD.
  destruct (reader_new_inv bytes Hok) as (I & Nn & A & _).
  rewrite (decode_loop_spec ms (S (length bytes)) (reader_new bytes) [] 0
             (8 * ((widths ms + 7) / 8) - widths ms)); try assumption.
  - reflexivity.
  - pose proof (widths_ge ms). rewrite !nlen_length in *. lia.
  - rewrite Nn. exact Hnum.
  - rewrite A, Hlen. lia.
  - lia.
Qed.

(* ---------- end-to-end statements ---------- *)
Lemma matches_roundtrip_proof :
  forall ms, Forall wt ms ->
  forall bytes total, encode_matches ms = Some (bytes, total) ->
  decode_matches bytes = Ok (ms, total).
Proof.
  intros ms Hwt bytes total E.
  destruct (forallb encodable ms) eqn:He.
  - destruct (encode_matches_spec ms He) as (b' & E' & Hn & Hl & Hok).
    rewrite E in E'. inversion E'; subst. apply decode_encoded; assumption.
  - exfalso. unfold encode_matches in E. destruct writer_new_inv as (I0 & _).
    rewrite (encode_go_refuses ms writer_new 0 I0 Hwt He) in E. discriminate.
Qed.

Lemma encode_matches_defined_proof :
  forall ms, Forall wt ms ->
  (forallb encodable ms = true <-> exists bytes total, encode_matches ms = Some (bytes, total)).
Proof.
  intros ms Hwt. split.
  - intros He. destruct (encode_matches_spec ms He) as (b & E & _). eauto.
  - intros (b & t & E). destruct (forallb encodable ms) eqn:He; [reflexivity|].
    exfalso. unfold encode_matches in E. destruct writer_new_inv as (I0 & _).
    rewrite (encode_go_refuses ms writer_new 0 I0 Hwt He) in E. discriminate.
Qed.

Lemma match_roundtrip_proof :
  forall m, wt m ->
  forall n w, encode_match m writer_new = Some (n, w) ->
  exists r, decode_match (reader_new (finish w)) = Ok (m, n, r).
Proof.
  intros m Hwt n w E. destruct writer_new_inv as (I0 & N0 & L0).
  destruct (encodable m) eqn:He.
  - destruct (encode_match_spec m writer_new I0 He) as (w' & E' & I' & N' & L').
    rewrite E in E'. inversion E'; subst.
    destruct (finish_spec w' I') as (F1 & F2 & F3).
    destruct (reader_new_inv (finish w') F3) as (I & Nn & A & _).
    destruct (decode_match_spec m (reader_new (finish w')) 0 He Hwt I) as (r & D & _).
    + rewrite Nn, F1, N', N0, L0, (pack_rest (fields m) 0). cbn. lia.
    + rewrite A, F2, L', L0. lia.
    + exists r. exact D.
  - rewrite (encode_match_refuses m writer_new I0 Hwt He) in E. discriminate.
Qed.

Lemma bits_len_proof :
  forall m w n w', wt m -> winv w -> encode_match m w = Some (n, w') -> 8 <= n <= 59.
Proof.
  intros m w n w' Hwt I E. destruct (encodable m) eqn:He.
  - destruct (encode_match_spec m w I He) as (w1 & E1 & _). rewrite E in E1. inversion E1; subst.
    split; [apply width_ge_8|apply width_le_59].
  - rewrite (encode_match_refuses m w I Hwt He) in E. discriminate.
Qed.

(* the loop guard the code had before the fix (3 bits = one type tag) *)
Lemma padding_refuted_proof :
  exists ms bytes total, Forall wt ms /\ encode_matches ms = Some (bytes, total) /\
                         decode_matches_g 3 bytes = Err.
Proof.
  exists [Global 0 6], [1; 0; 0; 0; 48; 0; 0], 51. split.
  - constructor; [cbn; lia|constructor].
  - vm_compute. split; reflexivity.
Qed.

(* a Far3Long length the 30-bit form cannot carry passes validation and is refused by the encoder
   (before the fix it was written masked and decoded to another length) *)
Lemma far3long_unencodable_proof :
  exists m, wt m /\ validate m = true /\ encode_match m writer_new = None.
Proof.
  exists (Far3Long 0 1073774626). split; [cbn; lia|]. vm_compute. split; reflexivity.
Qed.
