(* C02 mechanism model.  Definitions only.

   Part A - PA-Zip bit-level match codec, src/compression/dict_zip/compression_types.rs as written:
     CompressionType::supports, Match::validate, BitWriter::{write_bits,flush,finish,bits_written},
     BitReader::{new,read_bits,has_bits,bit_position}, encode_variable_length, decode_variable_length,
     encode_match, decode_match, encode_matches, decode_matches.
     Machine integers are N; the u8/u16/u32 field types of `Match` are the predicate `wt`.
     Results: option for the writer side (None = Err), `res` for the reader side
     (Err = Result::Err, Panic = arithmetic overflow in a checked build).
   Part B - framing of the compressor layer, src/compression/mod.rs as written:
     HybridCompressor::{compress,decompress} over arbitrary component codecs,
     the 4-byte little-endian size fields of HuffmanCompressor / RansCompressor,
     Rans64Encoder::normalize_frequencies (src/entropy/rans.rs) which RansCompressor::decompress
     applies to the table read from the header. *)
From ZV.Common Require Import Base.
Open Scope N_scope.

(* ------------------------------------------------------------------ *)
(* Part A: PA-Zip bit-level codec                                      *)
(* ------------------------------------------------------------------ *)

Definition MAX_LITERAL_LENGTH : N := 32.
Definition MAX_RLE_LENGTH : N := 33.
Definition MAX_FAR1_SHORT_LENGTH : N := 33.
Definition MAX_FAR2_SHORT_LENGTH : N := 33.
Definition MAX_NEAR_SHORT_DISTANCE : N := 9.
Definition MAX_NEAR_SHORT_LENGTH : N := 5.
Definition MAX_FAR1_SHORT_DISTANCE : N := 257.
Definition MAX_FAR2_SHORT_DISTANCE : N := 65793.
Definition MAX_FAR2_LONG_DISTANCE : N := 65535.
Definition MAX_FAR3_LONG_DISTANCE : N := 16777215.
Definition MIN_GLOBAL_LENGTH : N := 6.
Definition MIN_FAR2_LONG_LENGTH : N := 34.
(* the constants in the order the harness reports them *)
Definition model_consts : list N :=
  [MAX_LITERAL_LENGTH; MAX_RLE_LENGTH; MAX_FAR1_SHORT_LENGTH; MAX_FAR2_SHORT_LENGTH;
   MAX_NEAR_SHORT_DISTANCE; MAX_NEAR_SHORT_LENGTH; MAX_FAR1_SHORT_DISTANCE;
   MAX_FAR2_SHORT_DISTANCE; MAX_FAR2_LONG_DISTANCE; MAX_FAR3_LONG_DISTANCE;
   MIN_GLOBAL_LENGTH; MIN_FAR2_LONG_LENGTH].

Inductive pmatch : Type :=
| Literal (length : N)
| Global (dict_position length : N)
| RLE (byte_value length : N)
| NearShort (distance length : N)
| Far1Short (distance length : N)
| Far2Short (distance length : N)
| Far2Long (distance length : N)
| Far3Long (distance length : N).

(* the Rust field types *)
Definition wt (m : pmatch) : Prop :=
  match m with
  | Literal l => l < 256
  | Global p l => p < 4294967296 /\ l < 65536
  | RLE b l => b < 256 /\ l < 256
  | NearShort d l => d < 256 /\ l < 256
  | Far1Short d l => d < 65536 /\ l < 256
  | Far2Short d l => d < 4294967296 /\ l < 256
  | Far2Long d l => d < 65536 /\ l < 65536
  | Far3Long d l => d < 4294967296 /\ l < 4294967296
  end.
Definition wtb (m : pmatch) : bool :=
  match m with
  | Literal l => l <? 256
  | Global p l => (p <? 4294967296) && (l <? 65536)
  | RLE b l => (b <? 256) && (l <? 256)
  | NearShort d l => (d <? 256) && (l <? 256)
  | Far1Short d l => (d <? 65536) && (l <? 256)
  | Far2Short d l => (d <? 4294967296) && (l <? 256)
  | Far2Long d l => (d <? 65536) && (l <? 65536)
  | Far3Long d l => (d <? 4294967296) && (l <? 4294967296)
  end.

Definition ctype (m : pmatch) : N :=
  match m with
  | Literal _ => 0 | Global _ _ => 1 | RLE _ _ => 2 | NearShort _ _ => 3
  | Far1Short _ _ => 4 | Far2Short _ _ => 5 | Far2Long _ _ => 6 | Far3Long _ _ => 7
  end.
Definition m_length (m : pmatch) : N :=
  match m with
  | Literal l => l | Global _ l => l | RLE _ l => l | NearShort _ l => l
  | Far1Short _ l => l | Far2Short _ l => l | Far2Long _ l => l | Far3Long _ l => l
  end.
Definition m_distance (m : pmatch) : N :=
  match m with
  | Literal _ => 0 | Global _ _ => 0 | RLE _ _ => 1 | NearShort d _ => d
  | Far1Short d _ => d | Far2Short d _ => d | Far2Long d _ => d | Far3Long d _ => d
  end.

(* CompressionType::supports *)
Definition supports (t d l : N) : bool :=
  match t with
  | 0 => (d =? 0) && (1 <=? l) && (l <=? MAX_LITERAL_LENGTH)
  | 1 => MIN_GLOBAL_LENGTH <=? l
  | 2 => (d =? 1) && (2 <=? l) && (l <=? MAX_RLE_LENGTH)
  | 3 => (2 <=? d) && (d <=? MAX_NEAR_SHORT_DISTANCE) && (2 <=? l) && (l <=? MAX_NEAR_SHORT_LENGTH)
  | 4 => (2 <=? d) && (d <=? MAX_FAR1_SHORT_DISTANCE) && (2 <=? l) && (l <=? MAX_FAR1_SHORT_LENGTH)
  | 5 => (258 <=? d) && (d <=? MAX_FAR2_SHORT_DISTANCE) && (2 <=? l) && (l <=? MAX_FAR2_SHORT_LENGTH)
  | 6 => (d <=? MAX_FAR2_LONG_DISTANCE) && (MIN_FAR2_LONG_LENGTH <=? l)
  | _ => (d <=? MAX_FAR3_LONG_DISTANCE) && (MIN_FAR2_LONG_LENGTH <=? l)
  end.

(* the "additional validation for specific types" block of Match::validate; the casts
   `MAX_.. as u8/u16/u32` are value preserving for the constants above *)
Definition validate_extra (m : pmatch) : bool :=
  match m with
  | Literal l => negb ((l =? 0) || (MAX_LITERAL_LENGTH <? l))
  | Global _ l => negb (l <? MIN_GLOBAL_LENGTH)
  | RLE _ l => negb ((l <? 2) || (MAX_RLE_LENGTH <? l))
  | NearShort d l => negb ((d <? 2) || (MAX_NEAR_SHORT_DISTANCE <? d))
                     && negb ((l <? 2) || (MAX_NEAR_SHORT_LENGTH <? l))
  | Far1Short d l => negb ((d <? 2) || (MAX_FAR1_SHORT_DISTANCE <? d))
                     && negb ((l <? 2) || (MAX_FAR1_SHORT_LENGTH <? l))
  | Far2Short d l => negb ((d <? 258) || (MAX_FAR2_SHORT_DISTANCE <? d))
                     && negb ((l <? 2) || (MAX_FAR2_SHORT_LENGTH <? l))
  | Far2Long d l => negb (MAX_FAR2_LONG_DISTANCE <? d) && negb (l <? MIN_FAR2_LONG_LENGTH)
  | Far3Long d l => negb (MAX_FAR3_LONG_DISTANCE <? d) && negb (l <? MIN_FAR2_LONG_LENGTH)
  end.
Definition validate (m : pmatch) : bool :=
  supports (ctype m) (m_distance m) (m_length m) && validate_extra m.

(* --- BitWriter { buffer: Vec<u8>, bit_buffer: u64, bit_count: u8 } --- *)
Record bitwriter := mkW { w_buf : list N; w_bb : N; w_cnt : N }.
Definition writer_new : bitwriter := mkW [] 0 0.

Definition mask_of (bits : N) : N :=
  if bits =? 32 then 4294967295 else N.shiftl 1 bits - 1.

(* while self.bit_count >= 8 { push(bit_buffer as u8); bit_buffer >>= 8; bit_count -= 8 } *)
Fixpoint drain (fuel : nat) (buf : list N) (bb cnt : N) : bitwriter :=
  match fuel with
  | O => mkW buf bb cnt
  | S f => if 8 <=? cnt
           then drain f (buf ++ [N.land bb 255]) (N.shiftr bb 8) (cnt - 8)
           else mkW buf bb cnt
  end.

(* bit_count < 8 on entry and bits <= 32, so at most 4 rounds *)
Definition write_bits (w : bitwriter) (value bits : N) : option bitwriter :=
  if 32 <? bits then None
  else if bits =? 0 then Some w
  else
    let masked := N.land value (mask_of bits) in
    let bb := w64 (N.lor (w_bb w) (N.shiftl masked (w_cnt w))) in
    Some (drain 5 (w_buf w) bb (w_cnt w + bits)).

Definition flush (w : bitwriter) : bitwriter :=
  if 0 <? w_cnt w then mkW (w_buf w ++ [N.land (w_bb w) 255]) 0 0 else w.
Definition finish (w : bitwriter) : list N := w_buf (flush w).
Definition bits_written (w : bitwriter) : N := nlen (w_buf w) * 8 + w_cnt w.

Definition obind {A B} (o : option A) (f : A -> option B) : option B :=
  match o with Some a => f a | None => None end.

(* --- BitReader { data, bit_buffer: u64, bit_count: u8, byte_pos } ---
   r_data is data[byte_pos..] *)
Record bitreader := mkR { r_data : list N; r_pos : N; r_bb : N; r_cnt : N }.
Definition reader_new (data : list N) : bitreader := mkR data 0 0 0.

(* while self.bit_count < bits && self.byte_pos < self.data.len() { ... } *)
Fixpoint fill (data : list N) (pos bb cnt bits : N) : bitreader :=
  match data with
  | [] => mkR data pos bb cnt
  | b :: t => if cnt <? bits
              then fill t (pos + 1) (w64 (N.lor bb (N.shiftl b cnt))) (cnt + 8) bits
              else mkR data pos bb cnt
  end.

Definition rmask_of (bits : N) : N :=
  if bits =? 32 then 4294967295 else N.shiftl 1 bits - 1.

Definition read_bits (r : bitreader) (bits : N) : option (N * bitreader) :=
  if 32 <? bits then None
  else
    let r1 := fill (r_data r) (r_pos r) (r_bb r) (r_cnt r) bits in
    if r_cnt r1 <? bits then None
    else Some (N.land (r_bb r1) (rmask_of bits),
               mkR (r_data r1) (r_pos r1) (N.shiftr (r_bb r1) bits) (r_cnt r1 - bits)).

Definition has_bits (r : bitreader) (bits : N) : bool :=
  bits <=? r_cnt r + nlen (r_data r) * 8.
Definition bit_position (r : bitreader) : N := r_pos r * 8 - r_cnt r.

(* --- encode side --- *)
(* encode_variable_length.  The third form stores value-32768 in 30 bits; since fix
   <see findings/C02.txt> a value that does not fit is refused instead of being masked. *)
Definition encode_variable_length (value : N) (w : bitwriter) : option bitwriter :=
  if value <? 128 then
    obind (write_bits w 0 1) (fun w => write_bits w value 7)
  else if value <? 32768 then
    obind (write_bits w 1 1) (fun w => obind (write_bits w 0 1) (fun w => write_bits w (value - 128) 15))
  else if 1073741824 <=? value - 32768 then None
  else
    obind (write_bits w 1 1) (fun w => obind (write_bits w 1 1) (fun w => write_bits w (value - 32768) 30)).

Definition encode_match (m : pmatch) (w : bitwriter) : option (N * bitwriter) :=
  if negb (validate m) then None else
  let initial := bits_written w in
  obind (write_bits w (ctype m) 3) (fun w =>
  obind (match m with
         | Literal l => write_bits w (l - 1) 5
         | Global p l => obind (write_bits w p 32) (fun w => write_bits w l 16)
         | RLE b l => obind (write_bits w b 8) (fun w => write_bits w (l - 2) 5)
         | NearShort d l => obind (write_bits w (d - 2) 3) (fun w => write_bits w (l - 2) 2)
         | Far1Short d l => obind (write_bits w (d - 2) 8) (fun w => write_bits w (l - 2) 5)
         | Far2Short d l => obind (write_bits w (d - 258) 16) (fun w => write_bits w (l - 2) 5)
         | Far2Long d l => obind (write_bits w d 16) (fun w => encode_variable_length (l - MIN_FAR2_LONG_LENGTH) w)
         | Far3Long d l => obind (write_bits w (N.land d 16777215) 24)
                                 (fun w => encode_variable_length (l - MIN_FAR2_LONG_LENGTH) w)
         end) (fun w => Some (bits_written w - initial, w))).

Fixpoint encode_matches_go (ms : list pmatch) (w : bitwriter) (total : N) : option (bitwriter * N) :=
  match ms with
  | [] => Some (w, total)
  | m :: t => obind (encode_match m w) (fun '(n, w') => encode_matches_go t w' (total + n))
  end.
Definition encode_matches (ms : list pmatch) : option (list N * N) :=
  obind (encode_matches_go ms writer_new 0) (fun '(w, total) => Some (finish w, total)).

(* --- decode side --- *)
Inductive res (A : Type) : Type :=
| Ok (a : A)
| Err
| Panic
| Fuel.
Arguments Ok {A} a.
Arguments Err {A}.
Arguments Panic {A}.
Arguments Fuel {A}.
Definition rbind {A B} (o : res A) (f : A -> res B) : res B :=
  match o with Ok a => f a | Err => Err | Panic => Panic | Fuel => Fuel end.
Definition rd (r : bitreader) (bits : N) : res (N * bitreader) :=
  match read_bits r bits with Some x => Ok x | None => Err end.

Definition decode_variable_length (r : bitreader) : res (N * bitreader) :=
  rbind (rd r 1) (fun '(first, r) =>
  if first =? 0 then rd r 7
  else rbind (rd r 1) (fun '(second, r) =>
       if second =? 0 then rbind (rd r 15) (fun '(v, r) => Ok (v + 128, r))
       else rbind (rd r 30) (fun '(v, r) => Ok (v + 32768, r)))).

Definition decode_match (r0 : bitreader) : res (pmatch * N * bitreader) :=
  let initial := bit_position r0 in
  rbind (rd r0 3) (fun '(t, r) =>
  rbind (match t with
         | 0 => rbind (rd r 5) (fun '(l, r) => Ok (Literal (l + 1), r))
         | 1 => rbind (rd r 32) (fun '(p, r) => rbind (rd r 16) (fun '(l, r) => Ok (Global p l, r)))
         | 2 => rbind (rd r 8) (fun '(b, r) => rbind (rd r 5) (fun '(l, r) => Ok (RLE b (l + 2), r)))
         | 3 => rbind (rd r 3) (fun '(d, r) => rbind (rd r 2) (fun '(l, r) => Ok (NearShort (d + 2) (l + 2), r)))
         | 4 => rbind (rd r 8) (fun '(d, r) => rbind (rd r 5) (fun '(l, r) => Ok (Far1Short (d + 2) (l + 2), r)))
         | 5 => rbind (rd r 16) (fun '(d, r) => rbind (rd r 5) (fun '(l, r) => Ok (Far2Short (d + 258) (l + 2), r)))
         | 6 => rbind (rd r 16) (fun '(d, r) =>
                rbind (decode_variable_length r) (fun '(v, r) =>
                (* `as u16 + MIN_FAR2_LONG_LENGTH as u16`: the cast truncates, the addition is checked *)
                let l := v mod 65536 + MIN_FAR2_LONG_LENGTH in
                if 65536 <=? l then Panic else Ok (Far2Long d l, r)))
         | 7 => rbind (rd r 24) (fun '(d, r) =>
                rbind (decode_variable_length r) (fun '(v, r) => Ok (Far3Long d (v + MIN_FAR2_LONG_LENGTH), r)))
         | _ => Err
         end) (fun '(m, r) =>
  if negb (validate m) then Err
  else Ok (m, bit_position r - initial, r))).

(* while reader.has_bits(guard) { decode_match; push; total += bits }.
   `guard` is 8 in the code since the fix recorded in findings/C02.txt (it was 3). *)
Fixpoint decode_matches_loop (guard : N) (fuel : nat) (r : bitreader) (acc : list pmatch) (total : N)
  : res (list pmatch * N) :=
  match fuel with
  | O => Fuel
  | S f => if has_bits r guard
           then rbind (decode_match r) (fun '(m, n, r') => decode_matches_loop guard f r' (acc ++ [m]) (total + n))
           else Ok (acc, total)
  end.
Definition decode_matches_g (guard : N) (buffer : list N) : res (list pmatch * N) :=
  decode_matches_loop guard (S (length buffer)) (reader_new buffer) [] 0.
Definition DECODE_GUARD : N := 8.
Definition decode_matches (buffer : list N) : res (list pmatch * N) := decode_matches_g DECODE_GUARD buffer.

(* ------------------------------------------------------------------ *)
(* Part B: framing in src/compression/mod.rs                            *)
(* ------------------------------------------------------------------ *)

(* A component codec as HybridCompressor sees it: compress/decompress : bytes -> Result<bytes>. *)
Record codec := mkCodec { c_compress : list N -> option (list N); c_decompress : list N -> option (list N) }.

(* the marker written when no component produced a shorter output (fix, see findings/C02.txt) *)
Definition HYBRID_RAW : N := 255.

(* for (i, c) in compressors.iter().enumerate() { if let Ok(z) = c.compress(data) { if z.len() < best.len() {..} } } *)
Fixpoint hybrid_select (cs : list codec) (i : N) (data : list N) (best : list N) (tag : N) : list N * N :=
  match cs with
  | [] => (best, tag)
  | c :: t => match c_compress c data with
              | Some z => if nlen z <? nlen best then hybrid_select t (i + 1) data z i
                          else hybrid_select t (i + 1) data best tag
              | None => hybrid_select t (i + 1) data best tag
              end
  end.
(* raw0 = true is the code before the fix: the untouched payload was tagged 0 *)
Definition hybrid_compress_g (raw_tag : N) (cs : list codec) (data : list N) : option (list N) :=
  match data with
  | [] => Some []
  | _ => let '(best, tag) := hybrid_select cs 0 data data raw_tag in Some (tag :: best)
  end.
Definition hybrid_decompress_g (raw_tag : N) (raw_enabled : bool) (cs : list codec) (data : list N) : option (list N) :=
  match data with
  | [] => Some []
  | id :: rest =>
      if raw_enabled && (id =? raw_tag) then Some rest
      else match nth_error cs (N.to_nat id) with
           | Some c => c_decompress c rest
           | None => None
           end
  end.
Definition hybrid_compress := hybrid_compress_g HYBRID_RAW.
Definition hybrid_decompress := hybrid_decompress_g HYBRID_RAW true.
(* the code before the fix *)
Definition hybrid_compress_old := hybrid_compress_g 0.
Definition hybrid_decompress_old := hybrid_decompress_g 0 false.

(* u32::to_le_bytes / from_le_bytes *)
Definition le32 (v : N) : list N :=
  [v mod 256; (v / 256) mod 256; (v / 65536) mod 256; (v / 16777216) mod 256].
Definition rd32 (l : list N) : option (N * list N) :=
  match l with
  | a :: b :: c :: d :: t => Some (a + 256 * b + 65536 * c + 16777216 * d, t)
  | _ => None
  end.
Fixpoint take_n (n : nat) (l : list N) : option (list N * list N) :=
  match n with
  | O => Some ([], l)
  | S k => match l with
           | [] => None
           | x :: t => match take_n k t with Some (a, b) => Some (x :: a, b) | None => None end
           end
  end.

(* HuffmanCompressor: tree_size(4) | tree | original_size(4) | payload, over an arbitrary
   entropy coder (enc / dec tree payload n) and tree (de)serialiser *)
Section HuffFrame.
  Variable tree : Type.
  Variable tree_bytes : list N.                         (* self.tree_data *)
  Variable enc : list N -> option (list N).             (* self.encoder.encode *)
  Variable deser : list N -> option tree.               (* HuffmanTree::deserialize *)
  Variable dec : tree -> list N -> N -> option (list N). (* HuffmanDecoder::new(tree).decode(payload, n) *)

  Definition huff_compress (data : list N) : option (list N) :=
    match data with
    | [] => Some []
    | _ => obind (enc data) (fun z =>
           Some (le32 (nlen tree_bytes mod 4294967296) ++ tree_bytes ++ le32 (nlen data mod 4294967296) ++ z))
    end.
  Definition huff_decompress (data : list N) : option (list N) :=
    match data with
    | [] => Some []
    | _ => if nlen data <? 8 then None else
           obind (rd32 data) (fun '(tsz, rest) =>
           if nlen data <? 8 + tsz then None else
           obind (take_n (N.to_nat tsz) rest) (fun '(tb, rest) =>
           obind (deser tb) (fun t =>
           obind (rd32 rest) (fun '(n, payload) => dec t payload n))))
    end.
End HuffFrame.

(* Rans64Encoder::normalize_frequencies(frequencies, total_freq), TOTFREQ = 4096.
   Pass 1 gives 1 to every used symbol, pass 2 distributes proportionally against the running
   remainder, pass 3 hands the rest one by one to the most frequent symbol whose share is
   below TOTFREQ/4, or to the first used symbol. *)
Definition TOTFREQ : N := 4096.
Definition pass1 (f : list N) : list N * N * N :=
  fold_left (fun '(acc, remaining, used) x =>
               if 0 <? x then (acc ++ [1], remaining - 1, used + 1) else (acc ++ [0], remaining, used))
            f ([], TOTFREQ, 0).
Fixpoint pass2 (f norm : list N) (total remaining : N) : list N * N :=
  match f, norm with
  | x :: ft, n :: nt =>
      if (0 <? x) && (0 <? remaining) then
        let additional := (x * remaining / total) mod 4294967296 in
        let to_add := N.min additional remaining in
        let '(rest, rem') := pass2 ft nt total (remaining - to_add) in
        ((n + to_add) :: rest, rem')
      else let '(rest, rem') := pass2 ft nt total remaining in (n :: rest, rem')
  | _, _ => ([], remaining)
  end.
(* (max_freq, max_idx) of the scan `if freq > max_freq && normalized[i] < TOTFREQ/4` *)
Fixpoint scan_max (f norm : list N) (i maxf maxi : N) : N * N :=
  match f, norm with
  | x :: ft, n :: nt => if (maxf <? x) && (n <? TOTFREQ / 4) then scan_max ft nt (i + 1) x i
                        else scan_max ft nt (i + 1) maxf maxi
  | _, _ => (maxf, maxi)
  end.
Fixpoint first_used (f : list N) (i : N) : N :=
  match f with
  | [] => 0
  | x :: t => if 0 <? x then i else first_used t (i + 1)
  end.
Fixpoint bump (norm : list N) (idx : N) : list N :=
  match norm with
  | [] => []
  | n :: t => if idx =? 0 then (n + 1) :: t else n :: bump t (idx - 1)
  end.
Fixpoint pass3 (fuel : nat) (f norm : list N) (remaining : N) : list N :=
  match fuel with
  | O => norm
  | S k => if 0 <? remaining then
             let '(maxf, maxi) := scan_max f norm 0 0 0 in
             let idx := if maxf =? 0 then first_used f 0 else maxi in
             pass3 k f (bump norm idx) (remaining - 1)
           else norm
  end.
Definition sum_list (f : list N) : N := fold_left N.add f 0.
(* None = Err("No symbols with non-zero frequency"); more than 4096 used symbols cannot occur with 256 entries *)
Definition normalize_frequencies (f : list N) : option (list N) :=
  let total := sum_list f in
  let '(n1, remaining, used) := pass1 f in
  if used =? 0 then None else
  let '(n2, rem2) := pass2 f n1 total remaining in
  Some (pass3 4096 f n2 rem2).
(* Rans64Encoder::new: the table the coder works with (all zero when the input is all zero) *)
Definition rans_table (f : list N) : option (list N) :=
  if sum_list f =? 0 then Some (map (fun _ => 0) f) else normalize_frequencies f.

(* RansCompressor before the fix: compress writes the normalised table T1 = rans_table raw
   into the header, decompress decodes with rans_table T1.  After the fix the raw counts are
   stored and both sides use rans_table raw. *)
Definition rans_decoder_table_old (raw : list N) : option (list N) := obind (rans_table raw) rans_table.
Definition rans_decoder_table (raw : list N) : option (list N) := rans_table raw.

(* ------------------------------------------------------------------ *)
(* evaluation entry points for harness-generated cases                  *)
(* ------------------------------------------------------------------ *)
Definition mk_match (k a b : N) : pmatch :=
  match k with
  | 0 => Literal b | 1 => Global a b | 2 => RLE a b | 3 => NearShort a b
  | 4 => Far1Short a b | 5 => Far2Short a b | 6 => Far2Long a b | _ => Far3Long a b
  end.
Definition un_match (m : pmatch) : N * N * N :=
  match m with
  | Literal l => (0, 0, l) | Global p l => (1, p, l) | RLE b l => (2, b, l) | NearShort d l => (3, d, l)
  | Far1Short d l => (4, d, l) | Far2Short d l => (5, d, l) | Far2Long d l => (6, d, l) | Far3Long d l => (7, d, l)
  end.
Fixpoint flat3 (l : list (N * N * N)) : list N :=
  match l with [] => [] | (a, b, c) :: t => a :: b :: c :: flat3 t end.
Fixpoint unflat3 (l : list N) : list (N * N * N) :=
  match l with a :: b :: c :: t => (a, b, c) :: unflat3 t | _ => [] end.
