(* Entry points evaluated by harness-generated case files for SimdLz77Compressor (definitions only).
   op 40  a = compressed bytes                  -> 1 :: bytes | [0] Err | [2] Panic | [3] fuel     (decompress)
   op 41  a = flat3 (kind, fa, fb) token list   -> 1 :: bytes | [0]                                (encode_matches)
   op 42  a = [d; len]                          -> [1; kind; fa; fb] | [0]      (create_pa_zip_match(choose_best..(d,len),d,len))
   op 43  a = flat3 token list                  -> 1 :: bytes | [0] | [2] | [3]                    (reconstruct_from_matches)
   op 44  a = compressed bytes                  -> 1 :: flat3 tokens | [0] | [2] | [3]            (decode_matches, guard 3)
   op 45  a = flat3 token list                  -> [1; advance...]  the `.length.max(1)` the loop advances by per token
   Ops 40 and 43 run the output-reversed reconstruction (equal to the model by ProofsSimdFast.v). *)
From ZV.Common Require Import Base Run.
From ZV.C02 Require Import Model ModelRec ModelSimd.
Open Scope N_scope.

Definition tokens_of (a : list N) : list pmatch := map (fun '(k, x, y) => mk_match k x y) (unflat3 a).
Definition out_res (r : res (list N)) : list N :=
  match r with Ok z => 1 :: z | Err => [0] | Panic => [2] | Fuel => [3] end.

Definition run_case_s (op : N) (a b : list N) : list N :=
  match op with
  | 40 => out_res (simd_decompress_fast a)
  | 41 => out_res (simd_encode (tokens_of a))
  | 42 => match a with
          | d :: len :: _ => match simd_token d len with
                             | Some m => let '(k, fa, fb) := un_match m in [1; k; fa; fb]
                             | None => [0]
                             end
          | _ => [98]
          end
  | 43 => out_res (simd_reconstruct_fast (tokens_of a))
  | 44 => out_res (rbind (simd_decode_matches a) (fun ms => Ok (flat3 (map un_match ms))))
  | 45 => 1 :: map simd_advance (tokens_of a)
  | _ => [99]
  end.
