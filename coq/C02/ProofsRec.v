(* The byte-level record format of PaZipCompressor: what apply_compression_strategy writes,
   decompress reads back as the bytes the strategy stands for - for every kind, every field value
   that fits its cast, any sequence of records. *)
From ZV.Common Require Import Base.
From ZV.C02 Require Import Model ModelRec ProofsFrame.
Open Scope N_scope.

Lemma firstn_len_app (d tail : list N) : firstn (length d) (d ++ tail) = d.
Proof. induction d as [|a d IH]; cbn [length firstn app]; [destruct tail; reflexivity|]. rewrite IH. reflexivity. Qed.
Lemma skipn_len_app (d tail : list N) : skipn (length d) (d ++ tail) = tail.
Proof. induction d as [|a d IH]; cbn [length skipn app]; [reflexivity|]. exact IH. Qed.
Lemma to_nat_nlen (d : list N) l : nlen d = l -> N.to_nat l = length d.
Proof. intros <-. rewrite nlen_length. apply Nnat.Nat2N.id. Qed.

Lemma literal_read dict l d tail out f :
  nlen d = l ->
  decompress_loop (S f) dict (0 :: l :: d ++ tail) out = decompress_loop f dict tail (out ++ d).
Proof.
  intros Hl. cbn [decompress_loop decompress_match].
  rewrite nlen_app, Hl. destruct (N.ltb_spec (l + nlen tail) l) as [Hx|_]; [exfalso; lia|].
  rewrite (to_nat_nlen d l Hl), firstn_len_app, skipn_len_app. reflexivity.
Qed.

Lemma le16_val v : v < 65536 -> v mod 256 + 256 * ((v / 256) mod 256) = v.
Proof. intros. lia. Qed.
Lemma le32_val v : v < 4294967296 ->
  v mod 256 + 256 * ((v / 256) mod 256) + 65536 * ((v / 65536) mod 256) + 16777216 * ((v / 16777216) mod 256) = v.
Proof. intros. lia. Qed.

Lemma record_step dict x out s out' :
  fits s = true -> sem dict x out s = Some out' ->
  forall tail f,
  decompress_loop (S f) dict (fst (write_record x (nlen out) s) ++ tail) out = decompress_loop f dict tail out'.
Proof.
  intros Hf Hs tail f. destruct s as [l|d l mt|off l]; cbn [fits sem write_record fst] in *.
  - (* Literal *)
    destruct (N.eqb_spec (nlen (slice x (nlen out) l)) l) as [Hl|]; [|discriminate].
    injection Hs as <-. cbn [app]. apply literal_read. exact Hl.
  - destruct (local_kind mt); cbn [fst app].
    + (* RLE *) injection Hs as <-. rewrite N.mod_small by lia. reflexivity.
    + (* NearShort *) rewrite !N.mod_small by lia.
      cbn [decompress_loop decompress_match]. rewrite Hs. reflexivity.
    + (* Far1Short *) rewrite !N.mod_small by lia. unfold le16. cbn [app].
      cbn [decompress_loop decompress_match]. rewrite le16_val by lia. rewrite Hs. reflexivity.
    + (* Far2Short *) rewrite !N.mod_small by lia. unfold le32. cbn [app].
      cbn [decompress_loop decompress_match]. rewrite le32_val by lia. rewrite Hs. reflexivity.
    + (* Far2Long *) rewrite !N.mod_small by lia. unfold le16. cbn [app].
      cbn [decompress_loop decompress_match]. rewrite !le16_val by lia. rewrite Hs. reflexivity.
    + (* Far3Long *) unfold le32. cbn [app].
      cbn [decompress_loop decompress_match]. rewrite !le32_val by lia. rewrite Hs. reflexivity.
    + (* fallback literal *)
      destruct (N.eqb_spec (nlen (slice x (nlen out) l)) l) as [Hl|]; [|discriminate].
      injection Hs as <-. rewrite N.mod_small by lia. apply literal_read. exact Hl.
  - (* Global *)
    destruct (N.leb_spec (off + l) (nlen dict)) as [Hle|]; [|discriminate].
    injection Hs as <-. rewrite !N.mod_small by lia. unfold le16. cbn [app].
    cbn [decompress_loop decompress_match]. rewrite !le16_val by lia.
    destruct (N.leb_spec (off + l) (nlen dict)) as [_|Hx]; [reflexivity|exfalso; lia].
Qed.

Lemma record_nonempty x pos s : (1 <= length (fst (write_record x pos s)))%nat.
Proof.
  destruct s as [l|d l mt|off l]; cbn [write_record fst]; [cbn [length]; lia| |cbn [length]; lia].
  destruct (local_kind mt); cbn [fst length]; lia.
Qed.

Lemma run_parse_decodes dict x ps : forall out o st fuel,
  run_parse dict x ps out = Some (o, st) -> (length st < fuel)%nat ->
  decompress_loop fuel dict st out = Some o.
Proof.
  induction ps as [|s t IH]; intros out o st fuel Hr Hfuel; cbn [run_parse] in Hr.
  - injection Hr as <- <-. destruct fuel; [exfalso; cbn in Hfuel; lia|]. reflexivity.
  - destruct (fits s) eqn:Hf; [|discriminate].
    destruct (sem dict x out s) as [out'|] eqn:Hs; [|discriminate].
    destruct (run_parse dict x t out') as [[o' st']|] eqn:Hr'; [|discriminate].
    injection Hr as <- <-.
    destruct fuel as [|f]; [exfalso; lia|].
    rewrite (record_step dict x out s out' Hf Hs).
    apply IH; [exact Hr'|]. pose proof (record_nonempty x (nlen out) s). rewrite app_length in Hfuel. lia.
Qed.

(* any parse of x into records that fit decodes to x *)
Lemma legacy_stream_roundtrip_proof :
  forall dict x ps stream, run_parse dict x ps [] = Some (x, stream) -> legacy_decompress dict stream = Some x.
Proof.
  intros dict x ps stream H. unfold legacy_decompress. eapply run_parse_decodes; [exact H|lia].
Qed.

(* the reader before the fix took Far1Short distances as one byte *)
Definition decompress_match_old_far1 (t : N) (rest out : list N) : option (list N * list N) :=
  match rest with
  | d :: l :: tl => with_rest tl (copy_from_distance out d l)
  | _ => Some (rest, out)
  end.
Lemma far1short_old_reader_refuted_proof :
  exists out d l tail,
    copy_from_distance out d l <> None /\
    decompress_match_old_far1 4 (le16 d ++ [l] ++ tail) out <>
    decompress_match [] 4 (le16 d ++ [l] ++ tail) out.
Proof.
  exists [1; 2; 3; 4; 5; 6; 7; 8; 9; 10], 10, 6, []. split; vm_compute; discriminate.
Qed.
