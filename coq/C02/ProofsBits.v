(* BitWriter / BitReader refine a little-endian number with a bit length.
   The stream written so far denotes   wnum w = LE(buffer) + bit_buffer * 2^(8*|buffer|)   of wlen w bits,
   the stream still to be read denotes rnum r = bit_buffer + LE(data[byte_pos..]) * 2^bit_count  of ravail r bits.
   write_bits adds (v mod 2^n) * 2^len, read_bits returns num mod 2^n and leaves num / 2^n. *)
From ZV.Common Require Import Base.
From ZV.C02 Require Import Model.
Open Scope N_scope.

Fixpoint le_num (l : list N) : N :=
  match l with [] => 0 | b :: t => b + 256 * le_num t end.

Lemma pow2_8n (n : N) : 2 ^ (8 * (1 + n)) = 256 * 2 ^ (8 * n).
Proof. replace (8 * (1 + n)) with (8 + 8 * n) by lia. rewrite N.pow_add_r. reflexivity. Qed.

Lemma le_num_app a b : le_num (a ++ b) = le_num a + 2 ^ (8 * nlen a) * le_num b.
Proof.
  induction a as [|x a IH]; cbn [app le_num nlen].
  - rewrite N.mul_0_r. cbn. lia.
  - rewrite IH, pow2_8n. lia.
Qed.

Lemma le_num_bound l : bytes_ok l -> le_num l < 2 ^ (8 * nlen l).
Proof.
  induction 1 as [|x l Hx Hl IH]; cbn [le_num nlen].
  - cbn. lia.
  - rewrite pow2_8n. unfold is_byte in Hx. lia.
Qed.

Lemma pow2_le_mono a b : a <= b -> 2 ^ a <= 2 ^ b.
Proof. intros. apply N.pow_le_mono_r; lia. Qed.
Lemma pow2_lt_mono a b : a < b -> 2 ^ a < 2 ^ b.
Proof. intros. apply N.pow_lt_mono_r; lia. Qed.

Lemma pow2_sub a b : b <= a -> 2 ^ a = 2 ^ b * 2 ^ (a - b).
Proof. intros. rewrite <- N.pow_add_r. f_equal. lia. Qed.

Lemma land_255 x : N.land x 255 = x mod 256.
Proof. change 255 with (N.ones 8). rewrite N.land_ones. reflexivity. Qed.

Lemma shiftr_8 x : N.shiftr x 8 = x / 256.
Proof. rewrite N.shiftr_div_pow2. reflexivity. Qed.

Lemma mask_of_ones bits : bits <= 32 -> mask_of bits = N.ones bits.
Proof.
  intros H. unfold mask_of. destruct (N.eqb_spec bits 32) as [->|Hne].
  - reflexivity.
  - rewrite N.shiftl_1_l, N.ones_equiv. lia.
Qed.

(* ---------------- writer ---------------- *)
Definition wnum (w : bitwriter) : N := le_num (w_buf w) + w_bb w * 2 ^ (8 * nlen (w_buf w)).
Definition wlen (w : bitwriter) : N := 8 * nlen (w_buf w) + w_cnt w.
Definition winv (w : bitwriter) : Prop := w_bb w < 2 ^ w_cnt w /\ w_cnt w < 8 /\ bytes_ok (w_buf w).

Lemma bits_written_wlen w : bits_written w = wlen w.
Proof. unfold bits_written, wlen. lia. Qed.

Lemma bytes_ok_app a b : bytes_ok a -> bytes_ok b -> bytes_ok (a ++ b).
Proof. unfold bytes_ok. intros. apply Forall_app. split; assumption. Qed.

Lemma drain_spec fuel : forall buf bb cnt,
  bb < 2 ^ cnt -> cnt < 8 * N.of_nat fuel -> bytes_ok buf ->
  let w := drain fuel buf bb cnt in
  winv w /\ wnum w = le_num buf + bb * 2 ^ (8 * nlen buf) /\ wlen w = 8 * nlen buf + cnt.
Proof.
  induction fuel as [|f IH]; intros buf bb cnt Hbb Hcnt Hok; cbn [drain].
  - exfalso. lia.
  - destruct (N.leb_spec 8 cnt) as [Hge|Hlt].
    + rewrite land_255, shiftr_8.
      assert (Hb' : bb / 256 < 2 ^ (cnt - 8)).
      { apply N.div_lt_upper_bound; [lia|]. change 256 with (2 ^ 8).
        rewrite <- N.pow_add_r. replace (8 + (cnt - 8)) with cnt by lia. assumption. }
      assert (Hok' : bytes_ok (buf ++ [bb mod 256])).
      { apply bytes_ok_app; [assumption|]. constructor; [|constructor]. unfold is_byte. lia. }
      specialize (IH (buf ++ [bb mod 256]) (bb / 256) (cnt - 8) Hb' ltac:(lia) Hok').
      cbn zeta in IH. destruct IH as (I & Nn & L). split; [exact I|]. split.
      * rewrite Nn. rewrite le_num_app, nlen_app. cbn [le_num nlen].
        replace (nlen buf + (1 + 0)) with (1 + nlen buf) by lia. rewrite pow2_8n.
        pose proof (N.div_mod bb 256 ltac:(lia)). nia.
      * rewrite L. rewrite nlen_app. cbn [nlen]. lia.
    + cbn zeta. unfold winv, wnum, wlen. cbn [w_buf w_bb w_cnt]. repeat split; try assumption; lia.
Qed.

Lemma write_bits_spec w v bits :
  winv w -> bits <= 32 ->
  exists w', write_bits w v bits = Some w' /\ winv w' /\
             wnum w' = wnum w + (v mod 2 ^ bits) * 2 ^ wlen w /\ wlen w' = wlen w + bits.
Proof.
  intros (Hbb & Hcnt & Hok) Hbits. unfold write_bits.
  destruct (N.ltb_spec 32 bits) as [Hc|_]; [exfalso; lia|].
  destruct (N.eqb_spec bits 0) as [->|Hnz].
  - exists w. split; [reflexivity|]. split; [repeat split; assumption|].
    rewrite N.pow_0_r, N.mod_1_r. split; lia.
  - rewrite mask_of_ones by assumption. rewrite N.land_ones.
    set (mv := v mod 2 ^ bits).
    assert (Hmv : mv < 2 ^ bits) by (apply N.mod_lt; apply N.pow_nonzero; discriminate).
    rewrite N.shiftl_mul_pow2.
    rewrite lor_disjoint_add by assumption.
    assert (Hsum : w_bb w + mv * 2 ^ w_cnt w < 2 ^ (w_cnt w + bits)).
    { rewrite N.pow_add_r. nia. }
    assert (H64 : 2 ^ (w_cnt w + bits) <= W64).
    { rewrite W64_eq. apply pow2_le_mono. lia. }
    unfold w64. rewrite N.mod_small by lia.
    pose proof (drain_spec 5 (w_buf w) (w_bb w + mv * 2 ^ w_cnt w) (w_cnt w + bits) Hsum ltac:(lia) Hok) as D.
    cbn zeta in D. destruct D as (I & Nn & L).
    eexists. split; [reflexivity|]. split; [exact I|]. split.
    + rewrite Nn. unfold wnum, wlen. rewrite N.pow_add_r. lia.
    + rewrite L. unfold wlen. lia.
Qed.

Lemma finish_spec w :
  winv w -> le_num (finish w) = wnum w /\ nlen (finish w) = (wlen w + 7) / 8 /\ bytes_ok (finish w).
Proof.
  intros (Hbb & Hcnt & Hok). unfold finish, flush, wnum, wlen.
  destruct (N.ltb_spec 0 (w_cnt w)) as [Hp|Hz]; cbn [w_buf].
  - rewrite land_255.
    assert (Hlt : w_bb w < 256).
    { eapply N.lt_le_trans; [exact Hbb|]. change 256 with (2 ^ 8). apply pow2_le_mono. lia. }
    rewrite N.mod_small by assumption.
    rewrite le_num_app, nlen_app. cbn [le_num nlen]. split; [lia|]. split.
    + replace (8 * nlen (w_buf w) + w_cnt w + 7) with ((w_cnt w + 7) + nlen (w_buf w) * 8) by lia.
      rewrite N.div_add by lia.
      assert ((w_cnt w + 7) / 8 = 1) by lia. lia.
    + apply bytes_ok_app; [assumption|]. constructor; [exact Hlt|constructor].
  - assert (w_cnt w = 0) by lia. assert (w_bb w = 0).
    { rewrite H in Hbb. cbn in Hbb. lia. }
    rewrite H, H0. split; [lia|]. split; [|assumption].
    replace (8 * nlen (w_buf w) + 0 + 7) with (7 + nlen (w_buf w) * 8) by lia.
    rewrite N.div_add by lia. reflexivity.
Qed.

Lemma writer_new_inv : winv writer_new /\ wnum writer_new = 0 /\ wlen writer_new = 0.
Proof. unfold winv, wnum, wlen, writer_new. cbn. repeat split; try lia. constructor. Qed.

(* ---------------- reader ---------------- *)
Definition rnum (r : bitreader) : N := r_bb r + le_num (r_data r) * 2 ^ r_cnt r.
Definition ravail (r : bitreader) : N := r_cnt r + 8 * nlen (r_data r).
Definition rinv (r : bitreader) : Prop :=
  r_bb r < 2 ^ r_cnt r /\ bytes_ok (r_data r) /\ r_cnt r <= 8 * r_pos r /\ r_cnt r < 40.

Lemma has_bits_ravail r bits : has_bits r bits = (bits <=? ravail r).
Proof. unfold has_bits, ravail. f_equal. lia. Qed.

Lemma fill_spec data : forall pos bb cnt bits,
  bb < 2 ^ cnt -> bytes_ok data -> cnt <= 8 * pos -> cnt < 40 -> bits <= 32 ->
  let r := fill data pos bb cnt bits in
  rinv r /\ rnum r = bb + le_num data * 2 ^ cnt /\ ravail r = cnt + 8 * nlen data /\
  bit_position r = 8 * pos - cnt /\ (bits <= r_cnt r \/ r_data r = []).
Proof.
  induction data as [|b t IH]; intros pos bb cnt bits Hbb Hok Hpos Hc Hbits; cbn [fill].
  - cbn zeta. unfold rinv, rnum, ravail, bit_position. cbn [r_data r_pos r_bb r_cnt le_num nlen].
    repeat split; try assumption; try lia. right. reflexivity.
  - destruct (N.ltb_spec cnt bits) as [Hlt|Hge].
    + inversion Hok as [|? ? Hb Ht]; subst. unfold is_byte in Hb.
      rewrite N.shiftl_mul_pow2, lor_disjoint_add by assumption.
      assert (Hsum : bb + b * 2 ^ cnt < 2 ^ (cnt + 8)).
      { rewrite N.pow_add_r. change (2 ^ 8) with 256. nia. }
      assert (H64 : 2 ^ (cnt + 8) <= W64) by (rewrite W64_eq; apply pow2_le_mono; lia).
      unfold w64. rewrite N.mod_small by lia.
      specialize (IH (pos + 1) (bb + b * 2 ^ cnt) (cnt + 8) bits Hsum Ht ltac:(lia) ltac:(lia) Hbits).
      cbn zeta in IH. destruct IH as (I & Nn & A & P & C).
      split; [exact I|]. split; [|split; [|split]].
      * rewrite Nn. cbn [le_num]. rewrite N.pow_add_r. change (2 ^ 8) with 256. lia.
      * rewrite A. cbn [nlen]. lia.
      * rewrite P. lia.
      * exact C.
    + cbn zeta. unfold rinv, rnum, ravail, bit_position. cbn [r_data r_pos r_bb r_cnt].
      repeat split; try assumption; try lia.
Qed.

Lemma rmask_of_ones bits : bits <= 32 -> rmask_of bits = N.ones bits.
Proof. exact (mask_of_ones bits). Qed.

(* a successful read *)
Lemma read_bits_spec r bits :
  rinv r -> bits <= 32 -> bits <= ravail r ->
  exists r', read_bits r bits = Some (rnum r mod 2 ^ bits, r') /\ rinv r' /\
             rnum r' = rnum r / 2 ^ bits /\ ravail r' = ravail r - bits /\
             bit_position r' = bit_position r + bits.
Proof.
  intros (Hbb & Hok & Hpos & Hc) Hbits Hav. unfold read_bits.
  destruct (N.ltb_spec 32 bits) as [Hx|_]; [exfalso; lia|].
  pose proof (fill_spec (r_data r) (r_pos r) (r_bb r) (r_cnt r) bits Hbb Hok Hpos Hc Hbits) as F.
  cbn zeta in F. set (r1 := fill (r_data r) (r_pos r) (r_bb r) (r_cnt r) bits) in *.
  destruct F as ((Ibb & Iok & Ipos & Ic) & Nn & A & P & C).
  assert (Hcnt : bits <= r_cnt r1).
  { destruct C as [C|C]; [exact C|]. unfold ravail in A, Hav. rewrite C in A. cbn [nlen] in A. lia. }
  destruct (N.ltb_spec (r_cnt r1) bits) as [Hx|_]; [exfalso; lia|].
  rewrite rmask_of_ones by assumption. rewrite N.land_ones, N.shiftr_div_pow2.
  assert (Hsplit : 2 ^ r_cnt r1 = 2 ^ bits * 2 ^ (r_cnt r1 - bits)) by (apply pow2_sub; assumption).
  assert (Hp : 0 < 2 ^ bits) by apply pow2_pos.
  assert (Hn1 : rnum r = r_bb r1 + (le_num (r_data r1) * 2 ^ (r_cnt r1 - bits)) * 2 ^ bits).
  { fold (rnum r) in Nn. rewrite <- Nn. unfold rnum. rewrite Hsplit. lia. }
  exists (mkR (r_data r1) (r_pos r1) (r_bb r1 / 2 ^ bits) (r_cnt r1 - bits)). split.
  - rewrite Hn1. rewrite N.mod_add by lia. reflexivity.
  - unfold rinv, rnum, ravail, bit_position. cbn [r_data r_pos r_bb r_cnt].
    split; [|split; [|split]].
    + repeat split; try assumption; try lia.
      apply N.div_lt_upper_bound; [lia|]. rewrite <- Hsplit. assumption.
    + fold (rnum r). rewrite Hn1. rewrite N.div_add by lia. reflexivity.
    + fold (ravail r1). fold (ravail r). unfold ravail in A |- *. lia.
    + unfold bit_position in P. fold (bit_position r). unfold bit_position in P |- *. lia.
Qed.

(* the form used when walking a packed stream: the low field comes out, the rest stays *)
Lemma read_field r a b wd :
  rinv r -> rnum r = a + 2 ^ wd * b -> a < 2 ^ wd -> wd <= 32 -> wd <= ravail r ->
  exists r', rd r wd = Ok (a, r') /\ rinv r' /\ rnum r' = b /\ ravail r' = ravail r - wd /\
             bit_position r' = bit_position r + wd.
Proof.
  intros I Hn Ha Hw Hav. destruct (read_bits_spec r wd I Hw Hav) as (r' & E & I' & N' & A' & P').
  exists r'. unfold rd. rewrite E.
  assert (Hp : 0 < 2 ^ wd) by apply pow2_pos.
  rewrite Hn in *. replace (a + 2 ^ wd * b) with (a + b * 2 ^ wd) in * by lia.
  rewrite N.mod_add, N.mod_small in * by lia.
  rewrite N.div_add, N.div_small in N' by lia.
  split; [reflexivity|]. split; [exact I'|]. split; [lia|]. split; assumption.
Qed.

Lemma read_fails r bits : rinv r -> bits <= 32 -> ravail r < bits -> read_bits r bits = None.
Proof.
  intros (Hbb & Hok & Hpos & Hc) Hbits Hav. unfold read_bits.
  destruct (N.ltb_spec 32 bits) as [Hx|_]; [reflexivity|].
  pose proof (fill_spec (r_data r) (r_pos r) (r_bb r) (r_cnt r) bits Hbb Hok Hpos Hc Hbits) as F.
  cbn zeta in F. set (r1 := fill (r_data r) (r_pos r) (r_bb r) (r_cnt r) bits) in *.
  destruct F as (_ & _ & A & _ & _).
  destruct (N.ltb_spec (r_cnt r1) bits) as [Hx|Hge]; [reflexivity|].
  exfalso. unfold ravail in A, Hav. lia.
Qed.

Lemma reader_new_inv data :
  bytes_ok data -> rinv (reader_new data) /\ rnum (reader_new data) = le_num data /\
                   ravail (reader_new data) = 8 * nlen data /\ bit_position (reader_new data) = 0.
Proof.
  intros Hok. unfold rinv, rnum, ravail, bit_position, reader_new. cbn [r_data r_pos r_bb r_cnt].
  rewrite N.pow_0_r. repeat split; try assumption; lia.
Qed.
