(* C02: HybridCompressor over its three real components (Huffman, rANS, dictionary - ModelComp.v): the component round-trip
   laws that hybrid_roundtrip takes as hypotheses are discharged by the end-to-end theorems of ProofsComp.v / ProofsHuffC.v.
   The component laws hold for payloads up to MAX_DECOMPRESSED_SIZE only (the rANS and dictionary decoders refuse more),
   so the selector proof is redone for the payload at hand. *)
From ZV.Common Require Import Base.
From Coq Require Import Permutation.
From ZV.C02 Require Import Model ModelComp ProofsFrame ProofsComp ProofsHuffC.
From ZV.C01 Require ProofsHeap.
Open Scope N_scope.

(* the component's round-trip law at one payload *)
Definition codec_ok_at (data : list N) (c : codec) : Prop :=
  forall z, c_compress c data = Some z -> c_decompress c z = Some data.

Theorem hybrid_roundtrip_at_proof :
  forall cs data, Forall (codec_ok_at data) cs -> nlen cs <= 255 ->
  exists z, hybrid_compress cs data = Some z /\ hybrid_decompress cs z = Some data.
Proof.
  intros cs data Hok Hn. unfold hybrid_compress, hybrid_compress_g.
  destruct data as [|d0 dt]; [exists []; split; reflexivity|]. set (data := d0 :: dt) in *.
  pose proof (hybrid_select_inv HYBRID_RAW data cs [] data HYBRID_RAW) as Hsel. cbn [app nlen] in Hsel.
  specialize (Hsel (or_introl (conj eq_refl eq_refl))).
  destruct (hybrid_select cs 0 data data HYBRID_RAW) as [best tag].
  exists (tag :: best). split; [reflexivity|]. unfold hybrid_decompress, hybrid_decompress_g. cbn [andb].
  destruct Hsel as [[-> ->]|[Hlt (c & Hnth & Hc)]].
  - rewrite N.eqb_refl. reflexivity.
  - destruct (N.eqb_spec tag HYBRID_RAW) as [E|_]; [unfold HYBRID_RAW in E; lia|].
    rewrite Hnth. rewrite Forall_forall in Hok. apply (Hok c); [eapply nth_error_In; exact Hnth|exact Hc].
Qed.

(* the three components HybridCompressor::new builds from one training corpus *)
Definition huff_codec (ord2 : H.table -> H.table) (h : huff_inst) : codec :=
  mkCodec (huffc_compress h) (huffc_decompress ord2 h).
Definition rans_codec (c : rans_inst) : codec := mkCodec (rans_compress c) (rans_decompress c).
Definition dict_codec : codec := mkCodec (dict_compress tt) (dict_decompress tt).

(* HybridCompressor trained on any non-empty corpus, every payload of at most MAX_DECOMPRESSED_SIZE bytes: compress yields
   an output and decompress inverts it - whichever component wins, also when none helps, also when components refuse (symbols
   the corpus lacks) *)
Theorem hybrid_compressor_roundtrip_proof :
  forall train syms heap ord1 ord2 x,
    train <> [] -> nlen train < W32 ->
    (length syms <= 256)%nat -> NoDup syms -> ProofsHeap.heap_run (map H.Leaf syms) heap ->
    (forall t, Permutation (ord1 t) t) -> (forall t, Permutation (ord2 t) t) ->
    nlen x <= L.MAX_DECOMPRESSED_SIZE ->
    exists ht rc cs z,
      H.ht_from_heap syms heap = Some ht /\ rans_new train = Some rc /\
      cs = [huff_codec ord2 (huff_new_from ord1 ht); rans_codec rc; dict_codec] /\
      hybrid_compress cs x = Some z /\ hybrid_decompress cs z = Some x.
Proof.
  intros train syms heap ord1 ord2 x Ht Htl Hlen Hnd Hrun Ho1 Ho2 Hx.
  destruct (ProofsHeap.from_frequencies_roundtrip_proof syms heap [] Hlen Hrun ltac:(intros s [])) as (ht & _ & Hht & _).
  destruct (rans_new_defined train Ht Htl) as (rc & Erc & Hcounts & Etab).
  exists ht, rc. eexists. 
  assert (Hok : Forall (codec_ok_at x) [huff_codec ord2 (huff_new_from ord1 ht); rans_codec rc; dict_codec]).
  { constructor; [|constructor; [|constructor; [|constructor]]].
    - (* Huffman: a frame that was written decodes *)
      intros z Hz. cbn [c_compress c_decompress huff_codec] in *.
      apply (huffman_frame_law syms heap ht ord1 ord2 Hlen Hnd Hrun Hht Ho1 Ho2 x z); [|exact Hz].
      unfold L.MAX_DECOMPRESSED_SIZE, W32 in *. lia.
    - intros z Hz. cbn [c_compress c_decompress rans_codec] in *.
      apply (ProofsComp.rans_frame_roundtrip rc x z); [rewrite Hcounts; apply counts_of_length|rewrite Hcounts; now apply counts_bound|
        rewrite Hcounts; exact Etab|exact Hx|exact Hz].
    - intros z Hz. cbn [c_compress c_decompress dict_codec] in *.
      destruct (dict_compressor_roundtrip_proof [0] [0] x ltac:(discriminate) ltac:(discriminate) Hx) as ([] & [] & z' & _ & _ & Hc & Hd & _).
      rewrite Hc in Hz. injection Hz as <-. exact Hd. }
  destruct (hybrid_roundtrip_at_proof _ x Hok ltac:(cbn; lia)) as (z & Hc & Hd).
  exists z. repeat split; try reflexivity; assumption.
Qed.
