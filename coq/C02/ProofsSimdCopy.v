(* copy_backward_reference of SimdLz77Compressor: the loop
     for i in 0..length { src = start + i % (output.len() - start); push(output[src]) }
   re-reads output.len() in every round, so the modulus is distance + i and i % (distance + i) = i:
   it is the plain byte-by-byte overlapping LZ copy, i.e. the periodic extension of the last
   `distance` bytes (copy_from_distance of ModelRec.v).  Neither panic of the model is reachable. *)
From ZV.Common Require Import Base Run.
From ZV.C02 Require Import Model ModelRec ModelSimd.
Open Scope N_scope.

(* ---------- list helpers ---------- *)
Lemma nth_firstn_lt {A} (d : A) : forall n (l : list A) i, (i < n)%nat -> nth i (firstn n l) d = nth i l d.
Proof.
  induction n as [|n IH]; intros l i H; [exfalso; lia|].
  destruct l as [|a l]; cbn [firstn]; [reflexivity|].
  destruct i as [|i]; cbn [nth]; [reflexivity|]. apply IH. lia.
Qed.
Lemma nth_skipn_add {A} (d : A) : forall p (l : list A) i, nth i (skipn p l) d = nth (p + i) l d.
Proof.
  induction p as [|p IH]; intros l i; cbn [skipn Nat.add]; [reflexivity|].
  destruct l as [|a l]; cbn [nth]; [destruct i; reflexivity|]. apply IH.
Qed.
Lemma firstn_add {A} : forall a b (l : list A), firstn (a + b) l = firstn a l ++ firstn b (skipn a l).
Proof.
  induction a as [|a IH]; intros b l; cbn [Nat.add firstn skipn app]; [reflexivity|].
  destruct l as [|x l]; cbn [firstn skipn app]; [destruct b; reflexivity|]. rewrite IH. reflexivity.
Qed.
Lemma nth_map_seq {B} (f : nat -> B) (d : B) n len : (n < len)%nat -> nth n (map f (seq 0 len)) d = f n.
Proof.
  intros H. rewrite (nth_indep _ d (f 0%nat)) by (rewrite map_length, seq_length; exact H).
  rewrite map_nth, seq_nth by exact H. reflexivity.
Qed.
Lemma eqb_ln_eq a : forall b, eqb_ln a b = true -> a = b.
Proof.
  induction a as [|x a IH]; intros [|y b] H; cbn [eqb_ln] in H; try discriminate; [reflexivity|].
  apply andb_true_iff in H. destruct H as [H1 H2]. apply N.eqb_eq in H1. subst. f_equal. apply IH. exact H2.
Qed.
Lemma eqb_ln_refl a : eqb_ln a a = true.
Proof. induction a as [|x a IH]; cbn [eqb_ln]; [reflexivity|]. rewrite N.eqb_refl, IH. reflexivity. Qed.

Lemma mod_sub_period a d : d <> 0 -> d <= a -> (a - d) mod d = a mod d.
Proof.
  intros Hd Hle. replace a with ((a - d) + 1 * d) at 2 by lia. rewrite N.mod_add by exact Hd. reflexivity.
Qed.

(* ---------- the copy loop ---------- *)
(* the j-th byte of the periodic extension of out[start ..] with period d *)
Definition pext (out : list N) (start d : N) (j : nat) : N :=
  nth (N.to_nat (start + N.of_nat j mod d)) out 0.

Lemma copy_loop_spec out d :
  1 <= d <= nlen out ->
  forall k j,
  simd_copy_loop k (N.of_nat j) (nlen out - d) (out ++ map (pext out (nlen out - d) d) (seq 0 j)) =
  Ok (out ++ map (pext out (nlen out - d) d) (seq 0 (j + k))).
Proof.
  intros Hd. set (start := nlen out - d). set (f := pext out start d).
  induction k as [|k IH]; intros j.
  - cbn [simd_copy_loop]. rewrite Nat.add_0_r. reflexivity.
  - cbn [simd_copy_loop].
    assert (Hlen : nlen (out ++ map f (seq 0 j)) = nlen out + N.of_nat j).
    { rewrite nlen_app. f_equal. rewrite nlen_length, map_length, seq_length. reflexivity. }
    rewrite Hlen.
    assert (Hm : nlen out + N.of_nat j - start = d + N.of_nat j) by (unfold start; lia).
    rewrite Hm.
    destruct (N.eqb_spec (d + N.of_nat j) 0) as [Hz|_]; [exfalso; lia|].
    rewrite (N.mod_small (N.of_nat j) (d + N.of_nat j)) by lia.
    assert (Hnth : nth_error (out ++ map f (seq 0 j)) (N.to_nat (start + N.of_nat j)) = Some (f j)).
    { pose proof (nlen_length out) as Ho.
      destruct (N.ltb_spec (N.of_nat j) d) as [Hlt|Hge].
      - rewrite nth_error_app1 by lia.
        rewrite (nth_error_nth' out 0) by lia. f_equal.
        unfold f, pext. rewrite N.mod_small by exact Hlt. reflexivity.
      - rewrite nth_error_app2 by lia.
        replace (N.to_nat (start + N.of_nat j) - length out)%nat with (j - N.to_nat d)%nat by (unfold start; lia).
        rewrite (nth_error_nth' _ 0) by (rewrite map_length, seq_length; lia). f_equal.
        rewrite nth_map_seq by lia. unfold f, pext. do 3 f_equal.
        replace (N.of_nat (j - N.to_nat d)) with (N.of_nat j - d) by lia.
        apply mod_sub_period; lia. }
    rewrite Hnth.
    replace (N.of_nat j + 1) with (N.of_nat (S j)) by lia.
    replace ((out ++ map f (seq 0 j)) ++ [f j]) with (out ++ map f (seq 0 (S j))).
    + replace (j + S k)%nat with (S j + k)%nat by lia. apply IH.
    + rewrite seq_S, map_app, app_assoc. reflexivity.
Qed.

(* copy_backward_reference IS the LZ copy: same refusals, same bytes, no panic *)
Lemma simd_copy_is_lz_copy_proof :
  forall out d len,
  simd_copy_backward out d len =
  match copy_from_distance out d len with Some o => Ok o | None => Err end.
Proof.
  intros out d len. unfold simd_copy_backward, copy_from_distance.
  destruct ((d =? 0) || (nlen out <? d)) eqn:Hc; [reflexivity|].
  apply orb_false_iff in Hc. destruct Hc as [H0 Hlt].
  apply N.eqb_neq in H0. apply N.ltb_ge in Hlt.
  pose proof (copy_loop_spec out d ltac:(lia) (N.to_nat len) 0%nat) as L.
  cbn [seq map Nat.add] in L. rewrite app_nil_r in L. exact L.
Qed.

(* stated directly: the bytes appended are out[|out| - d + (i mod d)], i < len *)
Lemma simd_copy_periodic_proof :
  forall out d len, 1 <= d <= nlen out ->
  simd_copy_backward out d len =
  Ok (out ++ map (fun i => nth (N.to_nat (nlen out - d + N.of_nat i mod d)) out 0) (seq 0 (N.to_nat len))).
Proof.
  intros out d len Hd. rewrite simd_copy_is_lz_copy_proof. unfold copy_from_distance.
  destruct (N.eqb_spec d 0) as [Hz|_]; [exfalso; lia|].
  destruct (N.ltb_spec (nlen out) d) as [Hx|_]; [exfalso; lia|]. reflexivity.
Qed.

Example simd_copy_inhabited :
  simd_copy_backward [1; 2; 3] 2 5 = Ok [1; 2; 3; 2; 3; 2; 3; 2] /\
  copy_from_distance [1; 2; 3] 2 5 = Some [1; 2; 3; 2; 3; 2; 3; 2].
Proof. split; vm_compute; reflexivity. Qed.

(* ---------- a true match is reproduced by the copy ---------- *)
Lemma true_match_periodic x pos d len :
  true_match x pos d len ->
  forall i, i < len -> nth (N.to_nat (pos + i)) x 0 = nth (N.to_nat (pos - d + i mod d)) x 0.
Proof.
  intros (Hd & Hl & Hb & Heq) i.
  induction i as [i IH] using (well_founded_induction N.lt_wf_0). intros Hi.
  destruct (N.ltb_spec i d) as [Hlt|Hge].
  - rewrite N.mod_small by exact Hlt. rewrite (Heq i Hi). f_equal. lia.
  - rewrite (Heq i Hi). replace (pos + i - d) with (pos + (i - d)) by lia.
    rewrite (IH (i - d)) by lia. rewrite mod_sub_period by lia. reflexivity.
Qed.

Lemma firstn_slice (x : list N) pos len :
  firstn (N.to_nat (pos + len)) x = firstn (N.to_nat pos) x ++ slice x pos len.
Proof.
  unfold slice. replace (N.to_nat (pos + len)) with (N.to_nat pos + N.to_nat len)%nat by lia.
  apply firstn_add.
Qed.
Lemma nlen_firstn (x : list N) pos : pos <= nlen x -> nlen (firstn (N.to_nat pos) x) = pos.
Proof. intros H. rewrite nlen_length in *. rewrite firstn_length_le by lia. lia. Qed.

Lemma true_match_copy x pos d len :
  true_match x pos d len ->
  copy_from_distance (firstn (N.to_nat pos) x) d len = Some (firstn (N.to_nat (pos + len)) x).
Proof.
  intros T. pose proof (true_match_periodic x pos d len T) as P.
  destruct T as (Hd & Hl & Hb & Heq).
  unfold copy_from_distance. rewrite nlen_firstn by lia.
  destruct (N.eqb_spec d 0) as [Hz|_]; [exfalso; lia|].
  destruct (N.ltb_spec pos d) as [Hx|_]; [exfalso; lia|]. cbn [orb].
  rewrite firstn_slice. do 2 f_equal. unfold slice.
  pose proof (nlen_length x) as Hx.
  apply (nth_ext _ _ 0 0).
  - rewrite map_length, seq_length, firstn_length, skipn_length. lia.
  - intros n Hn. rewrite map_length, seq_length in Hn.
    rewrite nth_map_seq by exact Hn.
    rewrite (nth_firstn_lt 0 (N.to_nat len)) by exact Hn. rewrite nth_skipn_add.
    assert (Hmod : N.of_nat n mod d < d) by (apply N.mod_lt; lia).
    rewrite (nth_firstn_lt 0 (N.to_nat pos)) by lia.
    rewrite <- (P (N.of_nat n)) by lia. f_equal. lia.
Qed.

(* ---------- the boolean checkers ---------- *)
Lemma true_matchb_true x pos d len : true_matchb x pos d len = true -> true_match x pos d len.
Proof.
  unfold true_matchb, true_match. intros H.
  apply andb_true_iff in H. destruct H as [H Hf].
  apply andb_true_iff in H. destruct H as [H H4].
  apply andb_true_iff in H. destruct H as [H H3].
  apply andb_true_iff in H. destruct H as [H1 H2].
  apply N.leb_le in H1, H2, H3, H4.
  split; [lia|]. split; [exact H3|]. split; [exact H4|].
  intros i Hi. rewrite forallb_forall in Hf.
  specialize (Hf (N.to_nat i)). rewrite Nnat.N2Nat.id in Hf.
  apply N.eqb_eq. apply Hf. apply in_seq. lia.
Qed.

Lemma finder_soundb_true x find : finder_soundb x find = true -> finder_sound x find.
Proof.
  unfold finder_soundb, finder_sound. intros H pos d len Hp Hf.
  rewrite forallb_forall in H. specialize (H (N.to_nat pos)).
  rewrite Nnat.N2Nat.id, Hf in H. apply true_matchb_true. apply H.
  apply in_seq. rewrite nlen_length in Hp. lia.
Qed.
