(* PA-Zip compress: the hypotheses of the positive theorems are inhabited by non-trivial runs (examples),
   the global-offset guard is needed, and the repaired candidate generator drops exactly the unwritable matches. *)
From ZV.Common Require Import Base.
From ZV.C02 Require Import Model ModelRec ProofsRec ModelPaZip ProofsPaZip ProofsPaZipBlocks.
Open Scope N_scope.

(* ---------------- examples ---------------- *)
Definition ex_lit : answer := mkAns None None 0.
Definition ex_x : list N := [1; 2; 3; 1; 2; 3; 1; 2; 3; 9; 9; 9; 9; 9; 5; 6; 7; 8].
Definition ex_dict : list N := [0; 0; 5; 6; 7; 8; 0].
(* a literal, a literal chosen by an out-of-range index, a Far1Short-typed local match (distance 3, length 6,
   overlapping its source), an RLE-typed one (distance 1), a global match; surplus answers are never looked at *)
Definition ex_answers : list answer :=
  [ex_lit; mkAns None None 5; ex_lit; mkAns (Some (3, 6)) None 1; ex_lit; mkAns (Some (1, 4)) None 1;
   mkAns None (Some (2, 4)) 1] ++ repeat ex_lit 11.

Example pazip_sequential_example :
  forall gl : bool,
    seq_hyp gl ex_dict 19 ex_x ex_answers /\
    map (chosen gl true) (firstn 7 ex_answers)
    = [SLiteral 1; SLiteral 1; SLiteral 1; SLocal 3 6 4; SLiteral 1; SLocal 1 4 2; SGlobal 2 4] /\
    compress_sequential (chosen gl true) 19 ex_x ex_answers [] []
    = CDone ([0; 1; 1; 0; 1; 2; 0; 1; 3; 4; 3; 0; 6; 0; 1; 9; 2; 9; 4; 1; 2; 0; 4; 0],
             [0; 1; 1; 0; 1; 2; 0; 1; 3; 4; 3; 0; 6; 0; 1; 9; 2; 9; 4; 1; 2; 0; 4; 0]).
Proof.
  intros gl. split; [apply seq_hypb_sound; destruct gl; vm_compute; reflexivity|].
  split; destruct gl; vm_compute; reflexivity.
Qed.

(* block-wise path with small parameters: two blocks of 4 bytes, positions and distances relative to the block;
   block 0 = [1;2;1;2] as literal, literal, NearShort-typed match (distance 2, length 2);
   block 1 = [5;5;5;5] as literal, RLE-typed match (distance 1, length 3); a stale scratch buffer on entry *)
Definition ex_bx : list N := [1; 2; 1; 2; 5; 5; 5; 5].
Definition ex_banswers : list (list answer) :=
  [[ex_lit; ex_lit; mkAns (Some (2, 2)) None 1; ex_lit];
   [ex_lit; mkAns (Some (1, 3)) None 1; ex_lit; ex_lit]].

Example pazip_compress_example :
  forall gl : bool,
    blockwise 8 true 1 ex_bx = true /\
    compress_hyp gl [] 8 4 true 1 9 ex_bx ex_banswers /\
    pz_compress gl 8 4 true 1 9 ex_bx ex_banswers [77; 77] []
    = CDone ([0; 1; 5; 2; 5; 3], [0; 1; 1; 0; 1; 2; 3; 2; 2; 0; 1; 5; 2; 5; 3]).
Proof.
  intros gl. split; [reflexivity|]. split; [apply compress_hypb_sound; destruct gl; vm_compute; reflexivity|].
  destruct gl; vm_compute; reflexivity.
Qed.
(* the same payload through the sequential path (multithreading off) *)
Example pazip_compress_example_seq :
  forall gl : bool,
    blockwise 8 false 1 ex_bx = false /\
    compress_hyp gl [] 8 4 false 1 9 ex_bx [[ex_lit; ex_lit; mkAns (Some (2, 2)) None 1; ex_lit;
                                              mkAns (Some (1, 3)) None 1; ex_lit; ex_lit; ex_lit]].
Proof.
  intros gl. split; [reflexivity|]. apply compress_hypb_sound; destruct gl; vm_compute; reflexivity.
Qed.

(* ---------------- the global-offset guard (fix a57c307) ---------------- *)
Definition gg_dict : list N := repeat 0 (N.to_nat 65536) ++ [1; 2; 3; 4; 5; 6].
Definition gg_x : list N := [1; 2; 3; 4; 5; 6].
Definition gg_answers : list answer := mkAns None (Some (65536, 6)) 1 :: repeat ex_lit 5.

Theorem pazip_global_guard_needed_proof :
  exists dict x answers fuel,
    (length x < fuel)%nat /\ seq_hyp_g false false dict fuel x answers /\
    exists z, compress_sequential (chosen false false) fuel x answers [] [] = CDone (z, z) /\
              legacy_decompress dict z <> Some x.
Proof.
  exists gg_dict, gg_x, gg_answers, 7%nat. split; [cbn; lia|].
  split; [apply seq_hypb_g_sound; vm_compute; reflexivity|].
  exists [1; 0; 0; 6; 0]. split; [vm_compute; reflexivity|]. vm_compute. discriminate.
Qed.
(* with the guard the same answers give a literal run that round-trips (an instance of the positive theorem) *)
Example pazip_global_guard_example :
  seq_hyp false gg_dict 7 gg_x gg_answers /\
  map (chosen false true) gg_answers = repeat (SLiteral 1) 6.
Proof. split; [apply seq_hypb_sound; vm_compute; reflexivity|vm_compute; reflexivity]. Qed.

(* ---------------- the repaired candidate generator ---------------- *)
(* length 0 has no type *)
Lemma choose_type_legacy_len0 d : choose_type_legacy d 0 = None.
Proof.
  unfold choose_type_legacy, legacy_type_candidates. cbn [filter].
  replace (supports 0 d 0) with false by (cbv beta iota delta [supports MAX_LITERAL_LENGTH]; lia).
  replace (supports 2 d 0) with false by (cbv beta iota delta [supports MAX_RLE_LENGTH]; lia).
  replace (supports 3 d 0) with false
    by (cbv beta iota delta [supports MAX_NEAR_SHORT_DISTANCE MAX_NEAR_SHORT_LENGTH]; lia).
  replace (supports 4 d 0) with false
    by (cbv beta iota delta [supports MAX_FAR1_SHORT_DISTANCE MAX_FAR1_SHORT_LENGTH]; lia).
  replace (supports 5 d 0) with false
    by (cbv beta iota delta [supports MAX_FAR2_SHORT_DISTANCE MAX_FAR2_SHORT_LENGTH]; lia).
  replace (supports 6 d 0) with false
    by (cbv beta iota delta [supports MAX_FAR2_LONG_DISTANCE MIN_FAR2_LONG_LENGTH]; lia).
  replace (supports 7 d 0) with false
    by (cbv beta iota delta [supports MAX_FAR3_LONG_DISTANCE MIN_FAR2_LONG_LENGTH]; lia).
  reflexivity.
Qed.

(* every candidate it produces fits its record, whatever the match finders answer *)
Lemma guarded_candidates_fit_proof : forall loc glo s, In s (candidates true true loc glo) -> fits s = true.
Proof.
  intros loc glo s Hin. unfold candidates in Hin. destruct Hin as [Hs|Hin]; [subst s; reflexivity|].
  apply in_app_or in Hin. destruct Hin as [Hin|Hin].
  - destruct loc as [[d len]|]; [|destruct Hin].
    destruct (local_candidate true d len) as [s'|] eqn:Ec; [|destruct Hin]. destruct Hin as [Hs|[]]. subst s'.
    destruct (choose_type d len) as [t|] eqn:Et; [|unfold local_candidate in Ec; rewrite Et in Ec; discriminate Ec].
    destruct (local_candidate_shape true d len t s Et Ec) as (Es & Hg). specialize (Hg eq_refl). subst s.
    unfold choose_type in Et. destruct (can_use_reference_logic d len) eqn:Er.
    + (* reference path *)
      unfold can_use_reference_logic in Er.
      destruct (N.eqb_spec len 0) as [|Hl0]; [discriminate|].
      assert (Ht : t = encoding_meta_type d len) by congruence. clear Et.
      unfold encoding_meta_type in Ht.
      destruct (N.eqb_spec len 1) as [Hl1|Hl1].
      { subst t len. apply fits_other. lia. }
      destruct (N.eqb_spec d 0) as [Hd0|Hd0]; [discriminate Er|].
      destruct ((d =? 1) && (len <=? 33)) eqn:E1.
      { subst t. rewrite !N.mod_small by lia. apply fits_local_small; lia. }
      destruct ((2 <=? d) && (d <=? 9) && (len <=? 5)) eqn:E2.
      { subst t. rewrite !N.mod_small by lia. apply fits_local_small; lia. }
      destruct ((2 <=? d) && (d <=? 257) && (len <=? 33)) eqn:E3.
      { subst t. rewrite !N.mod_small by lia. apply fits_far1; lia. }
      destruct ((258 <=? d) && (d <=? 258 + 65535) && (len <=? 33)) eqn:E4.
      { subst t. rewrite !N.mod_small by lia. apply fits_far2; lia. }
      destruct ((d <=? 65535) && (34 <=? len)) eqn:E5.
      { subst t. apply local_fits_6 in Hg. rewrite !N.mod_small by lia. apply fits_far2l; lia. }
      subst t. apply local_fits_7 in Hg. rewrite !N.mod_small by lia. apply fits_far3l; lia.
    + (* legacy fall-back: len = 0 (no type), or d = 0: Literal for 2..32, Far2Long from 34 on *)
      unfold can_use_reference_logic in Er.
      destruct (N.eqb_spec len 0) as [Hl0|Hl0].
      { subst len. rewrite choose_type_legacy_len0 in Et. discriminate Et. }
      unfold choose_type_legacy, legacy_type_candidates in Et.
      destruct (N.eqb_spec d 0) as [Hd0|Hd0]; [|discriminate Er]. subst d.
      cbn [filter] in Et.
      change (supports 2 0 len) with (false && (2 <=? len) && (len <=? MAX_RLE_LENGTH)) in Et.
      change (supports 3 0 len) with (false && (0 <=? MAX_NEAR_SHORT_DISTANCE) && (2 <=? len) && (len <=? MAX_NEAR_SHORT_LENGTH)) in Et.
      change (supports 4 0 len) with (false && (0 <=? MAX_FAR1_SHORT_DISTANCE) && (2 <=? len) && (len <=? MAX_FAR1_SHORT_LENGTH)) in Et.
      change (supports 5 0 len) with (false && (0 <=? MAX_FAR2_SHORT_DISTANCE) && (2 <=? len) && (len <=? MAX_FAR2_SHORT_LENGTH)) in Et.
      cbn [andb] in Et.
      change (supports 0 0 len) with (true && (1 <=? len) && (len <=? 32)) in Et.
      change (supports 6 0 len) with (true && (34 <=? len)) in Et.
      change (supports 7 0 len) with (true && (34 <=? len)) in Et. cbn [andb] in Et.
      destruct (N.leb_spec 34 len) as [H34|H34].
      * destruct (N.leb_spec len 32) as [Hx|_]; [exfalso; lia|]. rewrite andb_false_r in Et.
        cbn [min_by_key] in Et.
        assert (Ht : t = 6).
        { unfold legacy_cost, FAR2_LONG_LENGTH_THRESHOLD, FAR3_LONG_LENGTH_THRESHOLD in Et.
          destruct (N.leb_spec (len mod 65536) 64) as [A|A];
            destruct (N.leb_spec (len mod 4294967296) 35) as [B|B];
            vm_compute in Et; try congruence. exfalso. lia. }
        subst t. apply local_fits_6 in Hg. rewrite !N.mod_small by lia. apply fits_far2l; lia.
      * destruct (N.leb_spec len 32) as [H32|H32].
        -- destruct (N.leb_spec 1 len) as [_|Hx]; [|exfalso; lia]. cbn [andb min_by_key] in Et.
           assert (Ht : t = 0) by congruence. subst t. apply fits_other.
           rewrite N.mod_small by lia. lia.
        -- rewrite andb_false_r in Et. discriminate Et.
  - destruct glo as [[p len]|]; [|destruct Hin].
    destruct (global_candidate true p len) as [s'|] eqn:Ec; [|destruct Hin]. destruct Hin as [Hs|[]]. subst s'.
    apply (global_candidate_ok p len s Ec).
Qed.

(* today's generator does not have that property: the Far2Long candidate of length 65536 *)
Lemma unguarded_candidate_unfit_proof :
  exists loc glo s, In s (candidates false true loc glo) /\ fits s = false.
Proof. exists (Some (1, 65536)), None, (SLocal 1 65536 6). split; [vm_compute; right; left; reflexivity|reflexivity]. Qed.

(* ---------------- the theorem at the constants of the code ---------------- *)
Lemma pazip_compress_roundtrip_real_proof :
  forall (guard_local : bool) (dict : list N) (enable_mt : bool) (mt_threshold : N) (x : list N)
         (answers : list (list answer)) (fuel : nat) (scratch : list N),
    (length x < fuel)%nat ->
    compress_hyp guard_local dict PARALLEL_THRESHOLD BLOCK_SIZE enable_mt mt_threshold fuel x answers ->
    exists scratch' z,
      pz_compress guard_local PARALLEL_THRESHOLD BLOCK_SIZE enable_mt mt_threshold fuel x answers scratch []
      = CDone (scratch', z) /\
      legacy_decompress dict z = Some x.
Proof.
  intros gl dict mt thr x answers fuel scratch Hfuel Hh.
  apply pazip_compress_roundtrip_proof; [unfold BLOCK_SIZE; lia|exact Hfuel|exact Hh].
Qed.
Example pazip_compress_real_example :
  forall gl : bool,
    compress_hyp gl ex_dict PARALLEL_THRESHOLD BLOCK_SIZE true 0 19 ex_x [ex_answers].
Proof. intros gl. apply compress_hypb_sound. destruct gl; vm_compute; reflexivity. Qed.
