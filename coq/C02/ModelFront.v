(* C02 mechanism model, part E: the two front ends as decision automata.  Definitions only.

   src/compression/realtime.rs  RealtimeCompressor::{new, set_mode, compress, compress_with_deadline, compress_batch,
                                compress_internal, handle_timeout, decompress}
   src/compression/adaptive.rs  AdaptiveCompressor::{new, set_algorithm, train, compress (maybe_adapt, record_performance),
                                decompress}

   What is abstract:
     - the component codecs: `codec_of : N -> codec` (what CompressorFactory::create(algorithm, None) hands out for the
       algorithm with that index; a refusing codec for an algorithm the build lacks, e.g. lz4) and `creatable : N -> bool`
       (the factory refuses algorithms that need training data);
     - time: every comparison of the clock with a deadline is an input (`late0`: the deadline had passed on entry, `late1`:
       after the permit was acquired, `timed_out`: tokio::time::timeout fired, `stop`: the batch loop saw the deadline pass);
     - the cost model of the adaptive front end (f64 scores over wall-clock measurements): the algorithm it would pick is an
       input (`pick`), as is whether the improvement clears the threshold (`improves`).
   What is exact: which bytes are produced and under which tag, what state changes, what decompress dispatches on. *)
From ZV.Common Require Import Base.
From ZV.C02 Require Import Model.
Open Scope N_scope.

(* ------------------------------------------------------------------ *)
(* RealtimeCompressor                                                  *)
(* ------------------------------------------------------------------ *)
(* CompressionMode: 0 UltraLowLatency, 1 LowLatency, 2 Balanced, 3 HighCompression (any other number behaves as 3) *)
Definition MODE_ULTRA : N := 0.
(* CompressionMode::preferred_algorithm, as an algorithm index: 0 None, 1 Lz4, 2 Zstd(3), 3 Zstd(9) (zstd feature on) *)
Definition preferred (mode : N) : N := if mode <? 3 then mode else 3.

Definition BLOCK_STORED : N := 0.
Definition BLOCK_COMPRESSED : N := 1.
Definition SMALL_BLOCK : N := 64.

(* config.mode and config.fallback_on_timeout never change after `new`; `set_mode` only replaces the compressor *)
Record rt_state := mkRt { rt_mode : N; rt_fallback : bool; rt_alg : N }.
Definition rt_new (mode : N) (fallback : bool) : rt_state := mkRt mode fallback (preferred mode).
Definition rt_set_mode (st : rt_state) (mode : N) : rt_state := mkRt (rt_mode st) (rt_fallback st) (preferred mode).

(* the clock, as seen by one compress_with_deadline call *)
Record clock := mkClock { late0 : bool; late1 : bool; timed_out : bool }.
Definition on_time : clock := mkClock false false false.

Section Front.
  Variable codec_of : N -> codec.

  (* handle_timeout: the no-op fallback under the STORED tag, or Err("compression deadline exceeded") *)
  Definition rt_handle_timeout (st : rt_state) (data : list N) : option (list N) :=
    if rt_fallback st then Some (BLOCK_STORED :: data) else None.
  (* compress_internal *)
  Definition rt_compress_internal (st : rt_state) (data : list N) : option (list N) :=
    if (nlen data <? SMALL_BLOCK) && (rt_mode st =? MODE_ULTRA) then Some (BLOCK_STORED :: data)
    else match c_compress (codec_of (rt_alg st)) data with
         | Some z => Some (BLOCK_COMPRESSED :: z)
         | None => None
         end.
  (* compress_with_deadline: two early checks, then the compression under tokio's timeout - when that fires the result of
     compress_internal is dropped *)
  Definition rt_compress_with_deadline (st : rt_state) (data : list N) (ck : clock) : option (list N) :=
    if late0 ck then rt_handle_timeout st data
    else if late1 ck then rt_handle_timeout st data
    else if timed_out ck then rt_handle_timeout st data
    else rt_compress_internal st data.
  (* compress = compress_with_deadline(now + target_latency) *)
  Definition rt_compress := rt_compress_with_deadline.

  (* compress_batch: one deadline for the whole batch; `?` aborts on the first Err; after every item the loop stops when
     the deadline has passed (`stop`).  A missing clock reading counts as on time. *)
  Fixpoint rt_compress_batch (st : rt_state) (items : list (list N)) (cks : list (clock * bool))
    : option (list (list N)) :=
    match items with
    | [] => Some []
    | it :: rest =>
        let '(ck, stop) := match cks with c :: _ => c | [] => (on_time, false) end in
        match rt_compress_with_deadline st it ck with
        | None => None
        | Some z => if stop then Some [z]
                    else match rt_compress_batch st rest (tl cks) with
                         | Some zs => Some (z :: zs)
                         | None => None
                         end
        end
    end.

  (* decompress: empty -> empty; tag 0 -> the body; tag 1 -> the CURRENT compressor's decoder; any other tag -> Err *)
  Definition rt_decompress (st : rt_state) (block : list N) : option (list N) :=
    match block with
    | [] => Some []
    | tag :: body =>
        if tag =? BLOCK_STORED then Some body
        else if tag =? BLOCK_COMPRESSED then c_decompress (codec_of (rt_alg st)) body
        else None
    end.

  (* --- which codec produced a block: what the tag stands for --- *)
  Inductive producer := PStored | PCodec (alg : N).
  Definition rt_producer (st : rt_state) (data : list N) (ck : clock) : producer :=
    if late0 ck || late1 ck || timed_out ck then PStored
    else if (nlen data <? SMALL_BLOCK) && (rt_mode st =? MODE_ULTRA) then PStored
    else PCodec (rt_alg st).
  Definition tag_of (p : producer) : N := match p with PStored => BLOCK_STORED | PCodec _ => BLOCK_COMPRESSED end.

  (* the outcomes a caller may see for one call, over all clock readings the entry point allows:
     entry 0 = compress (deadline in the future on entry... but the clock may still say otherwise: all 8 readings),
     entry 1 = compress_with_deadline with a deadline that has already passed (late0 = true),
     entry 2 = compress_with_deadline with a distant deadline (on time) *)
  Definition clocks_of (entry : N) : list clock :=
    match entry with
    | 1 => [mkClock true false false]
    | 2 => [on_time]
    | _ => [on_time; mkClock true false false; mkClock false true false; mkClock false false true]
    end.

  (* ------------------------------------------------------------------ *)
  (* AdaptiveCompressor                                                  *)
  (* ------------------------------------------------------------------ *)
  Variable creatable : N -> bool.    (* CompressorFactory::create(algorithm, None) succeeds *)

  (* AdaptiveConfig: min_operations, evaluation_interval, aggressive_learning, learning_window *)
  Record ad_config := mkAdCfg { ad_min_ops : N; ad_interval : N; ad_aggressive : bool; ad_window : N }.
  (* current_algorithm / current_compressor (always changed together), operation_count, performance_history.len(),
     stats.operations *)
  Record ad_state := mkAd { ad_alg : N; ad_count : N; ad_hist : N; ad_done : N }.
  Definition AD_INITIAL_ALG : N := 1.       (* Algorithm::Lz4 *)
  Definition ad_new : ad_state := mkAd AD_INITIAL_ALG 0 0 0.

  (* set_algorithm: Err (state unchanged) when the factory refuses *)
  Definition ad_set_algorithm (st : ad_state) (a : N) : option ad_state :=
    if creatable a then Some (mkAd a (ad_count st) (ad_hist st) (ad_done st)) else None.
  (* train only fills the profile map *)
  Definition ad_train (st : ad_state) : ad_state := st.

  (* what maybe_adapt decides.  `guarded` = the zero-interval guard (see findings/C02.txt): without it
     `count % evaluation_interval` divides by zero.  `switching` = a variant in which maybe_adapt really performs the
     switch it only logs today (switch_algorithm is dead code): the theorems cover both. *)
  Inductive adapt := ANoEval | AEval | APanic.
  Definition ad_maybe_adapt (guarded : bool) (cfg : ad_config) (count : N) : adapt :=
    if count <? ad_min_ops cfg then ANoEval
    else if ad_interval cfg =? 0 then (if guarded then ANoEval else APanic)
    else if negb (count mod ad_interval cfg =? 0) then ANoEval
    else AEval.

  Inductive ad_out := AdOk (z : list N) (st : ad_state) | AdErr (st : ad_state) | AdPanic.
  (* compress: maybe_adapt (count += 1 first), then the current compressor, then record_performance *)
  Definition ad_compress (guarded switching : bool) (cfg : ad_config) (st : ad_state) (data : list N)
             (pick : N) (improves : bool) : ad_out :=
    let count := ad_count st + 1 in
    match ad_maybe_adapt guarded cfg count with
    | APanic => AdPanic
    | ev =>
        let alg := match ev with
                   | AEval => if switching && improves && negb (pick =? ad_alg st) && creatable pick then pick else ad_alg st
                   | _ => ad_alg st
                   end in
        match c_compress (codec_of alg) data with
        | None => AdErr (mkAd alg count (ad_hist st) (ad_done st))
        | Some z => AdOk z (mkAd alg count (N.min (ad_hist st + 1) (ad_window cfg)) (ad_done st + 1))
        end
    end.
  Definition ad_decompress (st : ad_state) (z : list N) : option (list N) :=
    c_decompress (codec_of (ad_alg st)) z.

  (* an operation history *)
  Inductive ad_op := OpSet (a : N) | OpTrain | OpCompress (data : list N) (pick : N) (improves : bool) | OpDecompress (z : list N).
  (* None = a panic somewhere in the history *)
  Fixpoint ad_run (guarded switching : bool) (cfg : ad_config) (st : ad_state) (ops : list ad_op) : option ad_state :=
    match ops with
    | [] => Some st
    | op :: rest =>
        match op with
        | OpSet a => ad_run guarded switching cfg (match ad_set_algorithm st a with Some s => s | None => st end) rest
        | OpTrain => ad_run guarded switching cfg (ad_train st) rest
        | OpCompress d p i => match ad_compress guarded switching cfg st d p i with
                              | AdOk _ s | AdErr s => ad_run guarded switching cfg s rest
                              | AdPanic => None
                              end
        | OpDecompress _ => ad_run guarded switching cfg st rest
        end
    end.
End Front.
