(* SimdLz77Compressor::compress / decompress (inherent): what is right and what is lost.
   Right: the kind selection, the casts, the bit layout, the back-reference copy - a parse produced
   from true matches decodes to the payload PROVIDED
     (i)   every literal token stands for the bytes the decoder substitutes (the placeholder text),
     (ii)  every RLE token stands for a run of its byte_value (always 0),
     (iii) the stream ends with fewer than 3 padding bits,
     (iv)  the parse covers the payload (no early termination fired).
   Lost: each of (i)-(iv) is refuted on a concrete payload. *)
From ZV.Common Require Import Base Run.
From ZV.C02 Require Import Model ModelRec ProofsBits ProofsMatch ProofsSeq ModelSimd ProofsSimdSeq ProofsSimdCopy.
Open Scope N_scope.

(* ---------- tokens ---------- *)
Lemma checked_some m m' : checked m = Some m' -> m' = m /\ validate m = true.
Proof.
  unfold checked. destruct (validate m); intros H; [injection H as <-; split; reflexivity|discriminate].
Qed.

(* what create_pa_zip_match(choose_best_compression_type_reference(d, len), d, len) can be *)
Definition tok_shape (d len : N) (m : pmatch) : Prop :=
  match m with
  | Literal l => l = 1
  | Global _ _ => False
  | RLE b _ => b = 0 /\ d = 1
  | NearShort d' _ | Far1Short d' _ | Far2Short d' _ | Far2Long d' _ | Far3Long d' _ => d' = d
  end.

Lemma simd_token_shape d len m :
  simd_token d len = Some m -> d < 4294967296 ->
  wt m /\ validate m = true /\ 1 <= m_length m <= len /\ tok_shape d len m.
Proof.
  intros H Hd. unfold simd_token, simd_type in H.
  repeat match type of H with context [if ?c then _ else _] => destruct c eqn:? end;
    unfold simd_make_match in H; apply checked_some in H; destruct H as [-> Hv];
    pose proof (validate_bounds _ Hv) as B; cbn [wt m_length tok_shape] in *;
    (split; [lia|]); (split; [exact Hv|]); (split; lia).
Qed.

Lemma simd_literal_token_val : simd_literal_token = Some (Literal 1).
Proof. reflexivity. Qed.

(* ---------- what the loop generates ---------- *)
Definition tok_gen (x : list N) (pos : N) (m : pmatch) : Prop :=
  match m with
  | Literal l => l = 1
  | Global _ _ => False
  | RLE b l => b = 0 /\ true_match x pos 1 l
  | NearShort d l | Far1Short d l | Far2Short d l | Far2Long d l | Far3Long d l => true_match x pos d l
  end.
Fixpoint gen_ok (x : list N) (ms : list pmatch) (pos : N) : Prop :=
  match ms with
  | [] => True
  | m :: t => pos < nlen x /\ wt m /\ validate m = true /\ tok_gen x pos m /\ gen_ok x t (pos + m_length m)
  end.

Lemma true_match_prefix x pos d len l :
  true_match x pos d len -> 1 <= l <= len -> true_match x pos d l.
Proof.
  intros (Hd & Hl & Hb & Heq) Hl'. split; [exact Hd|]. split; [lia|]. split; [lia|].
  intros i Hi. apply Heq. lia.
Qed.

Lemma answer_token_shape x find pos m :
  finder_sound x find -> pos < nlen x -> nlen x < 4294967296 ->
  answer_token (find pos) = Some m ->
  wt m /\ validate m = true /\ answer_advance (find pos) m = m_length m /\ tok_gen x pos m.
Proof.
  intros Hs Hp Hn H. destruct (find pos) as [|d len|] eqn:Hf; cbn [answer_token answer_advance] in *.
  - rewrite simd_literal_token_val in H. injection H as <-.
    split; [cbn; lia|]. split; [reflexivity|]. split; reflexivity.
  - pose proof (Hs pos d len Hp Hf) as T.
    assert (Hd : d < 4294967296) by (destruct T as ((_ & ?) & _); lia).
    destruct (simd_token_shape d len m H Hd) as (Hwt & Hv & Hl & Hsh).
    split; [exact Hwt|]. split; [exact Hv|]. split; [unfold simd_advance; lia|].
    destruct m; cbn [tok_shape tok_gen m_length] in *; try exact Hsh;
      try (subst; eapply true_match_prefix; [exact T|exact Hl]).
    destruct Hsh as [-> ->]. split; [reflexivity|]. eapply true_match_prefix; [exact T|exact Hl].
  - discriminate.
Qed.

Lemma find_loop_spec et stop find x :
  finder_sound x find -> nlen x < 4294967296 ->
  forall fuel pos acc ms,
  simd_find_loop et stop find fuel (nlen x) pos acc = Ok ms ->
  exists new, ms = acc ++ new /\ gen_ok x new pos /\
              (simd_early et stop ms = true \/ nlen x <= pos + tok_sum new).
Proof.
  intros Hs Hn. induction fuel as [|f IH]; intros pos acc ms H; cbn [simd_find_loop] in H; [discriminate|].
  destruct (N.ltb_spec pos (nlen x)) as [Hp|Hp].
  - destruct (answer_token (find pos)) as [m|] eqn:Ht; [|discriminate].
    destruct (answer_token_shape x find pos m Hs Hp Hn Ht) as (Hwt & Hv & Hadv & Hg).
    destruct (simd_early et stop (acc ++ [m])) eqn:He.
    + injection H as <-. exists [m]. split; [reflexivity|]. split.
      * cbn [gen_ok]. split; [exact Hp|]. split; [exact Hwt|]. split; [exact Hv|]. split; [exact Hg|exact I].
      * left. exact He.
    + rewrite Hadv in H. destruct (IH _ _ _ H) as (new & -> & Hgen & Hend).
      exists (m :: new). split; [rewrite <- app_assoc; reflexivity|]. split.
      * cbn [gen_ok]. split; [exact Hp|]. split; [exact Hwt|]. split; [exact Hv|]. split; [exact Hg|exact Hgen].
      * cbn [tok_sum]. destruct Hend as [Hend|Hend]; [left; exact Hend|right; lia].
  - injection H as <-. exists []. split; [rewrite app_nil_r; reflexivity|]. split; [exact I|].
    right. cbn [tok_sum]. lia.
Qed.

(* the fuel of the model is never exhausted: every round advances by at least 1 *)
Lemma find_loop_fuel et stop find n : forall fuel pos acc,
  n - pos < N.of_nat fuel -> simd_find_loop et stop find fuel n pos acc <> Fuel.
Proof.
  induction fuel as [|f IH]; intros pos acc Hf; [exfalso; lia|]. cbn [simd_find_loop].
  destruct (N.ltb_spec pos n) as [Hp|Hp]; [|discriminate].
  destruct (answer_token (find pos)) as [m|]; [|discriminate].
  destruct (simd_early et stop (acc ++ [m])); [discriminate|].
  apply IH. assert (1 <= answer_advance (find pos) m).
  { destruct (find pos); cbn [answer_advance]; unfold simd_advance; lia. }
  lia.
Qed.
Lemma simd_find_never_fuel_proof :
  forall et stop find x, simd_find_matches et stop find x <> Fuel.
Proof.
  intros. unfold simd_find_matches. apply find_loop_fuel. rewrite nlen_length. lia.
Qed.

Lemma gen_ok_wt x ms : forall pos, gen_ok x ms pos -> Forall wt ms.
Proof.
  induction ms as [|m t IH]; intros pos H; [constructor|].
  destruct H as (_ & Hwt & _ & _ & Ht). constructor; [exact Hwt|]. eapply IH. exact Ht.
Qed.

Lemma tok_gen_bound x pos m : pos < nlen x -> tok_gen x pos m -> pos + m_length m <= nlen x.
Proof.
  intros Hp H. destruct m; cbn [tok_gen m_length] in *; try contradiction; try (subst; lia);
    try (destruct H as (_ & _ & Hb & _); exact Hb).
  destruct H as (_ & _ & _ & Hb & _). exact Hb.
Qed.
Lemma gen_ok_bound x ms : forall pos, pos <= nlen x -> gen_ok x ms pos -> pos + tok_sum ms <= nlen x.
Proof.
  induction ms as [|m t IH]; intros pos Hp H; cbn [tok_sum]; [lia|].
  destruct H as (Hlt & _ & _ & Hg & Ht). pose proof (tok_gen_bound x pos m Hlt Hg) as Hb.
  specialize (IH (pos + m_length m) Hb Ht). lia.
Qed.

(* ---------- a parse the decoder reproduces ---------- *)
Definition tok_ok (lit : N -> list N) (x : list N) (pos : N) (m : pmatch) : Prop :=
  match m with
  | Literal l => slice x pos l = lit l
  | Global _ _ => False
  | RLE b l => slice x pos l = repeat b (N.to_nat l)
  | NearShort d l | Far1Short d l | Far2Short d l | Far2Long d l | Far3Long d l => true_match x pos d l
  end.
Fixpoint parse_ok (lit : N -> list N) (x : list N) (ms : list pmatch) (pos : N) : Prop :=
  match ms with
  | [] => True
  | m :: t => tok_ok lit x pos m /\ parse_ok lit x t (pos + m_length m)
  end.

Lemma slice_len_bound (x : list N) pos l :
  length (slice x pos l) = N.to_nat l -> pos <= nlen x -> pos + l <= nlen x.
Proof.
  unfold slice. rewrite firstn_length, skipn_length, nlen_length. lia.
Qed.
Lemma placeholder_lit_length l : length (placeholder_lit l) = N.to_nat l.
Proof. unfold placeholder_lit. rewrite map_length, seq_length. reflexivity. Qed.

(* a substitution for literal tokens that has the token's length *)
Definition lit_len (lit : N -> list N) : Prop := forall l, length (lit l) = N.to_nat l.

Lemma tok_ok_bound lit x pos m :
  lit_len lit -> pos <= nlen x -> tok_ok lit x pos m -> pos + m_length m <= nlen x.
Proof.
  intros Hlit Hp H. destruct m; cbn [tok_ok m_length] in *; try contradiction;
    try (destruct H as (_ & _ & Hb & _); exact Hb).
  - apply slice_len_bound; [|exact Hp]. rewrite H. apply Hlit.
  - apply slice_len_bound; [|exact Hp]. rewrite H. apply repeat_length.
Qed.

Lemma backref_ok x pos ph d l :
  true_match x pos d l ->
  simd_backref ph (firstn (N.to_nat pos) x) d l = Ok (firstn (N.to_nat (pos + l)) x).
Proof.
  intros T. unfold simd_backref.
  assert (Hp : pos <= nlen x) by (destruct T as (_ & _ & ? & _); lia).
  rewrite nlen_firstn by exact Hp.
  destruct (N.leb_spec d pos) as [_|Hx]; [|exfalso; destruct T as ((_ & ?) & _); lia].
  rewrite simd_copy_is_lz_copy_proof, (true_match_copy x pos d l T). reflexivity.
Qed.

Lemma step_ok lit x pos m :
  lit_len lit -> pos <= nlen x -> nlen x <= MAX_DECOMPRESSED_SIZE -> tok_ok lit x pos m ->
  simd_step lit (firstn (N.to_nat pos) x) m = Ok (firstn (N.to_nat (pos + m_length m)) x).
Proof.
  intros Hlit Hp Hmax H. pose proof (tok_ok_bound lit x pos m Hlit Hp H) as Hb.
  unfold simd_step. rewrite nlen_firstn by exact Hp.
  destruct (N.ltb_spec (MAX_DECOMPRESSED_SIZE - pos) (m_length m)) as [Hx|_]; [exfalso; lia|].
  destruct m; cbn [tok_ok m_length] in *; try contradiction;
    try (apply backref_ok; exact H).
  - rewrite firstn_slice, H. reflexivity.
  - rewrite firstn_slice, H. reflexivity.
Qed.

Lemma reconstruct_ok lit x :
  lit_len lit -> nlen x <= MAX_DECOMPRESSED_SIZE ->
  forall ms pos, pos <= nlen x -> parse_ok lit x ms pos ->
  simd_reconstruct_from lit ms (firstn (N.to_nat pos) x) =
    Ok (firstn (N.to_nat (pos + tok_sum ms)) x) /\ pos + tok_sum ms <= nlen x.
Proof.
  intros Hlit Hmax. induction ms as [|m t IH]; intros pos Hp H; cbn [simd_reconstruct_from tok_sum].
  - rewrite N.add_0_r. split; [reflexivity|exact Hp].
  - destruct H as [Hm Ht]. rewrite (step_ok lit x pos m Hlit Hp Hmax Hm). cbn [rbind].
    pose proof (tok_ok_bound lit x pos m Hlit Hp Hm) as Hb.
    destruct (IH (pos + m_length m) Hb Ht) as [E B]. rewrite E.
    split; [do 3 f_equal; lia|lia].
Qed.

Lemma tok_sum_pos ms : forallb encodable ms = true -> tok_sum ms = 0 -> ms = [].
Proof.
  destruct ms as [|m t]; [reflexivity|]. cbn [forallb tok_sum]. intros H Hs. exfalso.
  apply andb_true_iff in H. destruct H as [H _]. unfold encodable in H.
  apply andb_true_iff in H. destruct H as [Hv _]. pose proof (validate_bounds m Hv) as B.
  destruct m; cbn [m_length] in Hs; lia.
Qed.

(* the core: a reproducible parse that covers the payload and ends with < 3 padding bits *)
Lemma core_roundtrip lit x ms z total :
  lit_len lit ->
  nlen x <= MAX_DECOMPRESSED_SIZE -> Forall wt ms -> parse_ok lit x ms 0 -> tok_sum ms = nlen x ->
  encode_matches ms = Some (z, total) -> pad_bits total < 3 ->
  simd_decompress_g lit z = Ok x.
Proof.
  intros Hlit Hmax Hwt Hp Hsum E Hpad.
  destruct (encoded_facts ms z total Hwt E) as (He & -> & _ & Hlen & _).
  destruct x as [|x0 xt].
  - rewrite (tok_sum_pos ms He Hsum) in E. vm_compute in E. injection E as <-. reflexivity.
  - destruct z as [|z0 zt].
    + exfalso. cbn [nlen] in Hlen, Hsum. destruct ms as [|m t]; [cbn [tok_sum] in Hsum; lia|].
      pose proof (widths_ge (m :: t)) as W. cbn [nlen] in W. lia.
    + unfold simd_decompress_g, simd_decode_matches, SIMD_DECODE_GUARD.
      rewrite (simd_tokens_roundtrip_proof ms Hwt _ _ E Hpad). cbn [rbind].
      unfold simd_reconstruct_g.
      destruct (reconstruct_ok lit (x0 :: xt) Hlit Hmax ms 0 ltac:(lia) Hp) as [R _].
      change (firstn (N.to_nat 0) (x0 :: xt)) with (@nil N) in R. rewrite R. f_equal.
      rewrite N.add_0_l, Hsum, nlen_length, Nnat.Nat2N.id. apply firstn_all.
Qed.

(* ---------- from the boolean walkers ---------- *)
Lemma walks_parse_ok lit x ms : forall pos,
  simd_walk (lit_okb lit x) ms pos = true -> simd_walk (rle_okb x) ms pos = true ->
  simd_walk (ref_okb x) ms pos = true -> parse_ok lit x ms pos.
Proof.
  induction ms as [|m t IH]; intros pos H1 H2 H3; cbn [simd_walk parse_ok] in *; [exact I|].
  apply andb_true_iff in H1, H2, H3. destruct H1 as [L1 L2], H2 as [R1 R2], H3 as [F1 F2].
  split; [|apply IH; assumption].
  destruct m; cbn [lit_okb rle_okb ref_okb tok_ok] in *; try discriminate;
    try (apply true_matchb_true; exact F1); apply eqb_ln_eq; assumption.
Qed.

Lemma gen_parse_ok lit x ms : forall pos,
  gen_ok x ms pos ->
  simd_walk (lit_okb lit x) ms pos = true -> simd_walk (rle_okb x) ms pos = true ->
  parse_ok lit x ms pos.
Proof.
  induction ms as [|m t IH]; intros pos G H1 H2; cbn [simd_walk parse_ok gen_ok] in *; [exact I|].
  apply andb_true_iff in H1, H2. destruct H1 as [L1 L2], H2 as [R1 R2].
  destruct G as (_ & _ & _ & Hg & Gt).
  split; [|apply IH; assumption].
  destruct m; cbn [lit_okb rle_okb tok_gen tok_ok] in *; try contradiction; try exact Hg;
    apply eqb_ln_eq; assumption.
Qed.

Lemma pad_ok_total ms z total :
  encode_matches ms = Some (z, total) -> simd_pad_ok ms = true -> pad_bits total < 3.
Proof. intros E H. unfold simd_pad_ok in H. rewrite E in H. apply N.ltb_lt. exact H. Qed.

(* any reproducible parse, however it was found *)
Lemma simd_stream_roundtrip_g_proof :
  forall lit x ms z total, lit_len lit ->
  Forall wt ms -> encode_matches ms = Some (z, total) ->
  simd_lits_ok_g lit x ms = true -> simd_rles_ok x ms = true -> simd_refs_ok x ms = true ->
  simd_pad_ok ms = true -> simd_covers x ms = true -> nlen x <= MAX_DECOMPRESSED_SIZE ->
  simd_decompress_g lit z = Ok x.
Proof.
  intros lit x ms z total Hlit Hwt E H1 H2 H3 Hpad Hc Hmax.
  apply (core_roundtrip lit x ms z total Hlit Hmax Hwt).
  - apply walks_parse_ok; assumption.
  - apply N.eqb_eq. exact Hc.
  - exact E.
  - eapply pad_ok_total; eassumption.
Qed.

Lemma simd_stream_roundtrip_proof :
  forall x ms z total,
  Forall wt ms -> encode_matches ms = Some (z, total) ->
  simd_lits_ok x ms = true -> simd_rles_ok x ms = true -> simd_refs_ok x ms = true ->
  simd_pad_ok ms = true -> simd_covers x ms = true -> nlen x <= MAX_DECOMPRESSED_SIZE ->
  simd_decompress z = Ok x.
Proof. intros x ms z total. apply simd_stream_roundtrip_g_proof. exact placeholder_lit_length. Qed.

(* the compressor, over every finder that answers true matches; `lit` = what the decoder substitutes
   for a literal token (the code: the placeholder text) *)
Lemma simd_lz77_roundtrip_g_proof :
  forall lit et stop find x ms z, lit_len lit ->
  finder_sound x find ->
  simd_find_matches et stop find x = Ok ms -> simd_compress et stop find x = Ok z ->
  simd_lits_ok_g lit x ms = true -> simd_rles_ok x ms = true -> simd_pad_ok ms = true ->
  simd_covers x ms = true -> nlen x <= MAX_DECOMPRESSED_SIZE ->
  simd_decompress_g lit z = Ok x.
Proof.
  intros lit et stop find x ms z Hlit Hs Hf Hc H1 H2 Hpad Hcov Hmax.
  destruct x as [|x0 xt]; [cbn [simd_compress] in Hc; injection Hc as <-; reflexivity|].
  unfold simd_compress in Hc. rewrite Hf in Hc. cbn [rbind] in Hc. unfold simd_encode in Hc.
  destruct (encode_matches ms) as [[z' total]|] eqn:E; [|discriminate]. injection Hc as ->.
  unfold simd_find_matches in Hf.
  assert (Hn : nlen (x0 :: xt) < 4294967296) by (unfold MAX_DECOMPRESSED_SIZE in Hmax; lia).
  destruct (find_loop_spec et stop find (x0 :: xt) Hs Hn _ _ _ _ Hf) as (new & Hms & G & _).
  cbn [app] in Hms. subst new.
  apply (core_roundtrip lit (x0 :: xt) ms z total Hlit Hmax).
  - eapply gen_ok_wt. exact G.
  - apply gen_parse_ok; assumption.
  - apply N.eqb_eq. exact Hcov.
  - exact E.
  - eapply pad_ok_total; eassumption.
Qed.
Lemma simd_lz77_roundtrip_proof :
  forall et stop find x ms z,
  finder_sound x find ->
  simd_find_matches et stop find x = Ok ms -> simd_compress et stop find x = Ok z ->
  simd_lits_ok x ms = true -> simd_rles_ok x ms = true -> simd_pad_ok ms = true ->
  simd_covers x ms = true -> nlen x <= MAX_DECOMPRESSED_SIZE ->
  simd_decompress z = Ok x.
Proof. intros et stop find x ms z. apply simd_lz77_roundtrip_g_proof. exact placeholder_lit_length. Qed.

(* (iv) holds whenever the early termination did not fire on the final token list,
   in particular with enable_early_termination = false and for parses of at most 1000 tokens *)
Lemma simd_covers_proof :
  forall et stop find x ms,
  finder_sound x find -> nlen x <= MAX_DECOMPRESSED_SIZE ->
  simd_find_matches et stop find x = Ok ms ->
  simd_early et stop ms = false -> simd_covers x ms = true.
Proof.
  intros et stop find x ms Hs Hmax Hf He. unfold simd_find_matches in Hf.
  assert (Hn : nlen x < 4294967296) by (unfold MAX_DECOMPRESSED_SIZE in Hmax; lia).
  destruct (find_loop_spec et stop find x Hs Hn _ _ _ _ Hf) as (new & Hms & G & Hend).
  cbn [app] in Hms. subst new. pose proof (gen_ok_bound x ms 0 ltac:(lia) G) as B.
  unfold simd_covers. apply N.eqb_eq.
  destruct Hend as [Hx|Hx]; [rewrite Hx in He; discriminate|lia].
Qed.
Lemma simd_early_off stop ms : simd_early false stop ms = false.
Proof. reflexivity. Qed.
Lemma simd_early_short et stop ms : nlen ms <= 1000 -> simd_early et stop ms = false.
Proof.
  intros H. unfold simd_early. destruct et; [|reflexivity].
  destruct (N.ltb_spec 1000 (nlen ms)) as [Hx|_]; [exfalso; lia|reflexivity].
Qed.

(* ---------- hypotheses inhabited: h^82 = 2 literals + 2 overlapping Far2Long(2, 40), 70 bits ---------- *)
Definition ex_find (pos : N) : answer := if pos <? 2 then ANone else AMatch 2 (N.min 40 (82 - pos)).
Definition ex_x : list N := repeat 104 82.
Definition ex_ms : list pmatch := [Literal 1; Literal 1; Far2Long 2 40; Far2Long 2 40].
Definition no_stop (l : list pmatch) : bool := false.
Example simd_lz77_roundtrip_inhabited :
  finder_sound ex_x ex_find /\
  simd_find_matches true no_stop ex_find ex_x = Ok ex_ms /\
  simd_compress true no_stop ex_find ex_x = Ok [0; 0; 22; 0; 96; 176; 0; 0; 3] /\
  simd_lits_ok ex_x ex_ms = true /\ simd_rles_ok ex_x ex_ms = true /\ simd_refs_ok ex_x ex_ms = true /\
  simd_pad_ok ex_ms = true /\ simd_covers ex_x ex_ms = true /\ nlen ex_x <= MAX_DECOMPRESSED_SIZE /\
  simd_early true no_stop ex_ms = false /\
  Forall wt ex_ms /\ encode_matches ex_ms = Some ([0; 0; 22; 0; 96; 176; 0; 0; 3], 70) /\
  simd_decompress [0; 0; 22; 0; 96; 176; 0; 0; 3] = Ok ex_x.
Proof.
  split; [apply finder_soundb_true; vm_compute; reflexivity|].
  do 7 (split; [vm_compute; reflexivity|]).
  split; [vm_compute; discriminate|].
  split; [vm_compute; reflexivity|].
  split; [repeat constructor; cbn; lia|].
  split; vm_compute; reflexivity.
Qed.

(* ---------- which answers make compress fail ---------- *)
(* with the default configuration (search_window_size = 32768, max_match_length = 258), and for every
   distance up to 65793 and length up to 65535, the constructor accepts *)
Lemma simd_token_defined_proof :
  forall d len, 1 <= d <= 65793 -> 1 <= len <= 65535 -> exists m, simd_token d len = Some m.
Proof.
  intros d len Hd Hl. unfold simd_token, simd_type.
  repeat match goal with |- context [if ?c then _ else _] => destruct c eqn:? end;
    unfold simd_make_match, checked;
    match goal with |- context [validate ?m] => rewrite (bounds_validate m) by (cbn [m_length]; lia) end;
    eexists; reflexivity.
Qed.
(* compress fails only where the finder fails or a token constructor refuses: for a sound finder on a
   payload of at most MAX_DECOMPRESSED_SIZE bytes the encoder never refuses (every length fits the 30-bit form) *)
Lemma gen_ok_encodable x : nlen x <= MAX_DECOMPRESSED_SIZE ->
  forall ms pos, gen_ok x ms pos -> forallb encodable ms = true.
Proof.
  intros Hmax. induction ms as [|m t IH]; intros pos G; cbn [forallb]; [reflexivity|].
  destruct G as (Hp & _ & Hv & Hg & Gt). rewrite (IH _ Gt), andb_true_r.
  unfold encodable. rewrite Hv. cbn [andb].
  pose proof (tok_gen_bound x pos m Hp Hg) as Hb. unfold MAX_DECOMPRESSED_SIZE in Hmax.
  destruct m; cbn [vl_fits m_length] in *; try reflexivity; apply N.ltb_lt; lia.
Qed.

Lemma find_loop_defined et stop find x :
  finder_sound x find ->
  (forall pos, pos < nlen x -> find pos <> AErr) ->
  (forall pos d len, pos < nlen x -> find pos = AMatch d len -> d <= 65793 /\ len <= 65535) ->
  forall fuel pos acc, nlen x - pos < N.of_nat fuel ->
  exists ms, simd_find_loop et stop find fuel (nlen x) pos acc = Ok ms.
Proof.
  intros Hs Hne Hb. induction fuel as [|f IH]; intros pos acc Hf; [exfalso; lia|]. cbn [simd_find_loop].
  destruct (N.ltb_spec pos (nlen x)) as [Hp|Hp]; [|eexists; reflexivity].
  assert (Ht : exists m, answer_token (find pos) = Some m).
  { destruct (find pos) as [|d len|] eqn:Hfp; cbn [answer_token].
    - eexists. apply simd_literal_token_val.
    - destruct (Hb pos d len Hp Hfp) as [B1 B2]. destruct (Hs pos d len Hp Hfp) as (T1 & T2 & _).
      apply simd_token_defined_proof; lia.
    - exfalso. exact (Hne pos Hp Hfp). }
  destruct Ht as [m Ht]. rewrite Ht.
  destruct (simd_early et stop (acc ++ [m])); [eexists; reflexivity|].
  apply IH. assert (1 <= answer_advance (find pos) m).
  { destruct (find pos); cbn [answer_advance]; unfold simd_advance; lia. }
  lia.
Qed.

Lemma simd_compress_defined_proof :
  forall et stop find x,
  finder_sound x find -> nlen x <= MAX_DECOMPRESSED_SIZE ->
  (forall pos, pos < nlen x -> find pos <> AErr) ->
  (forall pos d len, pos < nlen x -> find pos = AMatch d len -> d <= 65793 /\ len <= 65535) ->
  exists z, simd_compress et stop find x = Ok z.
Proof.
  intros et stop find x Hs Hmax Hne Hb. destruct x as [|x0 xt]; [eexists; reflexivity|].
  unfold simd_compress, simd_find_matches.
  destruct (find_loop_defined et stop find (x0 :: xt) Hs Hne Hb (S (length (x0 :: xt))) 0 [])
    as [ms Hf]; [rewrite nlen_length; lia|].
  rewrite Hf. cbn [rbind].
  assert (Hn : nlen (x0 :: xt) < 4294967296) by (unfold MAX_DECOMPRESSED_SIZE in Hmax; lia).
  destruct (find_loop_spec et stop find (x0 :: xt) Hs Hn _ _ _ _ Hf) as (new & Hms & G & _).
  cbn [app] in Hms. subst new.
  destruct (encode_matches_spec ms (gen_ok_encodable _ Hmax ms 0 G)) as (bytes & E & _).
  unfold simd_encode. rewrite E. eexists. reflexivity.
Qed.
(* a refused answer aborts the whole compression *)
Definition far_find (pos : N) : answer := if pos =? 2 then AMatch 65794 33 else ANone.
Example simd_compress_refused :
  simd_compress false no_stop far_find [104; 104; 104] = Err.
Proof. vm_compute. reflexivity. Qed.

(* refused: a far short match (the Far3Long fallback needs length >= 34), a Far2Long length whose low 16 bits
   are below 34, a distance beyond 2^24 - 1 *)
Example simd_token_refusals :
  simd_token 65794 33 = None /\ simd_token 1 65536 = None /\ simd_token 16777216 34 = None /\
  simd_token 5 0 = None.
Proof. do 3 (split; [vm_compute; reflexivity|]). vm_compute. reflexivity. Qed.
(* accepted although it is not a back-reference at all: distance 0 (decompress then reports Err) *)
Example simd_token_distance0 :
  simd_token 0 34 = Some (Far2Long 0 34) /\ simd_reconstruct [Literal 1; Far2Long 0 34] = Err.
Proof. split; vm_compute; reflexivity. Qed.
(* truncated by the `as u16` cast: the token stands for a prefix of the match and the loop advances by that *)
Example simd_token_truncated : simd_token 3 65600 = Some (Far2Long 3 64).
Proof. vm_compute. reflexivity. Qed.

(* ---------- refutations ---------- *)
Definition lit_find (pos : N) : answer := ANone.
(* (i) a literal byte is not stored: [71] comes back as [104] *)
Lemma simd_lz77_literal_refuted_proof :
  exists et stop find x z,
    finder_sound x find /\ simd_compress et stop find x = Ok z /\ simd_decompress z <> Ok x.
Proof.
  exists false, no_stop, lit_find, [71], [0].
  split; [apply finder_soundb_true; vm_compute; reflexivity|].
  split; vm_compute; [reflexivity|discriminate].
Qed.
(* (ii) an RLE token carries byte 0: hhh = literal + RLE(d = 1, len 2) comes back as h 0 0 *)
Definition rle_find (pos : N) : answer := if pos <? 1 then ANone else AMatch 1 (3 - pos).
Lemma simd_lz77_rle_refuted_proof :
  exists et stop find x ms z,
    finder_sound x find /\ simd_find_matches et stop find x = Ok ms /\ simd_compress et stop find x = Ok z /\
    simd_lits_ok x ms = true /\ simd_pad_ok ms = true /\ simd_covers x ms = true /\
    simd_decompress z = Ok [104; 0; 0] /\ x = [104; 104; 104].
Proof.
  exists false, no_stop, rle_find, [104; 104; 104], [Literal 1; RLE 0 2], [0; 2; 0].
  split; [apply finder_soundb_true; vm_compute; reflexivity|].
  do 6 (split; [vm_compute; reflexivity|]). reflexivity.
Qed.
(* (iii) padding: h^80 = 40 literals + Far2Long(40, 40) is 347 bits, 5 padding bits: decompress fails
   although every literal is `h`, there is no RLE token and the parse covers the payload *)
Definition pad_find (pos : N) : answer := if pos <? 40 then ANone else AMatch 40 (80 - pos).
Definition pad_x : list N := repeat 104 80.
Lemma simd_lz77_padding_refuted_proof :
  exists et stop find x ms z,
    finder_sound x find /\ simd_find_matches et stop find x = Ok ms /\ simd_compress et stop find x = Ok z /\
    simd_lits_ok x ms = true /\ simd_rles_ok x ms = true /\ simd_covers x ms = true /\
    simd_pad_ok ms = false /\ simd_decompress z = Err.
Proof.
  exists false, no_stop, pad_find, pad_x, (repeat (Literal 1) 40 ++ [Far2Long 40 40]),
         (repeat 0 40 ++ [70; 1; 96; 0]).
  split; [apply finder_soundb_true; vm_compute; reflexivity|].
  do 6 (split; [vm_compute; reflexivity|]). vm_compute. reflexivity.
Qed.
(* (iv) early termination: after the 1001st token the rest of the input is dropped *)
Definition all_stop (l : list pmatch) : bool := true.
Definition et_x : list N := repeat 104 1002.
Lemma simd_lz77_early_termination_refuted_proof :
  exists stop find x ms z,
    finder_sound x find /\ simd_find_matches true stop find x = Ok ms /\ simd_compress true stop find x = Ok z /\
    simd_lits_ok x ms = true /\ simd_rles_ok x ms = true /\ simd_pad_ok ms = true /\
    simd_covers x ms = false /\ simd_decompress z = Ok (repeat 104 1001) /\ nlen x = 1002.
Proof.
  exists all_stop, lit_find, et_x, (repeat (Literal 1) 1001), (repeat 0 1001).
  split; [apply finder_soundb_true; vm_compute; reflexivity|].
  do 7 (split; [vm_compute; reflexivity|]). vm_compute. reflexivity.
Qed.

(* the guard-3 decode of SimdLz77 on a token the compressor does emit *)
Lemma simd_decode_padding_refuted_proof :
  exists ms bytes total, Forall wt ms /\ encode_matches ms = Some (bytes, total) /\
                         simd_token 40 40 = Some (Far2Long 40 40) /\ ms = [Far2Long 40 40] /\
                         simd_decode_matches bytes = Err.
Proof.
  exists [Far2Long 40 40], [70; 1; 96; 0], 27.
  split; [repeat constructor; cbn; lia|].
  split; [vm_compute; reflexivity|]. split; [vm_compute; reflexivity|]. split; [reflexivity|].
  vm_compute. reflexivity.
Qed.

(* hypotheses of simd_compress_defined / simd_token_defined inhabited *)
Example simd_compress_defined_inhabited :
  finder_sound ex_x ex_find /\ nlen ex_x <= MAX_DECOMPRESSED_SIZE /\
  (forall pos, pos < nlen ex_x -> ex_find pos <> AErr) /\
  (forall pos d len, pos < nlen ex_x -> ex_find pos = AMatch d len -> d <= 65793 /\ len <= 65535).
Proof.
  split; [apply finder_soundb_true; vm_compute; reflexivity|].
  split; [vm_compute; discriminate|]. split.
  - intros pos _. unfold ex_find. destruct (pos <? 2); discriminate.
  - intros pos d len _. unfold ex_find. destruct (pos <? 2); [discriminate|].
    intros H. injection H as <- <-. lia.
Qed.
Example simd_token_defined_inhabited : simd_token 300 33 = Some (Far2Short 300 33).
Proof. vm_compute. reflexivity. Qed.
