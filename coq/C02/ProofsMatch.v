(* encode_match / decode_match: the encoder appends the packed field list of the match to the
   stream, the decoder reads exactly that field list back, for every kind and every field value
   the validator admits. *)
From ZV.Common Require Import Base.
From ZV.C02 Require Import Model ProofsBits.
Open Scope N_scope.

Definition field : Type := (N * N)%type.   (* (value, width) *)

Definition vl_fields (v : N) : list field :=
  if v <? 128 then [(0, 1); (v, 7)]
  else if v <? 32768 then [(1, 1); (0, 1); (v - 128, 15)]
  else [(1, 1); (1, 1); (v - 32768, 30)].

Definition fields (m : pmatch) : list field :=
  match m with
  | Literal l => [(0, 3); (l - 1, 5)]
  | Global p l => [(1, 3); (p, 32); (l, 16)]
  | RLE b l => [(2, 3); (b, 8); (l - 2, 5)]
  | NearShort d l => [(3, 3); (d - 2, 3); (l - 2, 2)]
  | Far1Short d l => [(4, 3); (d - 2, 8); (l - 2, 5)]
  | Far2Short d l => [(5, 3); (d - 258, 16); (l - 2, 5)]
  | Far2Long d l => (6, 3) :: (d, 16) :: vl_fields (l - 34)
  | Far3Long d l => (7, 3) :: (N.land d 16777215, 24) :: vl_fields (l - 34)
  end.

Fixpoint write_fields (fs : list field) (w : bitwriter) : option bitwriter :=
  match fs with
  | [] => Some w
  | (v, wd) :: t => obind (write_bits w v wd) (write_fields t)
  end.
Fixpoint pack (fs : list field) (rest : N) : N :=
  match fs with
  | [] => rest
  | (v, wd) :: t => v mod 2 ^ wd + 2 ^ wd * pack t rest
  end.
Fixpoint width (fs : list field) : N :=
  match fs with [] => 0 | (_, wd) :: t => wd + width t end.

(* the length offset of the long kinds fits the 30-bit third form *)
Definition vl_fits (m : pmatch) : bool :=
  match m with
  | Far2Long _ l | Far3Long _ l => l - 34 - 32768 <? 1073741824
  | _ => true
  end.
Definition encodable (m : pmatch) : bool := validate m && vl_fits m.

Lemma validate_bounds m :
  validate m = true ->
  match m with
  | Literal l => 1 <= l <= 32
  | Global p l => 6 <= l
  | RLE b l => 2 <= l <= 33
  | NearShort d l => 2 <= d <= 9 /\ 2 <= l <= 5
  | Far1Short d l => 2 <= d <= 257 /\ 2 <= l <= 33
  | Far2Short d l => 258 <= d <= 65793 /\ 2 <= l <= 33
  | Far2Long d l => d <= 65535 /\ 34 <= l
  | Far3Long d l => d <= 16777215 /\ 34 <= l
  end.
Proof.
  destruct m; unfold validate, supports, validate_extra, MAX_LITERAL_LENGTH, MAX_RLE_LENGTH,
    MAX_FAR1_SHORT_LENGTH, MAX_FAR2_SHORT_LENGTH, MAX_NEAR_SHORT_DISTANCE, MAX_NEAR_SHORT_LENGTH,
    MAX_FAR1_SHORT_DISTANCE, MAX_FAR2_SHORT_DISTANCE, MAX_FAR2_LONG_DISTANCE, MAX_FAR3_LONG_DISTANCE,
    MIN_GLOBAL_LENGTH, MIN_FAR2_LONG_LENGTH; cbn [ctype m_distance m_length]; lia.
Qed.

Lemma bounds_validate m :
  match m with
  | Literal l => 1 <= l <= 32
  | Global p l => 6 <= l
  | RLE b l => 2 <= l <= 33
  | NearShort d l => 2 <= d <= 9 /\ 2 <= l <= 5
  | Far1Short d l => 2 <= d <= 257 /\ 2 <= l <= 33
  | Far2Short d l => 258 <= d <= 65793 /\ 2 <= l <= 33
  | Far2Long d l => d <= 65535 /\ 34 <= l
  | Far3Long d l => d <= 16777215 /\ 34 <= l
  end -> validate m = true.
Proof.
  destruct m; unfold validate, supports, validate_extra, MAX_LITERAL_LENGTH, MAX_RLE_LENGTH,
    MAX_FAR1_SHORT_LENGTH, MAX_FAR2_SHORT_LENGTH, MAX_NEAR_SHORT_DISTANCE, MAX_NEAR_SHORT_LENGTH,
    MAX_FAR1_SHORT_DISTANCE, MAX_FAR2_SHORT_DISTANCE, MAX_FAR2_LONG_DISTANCE, MAX_FAR3_LONG_DISTANCE,
    MIN_GLOBAL_LENGTH, MIN_FAR2_LONG_LENGTH; cbn [ctype m_distance m_length]; lia.
Qed.

(* ---------- the encoder writes `fields m` ---------- *)
Lemma write_fields_spec fs : forall w,
  winv w -> Forall (fun f : field => snd f <= 32) fs ->
  exists w', write_fields fs w = Some w' /\ winv w' /\
             wnum w' = wnum w + pack fs 0 * 2 ^ wlen w /\ wlen w' = wlen w + width fs.
Proof.
  induction fs as [|[v wd] t IH]; intros w I Hf; cbn [write_fields pack width].
  - exists w. repeat split; try apply I; lia.
  - inversion Hf as [|? ? Hwd Ht]; subst. cbn [snd] in Hwd.
    destruct (write_bits_spec w v wd I Hwd) as (w1 & E & I1 & N1 & L1).
    rewrite E. cbn [obind].
    destruct (IH w1 I1 Ht) as (w2 & E2 & I2 & N2 & L2).
    exists w2. split; [exact E2|]. split; [exact I2|]. split.
    + rewrite N2, N1, L1. rewrite N.pow_add_r. lia.
    + rewrite L2, L1. lia.
Qed.

Lemma vl_fields_widths v : Forall (fun f : field => snd f <= 32) (vl_fields v).
Proof.
  unfold vl_fields. destruct (v <? 128); [|destruct (v <? 32768)];
    repeat constructor; cbn [snd]; lia.
Qed.
Lemma fields_widths m : Forall (fun f : field => snd f <= 32) (fields m).
Proof.
  destruct m; cbn [fields]; repeat (constructor; [cbn [snd]; lia|]);
    try constructor; apply vl_fields_widths.
Qed.

Ltac split_writes :=
  repeat (cbn [obind write_fields];
          match goal with
          | |- context [write_bits ?w ?v ?n] => destruct (write_bits w v n) eqn:?
          end);
  cbn [obind write_fields]; try reflexivity.

Lemma encode_vl_fields v w :
  v - 32768 < 1073741824 -> encode_variable_length v w = write_fields (vl_fields v) w.
Proof.
  intros Hv. unfold encode_variable_length, vl_fields.
  destruct (N.ltb_spec v 128); [split_writes|].
  destruct (N.ltb_spec v 32768); [split_writes|].
  destruct (N.leb_spec 1073741824 (v - 32768)); [exfalso; lia|]. split_writes.
Qed.

Lemma encode_vl_refuses v w :
  32768 <= v -> 1073741824 <= v - 32768 -> encode_variable_length v w = None.
Proof.
  intros H1 H2. unfold encode_variable_length.
  destruct (N.ltb_spec v 128); [exfalso; lia|].
  destruct (N.ltb_spec v 32768); [exfalso; lia|].
  destruct (N.leb_spec 1073741824 (v - 32768)); [reflexivity|exfalso; lia].
Qed.

Lemma encode_match_fields m w :
  encodable m = true ->
  encode_match m w =
  obind (write_fields (fields m) w) (fun w' => Some (bits_written w' - bits_written w, w')).
Proof.
  unfold encodable. intros H. apply andb_true_iff in H. destruct H as [Hv Hf].
  unfold encode_match. rewrite Hv. cbn [negb].
  destruct m; cbn [fields ctype vl_fits] in *; unfold MIN_FAR2_LONG_LENGTH;
    try (split_writes; fail).
  - (* Far2Long *)
    cbn [write_fields]. destruct (write_bits w 6 3) as [w1|]; cbn [obind]; [|reflexivity].
    destruct (write_bits w1 distance 16) as [w2|]; cbn [obind]; [|reflexivity].
    rewrite encode_vl_fields by lia. reflexivity.
  - (* Far3Long *)
    cbn [write_fields]. destruct (write_bits w 7 3) as [w1|]; cbn [obind]; [|reflexivity].
    destruct (write_bits w1 (N.land distance 16777215) 24) as [w2|]; cbn [obind]; [|reflexivity].
    rewrite encode_vl_fields by lia. reflexivity.
Qed.

Lemma encode_match_spec m w :
  winv w -> encodable m = true ->
  exists w', encode_match m w = Some (width (fields m), w') /\ winv w' /\
             wnum w' = wnum w + pack (fields m) 0 * 2 ^ wlen w /\
             wlen w' = wlen w + width (fields m).
Proof.
  intros I He. rewrite encode_match_fields by assumption.
  destruct (write_fields_spec (fields m) w I (fields_widths m)) as (w' & E & I' & N' & L').
  exists w'. rewrite E. cbn [obind]. rewrite !bits_written_wlen, L'.
  replace (wlen w + width (fields m) - wlen w) with (width (fields m)) by lia.
  split; [reflexivity|]. split; [exact I'|]. split; [exact N'|lia].
Qed.

(* anything the validator rejects, and any length the 30-bit form cannot carry, is refused *)
Lemma encode_match_refuses m w : winv w -> wt m -> encodable m = false -> encode_match m w = None.
Proof.
  intros I Hwt He. unfold encodable in He. unfold encode_match.
  destruct (validate m) eqn:Hv; cbn [negb]; [|reflexivity].
  cbn [andb] in He. pose proof (validate_bounds m Hv) as B.
  destruct m; cbn [vl_fits] in He; try discriminate; cbn [ctype wt] in *; unfold MIN_FAR2_LONG_LENGTH.
  - exfalso. lia.
  - destruct (write_bits_spec w 7 3 I ltac:(lia)) as (w1 & E1 & I1 & _). rewrite E1. cbn [obind].
    destruct (write_bits_spec w1 (N.land distance 16777215) 24 I1 ltac:(lia)) as (w2 & E2 & I2 & _).
    rewrite E2. cbn [obind]. rewrite encode_vl_refuses by lia. reflexivity.
Qed.

(* ---------- sizes ---------- *)
Lemma vl_width_ge v : 8 <= width (vl_fields v).
Proof. unfold vl_fields. destruct (v <? 128); [|destruct (v <? 32768)]; cbn [width]; lia. Qed.
Lemma width_ge_8 m : 8 <= width (fields m).
Proof.
  destruct m; cbn [fields width]; try lia; pose proof (vl_width_ge (length - 34)); lia.
Qed.
Lemma width_le_59 m : width (fields m) <= 59.
Proof.
  destruct m; cbn [fields width]; try lia; unfold vl_fields;
    (destruct (_ <? 128); [|destruct (_ <? 32768)]); cbn [width]; lia.
Qed.

Lemma pack_bound fs : pack fs 0 < 2 ^ width fs.
Proof.
  induction fs as [|[v wd] t IH]; cbn [pack width].
  - cbn. lia.
  - rewrite N.pow_add_r. assert (v mod 2 ^ wd < 2 ^ wd) by (apply N.mod_lt, N.pow_nonzero; discriminate). nia.
Qed.

Lemma pack_app fs1 fs2 rest : pack (fs1 ++ fs2) rest = pack fs1 (pack fs2 rest).
Proof. induction fs1 as [|[v wd] t IH]; cbn [app pack]; [reflexivity|]. rewrite IH. reflexivity. Qed.

Lemma pack_rest fs rest : pack fs rest = pack fs 0 + 2 ^ width fs * rest.
Proof.
  induction fs as [|[v wd] t IH]; cbn [pack width].
  - cbn. lia.
  - rewrite IH, N.pow_add_r. lia.
Qed.

(* ---------- the decoder reads `fields m` back ---------- *)
Lemma pack_cons v wd t rest : v < 2 ^ wd -> pack ((v, wd) :: t) rest = v + 2 ^ wd * pack t rest.
Proof. intros. cbn [pack]. rewrite N.mod_small by assumption. reflexivity. Qed.

Ltac rstep r I Hn :=
  let r' := fresh "r" in let E := fresh "E" in let I' := fresh "I" in
  let N' := fresh "Hn" in let A' := fresh "A" in let P' := fresh "P" in
  rewrite pack_cons in Hn by lia;
  match type of Hn with
  | rnum r = ?a + 2 ^ ?wd * ?b =>
      destruct (read_field r a b wd I Hn ltac:(lia) ltac:(lia) ltac:(lia)) as (r' & E & I' & N' & A' & P');
      rewrite E; cbn [rbind]
  end.

Ltac fin I :=
  split; [first [reflexivity | do 3 f_equal; lia]|]; split; [exact I|]; repeat split; lia.

Lemma decode_vl_spec v r rest :
  v - 32768 < 1073741824 ->
  rinv r -> rnum r = pack (vl_fields v) rest -> width (vl_fields v) <= ravail r ->
  exists r', decode_variable_length r = Ok (v, r') /\ rinv r' /\ rnum r' = rest /\
             ravail r' = ravail r - width (vl_fields v) /\
             bit_position r' = bit_position r + width (vl_fields v).
Proof.
  intros Hv I Hn Hav. unfold decode_variable_length, vl_fields in *.
  destruct (N.ltb_spec v 128) as [H1|H1]; [|destruct (N.ltb_spec v 32768) as [H2|H2]];
    cbn [width] in *.
  - rstep r I Hn. change (0 =? 0) with true. cbn iota. rstep r0 I0 Hn0.
    cbn [pack] in Hn1. exists r1. fin I1.
  - rstep r I Hn. change (1 =? 0) with false. cbn iota. rstep r0 I0 Hn0.
    change (0 =? 0) with true. cbn iota. rstep r1 I1 Hn1.
    cbn [pack] in Hn2. exists r2. replace (v - 128 + 128) with v by lia. fin I2.
  - rstep r I Hn. change (1 =? 0) with false. cbn iota. rstep r0 I0 Hn0.
    change (1 =? 0) with false. cbn iota. rstep r1 I1 Hn1.
    cbn [pack] in Hn2. exists r2. replace (v - 32768 + 32768) with v by lia. fin I2.
Qed.

Lemma decode_match_spec m r rest :
  encodable m = true -> wt m ->
  rinv r -> rnum r = pack (fields m) rest -> width (fields m) <= ravail r ->
  exists r', decode_match r = Ok (m, width (fields m), r') /\ rinv r' /\ rnum r' = rest /\
             ravail r' = ravail r - width (fields m).
Proof.
  unfold encodable. intros He Hwt I Hn Hav. apply andb_true_iff in He. destruct He as [Hv Hf].
  pose proof (validate_bounds m Hv) as B. unfold decode_match.
  destruct m; cbn [fields width wt vl_fits] in *.
  - (* Literal *)
    rstep r I Hn. rstep r0 I0 Hn0. cbn [pack] in Hn1.
    replace (length - 1 + 1) with length by lia. rewrite Hv. cbn [negb].
    exists r1. fin I1.
  - (* Global *)
    rstep r I Hn. rstep r0 I0 Hn0. rstep r1 I1 Hn1. cbn [pack] in Hn2.
    rewrite Hv. cbn [negb].
    exists r2. fin I2.
  - (* RLE *)
    rstep r I Hn. rstep r0 I0 Hn0. rstep r1 I1 Hn1. cbn [pack] in Hn2.
    replace (length - 2 + 2) with length by lia. rewrite Hv. cbn [negb].
    exists r2. fin I2.
  - (* NearShort *)
    rstep r I Hn. rstep r0 I0 Hn0. rstep r1 I1 Hn1. cbn [pack] in Hn2.
    replace (distance - 2 + 2) with distance by lia.
    replace (length - 2 + 2) with length by lia. rewrite Hv. cbn [negb].
    exists r2. fin I2.
  - (* Far1Short *)
    rstep r I Hn. rstep r0 I0 Hn0. rstep r1 I1 Hn1. cbn [pack] in Hn2.
    replace (distance - 2 + 2) with distance by lia.
    replace (length - 2 + 2) with length by lia. rewrite Hv. cbn [negb].
    exists r2. fin I2.
  - (* Far2Short *)
    rstep r I Hn. rstep r0 I0 Hn0. rstep r1 I1 Hn1. cbn [pack] in Hn2.
    replace (distance - 258 + 258) with distance by lia.
    replace (length - 2 + 2) with length by lia. rewrite Hv. cbn [negb].
    exists r2. fin I2.
  - (* Far2Long *)
    rstep r I Hn. rstep r0 I0 Hn0.
    destruct (decode_vl_spec (length - 34) r1 rest ltac:(lia) I1 Hn1 ltac:(lia)) as (r2 & E2 & I2 & Hn2 & A2 & P2).
    rewrite E2. cbn [rbind]. unfold MIN_FAR2_LONG_LENGTH.
    rewrite (N.mod_small (length - 34) 65536) by lia.
    replace (length - 34 + 34) with length by lia.
    destruct (N.leb_spec 65536 length) as [Hx|_]; [exfalso; lia|].
    cbn [rbind]. rewrite Hv. cbn [negb].
    exists r2. fin I2.
  - (* Far3Long *)
    assert (Hd : N.land distance 16777215 = distance).
    { change 16777215 with (N.ones 24). rewrite N.land_ones. apply N.mod_small. lia. }
    rewrite Hd in *.
    rstep r I Hn. rstep r0 I0 Hn0.
    destruct (decode_vl_spec (length - 34) r1 rest ltac:(lia) I1 Hn1 ltac:(lia)) as (r2 & E2 & I2 & Hn2 & A2 & P2).
    rewrite E2. cbn [rbind]. unfold MIN_FAR2_LONG_LENGTH.
    replace (length - 34 + 34) with length by lia.
    rewrite Hv. cbn [negb].
    exists r2. fin I2.
Qed.
