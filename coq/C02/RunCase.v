(* Entry point evaluated by harness-generated case files (definitions only). *)
From ZV.Common Require Import Base Run.
From ZV.C02 Require Import Model ModelRec.
Open Scope N_scope.

Definition zeros (n : N) : list N := repeat 0 (N.to_nat n).

(* a = |x| :: (1,len | 0,0)* : stand-in components whose compress yields a string of that length *)
Fixpoint fake_codecs (l : list N) : list codec :=
  match l with
  | flag :: len :: t =>
      mkCodec (fun _ => if flag =? 1 then Some (zeros len) else None) (fun _ => None) :: fake_codecs t
  | _ => []
  end.

Definition run_case (op : N) (a b : list N) : list N :=
  match op with
  | 0 => match encode_matches (map (fun '(k, x, y) => mk_match k x y) (unflat3 a)) with
         | Some (bytes, total) => 1 :: total :: bytes
         | None => [0]
         end
  | 1 => match decode_matches a with
         | Ok (ms, total) => 1 :: total :: flat3 (map un_match ms)
         | Err => [0]
         | Panic => [2]
         | Fuel => [3]
         end
  | 2 => match a with
         | n :: comps => match hybrid_compress (fake_codecs comps) (zeros n) with
                         | Some (tag :: best) => [tag; 1 + nlen best]
                         | _ => []
                         end
         | [] => []
         end
  | 3 => match rans_table a with
         | Some t => 1 :: t
         | None => [0]
         end
  | 4 => match a with
         | pos :: k :: p1 :: p2 :: p3 :: _ =>
             let s := match k with 0 => SLiteral p1 | 1 => SLocal p1 p2 p3 | _ => SGlobal p1 p2 end in
             let '(bytes, adv) := write_record b pos s in adv :: bytes
         | _ => [98]
         end
  | 5 => match legacy_decompress b a with
         | Some out => 1 :: out
         | None => [0]
         end
  | 9 => model_consts
  | _ => [99]
  end.
