(* Entry points evaluated by harness-generated case files for the extension models (definitions only).
   Ops 0..9 are in RunCase.v; `run_case_all` dispatches. *)
From ZV.Common Require Import Base Run.
From ZV.C02 Require Import Model ModelRec RunCase ModelComp.
Open Scope N_scope.

Definition id_order (t : H.table) : H.table := t.
Definition some_rans : rans_inst := mkRans [] [].
Definition some_huff : huff_inst := mkHuff (H.mkHT None []) [].

Definition out1 (o : option (list N)) : list N := match o with Some z => 1 :: z | None => [0] end.

Definition run_case_x (op : N) (a b : list N) : list N :=
  match op with
  (* RansCompressor: a = the 256 counts of the instance, b = payload *)
  | 10 => match rans_encoder_new a with
          | Some t => out1 (rans_compress (mkRans a t) b)
          | None => [2]
          end
  | 11 => out1 (rans_decompress some_rans a)
  | 12 => counts_of a
  (* DictCompressor *)
  | 13 => out1 (dict_compress tt a)
  | 14 => out1 (dict_decompress tt a)
  (* HuffmanCompressor: a = tree_data() of the instance, b = payload *)
  | 15 => match deser_tree id_order a with
          | Some ht => out1 (huffc_compress (mkHuff ht a) b)
          | None => [2]
          end
  | 16 => out1 (huffc_decompress id_order some_huff a)
  (* HuffmanTree::serialize of what deserialize parsed, in the same order: the bytes themselves *)
  | 17 => match a with
          | c0 :: c1 :: rest => match deser_entries (N.to_nat (c0 + 256 * c1)) rest with
                                | Some l => ser_table l
                                | None => []
                                end
          | _ => []
          end
  | _ => [99]
  end.

Definition run_case_all (op : N) (a b : list N) : list N :=
  if op <? 10 then run_case op a b else run_case_x op a b.
