(* Entry points evaluated by harness-generated case files for the extension models (definitions only).
   Ops 0..9 are in RunCase.v; `run_case_all` dispatches. *)
From ZV.Common Require Import Base Run.
From ZV.C02 Require Import Model ModelRec RunCase ModelComp ModelFront RunCaseS RunCaseP.
Open Scope N_scope.

Definition id_order (t : H.table) : H.table := t.
Definition some_rans : rans_inst := mkRans [] [].
Definition some_huff : huff_inst := mkHuff (H.mkHT None []) [].

Definition out1 (o : option (list N)) : list N := match o with Some z => 1 :: z | None => [0] end.

(* ---------- front ends: the component codec's answers are inputs of the case ---------- *)
(* [flag; len] ++ bytes ++ rest  ->  (Some bytes | None, rest) *)
Definition take_opt (l : list N) : option (list N) * list N :=
  match l with
  | flag :: len :: t => (if flag =? 1 then Some (firstn (N.to_nat len) t) else None, skipn (N.to_nat len) t)
  | _ => (None, [])
  end.
Definition take_len (l : list N) : list N * list N :=
  match l with
  | len :: t => (firstn (N.to_nat len) t, skipn (N.to_nat len) t)
  | [] => ([], [])
  end.
Definition eqb_opt (a b : option (list N)) : bool :=
  match a, b with
  | Some x, Some y => eqb_ln x y
  | None, None => true
  | _, _ => false
  end.
(* a codec that answers `c` to compress and `d` to decompress, whatever the input *)
Definition fixed_codec (c d : option (list N)) : codec := mkCodec (fun _ => c) (fun _ => d).

(* one compress / compress_with_deadline call: is the observed result one the automaton allows for this entry point? *)
Definition rt_explains (st : rt_state) (entry : N) (data : list N) (cout : option (list N)) (seen : option (list N)) : bool :=
  existsb (fun ck => eqb_opt (rt_compress_with_deadline (fun _ => fixed_codec cout None) st data ck) seen) (clocks_of entry).

(* compress_batch: items with the codec's answer for each; is the returned list (or the Err) one the automaton allows? *)
Fixpoint rt_batch_explains (st : rt_state) (items : list (list N * option (list N))) (zs : list (list N)) : bool :=
  match items, zs with
  | [], [] => true
  | [], _ :: _ => false
  | _ :: _, [] => false
  | (it, cout) :: rest, z :: zs' =>
      rt_explains st 0 it cout (Some z) &&
      (match zs' with [] => true | _ => rt_batch_explains st rest zs' end)
  end.
Fixpoint rt_batch_may_fail (st : rt_state) (items : list (list N * option (list N))) : bool :=
  match items with
  | [] => false
  | (it, cout) :: rest => rt_explains st 0 it cout None || rt_batch_may_fail st rest
  end.
Fixpoint parse_items (n : nat) (l : list N) : list (list N * option (list N)) :=
  match n with
  | O => []
  | S k => let '(d, r1) := take_len l in let '(c, r2) := take_opt r1 in (d, c) :: parse_items k r2
  end.
Fixpoint parse_blocks (n : nat) (l : list N) : list (list N) :=
  match n with
  | O => []
  | S k => let '(d, r) := take_len l in d :: parse_blocks k r
  end.

(* adaptive history: [1; alg; creatable] set_algorithm | [2] train | [3; codec_ok] compress (of a 1-byte payload) ;
   observation after every op: current algorithm, successful operations so far; [99] = panic *)
Fixpoint ad_replay (fuel : nat) (cfg : ad_config) (st : ad_state) (ops : list N) : list N :=
  match fuel with
  | O => []
  | S f =>
      match ops with
      | 1 :: a :: cr :: rest =>
          let st' := match ad_set_algorithm (fun _ => cr =? 1) st a with Some s => s | None => st end in
          ad_alg st' :: ad_done st' :: ad_replay f cfg st' rest
      | 2 :: rest => ad_alg st :: ad_done st :: ad_replay f cfg st rest
      | 3 :: okf :: rest =>
          match ad_compress (fun _ => fixed_codec (if okf =? 1 then Some [] else None) None) (fun _ => true) true false cfg st [0] 0 false with
          (* a returned block was produced by the current algorithm's codec and is decoded by it: flags 1 1 *)
          | AdOk _ s => ad_alg s :: ad_done s :: 1 :: 1 :: ad_replay f cfg s rest
          | AdErr s => ad_alg s :: ad_done s :: ad_replay f cfg s rest
          | AdPanic => [99]
          end
      | _ => []
      end
  end.

Definition run_case_x (op : N) (a b : list N) : list N :=
  match op with
  (* RansCompressor: a = the 256 counts of the instance, b = payload *)
  | 10 => match rans_encoder_new a with
          | Some t => out1 (rans_compress (mkRans a t) b)
          | None => [2]
          end
  | 11 => out1 (rans_decompress some_rans a)
  | 12 => counts_of a
  (* DictCompressor *)
  | 13 => out1 (dict_compress tt a)
  | 14 => out1 (dict_decompress tt a)
  (* HuffmanCompressor: a = tree_data() of the instance, b = payload *)
  | 15 => match deser_tree id_order a with
          | Some ht => out1 (huffc_compress (mkHuff ht a) b)
          | None => [2]
          end
  | 16 => out1 (huffc_decompress id_order some_huff a)
  (* HuffmanTree::serialize of what deserialize parsed, in the same order: the bytes themselves *)
  | 17 => match a with
          | c0 :: c1 :: rest => match deser_entries (N.to_nat (c0 + 256 * c1)) rest with
                                | Some l => ser_table l
                                | None => []
                                end
          | _ => []
          end
  (* RealtimeCompressor, one call: a = [cfg_mode; fallback; cur_mode; alg_index_used_by_the_harness; entry] ++ [len] ++ data ++
     [flag; len] ++ codec output ; b = [got] ++ block *)
  | 20 => match a with
          | m :: fb :: cur :: k :: entry :: rest =>
              let st := rt_set_mode (rt_new m (fb =? 1)) cur in
              if negb (rt_alg st =? k) then [7] else
              let '(data, r1) := take_len rest in let '(cout, _) := take_opt r1 in
              let seen := match b with 1 :: z => Some z | _ => None end in
              [if rt_explains st entry data cout seen then 1 else 0]
          | _ => [98]
          end
  (* decompress: a = [cfg_mode; fallback; cur_mode] ++ [flag; len] ++ what the current codec's decoder makes of the body ; b = block *)
  | 21 => match a with
          | m :: fb :: cur :: rest =>
              let st := rt_set_mode (rt_new m (fb =? 1)) cur in
              let '(dout, _) := take_opt rest in
              out1 (rt_decompress (fun _ => fixed_codec None dout) st b)
          | _ => [98]
          end
  (* compress_batch: a = [cfg_mode; fallback; cur_mode; k; n] ++ n x ([len] ++ item ++ [flag; len] ++ codec output) ;
     b = [got; m] ++ m x ([len] ++ block) *)
  | 22 => match a with
          | m :: fb :: cur :: k :: n :: rest =>
              let st := rt_set_mode (rt_new m (fb =? 1)) cur in
              if negb (rt_alg st =? k) then [7] else
              let items := parse_items (N.to_nat n) rest in
              match b with
              | 1 :: cnt :: r => [if rt_batch_explains st items (parse_blocks (N.to_nat cnt) r) then 1 else 0]
              | _ => [if rt_batch_may_fail st items then 1 else 0]
              end
          | _ => [98]
          end
  (* the producer of a block and its tag: a = [cfg_mode; cur_mode; len; late0; late1; timed_out] -> [tag; 0 | 1 alg] *)
  | 23 => match a with
          | m :: cur :: len :: l0 :: l1 :: t0 :: _ =>
              let st := rt_set_mode (rt_new m true) cur in
              match rt_producer st (zeros len) (mkClock (l0 =? 1) (l1 =? 1) (t0 =? 1)) with
              | PStored => [BLOCK_STORED; 0]
              | PCodec al => [BLOCK_COMPRESSED; 1; al]
              end
          | _ => [98]
          end
  (* AdaptiveCompressor history: a = [min_ops; interval; aggressive; window] ++ ops *)
  | 24 => match a with
          | mo :: iv :: ag :: w :: ops => ad_replay (S (length ops)) (mkAdCfg mo iv (ag =? 1) w) ad_new ops
          | _ => [98]
          end
  | _ => [99]
  end.

Definition run_case_all (op : N) (a b : list N) : list N :=
  if op <? 10 then run_case op a b
  else if (30 <=? op) && (op <? 40) then run_case_p op a b
  else if (40 <=? op) && (op <? 50) then run_case_s op a b
  else run_case_x op a b.
