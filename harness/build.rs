// Generates the property dispatch from the files present in src/ (one module per property,
// src/cNN.rs exposing `pub fn run(&Args)`), so adding a property never edits a shared file.
use std::io::Write;
fn main() {
    println!("cargo:rerun-if-changed=src");
    println!("cargo:rustc-check-cfg=cfg(zipora_verif)");
    let mut mods: Vec<String> = std::fs::read_dir("src").unwrap()
        .filter_map(|e| e.ok()).filter_map(|e| e.file_name().into_string().ok())
        .filter(|n| n.len() == 6 && n.starts_with('c') && n.ends_with(".rs") && n[1..3].chars().all(|c| c.is_ascii_digit()))
        .map(|n| n[..3].to_string()).collect();
    mods.sort();
    let out = std::path::Path::new(&std::env::var("OUT_DIR").unwrap()).join("dispatch.rs");
    let mut f = std::fs::File::create(out).unwrap();
    let src = std::fs::canonicalize("src").unwrap();
    for m in &mods {
        writeln!(f, "#[path = \"{}/{}.rs\"] mod {};", src.display(), m, m).unwrap();
    }
    writeln!(f, "pub fn dispatch(prop: &str, args: &crate::util::Args) -> bool {{ match prop {{").unwrap();
    for m in &mods {
        writeln!(f, "    \"{}\" => {{ {}::run(args); true }}", m.to_uppercase(), m).unwrap();
    }
    writeln!(f, "    _ => false }} }}").unwrap();
}
