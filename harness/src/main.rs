#![allow(dead_code)]
//! zv: correspondence + oracle harness for the zipora verification (see /verif/DESIGN.md).
//! usage: zv <property> --seed N --tier quick|thorough --out DIR [--replay FILE]
mod util;
include!(concat!(env!("OUT_DIR"), "/dispatch.rs"));

use util::Args;

fn main() {
    let argv: Vec<String> = std::env::args().collect();
    if argv.len() < 2 {
        eprintln!("usage: zv <property> --seed N --tier quick|thorough --out DIR [--replay FILE]");
        std::process::exit(2);
    }
    let prop = argv[1].clone();
    let mut args = Args { seed: 1, thorough: false, out: ".".into(), replay: None };
    let mut i = 2;
    while i < argv.len() {
        match argv[i].as_str() {
            "--seed" => { args.seed = argv[i + 1].parse().unwrap_or(1); i += 2; }
            "--tier" => { args.thorough = argv[i + 1] == "thorough"; i += 2; }
            "--out" => { args.out = argv[i + 1].clone(); i += 2; }
            "--replay" => { args.replay = Some(argv[i + 1].clone()); i += 2; }
            _ => { i += 1; }
        }
    }
    std::fs::create_dir_all(&args.out).unwrap();
    util::quiet_panics();
    if !dispatch(prop.as_str(), &args) {
        eprintln!("unknown property {}", prop);
        std::process::exit(2);
    }
}
