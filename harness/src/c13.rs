//! C13: serialised values decode to themselves and consume exactly their own bytes.
//! Cells with a mechanism model (M+S): VarInt, SignedVarInt, VarIntEncoder x 7 strategies.
use crate::util::*;
use serde_json::{json, Value};
use zipora::io::var_int::{SignedVarInt, VarInt};
use zipora::io::var_int_variants::{VarIntEncoder, VarIntStrategy};

const HEADER: &str = r#"From ZV.Common Require Import Base Run.
From ZV.C13 Require Import Model.
Open Scope N_scope.
Definition case_t : Type := N * N * list Z * list N * option (list Z).
Definition ok (c : case_t) : bool :=
  let '(op, s, ints, bytes, expect) := c in eqb_olz (run_case op s ints bytes) expect.
"#;

const STRATS: [(VarIntStrategy, &str); 7] = [
    (VarIntStrategy::Leb128, "leb128"),
    (VarIntStrategy::Zigzag, "zigzag"),
    (VarIntStrategy::Delta, "delta"),
    (VarIntStrategy::GroupVarint, "group_varint"),
    (VarIntStrategy::PrefixFree, "prefix_free"),
    (VarIntStrategy::Compact, "compact"),
    (VarIntStrategy::Simd, "simd"),
];

struct Ctx {
    sum: Summary,
    shards: CoqShards,
    coq_budget: usize,
    rng: Rng,
}

fn case_json(op: u32, s: usize, ints: &[i128], bytes: &[u8]) -> Value {
    // integers as decimal strings: u64/i64 extremes do not survive JSON doubles
    json!({"op": op, "s": s, "ints": ints.iter().map(|x| x.to_string()).collect::<Vec<_>>(), "bytes": bytes})
}

impl Ctx {
    /// Register a case for evaluation by the Coq model, with the implementation's observation.
    fn coq(&mut self, op: u32, s: usize, ints: &[i128], bytes: &[u8], obs: &Option<Vec<i128>>, force: bool) {
        if !force && self.shards.len() >= self.coq_budget { return; }
        let term = format!(
            "({}, {}, {}, {}, {})",
            op, s, coq_z_list(ints.iter().cloned()), coq_bytes(bytes),
            coq_opt(obs.as_ref().map(|v| coq_z_list(v.iter().cloned())))
        );
        let mut cj = case_json(op, s, ints, bytes);
        cj["impl_obs"] = json!(obs.as_ref().map(|v| v.iter().map(|x| x.to_string()).collect::<Vec<_>>()));
        self.shards.push(term, cj);
    }
}

fn u64_boundaries() -> Vec<u64> {
    let mut v = vec![0u64, 1, 2, 63, 64, 255, 256, 65535, 65536, (1 << 32) - 1, 1 << 32, (1 << 32) + 1,
                     (1 << 63) - 1, 1 << 63, (1 << 63) + 1, u64::MAX - 1, u64::MAX];
    for k in 1..=9u32 {
        let p = 1u64 << (7 * k);
        v.extend_from_slice(&[p - 1, p, p + 1]);
    }
    for k in 1..=7u32 {
        let p = 1u64 << (8 * k);
        v.extend_from_slice(&[p - 1, p, p + 1]);
    }
    v.sort();
    v.dedup();
    v
}
fn i64_boundaries() -> Vec<i64> {
    let mut v = vec![0i64, 1, -1, 63, 64, -64, -65, 127, 128, -128, -129, i64::MAX, i64::MIN, i64::MAX - 1, i64::MIN + 1];
    for k in 1..=9u32 {
        let p = if 7 * k - 1 < 63 { 1i64 << (7 * k - 1) } else { continue };
        v.extend_from_slice(&[p - 1, p, p + 1, -p - 1, -p, -p + 1]);
    }
    v.sort();
    v.dedup();
    v
}
fn rand_u64(r: &mut Rng) -> u64 {
    match r.below(4) {
        0 => *r.pick(&u64_boundaries()),
        1 => r.next() >> r.below(64),
        2 => r.below(300),
        _ => r.next(),
    }
}
fn rand_i64(r: &mut Rng) -> i64 {
    match r.below(4) {
        0 => *r.pick(&i64_boundaries()),
        1 => (r.next() as i64) >> r.below(64),
        2 => r.below(300) as i64 - 150,
        _ => r.next() as i64,
    }
}
fn garbage(r: &mut Rng) -> Vec<u8> {
    let n = *r.pick(&[0usize, 0, 1, 3, 9]);
    r.bytes(n)
}

/// Class predicates of the recorded findings (mirrored in coq/C13/Model.v).
fn known_delta_u(xs: &[u64]) -> bool {
    xs.windows(2).any(|w| (if w[0] <= w[1] { w[1] - w[0] } else { w[0] - w[1] }) >= (1u64 << 63))
}
fn known_gv(xs: &[u64]) -> bool { xs.iter().any(|&v| v >= (1u64 << 32)) }

fn single_u64(cx: &mut Ctx, si: usize, v: u64, tail: &[u8], force: bool) {
    let (strat, name) = STRATS[si];
    let cell = format!("VarIntEncoder/{}/u64", name);
    let e = VarIntEncoder::new(strat);
    let key = format!("u64 {} {} {:?}", si, v, tail);
    cx.sum.eval(&cell, &key, v >= 128);
    let enc = guarded(|| e.encode_u64(v));
    let cj = case_json(0, si, &[v as i128], tail);
    match enc {
        Err(p) => cx.sum.fail(&cell, None, cj, &format!("encode panicked: {}", p)),
        Ok(Err(_)) => {
            cx.sum.dist("encode_refused");
            cx.coq(0, si, &[v as i128], &[], &None, force);
        }
        Ok(Ok(bytes)) => {
            cx.coq(0, si, &[v as i128], &[], &Some(bytes.iter().map(|&b| b as i128).collect()), force);
            let mut buf = bytes.clone();
            buf.extend_from_slice(tail);
            let dec = guarded(|| e.decode_u64(&buf));
            match dec {
                Err(p) => cx.sum.fail(&cell, None, cj, &format!("decode panicked: {}", p)),
                Ok(r) => {
                    let obs = r.as_ref().ok().map(|&(x, n)| vec![x as i128, n as i128]);
                    cx.coq(1, si, &[], &buf, &obs, force);
                    if r.as_ref().ok() != Some(&(v, bytes.len())) {
                        cx.sum.fail(&cell, None, cj, &format!("decode(encode(v)++tail) = {:?}, want ({}, {})", r.ok(), v, bytes.len()));
                    }
                }
            }
        }
    }
}

fn single_i64(cx: &mut Ctx, si: usize, v: i64, tail: &[u8], force: bool) {
    let (strat, name) = STRATS[si];
    let cell = format!("VarIntEncoder/{}/i64", name);
    let e = VarIntEncoder::new(strat);
    let key = format!("i64 {} {} {:?}", si, v, tail);
    cx.sum.eval(&cell, &key, v >= 64 || v < -64);
    let enc = guarded(|| e.encode_i64(v));
    let cj = case_json(2, si, &[v as i128], tail);
    match enc {
        Err(p) => cx.sum.fail(&cell, None, cj, &format!("encode panicked: {}", p)),
        Ok(Err(_)) => {
            cx.sum.dist("encode_refused");
            cx.coq(2, si, &[v as i128], &[], &None, force);
        }
        Ok(Ok(bytes)) => {
            cx.coq(2, si, &[v as i128], &[], &Some(bytes.iter().map(|&b| b as i128).collect()), force);
            let mut buf = bytes.clone();
            buf.extend_from_slice(tail);
            let dec = guarded(|| e.decode_i64(&buf));
            match dec {
                Err(p) => cx.sum.fail(&cell, None, cj, &format!("decode panicked: {}", p)),
                Ok(r) => {
                    let obs = r.as_ref().ok().map(|&(x, n)| vec![x as i128, n as i128]);
                    cx.coq(3, si, &[], &buf, &obs, force);
                    if r.as_ref().ok() != Some(&(v, bytes.len())) {
                        cx.sum.fail(&cell, None, cj, &format!("decode(encode(v)++tail) = {:?}, want ({}, {})", r.ok(), v, bytes.len()));
                    }
                }
            }
        }
    }
}

fn seq_u64(cx: &mut Ctx, si: usize, xs: &[u64], tail: &[u8], force: bool) {
    let (strat, name) = STRATS[si];
    let cell = format!("VarIntEncoder/{}/u64_seq", name);
    let e = VarIntEncoder::new(strat);
    let key = format!("u64s {} {:?} {:?}", si, xs, tail);
    cx.sum.eval(&cell, &key, xs.len() >= 2);
    cx.sum.dist(&format!("seq_len_mod4={}", xs.len() % 4));
    let ints: Vec<i128> = xs.iter().map(|&x| x as i128).collect();
    let cj = case_json(4, si, &ints, tail);
    let class = match si {
        2 if known_delta_u(xs) => Some("delta_u64_big_difference"),
        3 if known_gv(xs) => Some("group_varint_wide_value"),
        _ => None,
    };
    let enc = guarded(|| e.encode_u64_sequence(xs));
    match enc {
        Err(p) => cx.sum.fail(&cell, class, cj, &format!("encode panicked: {}", p)),
        Ok(Err(_)) => {
            cx.sum.dist("encode_refused");
            cx.coq(4, si, &ints, &[], &None, force);
        }
        Ok(Ok(bytes)) => {
            cx.coq(4, si, &ints, &[], &Some(bytes.iter().map(|&b| b as i128).collect()), force);
            let mut buf = bytes.clone();
            buf.extend_from_slice(tail);
            let dec = guarded(|| e.decode_u64_sequence(&buf));
            match dec {
                Err(p) => cx.sum.fail(&cell, class, cj, &format!("decode panicked: {}", p)),
                Ok(r) => {
                    let obs = r.as_ref().ok().map(|v| v.iter().map(|&x| x as i128).collect::<Vec<_>>());
                    cx.coq(5, si, &[], &buf, &obs, force);
                    if r.as_ref().ok().map(|v| v.as_slice()) != Some(xs) {
                        cx.sum.fail(&cell, class, cj, &format!("decode(encode(xs)++tail) = {:?}", r.ok()));
                    } else if class.is_some() {
                        cx.sum.dist("known_class_but_passed");
                    }
                }
            }
        }
    }
}

fn seq_i64(cx: &mut Ctx, si: usize, xs: &[i64], tail: &[u8], force: bool) {
    let (strat, name) = STRATS[si];
    let cell = format!("VarIntEncoder/{}/i64_seq", name);
    let e = VarIntEncoder::new(strat);
    let key = format!("i64s {} {:?} {:?}", si, xs, tail);
    cx.sum.eval(&cell, &key, xs.len() >= 2);
    let ints: Vec<i128> = xs.iter().map(|&x| x as i128).collect();
    let cj = case_json(6, si, &ints, tail);
    let as_u: Vec<u64> = xs.iter().map(|&x| x as u64).collect();
    let class = match si {
        3 if known_gv(&as_u) => Some("group_varint_wide_value"),
        _ => None,
    };
    let enc = guarded(|| e.encode_i64_sequence(xs));
    match enc {
        Err(p) => cx.sum.fail(&cell, class, cj, &format!("encode panicked: {}", p)),
        Ok(Err(_)) => {
            cx.sum.dist("encode_refused");
            cx.coq(6, si, &ints, &[], &None, force);
        }
        Ok(Ok(bytes)) => {
            cx.coq(6, si, &ints, &[], &Some(bytes.iter().map(|&b| b as i128).collect()), force);
            let mut buf = bytes.clone();
            buf.extend_from_slice(tail);
            let dec = guarded(|| e.decode_i64_sequence(&buf));
            match dec {
                Err(p) => cx.sum.fail(&cell, class, cj, &format!("decode panicked: {}", p)),
                Ok(r) => {
                    let obs = r.as_ref().ok().map(|v| v.iter().map(|&x| x as i128).collect::<Vec<_>>());
                    cx.coq(7, si, &[], &buf, &obs, force);
                    if r.as_ref().ok().map(|v| v.as_slice()) != Some(xs) {
                        cx.sum.fail(&cell, class, cj, &format!("decode(encode(xs)++tail) = {:?}", r.ok()));
                    } else if class.is_some() {
                        cx.sum.dist("known_class_but_passed");
                    }
                }
            }
        }
    }
}

fn varint_u(cx: &mut Ctx, v: u64, tail: &[u8], force: bool) {
    let cell = "VarInt";
    cx.sum.eval(cell, &format!("vi {} {:?}", v, tail), v >= 128);
    let cj = case_json(8, 0, &[v as i128], tail);
    let r = guarded(|| {
        let enc = VarInt::encode(v);
        let mut buf = enc.clone();
        buf.extend_from_slice(tail);
        let dec = VarInt::decode(&buf).ok();
        let el = VarInt::encoded_len(v);
        let mut w = Vec::new();
        let n = VarInt::write_to(&mut w, v).ok();
        (enc, buf, dec, el, w, n)
    });
    match r {
        Err(p) => cx.sum.fail(cell, None, cj, &format!("panicked: {}", p)),
        Ok((enc, buf, dec, el, w, n)) => {
            cx.coq(8, 0, &[v as i128], &[], &Some(enc.iter().map(|&b| b as i128).collect()), force);
            cx.coq(9, 0, &[], &buf, &dec.map(|(x, n)| vec![x as i128, n as i128]), force);
            cx.coq(12, 0, &[v as i128], &[], &Some(vec![el as i128]), force);
            if dec != Some((v, enc.len())) {
                cx.sum.fail(cell, None, cj.clone(), &format!("decode = {:?}", dec));
            }
            if el != enc.len() {
                cx.sum.fail(cell, None, cj.clone(), &format!("encoded_len {} != {}", el, enc.len()));
            }
            if w != enc || n != Some(enc.len()) {
                cx.sum.fail(cell, None, cj, "write_to differs from encode");
            }
        }
    }
}
fn varint_s(cx: &mut Ctx, v: i64, tail: &[u8], force: bool) {
    let cell = "SignedVarInt";
    cx.sum.eval(cell, &format!("vs {} {:?}", v, tail), v >= 64 || v < -64);
    let cj = case_json(10, 0, &[v as i128], tail);
    let r = guarded(|| {
        let enc = <VarInt as SignedVarInt>::encode_signed(v);
        let mut buf = enc.clone();
        buf.extend_from_slice(tail);
        let dec = <VarInt as SignedVarInt>::decode_signed(&buf).ok();
        (enc, buf, dec)
    });
    match r {
        Err(p) => cx.sum.fail(cell, None, cj, &format!("panicked: {}", p)),
        Ok((enc, buf, dec)) => {
            cx.coq(10, 0, &[v as i128], &[], &Some(enc.iter().map(|&b| b as i128).collect()), force);
            cx.coq(11, 0, &[], &buf, &dec.map(|(x, n)| vec![x as i128, n as i128]), force);
            if dec != Some((v, enc.len())) {
                cx.sum.fail(cell, None, cj, &format!("decode = {:?}", dec));
            }
        }
    }
}

/// Arbitrary bytes through the single-value decoders: ties the model's decoder to the
/// code on non-canonical and truncated input as well (no allocation is involved).
fn raw_decode(cx: &mut Ctx, bytes: &[u8]) {
    cx.sum.eval("raw_decode", &format!("raw {:?}", bytes), bytes.len() >= 2);
    for si in 0..7 {
        let e = VarIntEncoder::new(STRATS[si].0);
        match guarded(|| (e.decode_u64(bytes).ok(), e.decode_i64(bytes).ok())) {
            Err(p) => cx.sum.fail("raw_decode", None, case_json(1, si, &[], bytes), &format!("decode panicked: {}", p)),
            Ok((u, i)) => {
                cx.coq(1, si, &[], bytes, &u.map(|(x, n)| vec![x as i128, n as i128]), false);
                cx.coq(3, si, &[], bytes, &i.map(|(x, n)| vec![x as i128, n as i128]), false);
            }
        }
    }
    match guarded(|| VarInt::decode(bytes).ok()) {
        Err(p) => cx.sum.fail("raw_decode", None, case_json(9, 0, &[], bytes), &format!("decode panicked: {}", p)),
        Ok(u) => cx.coq(9, 0, &[], bytes, &u.map(|(x, n)| vec![x as i128, n as i128]), false),
    }
}

fn multi(cx: &mut Ctx, xs: &[u64]) {
    let cell = "VarInt/multiple";
    cx.sum.eval(cell, &format!("multi {:?}", xs), xs.len() >= 2);
    let r = guarded(|| {
        let enc = VarInt::encode_multiple(xs.iter().cloned());
        let cat: Vec<u8> = xs.iter().flat_map(|&x| VarInt::encode(x)).collect();
        (enc.clone(), cat, VarInt::decode_multiple(&enc).ok())
    });
    let cj = case_json(13, 0, &xs.iter().map(|&x| x as i128).collect::<Vec<_>>(), &[]);
    match r {
        Err(p) => cx.sum.fail(cell, None, cj, &format!("panicked: {}", p)),
        Ok((enc, cat, dec)) => {
            if enc != cat { cx.sum.fail(cell, None, cj.clone(), "encode_multiple is not the concatenation"); }
            if dec.as_deref() != Some(xs) { cx.sum.fail(cell, None, cj, &format!("decode_multiple = {:?}", dec)); }
        }
    }
}

fn parse_ints(v: &Value) -> Vec<i128> {
    v.as_array().map(|a| a.iter().map(|x| x.as_str().map(|s| s.parse().unwrap()).unwrap_or_else(|| x.as_i64().unwrap_or(0) as i128)).collect()).unwrap_or_default()
}

fn run_one(cx: &mut Ctx, c: &Value) {
    let op = c["op"].as_u64().unwrap_or(0) as u32;
    let s = c["s"].as_u64().unwrap_or(0) as usize;
    let ints = parse_ints(&c["ints"]);
    let bytes: Vec<u8> = c["bytes"].as_array().map(|a| a.iter().map(|x| x.as_u64().unwrap() as u8).collect()).unwrap_or_default();
    match op {
        0 => single_u64(cx, s, ints[0] as u64, &bytes, true),
        2 => single_i64(cx, s, ints[0] as i64, &bytes, true),
        4 => seq_u64(cx, s, &ints.iter().map(|&x| x as u64).collect::<Vec<_>>(), &bytes, true),
        6 => seq_i64(cx, s, &ints.iter().map(|&x| x as i64).collect::<Vec<_>>(), &bytes, true),
        8 => varint_u(cx, ints[0] as u64, &bytes, true),
        10 => varint_s(cx, ints[0] as i64, &bytes, true),
        13 => multi(cx, &ints.iter().map(|&x| x as u64).collect::<Vec<_>>()),
        _ => raw_decode(cx, &bytes),
    }
}

pub fn run(args: &Args) {
    let mut cx = Ctx {
        sum: Summary::new("C13", "corpus + boundary values (0, 2^7k +-1, 2^8k +-1, 2^32, 2^63, MAX/MIN) through every strategy with and without trailing bytes; sequences of length 0..9 with large first differences; random byte strings through the single-value decoders; a case is non-trivial when the value needs >1 byte or the sequence has >=2 elements; distinct = distinct canonical case text"),
        shards: CoqShards::new(HEADER, 400),
        coq_budget: if args.thorough { 24000 } else { 3200 },
        rng: Rng::new(args.seed),
    };
    if let Some(f) = &args.replay {
        let txt = std::fs::read_to_string(f).expect("replay file");
        let v: Value = serde_json::from_str(&txt).expect("replay json");
        let c = if v.get("case").is_some() { v["case"].clone() } else { v };
        run_one(&mut cx, &c);
        let sh = cx.shards.write(&args.out);
        cx.sum.write(&args.out, sh);
        return;
    }
    // 1. corpus (refutation witnesses and minimised past failures) - always evaluated in Coq too
    if let Ok(rd) = std::fs::read_dir("/verif/corpus/C13") {
        let mut files: Vec<_> = rd.filter_map(|e| e.ok()).map(|e| e.path()).collect();
        files.sort();
        for p in files {
            if let Ok(txt) = std::fs::read_to_string(&p) {
                if let Ok(v) = serde_json::from_str::<Value>(&txt) {
                    let c = if v.get("case").is_some() { v["case"].clone() } else { v };
                    run_one(&mut cx, &c);
                    cx.sum.dist("corpus_cases");
                }
            }
        }
    }
    // 2. boundary values through every strategy
    let ub = u64_boundaries();
    let ib = i64_boundaries();
    for si in 0..7 {
        for &v in &ub {
            single_u64(&mut cx, si, v, &[], false);
            single_u64(&mut cx, si, v, &[0x80, 0xFF, 0x01], false);
        }
        for &v in &ib {
            single_i64(&mut cx, si, v, &[], false);
            single_i64(&mut cx, si, v, &[0xFF, 0x80], false);
        }
    }
    for &v in &ub { varint_u(&mut cx, v, &[], false); varint_u(&mut cx, v, &[0x80, 0x7F], false); }
    for &v in &ib { varint_s(&mut cx, v, &[], false); varint_s(&mut cx, v, &[0x80], false); }
    cx.sum.sample(json!({"kind": "boundary u64 through all 7 strategies", "values": ub.len()}));
    // 3. sequences
    let nseq = if args.thorough { 40000 } else { 3000 };
    for k in 0..nseq {
        let mut r = cx.rng.clone();
        let len = r.below(10) as usize;
        let tail = garbage(&mut r);
        let si = (k % 7) as usize;
        let xs: Vec<u64> = match r.below(4) {
            0 => { let mut a: Vec<u64> = (0..len).map(|_| rand_u64(&mut r) >> 1).collect(); a.sort(); a }
            1 => (0..len).map(|_| r.below(1 << 20)).collect(),
            2 => (0..len).map(|_| r.below(1u64 << 32)).collect(),
            _ => (0..len).map(|_| rand_u64(&mut r)).collect(),
        };
        seq_u64(&mut cx, si, &xs, &tail, false);
        let ys: Vec<i64> = match r.below(3) {
            0 => (0..len).map(|_| r.below(1 << 16) as i64 - 30000).collect(),
            1 => { let mut a: Vec<i64> = (0..len).map(|_| rand_i64(&mut r) >> 1).collect(); a.sort(); a }
            _ => (0..len).map(|_| rand_i64(&mut r)).collect(),
        };
        seq_i64(&mut cx, si, &ys, &tail, false);
        if k < 4 { cx.sum.sample(json!({"strategy": STRATS[si].1, "u64_seq": xs.iter().map(|x| x.to_string()).collect::<Vec<_>>(), "tail": tail})); }
        cx.rng = r;
        if k % 5 == 0 { let xs2 = xs.clone(); multi(&mut cx, &xs2); }
    }
    // 4. random singles
    let nsingle = if args.thorough { 200000 } else { 6000 };
    for k in 0..nsingle {
        let mut r = cx.rng.clone();
        let si = (k % 7) as usize;
        let v = rand_u64(&mut r);
        let w = rand_i64(&mut r);
        let tail = garbage(&mut r);
        cx.rng = r;
        single_u64(&mut cx, si, v, &tail, false);
        single_i64(&mut cx, si, w, &tail, false);
        if k % 7 == 0 { varint_u(&mut cx, v, &tail, false); varint_s(&mut cx, w, &tail, false); }
    }
    // 5. arbitrary bytes through single-value decoders
    let nraw = if args.thorough { 4000 } else { 150 };
    for _ in 0..nraw {
        let mut r = cx.rng.clone();
        let n = r.below(13) as usize;
        let mut b = r.bytes(n);
        if r.chance(1, 2) { for x in b.iter_mut() { if r.chance(2, 3) { *x |= 0x80; } } }
        cx.rng = r;
        raw_decode(&mut cx, &b);
    }
    // 6. exhaustive u16 sweep through every single-value codec (oracle only)
    let step = if args.thorough { 1 } else { 37 };
    let mut v = 0u32;
    while v <= 0xFFFF {
        for si in 0..7 {
            let e = VarIntEncoder::new(STRATS[si].0);
            if let Ok(enc) = e.encode_u64(v as u64) {
                cx.sum.evaluations += 1;
                if e.decode_u64(&enc).ok() != Some((v as u64, enc.len())) {
                    cx.sum.fail(&format!("VarIntEncoder/{}/u64", STRATS[si].1), None, case_json(0, si, &[v as i128], &[]), "u16 sweep");
                }
            }
            let sv = v as i64 - 32768;
            if let Ok(enc) = e.encode_i64(sv) {
                cx.sum.evaluations += 1;
                if e.decode_i64(&enc).ok() != Some((sv, enc.len())) {
                    cx.sum.fail(&format!("VarIntEncoder/{}/i64", STRATS[si].1), None, case_json(2, si, &[sv as i128], &[]), "i16 sweep");
                }
            }
        }
        v += step;
    }
    cx.sum.dist_max("coq_cases", cx.shards.len() as u64);
    let sh = cx.shards.write(&args.out);
    cx.sum.write(&args.out, sh);
}
