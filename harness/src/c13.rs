//! C13: serialised values decode to themselves and consume exactly their own bytes.
//! Cells with a mechanism model (M+S): VarInt, SignedVarInt, VarIntEncoder x 7 strategies.
use crate::util::*;
use serde_json::{json, Value};
use zipora::io::var_int::{SignedVarInt, VarInt};
use zipora::io::var_int_variants::{VarIntEncoder, VarIntStrategy};
#[path = "c13_io.rs"]
mod c13_io;
#[path = "c13_ser.rs"]
mod c13_ser;
#[path = "c13_rd.rs"]
mod c13_rd;
#[path = "c13_coq.rs"]
mod c13_coq;
#[path = "c13_br.rs"]
mod c13_br;
#[path = "c13_uni.rs"]
mod c13_uni;

const HEADER: &str = r#"From ZV.Common Require Import Base Run.
From ZV.C13 Require Import Model ModelRun.
Open Scope N_scope.
Definition case_t : Type := N * N * list Z * list N * option (list Z).
Definition ok (c : case_t) : bool :=
  let '(op, s, ints, bytes, expect) := c in eqb_olz (run_case2 op s ints bytes) expect.
"#;

const STRATS: [(VarIntStrategy, &str); 7] = [
    (VarIntStrategy::Leb128, "leb128"),
    (VarIntStrategy::Zigzag, "zigzag"),
    (VarIntStrategy::Delta, "delta"),
    (VarIntStrategy::GroupVarint, "group_varint"),
    (VarIntStrategy::PrefixFree, "prefix_free"),
    (VarIntStrategy::Compact, "compact"),
    (VarIntStrategy::Simd, "simd"),
];

pub struct Ctx {
    sum: Summary,
    shards: CoqShards,
    coq_budget: usize,
    /// separate budget for the cells added after the varint codecs, so that they are always represented
    coq_budget2: usize,
    coq_used2: usize,
    op_used: std::collections::HashMap<u32, usize>,
    /// Coq cases of the type-universe / versioned-record models, per cell
    uni_used: std::collections::HashMap<String, usize>,
    rng: Rng,
    tmp: String,
    format_drift: bool,
    /// probe mode (child process): every case is logged before it runs, so that a case that aborts the
    /// process (allocation failure, stack overflow) can be named by the parent
    probe_log: Option<std::fs::File>,
    case_no: u64,
    skip: Vec<u64>,
}
impl Ctx {
    /// Called at the start of every new-cell case; false = the case is known to abort the process, do not run it.
    pub fn gate(&mut self, cj: &Value) -> bool {
        self.case_no += 1;
        if self.skip.contains(&self.case_no) { return false; }
        if let Some(f) = self.probe_log.as_mut() {
            use std::io::Write;
            // one write per case: the log file is unbuffered and a serde_json value prints itself piecewise
            let line = format!("{}\n", json!({"n": self.case_no, "case": cj}));
            let _ = f.write_all(line.as_bytes());
            let _ = f.flush();
        }
        true
    }
}
/// Run this binary again as a child on `spec`; returns (exited normally, last logged case).
fn probe_child(args: &Args, spec: &Value, tag: &str) -> (bool, Option<Value>) {
    let dir = format!("{}/probe_{}", args.out, tag);
    std::fs::create_dir_all(&dir).ok();
    let f = format!("{}/spec.json", dir);
    std::fs::write(&f, spec.to_string()).ok();
    let st = std::process::Command::new(std::env::current_exe().unwrap())
        .args(["C13", "--seed", &args.seed.to_string(), "--tier", if args.thorough { "thorough" } else { "quick" }, "--out", &dir, "--replay", &f])
        .stdout(std::process::Stdio::null()).stderr(std::process::Stdio::null()).status();
    let ok = matches!(st, Ok(s) if s.success());
    let last = std::fs::read_to_string(format!("{}/probe.log", dir)).ok()
        .and_then(|t| t.lines().last().map(|l| l.to_string())).and_then(|l| serde_json::from_str::<Value>(&l).ok());
    std::fs::remove_dir_all(&dir).ok();
    (ok, last)
}

fn case_json(op: u32, s: usize, ints: &[i128], bytes: &[u8]) -> Value {
    // integers as decimal strings: u64/i64 extremes do not survive JSON doubles
    json!({"op": op, "s": s, "ints": ints.iter().map(|x| x.to_string()).collect::<Vec<_>>(), "bytes": bytes})
}

impl Ctx {
    /// Register a case for evaluation by the Coq model, with the implementation's observation.
    fn coq(&mut self, op: u32, s: usize, ints: &[i128], bytes: &[u8], obs: &Option<Vec<i128>>, force: bool) {
        // a budget per operation, so that every modelled cell is represented among the Coq-evaluated cases
        let cap = match op { 0..=3 => 230, 4..=7 => 160, 8..=13 => 110, 14 | 15 => 100, 16 | 17 => 50, 18 | 19 => 130, 20..=22 => 50, 30..=32 => 230, _ => 50 } * self.coq_budget / 2400;
        let used = self.op_used.entry(op).or_insert(0);
        if !force && *used >= cap { return; }
        // forced cases (corpus, the per-cell budgets of the newer models) do not eat the operation's share
        if !force { *used += 1; }
        let term = format!(
            "({}, {}, {}, {}, {})",
            op, s, coq_z_list(ints.iter().cloned()), coq_bytes(bytes),
            coq_opt(obs.as_ref().map(|v| coq_z_list(v.iter().cloned())))
        );
        let mut cj = case_json(op, s, ints, bytes);
        cj["impl_obs"] = json!(obs.as_ref().map(|v| v.iter().map(|x| x.to_string()).collect::<Vec<_>>()));
        self.shards.push(term, cj);
    }
}

fn u64_boundaries() -> Vec<u64> {
    let mut v = vec![0u64, 1, 2, 63, 64, 255, 256, 65535, 65536, (1 << 32) - 1, 1 << 32, (1 << 32) + 1,
                     (1 << 63) - 1, 1 << 63, (1 << 63) + 1, u64::MAX - 1, u64::MAX];
    for k in 1..=9u32 {
        let p = 1u64 << (7 * k);
        v.extend_from_slice(&[p - 1, p, p + 1]);
    }
    for k in 1..=7u32 {
        let p = 1u64 << (8 * k);
        v.extend_from_slice(&[p - 1, p, p + 1]);
    }
    v.sort();
    v.dedup();
    v
}
fn i64_boundaries() -> Vec<i64> {
    let mut v = vec![0i64, 1, -1, 63, 64, -64, -65, 127, 128, -128, -129, i64::MAX, i64::MIN, i64::MAX - 1, i64::MIN + 1];
    for k in 1..=9u32 {
        let p = if 7 * k - 1 < 63 { 1i64 << (7 * k - 1) } else { continue };
        v.extend_from_slice(&[p - 1, p, p + 1, -p - 1, -p, -p + 1]);
    }
    v.sort();
    v.dedup();
    v
}
pub fn rand_u64(r: &mut Rng) -> u64 {
    match r.below(4) {
        0 => *r.pick(&u64_boundaries()),
        1 => r.next() >> r.below(64),
        2 => r.below(300),
        _ => r.next(),
    }
}
pub fn rand_i64(r: &mut Rng) -> i64 {
    match r.below(4) {
        0 => *r.pick(&i64_boundaries()),
        1 => (r.next() as i64) >> r.below(64),
        2 => r.below(300) as i64 - 150,
        _ => r.next() as i64,
    }
}
fn garbage(r: &mut Rng) -> Vec<u8> {
    let n = *r.pick(&[0usize, 0, 1, 3, 6, 9]);
    r.bytes(n)
}

/// Class predicates of the recorded findings (mirrored in coq/C13/Model.v).
fn known_delta_u(xs: &[u64]) -> bool {
    xs.windows(2).any(|w| (if w[0] <= w[1] { w[1] - w[0] } else { w[0] - w[1] }) >= (1u64 << 63))
}
fn known_gv(xs: &[u64]) -> bool { xs.iter().any(|&v| v >= (1u64 << 32)) }

fn single_u64(cx: &mut Ctx, si: usize, v: u64, tail: &[u8], force: bool) {
    let (strat, name) = STRATS[si];
    let cell = format!("VarIntEncoder/{}/u64", name);
    // the preset constructor (VarIntEncoder::leb128() ...) on half of the cases; it must build the same encoder
    let e = if tail.len() % 2 == 1 { c13_br::preset(si) } else { VarIntEncoder::new(strat) };
    if e.strategy() != strat { cx.sum.fail(&cell, None, case_json(0, si, &[v as i128], tail), &format!("the preset constructor of {} builds strategy {:?}", name, e.strategy())); return; }
    let key = format!("u64 {} {} {:?}", si, v, tail);
    cx.sum.eval(&cell, &key, v >= 128);
    let enc = guarded(|| e.encode_u64(v));
    let cj = case_json(0, si, &[v as i128], tail);
    match enc {
        Err(p) => cx.sum.fail(&cell, None, cj, &format!("encode panicked: {}", p)),
        Ok(Err(_)) => {
            cx.sum.dist("encode_refused");
            cx.coq(0, si, &[v as i128], &[], &None, force);
        }
        Ok(Ok(bytes)) => {
            cx.coq(0, si, &[v as i128], &[], &Some(bytes.iter().map(|&b| b as i128).collect()), force);
            let mut buf = bytes.clone();
            buf.extend_from_slice(tail);
            let dec = guarded(|| e.decode_u64(&buf));
            match dec {
                Err(p) => cx.sum.fail(&cell, None, cj, &format!("decode panicked: {}", p)),
                Ok(r) => {
                    let obs = r.as_ref().ok().map(|&(x, n)| vec![x as i128, n as i128]);
                    cx.coq(1, si, &[], &buf, &obs, force);
                    if r.as_ref().ok() != Some(&(v, bytes.len())) {
                        cx.sum.fail(&cell, None, cj, &format!("decode(encode(v)++tail) = {:?}, want ({}, {})", r.ok(), v, bytes.len()));
                    }
                }
            }
        }
    }
}

fn single_i64(cx: &mut Ctx, si: usize, v: i64, tail: &[u8], force: bool) {
    let (strat, name) = STRATS[si];
    let cell = format!("VarIntEncoder/{}/i64", name);
    // the preset constructor (VarIntEncoder::leb128() ...) on half of the cases; it must build the same encoder
    let e = if tail.len() % 2 == 1 { c13_br::preset(si) } else { VarIntEncoder::new(strat) };
    if e.strategy() != strat { cx.sum.fail(&cell, None, case_json(2, si, &[v as i128], tail), &format!("the preset constructor of {} builds strategy {:?}", name, e.strategy())); return; }
    let key = format!("i64 {} {} {:?}", si, v, tail);
    cx.sum.eval(&cell, &key, v >= 64 || v < -64);
    let enc = guarded(|| e.encode_i64(v));
    let cj = case_json(2, si, &[v as i128], tail);
    match enc {
        Err(p) => cx.sum.fail(&cell, None, cj, &format!("encode panicked: {}", p)),
        Ok(Err(_)) => {
            cx.sum.dist("encode_refused");
            cx.coq(2, si, &[v as i128], &[], &None, force);
        }
        Ok(Ok(bytes)) => {
            cx.coq(2, si, &[v as i128], &[], &Some(bytes.iter().map(|&b| b as i128).collect()), force);
            let mut buf = bytes.clone();
            buf.extend_from_slice(tail);
            let dec = guarded(|| e.decode_i64(&buf));
            match dec {
                Err(p) => cx.sum.fail(&cell, None, cj, &format!("decode panicked: {}", p)),
                Ok(r) => {
                    let obs = r.as_ref().ok().map(|&(x, n)| vec![x as i128, n as i128]);
                    cx.coq(3, si, &[], &buf, &obs, force);
                    if r.as_ref().ok() != Some(&(v, bytes.len())) {
                        cx.sum.fail(&cell, None, cj, &format!("decode(encode(v)++tail) = {:?}, want ({}, {})", r.ok(), v, bytes.len()));
                    }
                }
            }
        }
    }
}

fn seq_u64(cx: &mut Ctx, si: usize, xs: &[u64], tail: &[u8], force: bool) {
    let (strat, name) = STRATS[si];
    let cell = format!("VarIntEncoder/{}/u64_seq", name);
    // the preset constructor (VarIntEncoder::leb128() ...) on half of the cases; it must build the same encoder
    let e = if tail.len() % 2 == 1 { c13_br::preset(si) } else { VarIntEncoder::new(strat) };
    if e.strategy() != strat { cx.sum.fail(&cell, None, case_json(4, si, &xs.iter().map(|&x| x as i128).collect::<Vec<_>>(), tail), &format!("the preset constructor of {} builds strategy {:?}", name, e.strategy())); return; }
    let key = format!("u64s {} {:?} {:?}", si, xs, tail);
    cx.sum.eval(&cell, &key, xs.len() >= 2);
    cx.sum.dist(&format!("seq_len_mod4={}", xs.len() % 4));
    let ints: Vec<i128> = xs.iter().map(|&x| x as i128).collect();
    let cj = case_json(4, si, &ints, tail);
    let class = match si {
        2 if known_delta_u(xs) => Some("delta_u64_big_difference"),
        3 if known_gv(xs) => Some("group_varint_wide_value"),
        _ => None,
    };
    let enc = guarded(|| e.encode_u64_sequence(xs));
    match enc {
        Err(p) => cx.sum.fail(&cell, class, cj, &format!("encode panicked: {}", p)),
        Ok(Err(_)) => {
            cx.sum.dist("encode_refused");
            cx.coq(4, si, &ints, &[], &None, force);
        }
        Ok(Ok(bytes)) => {
            cx.coq(4, si, &ints, &[], &Some(bytes.iter().map(|&b| b as i128).collect()), force);
            let mut buf = bytes.clone();
            buf.extend_from_slice(tail);
            let dec = guarded(|| e.decode_u64_sequence(&buf));
            match dec {
                Err(p) => cx.sum.fail(&cell, class, cj, &format!("decode panicked: {}", p)),
                Ok(r) => {
                    let obs = r.as_ref().ok().map(|v| v.iter().map(|&x| x as i128).collect::<Vec<_>>());
                    cx.coq(5, si, &[], &buf, &obs, force);
                    if r.as_ref().ok().map(|v| v.as_slice()) != Some(xs) {
                        cx.sum.fail(&cell, class, cj, &format!("decode(encode(xs)++tail) = {:?}", r.ok()));
                    } else if class.is_some() {
                        cx.sum.dist("known_class_but_passed");
                    }
                }
            }
        }
    }
}

fn seq_i64(cx: &mut Ctx, si: usize, xs: &[i64], tail: &[u8], force: bool) {
    let (strat, name) = STRATS[si];
    let cell = format!("VarIntEncoder/{}/i64_seq", name);
    // the preset constructor (VarIntEncoder::leb128() ...) on half of the cases; it must build the same encoder
    let e = if tail.len() % 2 == 1 { c13_br::preset(si) } else { VarIntEncoder::new(strat) };
    if e.strategy() != strat { cx.sum.fail(&cell, None, case_json(6, si, &xs.iter().map(|&x| x as i128).collect::<Vec<_>>(), tail), &format!("the preset constructor of {} builds strategy {:?}", name, e.strategy())); return; }
    let key = format!("i64s {} {:?} {:?}", si, xs, tail);
    cx.sum.eval(&cell, &key, xs.len() >= 2);
    let ints: Vec<i128> = xs.iter().map(|&x| x as i128).collect();
    let cj = case_json(6, si, &ints, tail);
    let as_u: Vec<u64> = xs.iter().map(|&x| x as u64).collect();
    let class = match si {
        3 if known_gv(&as_u) => Some("group_varint_wide_value"),
        _ => None,
    };
    let enc = guarded(|| e.encode_i64_sequence(xs));
    match enc {
        Err(p) => cx.sum.fail(&cell, class, cj, &format!("encode panicked: {}", p)),
        Ok(Err(_)) => {
            cx.sum.dist("encode_refused");
            cx.coq(6, si, &ints, &[], &None, force);
        }
        Ok(Ok(bytes)) => {
            cx.coq(6, si, &ints, &[], &Some(bytes.iter().map(|&b| b as i128).collect()), force);
            let mut buf = bytes.clone();
            buf.extend_from_slice(tail);
            let dec = guarded(|| e.decode_i64_sequence(&buf));
            match dec {
                Err(p) => cx.sum.fail(&cell, class, cj, &format!("decode panicked: {}", p)),
                Ok(r) => {
                    let obs = r.as_ref().ok().map(|v| v.iter().map(|&x| x as i128).collect::<Vec<_>>());
                    cx.coq(7, si, &[], &buf, &obs, force);
                    if r.as_ref().ok().map(|v| v.as_slice()) != Some(xs) {
                        cx.sum.fail(&cell, class, cj, &format!("decode(encode(xs)++tail) = {:?}", r.ok()));
                    } else if class.is_some() {
                        cx.sum.dist("known_class_but_passed");
                    }
                }
            }
        }
    }
}

fn varint_u(cx: &mut Ctx, v: u64, tail: &[u8], force: bool) {
    let cell = "VarInt";
    cx.sum.eval(cell, &format!("vi {} {:?}", v, tail), v >= 128);
    let cj = case_json(8, 0, &[v as i128], tail);
    let r = guarded(|| {
        let enc = VarInt::encode(v);
        let mut buf = enc.clone();
        buf.extend_from_slice(tail);
        let dec = VarInt::decode(&buf).ok();
        let el = VarInt::encoded_len(v);
        let mut w = Vec::new();
        let n = VarInt::write_to(&mut w, v).ok();
        // write_to_vec appends to what the buffer already holds; read_from takes exactly the value's bytes from a DataInput
        let mut pre = tail.to_vec();
        let n2 = VarInt::write_to_vec(&mut pre, v).ok();
        let mut inp = zipora::io::SliceDataInput::new(&buf);
        let rd = VarInt::read_from(&mut inp).ok();
        let extra = n2 == Some(enc.len()) && pre[..tail.len()] == tail[..] && pre[tail.len()..] == enc[..] && rd == Some(v) && inp.pos() == enc.len() && inp.remaining_slice() == tail
            && zipora::io::DataInput::has_remaining(&inp) == Some(!tail.is_empty())
            && VarInt::fits_in_one_byte(v) == (enc.len() == 1) && VarInt::fits_in_two_bytes(v) == (enc.len() <= 2) && enc.len() <= VarInt::MAX_ENCODED_LEN;
        (enc, buf, dec, el, w, n, extra)
    });
    match r {
        Err(p) => cx.sum.fail(cell, None, cj, &format!("panicked: {}", p)),
        Ok((enc, buf, dec, el, w, n, extra)) => {
            if !extra { cx.sum.fail(cell, None, cj.clone(), "write_to_vec (appending) / read_from (DataInput) / fits_in_one_byte / fits_in_two_bytes disagree with encode"); }
            cx.coq(8, 0, &[v as i128], &[], &Some(enc.iter().map(|&b| b as i128).collect()), force);
            cx.coq(9, 0, &[], &buf, &dec.map(|(x, n)| vec![x as i128, n as i128]), force);
            cx.coq(12, 0, &[v as i128], &[], &Some(vec![el as i128]), force);
            if dec != Some((v, enc.len())) {
                cx.sum.fail(cell, None, cj.clone(), &format!("decode = {:?}", dec));
            }
            if el != enc.len() {
                cx.sum.fail(cell, None, cj.clone(), &format!("encoded_len {} != {}", el, enc.len()));
            }
            if w != enc || n != Some(enc.len()) {
                cx.sum.fail(cell, None, cj, "write_to differs from encode");
            }
        }
    }
}
fn varint_s(cx: &mut Ctx, v: i64, tail: &[u8], force: bool) {
    let cell = "SignedVarInt";
    cx.sum.eval(cell, &format!("vs {} {:?}", v, tail), v >= 64 || v < -64);
    let cj = case_json(10, 0, &[v as i128], tail);
    let r = guarded(|| {
        let enc = <VarInt as SignedVarInt>::encode_signed(v);
        let mut buf = enc.clone();
        buf.extend_from_slice(tail);
        let dec = <VarInt as SignedVarInt>::decode_signed(&buf).ok();
        (enc, buf, dec)
    });
    match r {
        Err(p) => cx.sum.fail(cell, None, cj, &format!("panicked: {}", p)),
        Ok((enc, buf, dec)) => {
            cx.coq(10, 0, &[v as i128], &[], &Some(enc.iter().map(|&b| b as i128).collect()), force);
            cx.coq(11, 0, &[], &buf, &dec.map(|(x, n)| vec![x as i128, n as i128]), force);
            if dec != Some((v, enc.len())) {
                cx.sum.fail(cell, None, cj, &format!("decode = {:?}", dec));
            }
        }
    }
}

/// Arbitrary bytes through the single-value decoders: ties the model's decoder to the
/// code on non-canonical and truncated input as well (no allocation is involved).
fn raw_decode(cx: &mut Ctx, bytes: &[u8]) {
    cx.sum.eval("raw_decode", &format!("raw {:?}", bytes), bytes.len() >= 2);
    for si in 0..7 {
        let e = VarIntEncoder::new(STRATS[si].0);
        match guarded(|| (e.decode_u64(bytes).ok(), e.decode_i64(bytes).ok())) {
            Err(p) => cx.sum.fail("raw_decode", None, case_json(1, si, &[], bytes), &format!("decode panicked: {}", p)),
            Ok((u, i)) => {
                cx.coq(1, si, &[], bytes, &u.map(|(x, n)| vec![x as i128, n as i128]), false);
                cx.coq(3, si, &[], bytes, &i.map(|(x, n)| vec![x as i128, n as i128]), false);
            }
        }
    }
    match guarded(|| VarInt::decode(bytes).ok()) {
        Err(p) => cx.sum.fail("raw_decode", None, case_json(9, 0, &[], bytes), &format!("decode panicked: {}", p)),
        Ok(u) => cx.coq(9, 0, &[], bytes, &u.map(|(x, n)| vec![x as i128, n as i128]), false),
    }
}

fn multi(cx: &mut Ctx, xs: &[u64]) {
    let cell = "VarInt/multiple";
    cx.sum.eval(cell, &format!("multi {:?}", xs), xs.len() >= 2);
    let r = guarded(|| {
        let enc = VarInt::encode_multiple(xs.iter().cloned());
        let cat: Vec<u8> = xs.iter().flat_map(|&x| VarInt::encode(x)).collect();
        (enc.clone(), cat, VarInt::decode_multiple(&enc).ok())
    });
    let cj = case_json(13, 0, &xs.iter().map(|&x| x as i128).collect::<Vec<_>>(), &[]);
    match r {
        Err(p) => cx.sum.fail(cell, None, cj, &format!("panicked: {}", p)),
        Ok((enc, cat, dec)) => {
            if enc != cat { cx.sum.fail(cell, None, cj.clone(), "encode_multiple is not the concatenation"); }
            if dec.as_deref() != Some(xs) { cx.sum.fail(cell, None, cj, &format!("decode_multiple = {:?}", dec)); }
        }
    }
}

fn parse_ints(v: &Value) -> Vec<i128> {
    v.as_array().map(|a| a.iter().map(|x| x.as_str().map(|s| s.parse().unwrap()).unwrap_or_else(|| x.as_i64().unwrap_or(0) as i128)).collect()).unwrap_or_default()
}

fn run_one(cx: &mut Ctx, c: &Value) {
    if let Some(cell) = c.get("cell").and_then(|x| x.as_str()) {
        let tail = c13_io::u8s(&c["tail"]);
        let ints = c13_io::u64s(&c["ints"]);
        match cell {
            "simd_varint/single" => c13_io::simd_single(cx, ints.first().copied().unwrap_or(0), &tail, true),
            "simd_varint/batch" => c13_io::simd_batch(cx, &ints, &tail, true),
            "data_io" => {
                let items: Vec<c13_io::Item> = c["items"].as_array().map(|a| a.iter().filter_map(c13_io::Item::from_json).collect()).unwrap_or_default();
                let p = c["p"].as_str().and_then(|s| s.parse().ok()).unwrap_or(0);
                c13_io::data_io(cx, &items, c["out"].as_u64().unwrap_or(0) as usize, c["in"].as_u64().unwrap_or(0) as usize, &tail, p)
            }
            "endian" => c13_io::endian(cx, c["ints"].get(0).and_then(|x| x.as_str()).and_then(|s| s.parse::<u128>().ok()).unwrap_or(0), &tail, true),
            "endian/bulk" => c13_io::endian_bulk(cx, &ints, c["from_little"].as_bool().unwrap_or(true)),
            "endian/magic" => c13_io::endian_magic(cx),
            "complex" => { let (k, i, s, t) = c13_ser::parse_case(c); c13_ser::complex(cx, k, &i, &s, &t) }
            "smart_ptr" => { let (k, i, s, t) = c13_ser::parse_case(c); c13_ser::smart_ptr(cx, k, &i, &s, &t) }
            "versioning" => { let (k, i, s, t) = c13_ser::parse_case(c); c13_ser::versioning(cx, k, &i, &s, &t) }
            "reader" => { let (k, d, cfg, ops) = c13_rd::parse_reader(c); c13_rd::reader_g(cx, k, &d, c13_rd::parse_gen(c), &cfg, &ops, true) }
            "writer" => { let (k, _, cfg, ops) = c13_rd::parse_reader(c); c13_rd::writer(cx, k, &cfg, &ops) }
            _ => { c13_br::run_case(cx, c); }
        }
        return;
    }
    let op = c["op"].as_u64().unwrap_or(0) as u32;
    let s = c["s"].as_u64().unwrap_or(0) as usize;
    let ints = parse_ints(&c["ints"]);
    let bytes: Vec<u8> = c["bytes"].as_array().map(|a| a.iter().map(|x| x.as_u64().unwrap() as u8).collect()).unwrap_or_default();
    match op {
        0 => single_u64(cx, s, ints[0] as u64, &bytes, true),
        2 => single_i64(cx, s, ints[0] as i64, &bytes, true),
        4 => seq_u64(cx, s, &ints.iter().map(|&x| x as u64).collect::<Vec<_>>(), &bytes, true),
        6 => seq_i64(cx, s, &ints.iter().map(|&x| x as i64).collect::<Vec<_>>(), &bytes, true),
        8 => varint_u(cx, ints[0] as u64, &bytes, true),
        10 => varint_s(cx, ints[0] as i64, &bytes, true),
        13 => multi(cx, &ints.iter().map(|&x| x as u64).collect::<Vec<_>>()),
        _ => raw_decode(cx, &bytes),
    }
}

/// The cells beyond the varint codecs: SIMD batch varint, data input/output back ends, endian, complex types,
/// smart pointers, versioned fields, buffered/ranged/zero-copy/mapped readers and writers.
fn run_new_cells(cx: &mut Ctx, args: &Args) {
    let ub = u64_boundaries();
    let t = args.thorough;
    // own random stream: the probe child and the parent must generate the same cases
    cx.rng = Rng::new(args.seed.wrapping_mul(0xC13).wrapping_add(13));
    cx.case_no = 0;
    // corpus cases of these cells (witnesses of repaired defects and of the recorded findings)
    if let Ok(rd) = std::fs::read_dir("corpus/C13").or_else(|_| std::fs::read_dir("/verif/corpus/C13")) {
        let mut files: Vec<_> = rd.filter_map(|e| e.ok()).map(|e| e.path()).collect();
        files.sort();
        for p in files {
            if let Some(v) = std::fs::read_to_string(&p).ok().and_then(|t| serde_json::from_str::<Value>(&t).ok()) {
                let c = if v.get("case").is_some() { v["case"].clone() } else { v };
                if c.get("cell").is_some() { run_one(cx, &c); cx.sum.dist("corpus_cases"); }
            }
        }
    }
    // SIMD varint
    for &v in &ub { c13_io::simd_single(cx, v, &[], false); c13_io::simd_single(cx, v, &[0x80, 0x01], false); }
    for k in 0..(if t { 6000 } else { 500 }) {
        let mut r = cx.rng.clone();
        let len = match r.below(5) { 0 => r.below(4), 1 => 4, 2 => 4 + r.below(6), 3 => 16 + r.below(20), _ => r.below(12) } as usize;
        let xs: Vec<u64> = (0..len).map(|_| rand_u64(&mut r)).collect();
        let tail = if k % 3 == 0 { r.bytes(40) } else { garbage(&mut r) }; // a long tail makes the AVX2 path eligible
        let v = rand_u64(&mut r);
        cx.rng = r;
        c13_io::simd_batch(cx, &xs, &tail, false);
        c13_io::simd_single(cx, v, &tail, false);
    }
    // data input / output: every output back end x every input back end, then random pairs
    let fixed = vec![c13_io::Item::U8(0x80), c13_io::Item::U16(0x1234), c13_io::Item::Var(300), c13_io::Item::Str("h\u{e9}llo".into()), c13_io::Item::U32(0xDEADBEEF),
        c13_io::Item::Bytes(vec![7; 130]), c13_io::Item::Skip(vec![1, 2, 3]), c13_io::Item::U64(u64::MAX), c13_io::Item::Var(u64::MAX), c13_io::Item::Raw(vec![9, 8]), c13_io::Item::RawStr("xyz".into())];
    for o in 0..c13_io::N_OUT { for i in 0..c13_io::N_IN { c13_io::data_io(cx, &fixed, o, i, &[0xFE, 0x80], (o * 31 + i * 7) as u64); c13_io::data_io(cx, &[], o, i, &[], 0); } }
    // long length-prefixed values: read_vec grows its buffer in 64 KiB steps (since the C15 repair), the buffered
    // back ends refill many times; lengths just below / at / above one and two steps, through every input back end
    for (k, &n) in [65535usize, 65536, 65537, 100_000, 131_072, 131_073].iter().enumerate() {
        for i in 0..c13_io::N_IN {
            if !t && (k + i) % 2 == 1 { continue; }
            let long = c13_io::Item::Gen((k % 2) as u8, n, (k * 100 + i) as u64);
            let items = vec![c13_io::Item::U8(1), long, c13_io::Item::Var(300), c13_io::Item::Raw(vec![5; 3])];
            cx.sum.dist("data_io_long_value");
            c13_io::data_io(cx, &items, (k + i) % c13_io::N_OUT, i, &[0xFE], (k * 13 + i) as u64);
        }
    }
    // long skips and raw reads: the reader back ends skip in 8 KiB pieces, the buffered writers switch to direct writes at
    // 8 KiB (bulk threshold) / half the 64 KiB buffer; every output back end once, every input back end at every size
    for (k, &n) in [8191usize, 8192, 8193, 20_000, 32_768, 70_000].iter().enumerate() {
        for i in 0..c13_io::N_IN {
            if !t && (k + i) % 2 == 0 { continue; }
            let items = vec![c13_io::Item::U16(0xBEEF), c13_io::Item::Gen(3, n, k as u64), c13_io::Item::Var(1 << 40), c13_io::Item::Gen(2, n + 1, 7 + k as u64), c13_io::Item::Gen(4, n - 1, 9), c13_io::Item::U8(9)];
            cx.sum.dist("data_io_long_skip");
            c13_io::data_io(cx, &items, (3 * k + i) % c13_io::N_OUT, i, &[0xFD, 0x80], (k * 17 + i * 3) as u64);
        }
    }
    for o in 0..c13_io::N_OUT {
        let items = vec![c13_io::Item::Gen(2, 8191, 1), c13_io::Item::U8(1), c13_io::Item::Gen(0, 8192, 2), c13_io::Item::Gen(1, 32_767, 3), c13_io::Item::Gen(2, 32_768, 4), c13_io::Item::Var(5), c13_io::Item::Gen(0, 65_536, 5), c13_io::Item::U32(6)];
        cx.sum.dist("data_io_long_write");
        c13_io::data_io(cx, &items, o, o % c13_io::N_IN, &[0xFC], o as u64 * 5 + 1);
    }
    // batches whose encoding is just below / at / above the 32 bytes the AVX2 decoder wants, counts around the batch threshold
    for k in 26..=38usize {
        let ones = vec![1u64; k];
        c13_io::simd_batch(cx, &ones, &[], false);
        let mut wide = vec![u64::MAX; 3];
        wide.extend(std::iter::repeat(300u64).take(k % 4));
        c13_io::simd_batch(cx, &wide, &[0x81], false);
        c13_io::simd_batch(cx, &ub[..k.min(ub.len())], &[], false);
    }
    for _ in 0..(if t { 12000 } else { 900 }) {
        let mut r = cx.rng.clone();
        let n = match r.below(4) { 0 => r.below(3), 1 => 12 + r.below(20), _ => 1 + r.below(8) } as usize;
        let items: Vec<c13_io::Item> = (0..n).map(|_| c13_io::rand_item(&mut r)).collect();
        let (o, i, p) = (r.below(c13_io::N_OUT as u64) as usize, r.below(c13_io::N_IN as u64) as usize, r.next() >> 8);
        let tail = garbage(&mut r);
        cx.rng = r;
        c13_io::data_io(cx, &items, o, i, &tail, p);
    }
    // endian
    c13_io::endian_magic(cx);
    for &v in &ub { c13_io::endian(cx, v as u128, &[], false); c13_io::endian(cx, ((v as u128) << 64) | 0x0102030405060708, &[0xFF, 0x00, 0x5A], false); }
    for _ in 0..(if t { 5000 } else { 300 }) {
        let mut r = cx.rng.clone();
        let raw = ((r.next() as u128) << 64 | r.next() as u128) >> r.below(128);
        let n = *r.pick(&[0usize, 1, 3, 4, 7, 8, 9, 15, 16, 17, 33]);
        let xs: Vec<u64> = (0..n).map(|_| r.next()).collect();
        let fl = r.chance(1, 2);
        let tail = garbage(&mut r);
        cx.rng = r;
        c13_io::endian(cx, raw, &tail, false);
        c13_io::endian_bulk(cx, &xs, fl);
    }
    // complex types, smart pointers, versioned fields
    for k in 0..(if t { 20000 } else { 1500 }) {
        let mut r = cx.rng.clone();
        let ni = match r.below(4) { 0 => 0, 1 => 1, _ => r.below(14) } as usize;
        let ns = match r.below(4) { 0 => 0, 1 => 1, _ => r.below(6) } as usize;
        let ints: Vec<u64> = (0..ni).map(|_| if r.chance(1, 2) { r.below(6) } else { rand_u64(&mut r) }).collect();
        let ss: Vec<String> = (0..ns).map(|_| c13_io::rand_string(&mut r)).collect();
        let tail = garbage(&mut r);
        // versions near the `since` boundaries
        let vb = [c13_ser::ver_u64(1, 0, 0), c13_ser::ver_u64(1, 1, 0), c13_ser::ver_u64(1, 0, 65535), c13_ser::ver_u64(1, 1, 1), c13_ser::ver_u64(0, 9, 9), c13_ser::ver_u64(2, 0, 0), c13_ser::ver_u64(1, 2, 0), c13_ser::ver_u64(255, 255, 65535), c13_ser::ver_u64(1, 255, 0)];
        let mut vints: Vec<u64> = (0..3).map(|_| *r.pick(&vb)).collect();
        if r.chance(1, 12) { vints[0] = c13_ser::ver_u64(r.below(600) as u16, r.below(600) as u16, r.next() as u16); }
        vints.push(rand_u64(&mut r));
        cx.rng = r;
        c13_ser::complex(cx, k, &ints, &ss, &tail);
        if k % 2 == 0 { c13_ser::smart_ptr(cx, k / 2, &ints, &ss, &tail); }
        if k % 2 == 1 { c13_ser::versioning(cx, k / 2, &vints, &ss, &tail); }
    }
    // readers and writers under arbitrary histories
    for k in 0..(if t { 70000 } else { 5200 }) {
        let mut r = cx.rng.clone();
        let (data, cfg, ops) = c13_rd::gen_reader_case(&mut r, k);
        cx.rng = r;
        c13_rd::reader(cx, k, &data, &cfg, &ops, false);
    }
    // big inputs, preset configurations, thresholds far from the small cases (deterministic family)
    for (kind, gen, cfg, ops) in c13_rd::big_reader_cases(t) {
        let data = c13_rd::gen_data(gen.0, gen.1, gen.2);
        c13_rd::reader_g(cx, kind, &data, Some(gen), &cfg, &ops, false);
    }
    for k in 0..(if t { 30000 } else { 2400 }) {
        let mut r = cx.rng.clone();
        let (cfg, ops) = c13_rd::gen_writer_case(&mut r, k);
        cx.rng = r;
        c13_rd::writer(cx, k, &cfg, &ops);
    }
    // long sequences, the strategy chooser, big collections, migrations and cross-version records
    c13_br::run_all(cx, t);
    if cx.format_drift { cx.sum.dist("format_drift"); }
}

pub fn run(args: &Args) {
    let mut cx = Ctx {
        sum: Summary::new("C13", "corpus + boundary values (0, 2^7k +-1, 2^8k +-1, 2^32, 2^63, MAX/MIN) through every strategy with and without trailing bytes; sequences of length 0..9 with large first differences; random byte strings through the single-value decoders; a case is non-trivial when the value needs >1 byte or the sequence has >=2 elements; distinct = distinct canonical case text"),
        shards: CoqShards::new(HEADER, 400),
        coq_budget: if args.thorough { 24000 } else { 2400 },
        coq_budget2: if args.thorough { 12000 } else { 1400 },
        coq_used2: 0,
        op_used: Default::default(),
        uni_used: Default::default(),
        rng: Rng::new(args.seed),
        tmp: format!("{}/tmp", args.out),
        format_drift: false,
        probe_log: None,
        case_no: 0,
        skip: vec![],
    };
    std::fs::create_dir_all(&cx.tmp).ok();
    if let Some(f) = &args.replay {
        let txt = std::fs::read_to_string(f).expect("replay file");
        let v: Value = serde_json::from_str(&txt).expect("replay json");
        if v.get("probe").is_some() {
            // child: run the new cells (or one case) with a case log; the exit status is the answer
            cx.probe_log = std::fs::File::create(format!("{}/probe.log", args.out)).ok();
            cx.skip = v["skip"].as_array().map(|a| a.iter().filter_map(|x| x.as_u64()).collect()).unwrap_or_default();
            if v.get("one").is_some() { run_one(&mut cx, &v["one"]); } else { run_new_cells(&mut cx, args); }
            std::fs::remove_dir_all(&cx.tmp).ok();
            return;
        }
        let c = if v.get("case").is_some() { v["case"].clone() } else { v };
        if c.get("cell").is_some() {
            // a case of the newer cells may abort the process: try it in a child first
            let (ok, _) = probe_child(args, &json!({"probe": true, "one": c}), "one");
            if !ok {
                let cell = c["cell"].as_str().unwrap_or("?").to_string();
                cx.sum.eval(&cell, &c.to_string(), true);
                cx.sum.fail(&cell, None, c.clone(), "the process aborted (allocation failure / stack overflow / signal) while running this case");
                let sh = cx.shards.write(&args.out);
                cx.sum.write(&args.out, sh);
                return;
            }
        }
        run_one(&mut cx, &c);
        std::fs::remove_dir_all(&cx.tmp).ok();
        let sh = cx.shards.write(&args.out);
        cx.sum.write(&args.out, sh);
        return;
    }
    // 1. corpus (refutation witnesses and minimised past failures) - always evaluated in Coq too
    // (the harness runs with the framework root as working directory)
    if let Ok(rd) = std::fs::read_dir("corpus/C13").or_else(|_| std::fs::read_dir("/verif/corpus/C13")) {
        let mut files: Vec<_> = rd.filter_map(|e| e.ok()).map(|e| e.path()).collect();
        files.sort();
        for p in files {
            if let Ok(txt) = std::fs::read_to_string(&p) {
                if let Ok(v) = serde_json::from_str::<Value>(&txt) {
                    let c = if v.get("case").is_some() { v["case"].clone() } else { v };
                    if c.get("cell").is_some() { continue; } // run with the newer cells, under the probe child
                    run_one(&mut cx, &c);
                    cx.sum.dist("corpus_cases");
                }
            }
        }
    }
    // 2. boundary values through every strategy
    let ub = u64_boundaries();
    let ib = i64_boundaries();
    for si in 0..7 {
        for &v in &ub {
            single_u64(&mut cx, si, v, &[], false);
            single_u64(&mut cx, si, v, &[0x80, 0xFF, 0x01], false);
        }
        for &v in &ib {
            single_i64(&mut cx, si, v, &[], false);
            single_i64(&mut cx, si, v, &[0xFF, 0x80], false);
        }
    }
    for &v in &ub { varint_u(&mut cx, v, &[], false); varint_u(&mut cx, v, &[0x80, 0x7F], false); }
    for &v in &ib { varint_s(&mut cx, v, &[], false); varint_s(&mut cx, v, &[0x80], false); }
    cx.sum.sample(json!({"kind": "boundary u64 through all 7 strategies", "values": ub.len()}));
    // 3. sequences
    let nseq = if args.thorough { 40000 } else { 3000 };
    for k in 0..nseq {
        let mut r = cx.rng.clone();
        let len = r.below(10) as usize;
        let tail = garbage(&mut r);
        let si = (k % 7) as usize;
        let xs: Vec<u64> = match r.below(4) {
            0 => { let mut a: Vec<u64> = (0..len).map(|_| rand_u64(&mut r) >> 1).collect(); a.sort(); a }
            1 => (0..len).map(|_| r.below(1 << 20)).collect(),
            2 => (0..len).map(|_| r.below(1u64 << 32)).collect(),
            _ => (0..len).map(|_| rand_u64(&mut r)).collect(),
        };
        seq_u64(&mut cx, si, &xs, &tail, false);
        let ys: Vec<i64> = match r.below(3) {
            0 => (0..len).map(|_| r.below(1 << 16) as i64 - 30000).collect(),
            1 => { let mut a: Vec<i64> = (0..len).map(|_| rand_i64(&mut r) >> 1).collect(); a.sort(); a }
            _ => (0..len).map(|_| rand_i64(&mut r)).collect(),
        };
        seq_i64(&mut cx, si, &ys, &tail, false);
        if k < 4 { cx.sum.sample(json!({"strategy": STRATS[si].1, "u64_seq": xs.iter().map(|x| x.to_string()).collect::<Vec<_>>(), "tail": tail})); }
        cx.rng = r;
        if k % 5 == 0 { let xs2 = xs.clone(); multi(&mut cx, &xs2); }
    }
    // 4. random singles
    let nsingle = if args.thorough { 200000 } else { 6000 };
    for k in 0..nsingle {
        let mut r = cx.rng.clone();
        let si = (k % 7) as usize;
        let v = rand_u64(&mut r);
        let w = rand_i64(&mut r);
        let tail = garbage(&mut r);
        cx.rng = r;
        single_u64(&mut cx, si, v, &tail, false);
        single_i64(&mut cx, si, w, &tail, false);
        if k % 7 == 0 { varint_u(&mut cx, v, &tail, false); varint_s(&mut cx, w, &tail, false); }
    }
    // 5. arbitrary bytes through single-value decoders
    let nraw = if args.thorough { 4000 } else { 150 };
    for _ in 0..nraw {
        let mut r = cx.rng.clone();
        let n = r.below(13) as usize;
        let mut b = r.bytes(n);
        if r.chance(1, 2) { for x in b.iter_mut() { if r.chance(2, 3) { *x |= 0x80; } } }
        cx.rng = r;
        raw_decode(&mut cx, &b);
    }
    // 6. exhaustive u16 sweep through every single-value codec (oracle only)
    let step = if args.thorough { 1 } else { 37 };
    let mut v = 0u32;
    while v <= 0xFFFF {
        for si in 0..7 {
            let e = VarIntEncoder::new(STRATS[si].0);
            if let Ok(enc) = e.encode_u64(v as u64) {
                cx.sum.evaluations += 1;
                if e.decode_u64(&enc).ok() != Some((v as u64, enc.len())) {
                    cx.sum.fail(&format!("VarIntEncoder/{}/u64", STRATS[si].1), None, case_json(0, si, &[v as i128], &[]), "u16 sweep");
                }
            }
            let sv = v as i64 - 32768;
            if let Ok(enc) = e.encode_i64(sv) {
                cx.sum.evaluations += 1;
                if e.decode_i64(&enc).ok() != Some((sv, enc.len())) {
                    cx.sum.fail(&format!("VarIntEncoder/{}/i64", STRATS[si].1), None, case_json(2, si, &[sv as i128], &[]), "i16 sweep");
                }
            }
        }
        v += step;
    }
    // the newer cells feed decoders with trailing bytes; a defect there can abort the process (huge allocation).
    // A child process runs the same deterministic case stream first; cases that kill it are recorded and skipped.
    for round in 0..6 {
        let (ok, last) = probe_child(args, &json!({"probe": true, "skip": cx.skip}), &format!("all{}", round));
        if ok { break; }
        match last {
            Some(l) => {
                let c = l["case"].clone();
                let cell = c["cell"].as_str().unwrap_or("?").to_string();
                cx.sum.fail(&cell, None, c, "the process aborted (allocation failure / stack overflow / signal) while running this case");
                cx.skip.push(l["n"].as_u64().unwrap_or(0));
            }
            None => { cx.sum.notes.push("probe child died before its first case".into()); break; }
        }
        if round == 5 { cx.sum.notes.push("more than 5 aborting cases; the newer cells were not run in-process".into()); cx.skip.push(u64::MAX); }
    }
    if !cx.skip.contains(&u64::MAX) { run_new_cells(&mut cx, args); }
    std::fs::remove_dir_all(&cx.tmp).ok();
    cx.sum.dist_max("coq_cases", cx.shards.len() as u64);
    let sh = cx.shards.write(&args.out);
    cx.sum.write(&args.out, sh);
}
