//! C20, oracle breadth: secondary entry points (`*_with_sign`, builders, `Clone`, `reserve`/`shrink_to_fit`, iterators'
//! `size_hint`, utility wrappers), presets and non-default options (LineProcessorConfig presets, buffer sizes, maximum line
//! length, SORTABLE_CACHE_BLOCK / SORTABLE_PREFETCH), sizes far from the small cases (2^16, 2^20, 8 KiB / 16 KiB / 64 KiB
//! buffers, 512-string block search switch), operation histories on one reused object (SortableStrVec, LineProcessor,
//! LineSplitter, JoinBuilder, Utf8ToUtf32Iterator, StreamingLexIterator) and rarely used item types.
//! Everything here is oracle-only (no Coq case is emitted): the shadow is std (`Vec<String>`, slices, `str::split`, `chars()`).
//! Big inputs are described by (kind, n, seed) in the case JSON and regenerated on replay.
use super::*;
use std::collections::{BTreeSet, HashMap, HashSet};
use std::hash::{Hash, Hasher};
use zipora::string::{
    decimal_strcmp_with_sign, realnum_strcmp_with_sign, LexIteratorBuilder, LineProcessorConfig, StreamingLexIterator,
};
use zipora::{SortableStrVec, ZoSortedStrVec};

fn finish(cx: &mut Ctx, cell: &str, cj: Value, r: Result<Vec<String>, String>) {
    match r {
        Err(p) => cx.sum.fail(cell, None, cj, &format!("panicked: {}", p)),
        Ok(mut bad) => if !bad.is_empty() {
            bad.dedup();
            bad.truncate(6);
            cx.sum.fail(cell, None, cj, &bad.join("; "));
        }
    }
}

fn clip_s(s: &str) -> String { if s.len() <= 40 { format!("{:?}", s) } else { format!("<{} bytes>", s.len()) } }
fn clip_v(v: &[String]) -> String {
    let shown: Vec<String> = v.iter().take(10).map(|s| clip_s(s)).collect();
    format!("[{}{}] ({} strings)", shown.join(", "), if v.len() > 10 { ", .." } else { "" }, v.len())
}

// ================================================================ numeric comparators
/// The byte-wise definition of the numeric order on unsigned bodies (digits with at most one '.') plus sign flags:
/// pad the integer parts on the left and the fractions on the right with '0' to equal lengths, compare the digit rows;
/// a zero has no sign.  Independent of any integer width.
fn num_ref(a: &[u8], an: bool, b: &[u8], bn: bool) -> Ordering {
    fn parts(s: &[u8]) -> (&[u8], &[u8]) {
        match s.iter().position(|&c| c == b'.') { Some(p) => (&s[..p], &s[p + 1..]), None => (s, &s[s.len()..]) }
    }
    let (ai, af) = parts(a);
    let (bi, bf) = parts(b);
    let il = ai.len().max(bi.len());
    let fl = af.len().max(bf.len());
    let row = |i: &[u8], f: &[u8]| -> Vec<u8> {
        let mut v = vec![b'0'; il - i.len()];
        v.extend_from_slice(i);
        v.extend_from_slice(f);
        v.resize(il + fl, b'0');
        v
    };
    let (ra, rb) = (row(ai, af), row(bi, bf));
    let az = ra.iter().all(|&c| c == b'0');
    let bz = rb.iter().all(|&c| c == b'0');
    let (an, bn) = (an && !az, bn && !bz);
    match (an, bn) {
        (true, false) => Ordering::Less,
        (false, true) => Ordering::Greater,
        (false, false) => ra.cmp(&rb),
        (true, true) => rb.cmp(&ra),
    }
}

fn valid_body(s: &[u8], real: bool) -> bool {
    !s.is_empty() && s.iter().all(|&c| c.is_ascii_digit() || (real && c == b'.')) && s.iter().filter(|&&c| c == b'.').count() <= 1
}

/// `decimal_strcmp_with_sign` / `realnum_strcmp_with_sign` on pre-parsed operands (bodies valid by the documented precondition).
pub fn numws_case(cx: &mut Ctx, a: &[u8], an: bool, b: &[u8], bn: bool) {
    let (sa, sb) = (String::from_utf8_lossy(a).into_owned(), String::from_utf8_lossy(b).into_owned());
    for (op, name) in [(0u32, "decimal_strcmp"), (1u32, "realnum_strcmp")] {
        if !valid_body(a, op == 1) || !valid_body(b, op == 1) { continue; }
        cx.sum.eval(name, &format!("ws {} {} {} {} {}", op, sa, an, sb, bn), a.len() >= 2 || b.len() >= 2);
        let cj = json!({"cell": "numws", "a": sa, "an": an, "b": sb, "bn": bn});
        let want = num_ref(a, an, b, bn);
        let r = guarded(|| {
            let mut bad = vec![];
            let got = if op == 0 { decimal_strcmp_with_sign(&sa, an, &sb, bn) } else { realnum_strcmp_with_sign(&sa, an, &sb, bn) };
            if got != want { bad.push(format!("{}_with_sign({}, {}, {}, {}) = {:?}, numeric order says {:?}", name, clip_s(&sa), an, clip_s(&sb), bn, got, want)); }
            // the signed-string entry point must agree with the pre-parsed one
            let (ta, tb) = (format!("{}{}", if an { "-" } else { "+" }, sa), format!("{}{}", if bn { "-" } else { "" }, sb));
            let got2 = if op == 0 { decimal_strcmp(&ta, &tb) } else { realnum_strcmp(&ta, &tb) };
            if got2 != Some(want) { bad.push(format!("{}({}, {}) = {:?}, numeric order says {:?}", name, clip_s(&ta), clip_s(&tb), got2, want)); }
            bad
        });
        finish(cx, name, cj, r);
    }
}

/// Long numerals: n digits, spelled in different ways / changed at chosen places.  {cell: numbig, n, seed}
pub fn numbig_case(cx: &mut Ctx, n: usize, seed: u64) {
    let mut r = Rng::new(seed ^ 0xC20);
    let mut base: Vec<u8> = (0..n).map(|_| b'0' + r.below(10) as u8).collect();
    if n > 0 { base[0] = b'1' + r.below(9) as u8; }
    let frac: Vec<u8> = (0..r.below(6)).map(|_| b'0' + r.below(10) as u8).collect();
    let mut variants: Vec<Vec<u8>> = vec![base.clone()];
    if n > 0 {
        for k in [0usize, n / 2, n - 1] {
            let mut v = base.clone();
            v[k] = if v[k] == b'9' { b'8' } else { v[k] + 1 };
            variants.push(v);
        }
        variants.push(base[..n - 1].to_vec());
        let mut v = vec![b'0', b'0'];
        v.extend_from_slice(&base);
        variants.push(v); // same value, leading zeros
        let mut v = base.clone();
        v.push(b'0');
        variants.push(v); // ten times larger
        let mut v = vec![b'9'];
        v.extend_from_slice(&base[1..]);
        variants.push(v);
    }
    // real spellings: fraction, fraction with trailing zeros, fraction changed in the last place
    let mut reals: Vec<Vec<u8>> = vec![];
    for v in variants.iter().take(3) {
        let mut w = v.clone(); w.push(b'.'); reals.push(w.clone());
        w.extend_from_slice(&frac); reals.push(w.clone());
        w.extend_from_slice(b"000"); reals.push(w.clone());
        w.push(b'1'); reals.push(w);
    }
    if n > 0 {
        // long fraction: 0.<n digits>
        let mut w = b"0.".to_vec(); w.extend_from_slice(&base); reals.push(w.clone());
        w.push(b'0'); reals.push(w.clone());
        let l = w.len(); w[l - 2] = if w[l - 2] == b'9' { b'8' } else { w[l - 2] + 1 }; reals.push(w);
    }
    let mut all: Vec<Vec<u8>> = variants.iter().cloned().chain(reals.into_iter()).filter(|v| !v.is_empty()).collect();
    if n > 100_000 { all = vec![all[0].clone(), all[3].clone(), all[5].clone(), all[9].clone(), all[all.len() - 1].clone()]; }
    else if n > 5000 { let keep = [0usize, 1, 3, 4, 5, 8, 9, 10, all.len() - 3, all.len() - 1]; all = keep.iter().map(|&k| all[k].clone()).collect(); }
    let cj = json!({"cell": "numbig", "n": n, "seed": seed});
    let mut evals = 0u64;
    let res = guarded(|| {
        let mut bad = vec![];
        for a in &all { for b in &all {
            for (an, bn) in [(false, false), (true, true), (true, false)] {
                for op in [0u32, 1] {
                    if !valid_body(a, op == 1) || !valid_body(b, op == 1) { continue; }
                    evals += 1;
                    let want = num_ref(a, an, b, bn);
                    let (sa, sb) = (std::str::from_utf8(a).unwrap(), std::str::from_utf8(b).unwrap());
                    let got = if op == 0 { decimal_strcmp_with_sign(sa, an, sb, bn) } else { realnum_strcmp_with_sign(sa, an, sb, bn) };
                    if got != want { bad.push(format!("op {} with_sign: {}-digit numerals ({} neg {}, {} neg {}): got {:?}, numeric order says {:?}", op, n, clip_s(sa), an, clip_s(sb), bn, got, want)); }
                    let ta = format!("{}{}", if an { "-" } else { "" }, sa);
                    let tb = format!("{}{}", if bn { "-" } else { "+" }, sb);
                    let got2 = if op == 0 { decimal_strcmp(&ta, &tb) } else { realnum_strcmp(&ta, &tb) };
                    if got2 != Some(want) { bad.push(format!("op {}: {}-digit numerals ({}, {}): got {:?}, numeric order says {:?}", op, n, clip_s(&ta), clip_s(&tb), got2, want)); }
                    if bad.len() > 6 { return bad; }
                }
            }
        } }
        bad
    });
    cx.sum.eval("decimal_strcmp", &format!("numbig {} {}", n, seed), true);
    cx.sum.eval("realnum_strcmp", &format!("numbig {} {}", n, seed), true);
    cx.sum.evaluations += evals;
    cx.sum.dist("numbig_cases");
    // failures of the long numerals are reported under the comparator that fails first in the list
    let cell = match &res { Ok(b) if b.first().map_or(false, |s| s.starts_with("op 1")) => "realnum_strcmp", _ => "decimal_strcmp" };
    finish(cx, cell, cj, res);
}

// ================================================================ FastStr: secondary entry points
fn std_hash_of<T: Hash>(t: &T) -> u64 {
    let mut h = std::collections::hash_map::DefaultHasher::new();
    t.hash(&mut h);
    h.finish()
}

/// Conversions, formatting, `AsRef`, `Copy`, unchecked accessors, `FastStrHash` as a function and as a `BuildHasher`,
/// ordered and hashed collections keyed by FastStr.  {cell: fsx, a, b}
pub fn faststr_extra(cx: &mut Ctx, a: &[u8], b: &[u8]) {
    let cell = "FastStr";
    cx.sum.eval(cell, &format!("fsx {:?} {:?}", a, b), !a.is_empty() && !b.is_empty());
    let cj = json!({"cell": "fsx", "a": a, "b": b});
    let r = guarded(|| {
        use zipora::string::FastStr as F;
        let mut bad: Vec<String> = vec![];
        let fa = F::new(a);
        let fb = F::new(b);
        let lossy = String::from_utf8_lossy(a);
        if fa.into_string() != lossy.as_ref() { bad.push("into_string != from_utf8_lossy".into()); }
        if fa.to_cow_str().as_ref() != lossy.as_ref() { bad.push("to_cow_str != from_utf8_lossy".into()); }
        match std::str::from_utf8(a) {
            Ok(s) => {
                if matches!(fa.to_cow_str(), std::borrow::Cow::Owned(_)) && !a.is_empty() { /* allowed: only the content is constrained */ }
                if format!("{}", fa) != s { bad.push("Display differs from the string".into()); }
                if unsafe { fa.as_str_unchecked() } != s { bad.push("as_str_unchecked".into()); }
            }
            Err(_) => { let _ = format!("{}", fa); }
        }
        let _ = format!("{:?}", fa);
        let ar: &[u8] = fa.as_ref();
        if ar != a { bad.push("AsRef<[u8]>".into()); }
        let copy = fa;
        let cl = fa.clone();
        if copy != fa || cl != fa || copy.as_ptr() != fa.as_ptr() || cl.len() != a.len() { bad.push("Copy/Clone".into()); }
        for i in 0..a.len() { if unsafe { fa.get_byte_unchecked(i) } != a[i] { bad.push(format!("get_byte_unchecked({})", i)); break; } }
        if zipora::string::FastStr::new(a).hash_fast() != fa.hash_fast() { bad.push("hash_fast not deterministic".into()); }
        // std collections keyed by FastStr (Hash + Eq): equal contents at different addresses are one key
        let mut shifted = vec![0u8; a.len() + 3];
        shifted[3..].copy_from_slice(a);
        let fa2 = F::new(&shifted[3..]);
        let mut m: HashMap<F, usize> = HashMap::new();
        m.insert(fa, 1);
        *m.entry(fa2).or_insert(0) += 10;
        m.insert(fb, 2);
        let want_a = if a == b { 2 } else { 11 };
        if m.get(&F::new(&a.to_vec())) != Some(&want_a) || m.get(&fb) != Some(&2) || m.len() != if a == b { 1 } else { 2 } {
            bad.push(format!("HashMap<FastStr, _>: lookups {:?} {:?} len {}", m.get(&fa), m.get(&fb), m.len()));
        }
        let mut hs: HashSet<F> = HashSet::new();
        hs.insert(fa); hs.insert(fa2); hs.insert(fb);
        if hs.len() != if a == b { 1 } else { 2 } || !hs.contains(&F::new(&b.to_vec())) { bad.push("HashSet<FastStr>".into()); }
        // ordered collections and the derived min/max/clamp follow the unsigned byte order
        let bs: BTreeSet<F> = [fa, fb, fa2].into_iter().collect();
        let want: BTreeSet<&[u8]> = [a, b].into_iter().collect();
        if bs.iter().map(|f| f.as_bytes()).collect::<Vec<_>>() != want.iter().cloned().collect::<Vec<_>>() { bad.push("BTreeSet<FastStr> order".into()); }
        if fa.max(fb).as_bytes() != a.max(b) || fa.min(fb).as_bytes() != a.min(b) { bad.push("Ord::max/min".into()); }
        if (fa <= fb) != (a <= b) || (fa > fb) != (a > b) || (fa != fb) != (a != b) { bad.push("operators <=, >, !=".into()); }
        if (fa == fb) && std_hash_of(&fa) != std_hash_of(&fb) { bad.push("equal strings, different Hash".into()); }
        bad
    });
    finish(cx, cell, cj, r);
}

/// Sorting and searching a list of FastStr = sorting and searching the byte strings.  {cell: fssort, strings: [[u8]]}
pub fn faststr_sort(cx: &mut Ctx, strings: &[Vec<u8>]) {
    let cell = "FastStr";
    cx.sum.eval(cell, &format!("fssort {:?}", strings), strings.len() >= 2);
    let cj = json!({"cell": "fssort", "strings": strings});
    let r = guarded(|| {
        let mut bad = vec![];
        let mut want: Vec<&[u8]> = strings.iter().map(|s| s.as_slice()).collect();
        want.sort();
        // every string lives at its own address: equal contents at different alignments
        let copies: Vec<Vec<u8>> = strings.iter().enumerate().map(|(i, s)| { let mut v = vec![0u8; i % 5]; v.extend_from_slice(s); v }).collect();
        let mut fs: Vec<FastStr> = copies.iter().enumerate().map(|(i, c)| FastStr::new(&c[i % 5..])).collect();
        let mut fs2 = fs.clone();
        fs.sort();
        fs2.sort_unstable_by(|x, y| x.partial_cmp(y).unwrap());
        if fs.iter().map(|f| f.as_bytes()).collect::<Vec<_>>() != want { bad.push("Vec<FastStr>::sort differs from sorting the byte strings".into()); }
        if fs2.iter().map(|f| f.as_bytes()).collect::<Vec<_>>() != want { bad.push("sort_unstable_by(partial_cmp) differs from sorting the byte strings".into()); }
        for s in strings {
            let p = FastStr::new(s);
            match fs.binary_search(&p) { Ok(i) => if fs[i].as_bytes() != s.as_slice() { bad.push("binary_search Ok at a different string".into()); }, Err(_) => bad.push("binary_search misses a present string".into()) }
        }
        let mut d = fs.clone();
        d.dedup();
        let mut wd = want.clone();
        wd.dedup();
        if d.len() != wd.len() { bad.push("dedup (PartialEq) keeps a different number of strings".into()); }
        let distinct: HashSet<FastStr> = fs.iter().cloned().collect();
        if distinct.len() != wd.len() { bad.push("HashSet<FastStr> of the list has a different number of distinct strings".into()); }
        bad
    });
    finish(cx, cell, cj, r);
}

/// Content for the big cases: bytes from the seed; kind 0 = arbitrary bytes without 0x00 (0x00 is planted), kind 1 = {a,b,0x80,0xff},
/// kind 2 = one repeated byte with a changed tail.
fn big_bytes(kind: u64, n: usize, seed: u64) -> Vec<u8> {
    let mut r = Rng::new(seed.wrapping_mul(31).wrapping_add(kind));
    match kind {
        0 => (0..n).map(|_| { let b = r.next() as u8; if b == 0 { 0x81 } else { b } }).collect(),
        1 => (0..n).map(|_| *r.pick(&[b'a', b'b', 0x80, 0xff])).collect(),
        _ => { let mut v = vec![0xC3u8; n]; if n > 0 { v[n - 1] = 0x7f; } v }
    }
}

fn big_positions(n: usize) -> Vec<usize> {
    let mut p: Vec<usize> = vec![0, 1, 7, 8, 9, 15, 16, 17, 31, 32, 33, 63, 64, 65, 127, 128, 129, 255, 256, 257, 4095, 4096, 4097, 8191, 8192, 65535, 65536, 65537, n / 2, n / 3];
    for d in [1usize, 2, 8, 9, 16, 17, 32, 33, 64, 65, 128, 256] { if n >= d { p.push(n - d); } }
    p.retain(|&k| k < n);
    p.sort();
    p.dedup();
    p
}

/// FastStr on long strings.  {cell: fsbig, kind, n, seed}
pub fn faststr_big(cx: &mut Ctx, kind: u64, n: usize, seed: u64) {
    let cell = "FastStr";
    cx.sum.eval(cell, &format!("fsbig {} {} {}", kind, n, seed), true);
    cx.sum.dist("faststr_big_cases");
    let cj = json!({"cell": "fsbig", "kind": kind, "n": n, "seed": seed});
    let a = big_bytes(kind, n, seed);
    let mut evals = 0u64;
    let r = guarded(|| {
        let mut bad: Vec<String> = vec![];
        let fa = FastStr::new(&a);
        let h0 = fa.hash_fast();
        let sh0 = std_hash_of(&fa);
        let mut buf = vec![0x5Au8; n + 70];
        for off in [0usize, 1, 7, 8, 15, 16, 31, 32, 33, 63] {
            for x in buf.iter_mut() { *x = 0x5A; }
            buf[off..off + n].copy_from_slice(&a);
            let fc = FastStr::new(&buf[off..off + n]);
            evals += 1;
            if !(fc == fa) || fc.cmp(&fa) != Ordering::Equal || fa.compare(fc) != Ordering::Equal { bad.push(format!("copy at offset {}: not equal (len {})", off, n)); }
            if fc.hash_fast() != h0 || std_hash_of(&fc) != sh0 { bad.push(format!("copy at offset {}: hash differs for equal bytes (len {})", off, n)); }
            let big = FastStr::new(&buf);
            if big.substring(off, n) != fa || big.substring_from(off).prefix(n).hash_fast() != h0 || big.prefix(off + n).suffix(n).cmp(&fa) != Ordering::Equal { bad.push(format!("view at offset {}: differs (len {})", off, n)); }
        }
        let pos = big_positions(n);
        let mut b = a.clone();
        for &k in &pos {
            for delta in [0x80u8, 1] {
                b[k] = a[k].wrapping_add(delta);
                let fb = FastStr::new(&b);
                let want = a.cmp(&b);
                evals += 1;
                if fa == fb || !(fa != fb) { bad.push(format!("== true for strings of length {} differing at {}", n, k)); }
                if fa.cmp(&fb) != want || fa.compare(fb) != want || fb.partial_cmp(&fa) != Some(want.reverse()) || (fa < fb) != (want == Ordering::Less) {
                    bad.push(format!("ordering wrong: length {}, first difference at {}: bytes {} vs {} (got {:?}, unsigned byte order says {:?})", n, k, a[k], b[k], fa.cmp(&fb), want));
                }
                if fa.common_prefix_len(fb) != k { bad.push(format!("common_prefix_len = {}, first difference at {} (len {})", fa.common_prefix_len(fb), k, n)); }
                if fa.starts_with(fb.prefix(k + 1)) || !fa.starts_with(fb.prefix(k)) { bad.push(format!("starts_with around {} (len {})", k, n)); }
                if fa.ends_with(fb.substring_from(k)) || !fa.ends_with(fb.substring_from(k + 1)) { bad.push(format!("ends_with around {} (len {})", k, n)); }
            }
            // two differences in opposite directions: the first one decides
            for j in [1usize, 7, 8, 31] {
                if k + j >= n { continue; }
                b[k] = a[k].wrapping_add(1);
                b[k + j] = a[k + j].wrapping_sub(1);
                let fb = FastStr::new(&b);
                let want = a.cmp(&b);
                evals += 1;
                if fa.cmp(&fb) != want || fa.compare(fb) != want || fb.partial_cmp(&fa) != Some(want.reverse()) || fa == fb {
                    bad.push(format!("ordering wrong: length {}, bytes {} and {} changed in opposite directions (got {:?}, unsigned byte order says {:?})", n, k, k + j, fa.cmp(&fb), want));
                }
                b[k + j] = a[k + j];
            }
            b[k] = a[k];
            // cut points
            if fa.prefix(k).as_bytes() != &a[..k] || fa.suffix(n - k).as_bytes() != &a[k..] || fa.substring_from(k).as_bytes() != &a[k..] || fa.substring(k, n).as_bytes() != &a[k..] || fa.get_byte(k) != Some(a[k]) {
                bad.push(format!("slicing at {} (len {})", k, n));
            }
            let p = &a[..k];
            if fa.cmp(&FastStr::new(p)) != a.as_slice().cmp(p) || FastStr::new(p).cmp(&fa) != p.cmp(a.as_slice()) { bad.push(format!("ordering against own prefix of length {}", k)); }
            let copy = a[k..].to_vec();
            if FastStr::new(&copy).hash_fast() != fa.substring_from(k).hash_fast() { bad.push(format!("hash_fast of substring_from({}) differs from the hash of a copy (len {})", k, n)); }
            let copy = a[..k].to_vec();
            if FastStr::new(&copy).hash_fast() != fa.prefix(k).hash_fast() { bad.push(format!("hash_fast of prefix({}) differs from the hash of a copy (len {})", k, n)); }
            if bad.len() > 6 { return bad; }
        }
        let mut longer = a.clone();
        longer.push(0);
        if fa.cmp(&FastStr::new(&longer)) != Ordering::Less || FastStr::new(&longer).cmp(&fa) != Ordering::Greater { bad.push("ordering against a one byte longer string".into()); }
        // search: a planted byte / needle; suffix needles; needles across the power-of-two positions
        if kind == 0 {
            let mut c = a.clone();
            for &k in pos.iter().rev() {
                c[k] = 0;
                let fcz = FastStr::new(&c);
                evals += 1;
                // positions are visited from the back, so the zero planted last is the first one
                if fcz.find_byte(0) != Some(k) || fcz.find_byte_optimized(0) != Some(k) || fcz.find(FastStr::new(&[0])) != Some(k) { bad.push(format!("find_byte of the byte planted at {} (len {}): {:?} / {:?}", k, n, fcz.find_byte(0), fcz.find_byte_optimized(0))); }
            }
            if fa.find_byte(0).is_some() || fa.find_byte_optimized(0).is_some() { bad.push("find_byte of an absent byte".into()); }
            let fcz = FastStr::new(&c);
            let got: Vec<usize> = fcz.split(0).map(|p| p.len()).collect();
            let mut want: Vec<usize> = c.split(|&x| x == 0).map(|p| p.len()).collect();
            if want.last() == Some(&0) { want.pop(); }
            if got != want { bad.push(format!("split at the planted bytes: field lengths {:?}, want {:?}", got.iter().take(8).collect::<Vec<_>>(), want.iter().take(8).collect::<Vec<_>>())); }
        }
        for l in [1usize, 2, 3, 4, 8, 15, 16, 17, 32, 33, 64, 65, 255] {
            if l > n { continue; }
            for &st in &[n - l, (n - l) / 2, 0] {
                let nd = a[st..st + l].to_vec();
                let want = a.windows(l).position(|w| w == &nd[..]);
                evals += 1;
                let got = fa.find(FastStr::new(&nd));
                if got != want { bad.push(format!("find(a[{}..{}]) = {:?}, want {:?} (len {})", st, st + l, got, want, n)); }
                let mut nd2 = nd.clone();
                nd2[l - 1] ^= 0x55;
                let want2 = a.windows(l).position(|w| w == &nd2[..]);
                let got2 = fa.find(FastStr::new(&nd2));
                if got2 != want2 { bad.push(format!("find(a[{}..{}] with the last byte changed) = {:?}, want {:?} (len {})", st, st + l, got2, want2, n)); }
            }
        }
        if fa.find(fa) != Some(0) || fa.find(FastStr::new(&longer)).is_some() { bad.push("find(self) / find(longer)".into()); }
        if fa.into_string() != String::from_utf8_lossy(&a).as_ref() || fa.to_cow_str() != String::from_utf8_lossy(&a) { bad.push("into_string / to_cow_str".into()); }
        if fa.as_str().is_some() != std::str::from_utf8(&a).is_ok() { bad.push("as_str".into()); }
        bad
    });
    cx.sum.evaluations += evals;
    finish(cx, cell, cj, r);
}

// ================================================================ join: item types, builder reuse, big inputs
/// ops: k >= 0 pushes parts[k % len]; -1 = build() and compare; -2 = len()/is_empty().  {cell: joinx, sep, parts, ops}
pub fn join_extra(cx: &mut Ctx, sep: &[u8], parts: &[Vec<u8>], ops: &[i64]) {
    let cell = "join";
    cx.sum.eval(cell, &format!("joinx {:?} {:?} {:?}", sep, parts, ops), parts.len() >= 2);
    let cj = json!({"cell": "joinx", "sep": sep, "parts": parts, "ops": ops});
    let r = guarded(|| {
        let mut bad: Vec<String> = vec![];
        let want: Vec<u8> = parts.join(sep);
        let brefs: Vec<&[u8]> = parts.iter().map(|p| p.as_slice()).collect();
        if join(sep, &brefs) != want { bad.push("join (bytes, arbitrary content)".into()); }
        let leaked: Vec<&'static [u8]> = parts.iter().map(|s| &*Box::leak(s.clone().into_boxed_slice())).collect();
        if join_bytes_iter(sep, leaked.iter().cloned()) != want { bad.push("join_bytes_iter (bytes, arbitrary content)".into()); }
        if join_bytes_iter(sep, leaked.iter().cloned().rev()) != parts.iter().rev().cloned().collect::<Vec<_>>().join(sep) { bad.push("join_bytes_iter over a reversed iterator".into()); }
        if let Ok(seps) = std::str::from_utf8(sep) {
            // FastStr parts: valid UTF-8 is copied, anything else is converted like into_string() (lossy)
            let fs: Vec<FastStr> = parts.iter().map(|p| FastStr::new(p)).collect();
            let lossy: Vec<String> = parts.iter().map(|p| String::from_utf8_lossy(p).into_owned()).collect();
            if join_fast_str(seps, &fs) != lossy.join(seps) { bad.push(format!("join_fast_str got {:?} want {:?}", join_fast_str(seps, &fs), lossy.join(seps))); }
            if parts.iter().all(|p| std::str::from_utf8(p).is_ok()) {
                let strs: Vec<String> = lossy.clone();
                let wants = strs.join(seps);
                if join_iter(seps, strs.clone().into_iter()) != wants { bad.push("join_iter over String items".into()); }
                if join_iter(seps, strs.iter()) != wants { bad.push("join_iter over &String items".into()); }
                if join_iter(seps, strs.iter().map(|s| std::borrow::Cow::Borrowed(s.as_str()))) != wants { bad.push("join_iter over Cow<str> items".into()); }
                if join_iter(seps, strs.iter().map(|s| s.clone().into_boxed_str())) != wants { bad.push("join_iter over Box<str> items".into()); }
                if join_iter(seps, strs.iter().rev().map(|s| s.as_str())) != strs.iter().rev().cloned().collect::<Vec<_>>().join(seps) { bad.push("join_iter over a reversed iterator".into()); }
                if join_iter(seps, strs.iter().filter(|s| !s.is_empty())) != strs.iter().filter(|s| !s.is_empty()).cloned().collect::<Vec<_>>().join(seps) { bad.push("join_iter over a filtered iterator".into()); }
                // one builder, used repeatedly
                let mut jb = if ops.len() % 2 == 0 { JoinBuilder::new(seps) } else { JoinBuilder::with_capacity(seps, ops.len() % 3) };
                let mut shadow: Vec<&str> = vec![];
                for (step, &o) in ops.iter().enumerate() {
                    if o >= 0 {
                        if strs.is_empty() { continue; }
                        let p = strs[o as usize % strs.len()].as_str();
                        if o % 3 == 0 { jb.push(p).push(p); shadow.push(p); shadow.push(p); } else { jb.push(p); shadow.push(p); }
                    } else if o == -1 {
                        let got = jb.build();
                        if got != shadow.join(seps) { bad.push(format!("JoinBuilder::build at step {}: got {} want {}", step, clip_s(&got), clip_s(&shadow.join(seps)))); }
                    } else if jb.len() != shadow.len() || jb.is_empty() != shadow.is_empty() { bad.push(format!("JoinBuilder::len/is_empty at step {}", step)); }
                }
                if jb.build() != shadow.join(seps) { bad.push("JoinBuilder::build at the end".into()); }
                if jb.build() != jb.build() { bad.push("JoinBuilder::build twice".into()); }
                if jb.finish() != shadow.join(seps) { bad.push("JoinBuilder::finish".into()); }
            }
        }
        bad
    });
    finish(cx, cell, cj, r);
}

/// kind 0: n parts from a small pool; kind 1: 3 parts of n bytes; kind 2: n empty parts.  {cell: joinbig, kind, n, seed}
pub fn join_big(cx: &mut Ctx, kind: u64, n: usize, seed: u64) {
    let cell = "join";
    cx.sum.eval(cell, &format!("joinbig {} {} {}", kind, n, seed), true);
    cx.sum.dist("join_big_cases");
    let cj = json!({"cell": "joinbig", "kind": kind, "n": n, "seed": seed});
    let mut rg = Rng::new(seed ^ 0x7013);
    let pool: Vec<String> = vec!["".into(), "a".into(), "é".into(), "xyz".into(), ",".into(), "0123456789abcdef".into()];
    let owned: Vec<String> = match kind {
        0 => (0..n).map(|_| rg.pick(&pool).clone()).collect(),
        1 => (0..3).map(|i| std::iter::repeat(["a", "é", "z"][i]).take(n / ["a", "é", "z"][i].len()).collect()).collect(),
        _ => vec![String::new(); n],
    };
    let sep = *rg.pick(&[",", "", "::", "→"]);
    let r = guarded(|| {
        let mut bad = vec![];
        let refs: Vec<&str> = owned.iter().map(|s| s.as_str()).collect();
        let want = refs.join(sep);
        let cmp = |name: &str, got: &[u8], bad: &mut Vec<String>| {
            if got != want.as_bytes() {
                let at = got.iter().zip(want.as_bytes()).position(|(x, y)| x != y).unwrap_or(got.len().min(want.len()));
                bad.push(format!("{}: {} parts, result of {} bytes, want {} bytes, first difference at {}", name, refs.len(), got.len(), want.len(), at));
            }
        };
        cmp("join_str", join_str(sep, &refs).as_bytes(), &mut bad);
        let brefs: Vec<&[u8]> = owned.iter().map(|s| s.as_bytes()).collect();
        cmp("join", &join(sep.as_bytes(), &brefs), &mut bad);
        cmp("join_iter", join_iter(sep, refs.iter()).as_bytes(), &mut bad);
        let fs: Vec<FastStr> = owned.iter().map(|s| FastStr::from_string(s)).collect();
        cmp("join_fast_str", join_fast_str(sep, &fs).as_bytes(), &mut bad);
        let mut jb = JoinBuilder::with_capacity(sep, 4);
        for p in &refs { jb.push(p); }
        if jb.len() != refs.len() { bad.push("JoinBuilder::len".into()); }
        cmp("JoinBuilder::build", jb.build().as_bytes(), &mut bad);
        // split . join on the big list (single-byte separator that no part contains)
        if kind != 0 || sep == "::" {
            let sepc = "\t";
            let joined = join_str(sepc, &refs);
            let mut sp = LineSplitter::new().with_optimized_strategy();
            let got = sp.split(&joined, sepc);
            if got.len() != refs.len() || got.iter().zip(refs.iter()).any(|(a, b)| a != b) { bad.push(format!("LineSplitter(optimized).split(join) returns {} fields for {} parts", got.len(), refs.len())); }
            let mut ss = LineSplitter::new();
            if ss.split(&joined, sepc).len() != refs.len() { bad.push("LineSplitter(simple).split(join) field count".into()); }
        }
        bad
    });
    finish(cx, cell, cj, r);
}

// ================================================================ LineSplitter: one splitter, many lines
/// strategy 0 simple, 1 optimized, 2 custom delimiter, 3 Default::default().  {cell: splitx, strategy, lines, delims}
pub fn split_hist(cx: &mut Ctx, strategy: u64, lines: &[String], delims: &[String]) {
    let cell = "split";
    cx.sum.eval(cell, &format!("splitx {} {:?} {:?}", strategy, lines, delims), lines.len() >= 2);
    let cj = json!({"cell": "splitx", "strategy": strategy, "lines": lines, "delims": delims});
    if delims.is_empty() { return; }
    let r = guarded(|| {
        let mut bad = vec![];
        let mut sp = match strategy { 0 => LineSplitter::new(), 1 => LineSplitter::new().with_optimized_strategy(), 2 => LineSplitter::new().with_delimiter(delims[0].clone()), _ => LineSplitter::default() };
        for (i, line) in lines.iter().enumerate() {
            // the custom strategy is always called with its own delimiter
            let d = if strategy == 2 { &delims[0] } else { &delims[i % delims.len()] };
            let want: Vec<String> = line.split(d.as_str()).map(|s| s.to_string()).collect();
            let got = sp.split(line, d);
            if got != want { bad.push(format!("call {} on the same splitter: split({}, {:?}) returns {} fields {}, want {} fields {}", i, clip_s(line), d, got.len(), clip_v(got), want.len(), clip_v(&want))); }
        }
        bad
    });
    finish(cx, cell, cj, r);
}

/// {cell: splitbig, kind, n, seed}: kind 0 = n short fields, kind 1 = 3 fields of n bytes
pub fn split_big(cx: &mut Ctx, kind: u64, n: usize, seed: u64) {
    let mut rg = Rng::new(seed ^ 0x5b17);
    let d = *rg.pick(&[",", "\t", " "]);
    let line: String = match kind {
        0 => { let pool = ["", "a", "é", "xy", "0123456789"]; let mut s = String::new(); for i in 0..n { if i > 0 { s.push_str(d); } s.push_str(*rg.pick(&pool)); } s }
        _ => { let f: String = std::iter::repeat('é').take(n / 2).collect(); format!("{}{}{}{}{}", f, d, "", d, f) }
    };
    let cell = "split";
    cx.sum.eval(cell, &format!("splitbig {} {} {}", kind, n, seed), true);
    let cj = json!({"cell": "splitbig", "kind": kind, "n": n, "seed": seed});
    let r = guarded(|| {
        let mut bad = vec![];
        let want: Vec<String> = line.split(d).map(|s| s.to_string()).collect();
        for strategy in 0..2 {
            let mut sp = if strategy == 0 { LineSplitter::new() } else { LineSplitter::new().with_optimized_strategy() };
            let got = sp.split(&line, d);
            if got != want { bad.push(format!("strategy {}: {} fields, want {}", strategy, got.len(), want.len())); }
            if sp.split("x", d) != ["x".to_string()] { bad.push("reuse after a big line".into()); }
        }
        let dc = d.as_bytes()[0];
        let got: Vec<&[u8]> = FastStr::from_string(&line).split(dc).map(|p| unsafe { std::slice::from_raw_parts(p.as_ptr(), p.len()) }).collect();
        let mut wf: Vec<&[u8]> = want.iter().map(|s| s.as_bytes()).collect();
        if wf.last().map_or(false, |l| l.is_empty()) { wf.pop(); }
        if got != wf { bad.push(format!("FastStr::split: {} fields, want {}", got.len(), wf.len())); }
        bad
    });
    finish(cx, cell, cj, r);
}

// ================================================================ LineProcessor: presets, buffer sizes, maximum line length, histories
fn lp_config(preset: u64, bits: u64, buf: usize, maxlen: usize, buf0: bool) -> LineProcessorConfig {
    let mut c = match preset { 1 => LineProcessorConfig::performance_optimized(), 2 => LineProcessorConfig::memory_optimized(), 3 => LineProcessorConfig::secure(), _ => LineProcessorConfig::default() };
    if preset == 0 {
        c.skip_empty_lines = bits & 1 != 0;
        c.trim_whitespace = bits & 2 != 0;
        c.preserve_line_endings = bits & 4 != 0;
    }
    if buf > 0 { c.buffer_size = buf; } else if buf0 { c.buffer_size = 0; }
    if maxlen > 0 { c.max_line_length = maxlen; }
    c
}

/// A reader that hands out at most `chunk` bytes per call (0 = everything): short reads across "\r\n" and multi-byte characters.
pub struct ChunkReader { data: Vec<u8>, pos: usize, chunk: usize }
impl ChunkReader { pub fn new(data: &[u8], chunk: usize) -> Self { ChunkReader { data: data.to_vec(), pos: 0, chunk } } }
impl std::io::Read for ChunkReader {
    fn read(&mut self, buf: &mut [u8]) -> std::io::Result<usize> {
        let mut k = buf.len().min(self.data.len() - self.pos);
        if self.chunk > 0 { k = k.min(self.chunk); }
        buf[..k].copy_from_slice(&self.data[self.pos..self.pos + k]);
        self.pos += k;
        Ok(k)
    }
}

struct ShLine { out: String, skipped: bool, raw_len: usize, content_len: usize }

fn shadow_lines(text: &str, c: &LineProcessorConfig) -> Vec<ShLine> {
    text.split_inclusive('\n').map(|piece| {
        let mut l = piece.to_string();
        let mut content = piece;
        if content.ends_with('\n') { content = &content[..content.len() - 1]; if content.ends_with('\r') { content = &content[..content.len() - 1]; } }
        if !c.preserve_line_endings { l = content.to_string(); }
        let out = if c.trim_whitespace { l.trim().to_string() } else { l };
        ShLine { skipped: c.skip_empty_lines && out.is_empty(), out, raw_len: piece.len(), content_len: content.len() }
    }).collect()
}

fn lines_text(kind: u64, n: usize, seed: u64) -> String {
    // lines whose lengths straddle n (a buffer size), with both terminators, white-space-only lines, multi-byte
    // characters across the boundary, and an unterminated tail
    let mut rg = Rng::new(seed ^ 0x11e5);
    let mut s = String::new();
    let lens: Vec<usize> = match kind {
        0 => vec![n.saturating_sub(2), n.saturating_sub(1), n, n + 1, 0, 1, 2 * n, 3, n.saturating_sub(1), 2],
        1 => (0..40).map(|_| rg.below(2 * n as u64 / 8 + 2) as usize).collect(),
        _ => vec![n, n + 1, n.saturating_sub(1)],
    };
    for (i, &l) in lens.iter().enumerate() {
        match rg.below(5) {
            0 => { for _ in 0..l / 2 { s.push('é'); } if l % 2 == 1 { s.push('x'); } }
            1 if l < 64 => { for _ in 0..l { s.push(*rg.pick(&[' ', '\t'])); } }
            _ => { for k in 0..l { s.push((b'a' + ((k + i) % 26) as u8) as char); } }
        }
        if i + 1 == lens.len() && rg.chance(1, 2) { break; }
        if rg.chance(1, 2) { s.push('\r'); }
        s.push('\n');
    }
    s
}

/// ops: [code, arg]: 0 process_lines (handler says stop on its arg-th call, 0 = never), 1 count_lines,
/// 2 process_batches(batch = 1 + arg % 8, stop on call arg / 8, 0 = never), 3 find_lines, 4 split_lines_by("," , stop on field arg),
/// 5 get_statistics, 6 process_lines whose handler fails on its arg-th call.  One processor for the whole history; a final
/// process_lines drains it.  {cell: lineshist, text | (kind, n, seed), preset, cfg, buf, maxlen, ops}
pub fn lines_hist(cx: &mut Ctx, c: &Value) {
    let cell = "LineProcessor_configs";
    let text: String = match c["text"].as_str() { Some(t) => t.to_string(), None => lines_text(c["kind"].as_u64().unwrap_or(0), c["n"].as_u64().unwrap_or(0) as usize, c["seed"].as_u64().unwrap_or(0)) };
    let (preset, bits, buf, maxlen) = (c["preset"].as_u64().unwrap_or(0), c["cfg"].as_u64().unwrap_or(0), c["buf"].as_u64().unwrap_or(0) as usize, c["maxlen"].as_u64().unwrap_or(0) as usize);
    let mut ops: Vec<(u64, usize)> = c["ops"].as_array().map(|a| a.iter().map(|o| (o[0].as_u64().unwrap_or(0), o[1].as_u64().unwrap_or(0) as usize)).collect()).unwrap_or_default();
    ops.push((0, 0));
    cx.sum.eval(cell, &format!("lineshist {}", c), text.len() >= 3 && ops.len() >= 3);
    cx.sum.dist("lines_hist_cases");
    let cj = c.clone();
    let mut n_refused = 0u64;
    let r = guarded(|| {
        let mut bad: Vec<String> = vec![];
        let cfg = lp_config(preset, bits, buf, maxlen, c["buf0"].as_bool().unwrap_or(false));
        let sh = shadow_lines(&text, &cfg);
        // a line longer than max_line_length must be refused; one that fits with its terminator must be delivered
        let mut refused_lines = 0usize;
        let mut long_bytes = 0usize;   // bytes of the refused lines
        let mut lp = LineProcessor::with_config(ChunkReader::new(text.as_bytes(), c["chunk"].as_u64().unwrap_or(0) as usize), cfg.clone());
        let mut cur = 0usize;
        let fail_err = || zipora::ZiporaError::invalid_data("handler failure requested by the test");
        'hist: for (step, &(code, arg)) in ops.iter().enumerate() {
            // expected: the raw lines read by this operation, what the handler sees, the return value
            let mut seen: Vec<String> = vec![];
            let mut ret = 0usize;
            let mut i = cur;
            let mut hit_long = false;
            let mut batches_want: Vec<Vec<String>> = vec![];
            // the next over-long line from here on (an earlier one was refused and the history went on behind it)
            let first_long = (cur..sh.len()).find(|&j| sh[j].raw_len > cfg.max_line_length);
            match code {
                0 | 6 => while i < sh.len() {
                    if Some(i) == first_long { hit_long = true; break; }
                    let l = &sh[i]; i += 1;
                    if l.skipped { continue; }
                    seen.push(l.out.clone());
                    if arg > 0 && seen.len() == arg { break; }
                    ret += 1;
                },
                1 | 3 => while i < sh.len() {
                    if Some(i) == first_long { hit_long = true; break; }
                    let l = &sh[i]; i += 1;
                    if l.skipped { continue; }
                    seen.push(l.out.clone());
                    ret += 1;
                },
                2 => {
                    let (b, stop) = (1 + arg % 8, arg / 8);
                    let mut batch: Vec<String> = vec![];
                    let mut stopped = false;
                    while i < sh.len() {
                        if Some(i) == first_long { hit_long = true; break; }
                        let l = &sh[i]; i += 1;
                        if l.skipped { continue; }
                        batch.push(l.out.clone());
                        if batch.len() >= b {
                            batches_want.push(batch.clone());
                            if stop > 0 && batches_want.len() == stop { stopped = true; break; }
                            ret += batch.len();
                            batch.clear();
                        }
                    }
                    if !stopped && !hit_long && !batch.is_empty() {
                        batches_want.push(batch.clone());
                        if !(stop > 0 && batches_want.len() == stop) { ret += batch.len(); }
                    }
                }
                4 => 'outer: while i < sh.len() {
                    if Some(i) == first_long { hit_long = true; break; }
                    let l = &sh[i]; i += 1;
                    if l.skipped { continue; }
                    for f in l.out.split(',') {
                        seen.push(f.to_string());
                        if arg > 0 && seen.len() == arg { break 'outer; }
                        ret += 1;
                    }
                },
                _ => {}
            }
            let must_fail = hit_long && sh[first_long.unwrap()].content_len > cfg.max_line_length;
            // run
            let mut got: Vec<String> = vec![];
            let mut got_batches: Vec<Vec<String>> = vec![];
            let res: Result<usize, String> = match code {
                0 => lp.process_lines(|l| { got.push(l.to_string()); Ok(!(arg > 0 && got.len() == arg)) }).map_err(|e| e.to_string()),
                6 => lp.process_lines(|l| { got.push(l.to_string()); if arg > 0 && got.len() == arg { Err(fail_err()) } else { Ok(true) } }).map_err(|e| e.to_string()),
                1 => lp.count_lines().map_err(|e| e.to_string()),
                2 => { let (b, stop) = (1 + arg % 8, arg / 8); lp.process_batches(b, |x| { got_batches.push(x.to_vec()); Ok(!(stop > 0 && got_batches.len() == stop)) }).map_err(|e| e.to_string()) }
                3 => lp.find_lines(|_| true).map(|v| { let k = v.len(); if v.windows(2).any(|w| w[0].0 >= w[1].0) { got.push("<line numbers not increasing>".into()); } got.extend(v.into_iter().map(|(_, l)| l)); k }).map_err(|e| e.to_string()),
                4 => lp.split_lines_by(",", |f, _, _| { got.push(f.to_string()); Ok(!(arg > 0 && got.len() == arg)) }).map_err(|e| e.to_string()),
                _ => { let _ = lp.get_statistics(); Ok(0) }
            };
            let what = format!("step {} op {} arg {} (preset {}, cfg {}, buffer {}, max line {})", step, code, arg, preset, bits, cfg.buffer_size, cfg.max_line_length);
            if hit_long {
                // everything before the long line is still delivered in order; then the call fails (or, if only the
                // terminator exceeds the limit, may go on - then the history ends here: no expectation was computed for the rest)
                if res.is_ok() && must_fail { bad.push(format!("{}: a line of {} bytes was accepted", what, sh[first_long.unwrap()].content_len)); }
                if res.is_err() && matches!(code, 0 | 4 | 6) && got != seen { bad.push(format!("{}: lines before the over-long line: got {}, want {}", what, clip_v(&got), clip_v(&seen))); }
                if res.is_ok() || !bad.is_empty() { break 'hist; }
                // The refusal: the reader has handed the over-long line out, so it is gone with the refusal - and nothing else is.
                // The counters count accepted lines only, and the history goes on with the line behind the refused one.
                let fl = first_long.unwrap();
                refused_lines += 1;
                n_refused += 1;
                let st = lp.get_statistics();
                let want_lines = fl + 1 - refused_lines;
                let want_bytes: usize = sh[..fl].iter().map(|l| l.raw_len).sum::<usize>() - long_bytes;
                if st.lines_processed != want_lines || st.bytes_processed != want_bytes { bad.push(format!("{}: after the refused line the statistics say {} lines / {} bytes, {} lines / {} bytes were accepted", what, st.lines_processed, st.bytes_processed, want_lines, want_bytes)); break 'hist; }
                long_bytes += sh[fl].raw_len;
                cur = fl + 1;
                continue 'hist;
            }
            match (code, res) {
                (5, _) => {}
                (6, r) => {
                    let failing = arg > 0 && seen.len() == arg;
                    if failing && r.is_ok() { bad.push(format!("{}: the handler's error was swallowed", what)); }
                    if !failing { if let Err(e) = &r { bad.push(format!("{}: {}", what, e)); } }
                    if got != seen { bad.push(format!("{}: handler saw {}, want {}", what, clip_v(&got), clip_v(&seen))); }
                }
                (_, Err(e)) => { bad.push(format!("{}: {}", what, e)); break 'hist; }
                (1, Ok(k)) => if k != ret { bad.push(format!("{}: count_lines = {}, {} lines remain", what, k, ret)); },
                (2, Ok(k)) => {
                    if got_batches != batches_want { bad.push(format!("{}: batches {:?}, want {:?}", what, got_batches.iter().take(6).map(|b| clip_v(b)).collect::<Vec<_>>(), batches_want.iter().take(6).map(|b| clip_v(b)).collect::<Vec<_>>())); }
                    else if k != ret { bad.push(format!("{}: returned {}, want {}", what, k, ret)); }
                }
                (_, Ok(k)) => {
                    if got != seen { bad.push(format!("{}: handler saw {}, want {}", what, clip_v(&got), clip_v(&seen))); }
                    else if k != ret { bad.push(format!("{}: returned {}, want {}", what, k, ret)); }
                }
            }
            cur = i;
            if !bad.is_empty() { break; }
        }
        bad
    });
    for _ in 0..n_refused { cx.sum.dist("lines_refused_then_continued"); }
    finish(cx, cell, cj, r);
}

/// {cell: linesbin, bytes, cfg}: input that is not UTF-8 everywhere
pub fn lines_bin(cx: &mut Ctx, bytes: &[u8], bits: u64) {
    let cell = "LineProcessor_configs";
    cx.sum.eval(cell, &format!("linesbin {:?} {}", bytes, bits), bytes.len() >= 3);
    let cj = json!({"cell": "linesbin", "bytes": bytes, "cfg": bits});
    let r = guarded(|| {
        let mut bad = vec![];
        let cfg = lp_config(0, bits, 0, 0, false);
        // the raw lines up to the first one that is not UTF-8
        let mut want: Vec<String> = vec![];
        let mut invalid = false;
        for piece in bytes.split_inclusive(|&b| b == b'\n') {
            match std::str::from_utf8(piece) {
                Ok(p) => { if let Some(l) = shadow_lines(p, &cfg).into_iter().next() { if !l.skipped { want.push(l.out); } } }
                Err(_) => { invalid = true; break; }
            }
        }
        let mut got: Vec<String> = vec![];
        let res = LineProcessor::with_config(bytes, cfg.clone()).process_lines(|l| { got.push(l.to_string()); Ok(true) });
        if res.is_ok() == invalid { bad.push(format!("process_lines returned {:?} on input that is {}valid UTF-8", res.as_ref().map_err(|e| e.to_string()), if invalid { "in" } else { "" })); }
        if got != want { bad.push(format!("process_lines delivered {}, the lines before the invalid one are {}", clip_v(&got), clip_v(&want))); }
        let cnt = LineProcessor::with_config(bytes, cfg).count_lines();
        if cnt.is_ok() == invalid || (!invalid && cnt.ok() != Some(want.len())) { bad.push("count_lines on the same input".into()); }
        bad
    });
    finish(cx, cell, cj, r);
}

/// line_utils on a configured processor.  {cell: lineutils, text, preset, cfg, min, max}
pub fn lines_utils(cx: &mut Ctx, text: &str, preset: u64, bits: u64, min: usize, max: usize) {
    use zipora::string::utils::line_utils;
    let cell = "LineProcessor_configs";
    cx.sum.eval(cell, &format!("lineutils {:?} {} {} {} {}", text, preset, bits, min, max), text.len() >= 3);
    let cj = json!({"cell": "lineutils", "text": text, "preset": preset, "cfg": bits, "min": min, "max": max});
    let r = guarded(|| {
        let mut bad = vec![];
        let cfg = lp_config(preset, bits, 0, 0, false);
        let lines: Vec<String> = shadow_lines(text, &cfg).into_iter().filter(|l| !l.skipped).map(|l| l.out).collect();
        let mk = || LineProcessor::with_config(text.as_bytes(), cfg.clone());
        let mut wf: HashMap<String, usize> = HashMap::new();
        for l in &lines { for w in l.split_whitespace() { *wf.entry(w.to_lowercase()).or_insert(0) += 1; } }
        match line_utils::count_word_frequencies(mk()) { Ok(f) => if f != wf { bad.push(format!("count_word_frequencies {:?}, want {:?}", f, wf)); }, Err(e) => bad.push(format!("count_word_frequencies: {}", e)) }
        match line_utils::extract_unique_lines(mk()) {
            Ok(u) => {
                let set: HashSet<&String> = u.iter().collect();
                if set.len() != u.len() { bad.push("extract_unique_lines returns a line twice".into()); }
                if set != lines.iter().collect::<HashSet<_>>() { bad.push(format!("extract_unique_lines {:?}, lines are {:?}", u, lines)); }
            }
            Err(e) => bad.push(format!("extract_unique_lines: {}", e)),
        }
        match line_utils::filter_by_length(mk(), min, max) {
            Ok(f) => { let w: Vec<String> = lines.iter().filter(|l| l.len() >= min && l.len() <= max).cloned().collect(); if f != w { bad.push(format!("filter_by_length({}, {}) {:?}, want {:?}", min, max, f, w)); } }
            Err(e) => bad.push(format!("filter_by_length: {}", e)),
        }
        match line_utils::analyze_text(mk()) {
            Ok(a) => {
                let w = (lines.len(), lines.iter().map(|l| l.chars().count()).sum::<usize>(), lines.iter().map(|l| l.len()).sum::<usize>(), lines.iter().map(|l| l.split_whitespace().count()).sum::<usize>(),
                         lines.iter().filter(|l| l.trim().is_empty()).count(), lines.iter().map(|l| l.len()).max().unwrap_or(0), lines.iter().map(|l| l.len()).min().unwrap_or(0));
                let g = (a.total_lines, a.total_chars, a.total_bytes, a.total_words, a.empty_lines, a.max_line_length, a.min_line_length);
                if g != w { bad.push(format!("analyze_text (lines, chars, bytes, words, empty, max, min) = {:?}, want {:?}", g, w)); }
            }
            Err(e) => bad.push(format!("analyze_text: {}", e)),
        }
        bad
    });
    finish(cx, cell, cj, r);
}

// ================================================================ lexicographic iterators
pub fn lex_iter_via<'a>(via: u64, strings: &'a [String]) -> SortedVecLexIterator<'a> {
    match via {
        0 => SortedVecLexIterator::new(strings),
        1 => LexIteratorBuilder::new().build_sorted_vec(strings),
        _ => LexIteratorBuilder::default().optimize_for_memory(via % 2 == 0).buffer_size(if via > 3 { 0 } else { 1 << (via * 4) }).build_sorted_vec(strings),
    }
}

/// ops: 0 next, 1 prev, 2 seek_start, 3 seek_end, 4 seek_lower_bound, 5 seek_upper_bound (1..5 are documented as unsupported:
/// they must fail without disturbing the enumeration), 6 observe.  {cell: streamhist, strings, terms, cut_last, ops, via}
pub fn stream_hist(cx: &mut Ctx, strings: &[String], terms: &[u8], cut_last: bool, ops: &[u64], via: u64) {
    let cell = "StreamingLexIterator";
    cx.sum.eval(cell, &format!("streamhist {:?} {:?} {} {:?} {}", strings, terms, cut_last, ops, via), strings.len() >= 2 && ops.len() >= 3);
    let cj = json!({"cell": "streamhist", "strings": strings, "terms": terms, "cut_last": cut_last, "ops": ops, "via": via});
    if strings.iter().any(|s| s.contains('\n') || s.ends_with('\r')) { return; }
    let mut text = String::new();
    for (i, s) in strings.iter().enumerate() {
        text.push_str(s);
        if i + 1 == strings.len() && cut_last && !s.is_empty() { break; }
        if terms.get(i).copied().unwrap_or(0) % 2 == 1 { text.push('\r'); }
        text.push('\n');
    }
    let r = guarded(|| {
        let mut bad: Vec<String> = vec![];
        // via: 0 = new, 1 = builder, otherwise builder with options and a reader that delivers (via % 7) bytes per call
        let rd = ChunkReader::new(text.as_bytes(), if via > 1 { (via % 7) as usize } else { 0 });
        let mut it: StreamingLexIterator<_> = match via { 0 => StreamingLexIterator::new(rd), 1 => LexIteratorBuilder::new().build_streaming(rd), _ => LexIteratorBuilder::new().optimize_for_memory(true).buffer_size(via as usize).build_streaming(rd) };
        let mut idx: Option<usize> = None; // index of the current string
        let mut ended = false;
        if it.current().is_some() || it.is_at_end() { bad.push("fresh iterator: current() is Some or is_at_end()".into()); }
        // all operations of the history, then next() until the end
        let all: Vec<u64> = ops.iter().cloned().chain(std::iter::repeat(0).take(strings.len() + 2)).collect();
        for (step, &op) in all.iter().enumerate() {
            let before = it.current().map(|s| s.to_string());
            match op {
                0 => {
                    let k = idx.map_or(0, |i| i + 1);
                    let want_more = !ended && k < strings.len();
                    match it.next() {
                        Err(e) => { bad.push(format!("step {}: next() failed: {}", step, e)); break; }
                        Ok(b) => {
                            if b != want_more { bad.push(format!("step {}: next() = {}, {} strings of {} delivered so far", step, b, k, strings.len())); break; }
                            if b { idx = Some(k); } else { ended = true; }
                        }
                    }
                    let want_cur = if ended { None } else { idx.map(|i| strings[i].clone()) };
                    if it.current().map(|s| s.to_string()) != want_cur { bad.push(format!("step {}: after next() current() = {:?}, want {:?}", step, it.current(), want_cur)); break; }
                }
                1..=5 => {
                    let res = match op { 1 => it.prev(), 2 => it.seek_start(), 3 => it.seek_end(), 4 => it.seek_lower_bound("a"), _ => it.seek_upper_bound("a") };
                    if res.is_ok() { break; } // seeking got implemented: no verdict from this history
                    if it.current().map(|s| s.to_string()) != before { bad.push(format!("step {}: a refused operation ({}) changed current() from {:?} to {:?}", step, op, before, it.current())); break; }
                    if it.is_at_end() != ended { bad.push(format!("step {}: after a refused operation ({}) is_at_end() = {}, {} before it", step, op, it.is_at_end(), ended)); break; }
                }
                _ => {
                    if it.is_at_end() != ended { bad.push(format!("step {}: is_at_end() = {}", step, it.is_at_end())); }
                    if it.is_at_start() && idx.map_or(false, |i| i > 0 && strings[i] != strings[0]) { bad.push(format!("step {}: is_at_start() on a later string", step)); }
                    if let Some(h) = it.size_hint() { if h != strings.len() { bad.push(format!("step {}: size_hint() = {}", step, h)); } }
                }
            }
        }
        if bad.is_empty() && !(ended && it.is_at_end() && it.current().is_none()) { bad.push("not at the end after enumerating everything".into()); }
        bad
    });
    finish(cx, cell, cj, r);
}

fn sorted_pool_strings(n: usize, seed: u64, long_every: usize, long_len: usize) -> Vec<String> {
    let mut rg = Rng::new(seed ^ 0x50f7);
    let mut v: Vec<String> = (0..n).map(|i| {
        if long_every > 0 && i % long_every == 0 {
            let l = long_len + (i / long_every) % 5 - 2;
            let mut s = String::new();
            if rg.chance(1, 2) { for _ in 0..l / 2 { s.push('é'); } if l % 2 == 1 { s.push('x'); } } else { for k in 0..l { s.push((b'a' + (k % 7) as u8) as char); } }
            s
        } else {
            (0..rg.below(6)).map(|_| *rg.pick(&["a", "b", "é", "0", "\u{7f}", "ab"])).collect()
        }
    }).collect();
    v.sort();
    v
}

/// {cell: streambig, n, seed}: strings whose lengths straddle n (the 8 KiB reader buffer), both terminators
pub fn stream_big(cx: &mut Ctx, n: usize, seed: u64) {
    let cell = "StreamingLexIterator";
    cx.sum.eval(cell, &format!("streambig {} {}", n, seed), true);
    let cj = json!({"cell": "streambig", "n": n, "seed": seed});
    let strings = sorted_pool_strings(40, seed, 3, n);
    let mut rg = Rng::new(seed);
    let mut text = String::new();
    for s in &strings { text.push_str(s); if rg.chance(1, 2) { text.push('\r'); } text.push('\n'); }
    let r = guarded(|| {
        let mut bad = vec![];
        let mut it = LexIteratorBuilder::new().buffer_size(n).build_streaming(std::io::Cursor::new(text.into_bytes()));
        for (i, s) in strings.iter().enumerate() {
            match it.next() { Ok(true) => {}, other => { bad.push(format!("next() = {:?} at string {} of {}", other.map_err(|e| e.to_string()), i, strings.len())); break; } }
            if it.current() != Some(s.as_str()) { bad.push(format!("string {}: current() has {:?} bytes, want {} bytes", i, it.current().map(|c| c.len()), s.len())); break; }
            if i % 7 == 3 { let _ = it.prev(); let _ = it.seek_lower_bound("b"); if it.current() != Some(s.as_str()) { bad.push("a refused operation changed current()".into()); break; } }
        }
        if bad.is_empty() && (it.next().ok() != Some(false) || it.current().is_some() || !it.is_at_end()) { bad.push("end of stream not reported".into()); }
        bad
    });
    finish(cx, cell, cj, r);
}

/// {cell: lexbig, n, seed, via}: n sorted strings (duplicates, empty strings): enumeration, seeks, walks
pub fn lex_big(cx: &mut Ctx, n: usize, seed: u64, via: u64) {
    let cell = "SortedVecLexIterator";
    cx.sum.eval(cell, &format!("lexbig {} {} {}", n, seed, via), true);
    let cj = json!({"cell": "lexbig", "n": n, "seed": seed, "via": via});
    let strings = sorted_pool_strings(n, seed, 0, 0);
    let mut evals = 0u64;
    let r = guarded(|| {
        let mut bad = vec![];
        let mut it = lex_iter_via(via, &strings);
        if it.size_hint() != Some(n) { bad.push("size_hint".into()); }
        let mut k = 0usize;
        if it.seek_start().unwrap() {
            loop {
                if it.current() != Some(strings[k].as_str()) { bad.push(format!("forward enumeration differs at {}", k)); break; }
                if it.is_at_start() != (k == 0) { bad.push(format!("is_at_start() = {} at position {}", it.is_at_start(), k)); break; }
                k += 1;
                if !it.next().unwrap() { break; }
            }
        }
        if k != n { bad.push(format!("forward enumeration delivers {} of {} strings", k, n)); }
        if !it.is_at_end() { bad.push("not at end".into()); }
        let mut rg = Rng::new(seed ^ 0xbeef);
        let mut probes: Vec<String> = (0..24).map(|_| strings[rg.below(n.max(1) as u64) as usize % n.max(1)].clone()).collect();
        probes.extend(["", "a", "ab\u{1}", "zzz", "é", "\u{7f}\u{7f}\u{7f}\u{7f}\u{7f}\u{7f}\u{7f}", "0"].iter().map(|s| s.to_string()));
        for p in &probes {
            evals += 2;
            let lb = strings.partition_point(|s| s.as_str() < p.as_str());
            let exact = it.seek_lower_bound(p).unwrap();
            if it.current() != strings.get(lb).map(|s| s.as_str()) || exact != (strings.get(lb) == Some(p)) { bad.push(format!("seek_lower_bound({:?}) among {} strings: at {:?} (exact {}), want index {}", p, n, it.current(), exact, lb)); }
            for d in 1..4 { let m = it.next().unwrap(); if m != (lb + d < n) || it.current() != strings.get(lb + d).map(|s| s.as_str()) { if lb + d <= n { bad.push(format!("walk after seek_lower_bound({:?}): step {}", p, d)); } break; } }
            let ub = strings.partition_point(|s| s.as_str() <= p.as_str());
            it.seek_upper_bound(p).unwrap();
            if it.current() != strings.get(ub).map(|s| s.as_str()) { bad.push(format!("seek_upper_bound({:?}) among {} strings: at {:?}, want index {}", p, n, it.current(), ub)); }
            if ub > 0 && ub < n { if !it.prev().unwrap() || it.current() != Some(strings[ub - 1].as_str()) { bad.push(format!("prev() after seek_upper_bound({:?})", p)); } }
            if bad.len() > 6 { break; }
        }
        if n > 0 {
            it.seek_end().unwrap();
            for d in 0..5.min(n) { if it.current() != Some(strings[n - 1 - d].as_str()) { bad.push(format!("backward walk from the end, step {}", d)); break; } if !it.prev().unwrap() { break; } }
            match zipora::string::utils::lex_utils::count_with_prefix(lex_iter_via(via, &strings), "ab") { Ok(c) => if c != strings.iter().filter(|s| s.starts_with("ab")).count() { bad.push(format!("count_with_prefix(\"ab\") = {}", c)); }, Err(e) => bad.push(e.to_string()) }
        }
        bad
    });
    cx.sum.evaluations += evals;
    finish(cx, cell, cj, r);
}

// ================================================================ SortableStrVec: histories on one vector
fn custom_cmp(k: usize) -> fn(&str, &str) -> Ordering {
    match k {
        0 => |a, b| b.cmp(a),
        1 => |a, b| a.as_bytes().last().cmp(&b.as_bytes().last()).then(a.cmp(b)),
        _ => |a, b| b.len().cmp(&a.len()).then(a.to_ascii_lowercase().cmp(&b.to_ascii_lowercase())),
    }
}

fn check_search2(name: &str, sorted: &[String], p: &str, got: Result<usize, usize>, bad: &mut Vec<String>) {
    match got {
        Ok(i) => if sorted.get(i).map(|s| s.as_str()) != Some(p) { bad.push(format!("{}: binary_search({}) = Ok({}) but that element is {:?}", name, clip_s(p), i, sorted.get(i).map(|s| clip_s(s)))); },
        Err(i) => if sorted.iter().any(|s| s == p) { bad.push(format!("{}: binary_search({}) = Err({}) but the string is present ({} strings)", name, clip_s(p), i, sorted.len())); },
    }
}

/// mode: 0 unsorted, 1 lexicographic, 2 by length, 3+k custom comparator k
fn observe_sortable(v: &SortableStrVec, items: &[String], mode: usize, what: &str, bad: &mut Vec<String>) {
    let n = items.len();
    if v.len() != n || v.is_empty() != (n == 0) { bad.push(format!("{}: len() = {}, want {}", what, v.len(), n)); return; }
    for i in 0..n { if v.get(i) != Some(items[i].as_str()) || v.get_by_id(i) != Some(items[i].as_str()) { bad.push(format!("{}: get({}) = {:?}, want {}", what, i, v.get(i).map(clip_s), clip_s(&items[i]))); return; } }
    if v.get(n).is_some() { bad.push(format!("{}: get(len) is Some", what)); }
    if !v.iter().eq(items.iter().map(|s| s.as_str())) { bad.push(format!("{}: iter() differs from the pushed strings", what)); }
    if mode == 0 { return; }
    let got: Vec<String> = (0..n).filter_map(|i| v.get_sorted(i).map(|s| s.to_string())).collect();
    let got_it: Vec<String> = v.iter_sorted().map(|s| s.to_string()).collect();
    if got != got_it { bad.push(format!("{}: iter_sorted() {} differs from get_sorted(0..len) {}", what, clip_v(&got_it), clip_v(&got))); }
    if v.get_sorted(n).is_some() { bad.push(format!("{}: get_sorted(len) is Some", what)); }
    let mut sorted = items.to_vec();
    sorted.sort();
    let mut g2 = got.clone();
    g2.sort();
    if g2 != sorted { bad.push(format!("{}: the sorted enumeration {} skips or repeats strings of {}", what, clip_v(&got), clip_v(&sorted))); return; }
    // whatever the order: an Ok(i) of binary_search points at the needle in the sorted enumeration
    for p in items.iter().take(6) { if let Ok(i) = v.binary_search(p) { if got.get(i) != Some(p) { bad.push(format!("{}: binary_search({}) = Ok({}) but get_sorted({}) is {:?}", what, clip_s(p), i, i, got.get(i).map(|s| clip_s(s)))); } } }
    match mode {
        1 => {
            if got != sorted { bad.push(format!("{}: sorted enumeration {}, want {}", what, clip_v(&got), clip_v(&sorted))); return; }
            let step = (n / 40).max(1);
            for p in sorted.iter().step_by(step) { check_search2(what, &sorted, p, v.binary_search(p), bad); }
            for p in ["", "a", "ab", "b", "zz", "é", "\u{80}", "common/prefix/", "common/prefix/b"] { check_search2(what, &sorted, p, v.binary_search(p), bad); }
        }
        2 => if got.windows(2).any(|w| w[0].len() > w[1].len()) { bad.push(format!("{}: not ascending by length: {}", what, clip_v(&got))); },
        k => { let f = custom_cmp(k - 3); if got.windows(2).any(|w| f(&w[0], &w[1]) == Ordering::Greater) { bad.push(format!("{}: not ascending under the custom comparator {}: {}", what, k - 3, clip_v(&got))); } }
    }
}

fn set_sort_env(c: &Value) {
    for (k, f) in [("SORTABLE_CACHE_BLOCK", "block"), ("SORTABLE_PREFETCH", "prefetch")] {
        match c[f].as_u64() { Some(v) => std::env::set_var(k, v.to_string()), None => std::env::remove_var(k) }
    }
}
fn clear_sort_env() { std::env::remove_var("SORTABLE_CACHE_BLOCK"); std::env::remove_var("SORTABLE_PREFETCH"); }

/// ops [code, arg]: 0 push(String), 1 push_str, 2 sort_lexicographic, 3 sort, 4 radix_sort, 5 sort_by_length, 6 sort_by(comparator
/// arg.len() % 3), 7 clear, 8 reserve, 9 shrink_to_fit, 10 continue with a clone (the original is checked at the end), 11 stats,
/// 12 into ZoSortedStrVec, 13 binary_search(arg), 14 a refused push / push_str of a 2^20-byte string.  ctor: 0 new, 1 with_capacity, 2 default, 3 from_iter(init).
/// {cell: sorthist, ctor, block?, prefetch?, init, ops}
pub fn sort_hist(cx: &mut Ctx, c: &Value) {
    let cell = "SortableStrVec";
    let init = strs_of(&c["init"]);
    let ops: Vec<(u64, String)> = c["ops"].as_array().map(|a| a.iter().map(|o| (o[0].as_u64().unwrap_or(0), o[1].as_str().unwrap_or("").to_string())).collect()).unwrap_or_default();
    cx.sum.eval(cell, &format!("sorthist {}", c), ops.len() >= 3);
    cx.sum.dist("sortable_hist_cases");
    set_sort_env(c);
    let ctor = c["ctor"].as_u64().unwrap_or(0);
    let r = guarded(|| {
        let mut bad: Vec<String> = vec![];
        let mut items: Vec<String> = vec![];
        let mut mode = 0usize;
        let mut v = match ctor {
            0 => SortableStrVec::new(),
            1 => SortableStrVec::with_capacity(init.len() + 3),
            2 => SortableStrVec::default(),
            _ => match SortableStrVec::from_iter(init.iter()) { Ok(v) => { items = init.clone(); v } Err(e) => { bad.push(format!("from_iter: {}", e)); return bad; } },
        };
        if ctor < 3 { for s in &init { if let Err(e) = v.push_str(s) { bad.push(format!("push_str: {}", e)); return bad; } items.push(s.clone()); } }
        let mut parked: Vec<(SortableStrVec, Vec<String>, usize, usize)> = vec![];
        observe_sortable(&v, &items, mode, "after construction", &mut bad);
        for (step, (code, arg)) in ops.iter().enumerate() {
            let what = format!("step {} (op {} {})", step, code, clip_s(arg));
            let res: Result<(), String> = match code {
                0 | 1 => {
                    let r = if *code == 0 { v.push(arg.clone()) } else { v.push_str(arg) };
                    match r { Ok(id) => { items.push(arg.clone()); mode = 0; if id != items.len() - 1 { bad.push(format!("{}: returned id {}", what, id)); } Ok(()) } Err(e) => Err(e.to_string()) }
                }
                2 => { mode = 1; v.sort_lexicographic().map_err(|e| e.to_string()) }
                3 => { mode = 1; v.sort().map_err(|e| e.to_string()) }
                4 => { mode = 1; v.radix_sort().map_err(|e| e.to_string()) }
                5 => { mode = 2; v.sort_by_length().map_err(|e| e.to_string()) }
                6 => { let k = arg.len() % 3; mode = 3 + k; v.sort_by(custom_cmp(k)).map_err(|e| e.to_string()) }
                7 => { v.clear(); items.clear(); mode = 0; Ok(()) }
                8 => { v.reserve(arg.len() * 7); Ok(()) }
                9 => { v.shrink_to_fit(); Ok(()) }
                10 => { let cl = v.clone(); let old = std::mem::replace(&mut v, cl); parked.push((old, items.clone(), mode, step)); Ok(()) }
                11 => { let _ = v.stats(); let _ = v.memory_savings_vs_vec_string(); Ok(()) }
                12 => {
                    if !items.iter().any(|s| s.contains('\0')) {
                        let mut sorted = items.clone();
                        sorted.sort();
                        match ZoSortedStrVec::from_sortable_str_vec(v.clone()) {
                            Err(e) => bad.push(format!("{}: ZoSortedStrVec::from_sortable_str_vec: {}", what, e)),
                            Ok(z) => if !z.iter().eq(sorted.iter().map(|s| s.as_str())) || z.len() != sorted.len() { bad.push(format!("{}: ZoSortedStrVec::from_sortable_str_vec enumerates {}, want {}", what, clip_v(&z.iter().map(|s| s.to_string()).collect::<Vec<_>>()), clip_v(&sorted))); }
                        }
                    }
                    Ok(())
                }
                14 => {
                    // a string the compact entry cannot describe (2^20 bytes): refused, and a refused push changes nothing - the
                    // vector stays sorted the way it was (observed right below)
                    let long = "x".repeat(1 << 20);
                    let r = if arg.len() % 2 == 0 { v.push(long.clone()) } else { v.push_str(&long) };
                    if r.is_ok() { items.push(long); mode = 0; }
                    Ok(())
                }
                _ => { if mode == 1 { let mut sorted = items.clone(); sorted.sort(); check_search2(&what, &sorted, arg, v.binary_search(arg), &mut bad); } Ok(()) }
            };
            if let Err(e) = res { bad.push(format!("{}: {}", what, e)); break; }
            observe_sortable(&v, &items, mode, &format!("after {}", what), &mut bad);
            if !bad.is_empty() { break; }
        }
        for (old, its, m, step) in &parked { observe_sortable(old, its, *m, &format!("the vector cloned at step {}, at the end of the history", step), &mut bad); }
        bad
    });
    clear_sort_env();
    finish(cx, cell, c.clone(), r);
}

/// {cell: sortbig, n, seed, block?}: n strings; the sorts, the searches and the conversion at a size far from the small cases
pub fn sort_big(cx: &mut Ctx, c: &Value) {
    let cell = "SortableStrVec";
    let (n, seed) = (c["n"].as_u64().unwrap_or(0) as usize, c["seed"].as_u64().unwrap_or(0));
    cx.sum.eval(cell, &format!("sortbig {}", c), true);
    cx.sum.dist("sortable_big_cases");
    set_sort_env(c);
    let mut rg = Rng::new(seed ^ 0x5047);
    let items: Vec<String> = (0..n).map(|i| {
        let body: String = (0..rg.below(5)).map(|_| *rg.pick(&["a", "b", "é", "\u{7f}", "0", "ab"])).collect();
        if i % 3 == 0 { format!("common/prefix/{}", body) } else { body }
    }).collect();
    let r = guarded(|| {
        let mut bad = vec![];
        let mut v = match SortableStrVec::from_iter(items.iter().map(|s| s.as_str())) { Ok(v) => v, Err(e) => return vec![format!("from_iter: {}", e)] };
        if let Err(e) = v.sort() { bad.push(e.to_string()); }
        observe_sortable(&v, &items, 1, &format!("{} strings, sort()", n), &mut bad);
        let mut w = v.clone();
        if let Err(e) = w.sort_by_length() { bad.push(e.to_string()); }
        observe_sortable(&w, &items, 2, &format!("{} strings, sort_by_length() on a clone", n), &mut bad);
        if let Err(e) = w.radix_sort() { bad.push(e.to_string()); }
        observe_sortable(&w, &items, 1, &format!("{} strings, radix_sort() after sort_by_length()", n), &mut bad);
        let mut items2 = items.clone();
        for s in ["", "common/prefix/ab", "zzzz"] { let _ = w.push_str(s); items2.push(s.to_string()); }
        w.shrink_to_fit();
        if let Err(e) = w.sort_lexicographic() { bad.push(e.to_string()); }
        observe_sortable(&w, &items2, 1, &format!("{} strings, three more pushed, shrink_to_fit, sort_lexicographic()", n), &mut bad);
        observe_sortable(&v, &items, 1, &format!("{} strings, the original after its clone was changed", n), &mut bad);
        if n <= 3000 {
            let mut sorted = items.clone();
            sorted.sort();
            match ZoSortedStrVec::from_sortable_str_vec(v) { Err(e) => bad.push(format!("from_sortable_str_vec: {}", e)), Ok(z) => if !z.iter().eq(sorted.iter().map(|s| s.as_str())) { bad.push(format!("ZoSortedStrVec of {} strings enumerates differently", n)); } }
        }
        bad
    });
    clear_sort_env();
    finish(cx, cell, c.clone(), r);
}

// ================================================================ ZoSortedStrVec: big layouts
/// kind 0: n short strings starting with a run of empty strings; kind 1: 40 strings of about n bytes; kind 2: n/8 strings of 8 bytes.
/// {cell: zobig, kind, n, seed}
pub fn zo_big(cx: &mut Ctx, kind: u64, n: usize, seed: u64) {
    let cell = "ZoSortedStrVec";
    cx.sum.eval(cell, &format!("zobig {} {} {}", kind, n, seed), true);
    cx.sum.dist("zo_big_cases");
    let cj = json!({"cell": "zobig", "kind": kind, "n": n, "seed": seed});
    let mut rg = Rng::new(seed ^ 0x20b1);
    let mut sorted: Vec<String> = match kind {
        0 => { let mut v = sorted_pool_strings(n, seed, 0, 0); v.extend(std::iter::repeat(String::new()).take(300)); v }
        3 => (0..3).map(|i| { let c = ["a", "é", "b"][i]; let mut s: String = std::iter::repeat(c).take(n / c.len()).collect(); s.push('q'); s }).collect(),
        1 => (0..40).map(|i| { let l = n + i % 3 - 1; let c = ["a", "é", "b"][i % 3]; let mut s: String = std::iter::repeat(c).take(l / c.len()).collect(); s.push((b'a' + (i % 26) as u8) as char); s }).collect(),
        _ => (0..n / 8).map(|_| (0..8).map(|_| (b'a' + rg.below(4) as u8) as char).collect()).collect(),
    };
    sorted.sort();
    let mut evals = 0u64;
    let r = guarded(|| {
        let mut bad = vec![];
        let z = match ZoSortedStrVec::from_sorted_strings(sorted.clone()) { Ok(z) => z, Err(e) => return vec![format!("from_sorted_strings refused sorted input: {}", e)] };
        let m = sorted.len();
        if z.len() != m { bad.push(format!("len {} want {}", z.len(), m)); }
        let mut it = z.iter();
        for i in 0..m {
            if it.size_hint() != (m - i, Some(m - i)) || it.len() != m - i { bad.push(format!("iter().size_hint() after {} strings", i)); break; }
            let g = it.next();
            if g != Some(sorted[i].as_str()) || z.get(i) != g { bad.push(format!("string {} of {}: iter {:?} get {:?}, want {}", i, m, g.map(clip_s), z.get(i).map(clip_s), clip_s(&sorted[i]))); break; }
        }
        if it.next().is_some() || z.get(m).is_some() { bad.push("iteration / get past the end".into()); }
        let zc = z.clone();
        let step = (m / 60).max(1);
        for i in (0..m).step_by(step).chain([m.saturating_sub(1)]) {
            if m == 0 { break; }
            let p = &sorted[i];
            evals += 3;
            match zc.binary_search(p) { Ok(j) => if sorted[j] != *p { bad.push(format!("binary_search Ok({}) at a different string", j)); }, Err(j) => bad.push(format!("binary_search({}) = Err({}), the string is at {}", clip_s(p), j, i)) }
            if !z.contains(p) { bad.push(format!("contains({}) false", clip_s(p))); }
            let mut q = p.clone(); q.push('\u{1}');
            let lb = sorted.partition_point(|s| s.as_str() < q.as_str());
            if z.binary_search(&q) != Err(lb) { bad.push(format!("binary_search of an absent string: {:?}, insertion point {}", z.binary_search(&q), lb)); }
            let lo = sorted.partition_point(|s| s.as_str() < p.as_str());
            let rr = z.range(p, &q);
            let cnt = lb - lo;
            if rr.size_hint() != (cnt, Some(cnt)) { bad.push(format!("range size_hint {:?}, want {}", rr.size_hint(), cnt)); }
            if !rr.eq(sorted[lo..lb].iter().map(|s| s.as_str())) { bad.push(format!("range({}, ..) differs ({} strings wanted)", clip_s(p), cnt)); }
            if bad.len() > 6 { break; }
        }
        if z.range("", "\u{10ffff}").count() != m { bad.push("range over everything".into()); }
        bad
    });
    cx.sum.evaluations += evals;
    finish(cx, cell, cj, r);
}

// ================================================================ unicode.rs
/// {cell: unix, text}: the remaining analysis fields, printable / width helpers, processor options and reuse
pub fn unicode_extra(cx: &mut Ctx, text: &[u8]) {
    use zipora::string::utils::unicode_utils as uu;
    use zipora::string::UnicodeProcessor;
    let cell = "unicode";
    cx.sum.eval(cell, &format!("unix {:?}", text), text.len() >= 2);
    let cj = json!({"cell": "unix", "text": text});
    let s = match std::str::from_utf8(text) { Ok(s) => s.to_string(), Err(_) => return };
    let r = guarded(|| {
        let mut bad = vec![];
        let an = UnicodeProcessor::default().analyze(&s);
        let cs: Vec<char> = s.chars().collect();
        let want = (cs.iter().filter(|c| c.is_alphabetic()).count(), cs.iter().filter(|c| c.is_numeric()).count(), cs.iter().filter(|c| c.is_whitespace()).count(), cs.iter().filter(|c| c.is_control()).count());
        if (an.alphabetic_count, an.numeric_count, an.whitespace_count, an.control_count) != want { bad.push(format!("analyze: alphabetic/numeric/whitespace/control = {:?}, want {:?}", (an.alphabetic_count, an.numeric_count, an.whitespace_count, an.control_count), want)); }
        if an.basic_latin != an.ascii_count || an.basic_latin + an.latin_supplement + an.extended_latin + an.other_unicode != cs.len() { bad.push("analyze: block counts do not add up".into()); }
        if an.latin_supplement != cs.iter().filter(|c| (0x80..=0xFF).contains(&(**c as u32))).count() { bad.push("analyze: latin_supplement".into()); }
        if an.is_ascii() != s.is_ascii() { bad.push("UnicodeAnalysis::is_ascii".into()); }
        if !cs.is_empty() && an.avg_bytes_per_char() != s.len() as f64 / cs.len() as f64 { bad.push("avg_bytes_per_char".into()); }
        if uu::is_printable(&s) != cs.iter().all(|c| !c.is_control() || matches!(c, '\t' | '\n' | '\r')) { bad.push("is_printable".into()); }
        if cs.iter().all(|c| (*c as u32) < 0x1100 && !c.is_control()) && uu::display_width(&s) != cs.len() { bad.push(format!("display_width = {} for {} narrow characters", uu::display_width(&s), cs.len())); }
        if uu::display_width(&s) > 2 * cs.len() { bad.push("display_width above two columns per character".into()); }
        // one processor, several inputs, every option combination (the inputs are in NFC already: normalisation keeps them)
        for (norm, fold) in [(false, false), (true, false), (false, true), (true, true)] {
            let mut p = UnicodeProcessor::new().with_normalization(norm).with_case_folding(fold);
            for input in [s.as_str(), "", "Zz", s.as_str()] {
                let want = if fold { input.to_lowercase() } else { input.to_string() };
                match p.process(input) { Ok(o) => if o != want { bad.push(format!("UnicodeProcessor(normalize {}, fold {}).process({}) = {}", norm, fold, clip_s(input), clip_s(&o))); }, Err(e) => bad.push(e.to_string()) }
            }
        }
        bad
    });
    finish(cx, cell, cj, r);
}

/// ops: 0 next_char, 1 prev_char, 2 reset, 3 observe.  {cell: utf8hist, text, ops}
pub fn utf8_hist(cx: &mut Ctx, text: &str, ops: &[u64]) {
    use zipora::string::Utf8ToUtf32Iterator;
    let cell = "unicode";
    cx.sum.eval(cell, &format!("utf8hist {:?} {:?}", text, ops), text.len() >= 2 && ops.len() >= 3);
    let cj = json!({"cell": "utf8hist", "text": text, "ops": ops});
    let r = guarded(|| {
        let mut bad = vec![];
        let cs: Vec<char> = text.chars().collect();
        let mut it = match Utf8ToUtf32Iterator::new(text.as_bytes()) { Ok(i) => i, Err(e) => return vec![format!("rejected valid UTF-8: {}", e)] };
        let mut idx = 0usize; // characters before the cursor
        let mut cur: Option<char> = None;
        for (step, &op) in ops.iter().enumerate() {
            let got = match op { 0 => it.next_char(), 1 => it.prev_char(), 2 => { it.reset(); None } _ => it.current() };
            let want = match op {
                0 => { let w = cs.get(idx).copied(); if w.is_some() { idx += 1; } cur = w; w }
                1 => { let w = if idx > 0 { idx -= 1; Some(cs[idx]) } else { None }; cur = w; w }
                2 => { idx = 0; cur = None; None }
                _ => cur,
            };
            if got != want { bad.push(format!("step {} op {}: {:?}, want {:?}", step, op, got, want)); break; }
            let bp: usize = cs[..idx].iter().map(|c| c.len_utf8()).sum();
            if it.byte_position() != bp || it.current() != cur { bad.push(format!("step {} op {}: byte_position {} current {:?}, want {} {:?}", step, op, it.byte_position(), it.current(), bp, cur)); break; }
        }
        bad
    });
    finish(cx, cell, cj, r);
}

/// {cell: unibig, kind, n, seed}: n bytes, ASCII except at chosen places (kind 0 valid 2-byte character, kind 1 a lone
/// continuation byte, kind 2 a truncated character at the very end, kind 3 all ASCII)
pub fn unicode_big(cx: &mut Ctx, kind: u64, n: usize, seed: u64) {
    use zipora::string::{validate_utf8_and_count_chars, Utf8ToUtf32Iterator};
    let cell = "unicode";
    cx.sum.eval(cell, &format!("unibig {} {} {}", kind, n, seed), true);
    let cj = json!({"cell": "unibig", "kind": kind, "n": n, "seed": seed});
    let mut rg = Rng::new(seed ^ 0x0b16);
    let base: Vec<u8> = (0..n).map(|_| b' ' + rg.below(90) as u8).collect();
    let mut evals = 0u64;
    let r = guarded(|| {
        let mut bad = vec![];
        let mut places: Vec<usize> = vec![0, 1, 15, 16, 30, 31, 32, 33, 62, 63, 64, 65, n / 2];
        for d in [1usize, 2, 3, 31, 32, 33] { if n >= d { places.push(n - d); } }
        places.retain(|&p| p + 2 <= n);
        if kind == 3 { places = vec![0]; }
        for &p in &places {
            let mut t = base.clone();
            match kind { 0 => { t[p] = 0xC3; t[p + 1] = 0xA9; } 1 => t[p] = 0x80 + (p % 64) as u8, 2 => { let l = t.len(); t[l - 1] = 0xE2; } _ => {} }
            evals += 1;
            let parsed = std::str::from_utf8(&t);
            match (validate_utf8_and_count_chars(&t), &parsed) {
                (Ok(c), Ok(s)) => if c != s.chars().count() { bad.push(format!("validate_utf8_and_count_chars = {} for {} bytes with a 2-byte character at {}, chars().count() = {}", c, n, p, s.chars().count())); },
                (Err(_), Err(_)) => {}
                (Ok(c), Err(_)) => bad.push(format!("validate_utf8_and_count_chars accepted {} bytes with an invalid byte at {} ({} chars)", n, if kind == 2 { n - 1 } else { p }, c)),
                (Err(e), Ok(_)) => bad.push(format!("validate_utf8_and_count_chars rejected valid UTF-8 ({} bytes, non-ASCII at {}): {}", n, p, e)),
            }
            if Utf8ToUtf32Iterator::new(&t).is_ok() != parsed.is_ok() { bad.push(format!("Utf8ToUtf32Iterator::new on {} bytes, special byte at {}", n, p)); }
            if let (Ok(s), true) = (&parsed, n <= 70000) {
                let mut it = Utf8ToUtf32Iterator::new(&t).unwrap();
                let mut k = 0usize;
                let mut cs = s.chars();
                loop { let (g, w) = (it.next_char(), cs.next()); if g != w { bad.push(format!("next_char differs at character {}", k)); break; } if g.is_none() { break; } k += 1; }
                if it.byte_position() != n { bad.push("byte_position at the end".into()); }
                let mut back = 0usize;
                let mut rc = s.chars().rev();
                loop { let (g, w) = (it.prev_char(), rc.next()); if g != w { bad.push(format!("prev_char differs {} characters from the end", back)); break; } if g.is_none() { break; } back += 1; }
            }
            if bad.len() > 4 { break; }
        }
        bad
    });
    cx.sum.evaluations += evals;
    finish(cx, cell, cj, r);
}

// ================================================================ words / case conversion on long texts, byte classes
/// {cell: wordsx, text}: WordIterator::new, partially consumed iterators, byte classes
pub fn words_extra(cx: &mut Ctx, text: &[u8]) {
    use zipora::string::{is_punctuation, is_whitespace, WordIterator};
    let cell = "words";
    cx.sum.eval(cell, &format!("wordsx {:?}", text), text.len() >= 3);
    let cj = json!({"cell": "wordsx", "text": text});
    let r = guarded(|| {
        let mut bad = vec![];
        let want: Vec<&[u8]> = text.split(|&c| !is_word(c)).filter(|w| !w.is_empty()).collect();
        if WordIterator::new(text).collect::<Vec<_>>() != want { bad.push("WordIterator::new".into()); }
        let mut it = words(text);
        let first = it.next();
        if first != want.first().copied() { bad.push("first word".into()); }
        if it.by_ref().skip(1).next() != want.get(2).copied() { bad.push("third word after skipping one".into()); }
        if it.count() != want.len().saturating_sub(3) { bad.push("count of the remaining words".into()); }
        if words(text).last() != want.last().copied() { bad.push("last()".into()); }
        let mut it = words(text);
        for _ in 0..want.len() + 2 { let _ = it.next(); }
        if it.next().is_some() { bad.push("next() after the end".into()); }
        for c in 0..=255u8 {
            if is_whitespace(c) != matches!(c, b' ' | b'\t' | b'\n' | b'\r' | 0x0b | 0x0c) { bad.push(format!("is_whitespace({})", c)); }
            if is_punctuation(c) && !c.is_ascii_punctuation() { bad.push(format!("is_punctuation({}) for a byte that is no ASCII punctuation", c)); }
            if c.is_ascii_punctuation() && c != b'_' && !is_punctuation(c) { bad.push(format!("is_punctuation({}) false", c)); }
            if is_punctuation(c) && zipora::string::is_word_char(c) { bad.push(format!("byte {} is both punctuation and word character", c)); }
        }
        bad
    });
    finish(cx, cell, cj, r);
}

/// {cell: textbig, n, seed}: words and both case conversions on a text of n bytes with words of up to n/4 bytes
pub fn text_big(cx: &mut Ctx, n: usize, seed: u64) {
    let cj = json!({"cell": "textbig", "n": n, "seed": seed});
    let mut rg = Rng::new(seed ^ 0x7e47);
    let mut t: Vec<u8> = Vec::with_capacity(n);
    while t.len() < n {
        let l = match rg.below(6) { 0 => n / 4, 1 => 63 + rg.below(4) as usize, _ => rg.below(12) as usize }.min(n - t.len());
        let word = rg.chance(2, 3);
        for _ in 0..l { t.push(if word { *rg.pick(b"AZaz09_Mm") } else { *rg.pick(b" ,.-@[`{\t\n\xc3\xa9") }); }
    }
    cx.sum.eval("words", &format!("textbig {} {}", n, seed), true);
    let r = guarded(|| {
        let mut bad = vec![];
        let want: Vec<&[u8]> = t.split(|&c| !is_word(c)).filter(|w| !w.is_empty()).collect();
        let got: Vec<&[u8]> = words(&t).collect();
        if got != want { bad.push(format!("words: {} words, want {}", got.len(), want.len())); }
        if word_count(&t) != want.len() { bad.push("word_count".into()); }
        let wb = zipora::string::find_word_boundaries(&t);
        let inner = (1..t.len()).filter(|&i| is_word(t[i - 1]) != is_word(t[i])).count();
        if wb.len() != inner + if t.is_empty() { 1 } else { 2 } || wb.first() != Some(&0) || wb.last() != Some(&t.len()) { bad.push(format!("find_word_boundaries: {} boundaries, want {}", wb.len(), inner + 2)); }
        for &p in &[0usize, n / 4, n / 2, n.saturating_sub(1)] {
            if p >= t.len() { continue; }
            let w = zipora::string::word_at_position(&t, p);
            let wantw = if is_word(t[p]) { let mut st = p; while st > 0 && is_word(t[st - 1]) { st -= 1; } let mut en = p; while en < t.len() && is_word(t[en]) { en += 1; } Some((st, en)) } else { None };
            if w != wantw { bad.push(format!("word_at_position({}) = {:?}, want {:?}", p, w, wantw)); }
        }
        bad
    });
    finish(cx, "words", cj.clone(), r);
    cx.sum.eval("ascii_case", &format!("textbig {} {}", n, seed), true);
    let r = guarded(|| {
        let mut bad = vec![];
        let s = String::from_utf8_lossy(&t).into_owned();
        let (lo, up) = (zipora::string::to_lowercase_ascii_bmi2(&s), zipora::string::to_uppercase_ascii_bmi2(&s));
        if lo != s.to_ascii_lowercase() { bad.push(format!("to_lowercase_ascii_bmi2 on {} bytes: first difference at {:?}", s.len(), lo.bytes().zip(s.to_ascii_lowercase().bytes()).position(|(a, b)| a != b))); }
        if up != s.to_ascii_uppercase() { bad.push(format!("to_uppercase_ascii_bmi2 on {} bytes: first difference at {:?}", s.len(), up.bytes().zip(s.to_ascii_uppercase().bytes()).position(|(a, b)| a != b))); }
        let bp = zipora::string::Bmi2StringProcessor::new();
        if bp.to_lowercase_ascii_bmi2(&s) != lo || bp.to_uppercase_ascii_bmi2(&s) != up { bad.push("Bmi2StringProcessor methods differ from the free functions".into()); }
        bad
    });
    finish(cx, "ascii_case", cj, r);
}

// ================================================================ dispatch and generators
fn u(c: &Value, k: &str) -> u64 { c[k].as_u64().unwrap_or(0) }
fn bll_of(v: &Value) -> Vec<Vec<u8>> { v.as_array().map(|a| a.iter().map(bytes_of).collect()).unwrap_or_default() }

/// Runs the case if its cell belongs to this file.
pub fn run_one_wide(cx: &mut Ctx, c: &Value) -> bool {
    match c["cell"].as_str() {
        Some("numws") => numws_case(cx, &bytes_of(&c["a"]), c["an"].as_bool().unwrap_or(false), &bytes_of(&c["b"]), c["bn"].as_bool().unwrap_or(false)),
        Some("numbig") => numbig_case(cx, u(c, "n") as usize, u(c, "seed")),
        Some("fsx") => faststr_extra(cx, &bytes_of(&c["a"]), &bytes_of(&c["b"])),
        Some("fssort") => faststr_sort(cx, &bll_of(&c["strings"])),
        Some("fsbig") => faststr_big(cx, u(c, "kind"), u(c, "n") as usize, u(c, "seed")),
        Some("joinx") => join_extra(cx, &bytes_of(&c["sep"]), &bll_of(&c["parts"]), &c["ops"].as_array().map(|a| a.iter().map(|x| x.as_i64().unwrap_or(0)).collect::<Vec<_>>()).unwrap_or_default()),
        Some("joinbig") => join_big(cx, u(c, "kind"), u(c, "n") as usize, u(c, "seed")),
        Some("splitx") => split_hist(cx, u(c, "strategy"), &strs_of(&c["lines"]), &strs_of(&c["delims"])),
        Some("splitbig") => split_big(cx, u(c, "kind"), u(c, "n") as usize, u(c, "seed")),
        Some("lineshist") => lines_hist(cx, c),
        Some("linesbin") => lines_bin(cx, &bytes_of(&c["bytes"]), u(c, "cfg")),
        Some("lineutils") => lines_utils(cx, c["text"].as_str().unwrap_or(""), u(c, "preset"), u(c, "cfg"), u(c, "min") as usize, u(c, "max") as usize),
        Some("streamhist") => stream_hist(cx, &strs_of(&c["strings"]), &bytes_of(&c["terms"]), c["cut_last"].as_bool().unwrap_or(false), &c["ops"].as_array().map(|a| a.iter().map(|x| x.as_u64().unwrap_or(0)).collect::<Vec<_>>()).unwrap_or_default(), u(c, "via")),
        Some("streambig") => stream_big(cx, u(c, "n") as usize, u(c, "seed")),
        Some("lexbig") => lex_big(cx, u(c, "n") as usize, u(c, "seed"), u(c, "via")),
        Some("sorthist") => sort_hist(cx, c),
        Some("sortbig") => sort_big(cx, c),
        Some("zobig") => zo_big(cx, u(c, "kind"), u(c, "n") as usize, u(c, "seed")),
        Some("unix") => unicode_extra(cx, &bytes_of(&c["text"])),
        Some("utf8hist") => utf8_hist(cx, c["text"].as_str().unwrap_or(""), &c["ops"].as_array().map(|a| a.iter().map(|x| x.as_u64().unwrap_or(0)).collect::<Vec<_>>()).unwrap_or_default()),
        Some("unibig") => unicode_big(cx, u(c, "kind"), u(c, "n") as usize, u(c, "seed")),
        Some("wordsx") => words_extra(cx, &bytes_of(&c["text"])),
        Some("textbig") => text_big(cx, u(c, "n") as usize, u(c, "seed")),
        _ => return false,
    }
    true
}

/// The part of the breadth families that runs once per iteration of the main generated loop (same random inputs as the
/// existing cases of that iteration where that makes sense).
pub fn per_iteration(cx: &mut Ctx, rng: &mut Rng, i: usize, words_text: &[u8], uni_text: &[u8], sorted_list: &[String]) {
    // --- join: arbitrary bytes, item types, one builder used repeatedly
    if i % 2 == 0 {
        let pool: [&[u8]; 12] = [b"", b"a", b"b", b"ab", b"a,b", b" ", b"\xc3\xa9", b"\xff", b"\x80x", b"abc", b"-", b","];
        let parts: Vec<Vec<u8>> = (0..rng.below(6)).map(|_| rng.pick(&pool).to_vec()).collect();
        let sep: &[u8] = *rng.pick(&[b",".as_slice(), b"", b"::", b"\xe2\x86\x92", b"\xff", b"\t"]);
        let ops: Vec<i64> = (0..rng.below(9)).map(|_| match rng.below(4) { 0 => -1, 1 => -2, _ => rng.below(12) as i64 }).collect();
        join_extra(cx, sep, &parts, &ops);
        // --- one splitter, many lines and delimiters
        let lpool = ["", "a", "a,b", ",", ",,", "a,b,", "x y", " ", "é,é", "a::b::", "::", "tab\there", "a→b"];
        let lines: Vec<String> = (0..rng.range(1, 6)).map(|_| rng.pick(&lpool).to_string()).collect();
        let delims: Vec<String> = (0..rng.range(1, 3)).map(|_| rng.pick(&[",", "\t", " ", "::", "→", "é", "a", ""]).to_string()).collect();
        split_hist(cx, rng.below(4), &lines, &delims);
    }
    // --- LineProcessor histories: presets, tiny buffers, maximum line length, early stops, reuse of one processor
    {
        let text: String = (0..rng.below(12)).map(|_| *rng.pick(&["a", "b,", "é", " ", "\t", "\n", "\n", "\r\n", "\r", "", " \n", "a,b\n"])).collect();
        let ops: Vec<Value> = (0..rng.below(5)).map(|_| { let code = *rng.pick(&[0u64, 0, 1, 2, 2, 3, 4, 5, 6]); json!([code, match code { 2 => rng.below(32), _ => rng.below(5) }]) }).collect();
        let preset = *rng.pick(&[0u64, 0, 0, 1, 2, 2, 3, 4]);
        let buf = *rng.pick(&[0u64, 0, 1, 2, 3, 5, 16]);
        let maxlen = if rng.chance(1, 5) { rng.range(1, 6) } else { 0 };
        let mut c = json!({"cell": "lineshist", "text": text, "preset": if preset == 3 && i % 16 != 0 { 4 } else { preset }, "cfg": rng.below(8), "buf": buf, "maxlen": maxlen, "ops": ops});
        if rng.chance(1, 12) { c["buf0"] = json!(true); }
        if rng.chance(1, 3) { c["chunk"] = json!(rng.range(1, 4)); }
        lines_hist(cx, &c);
        if i % 5 == 0 {
            // bytes that are no UTF-8 somewhere in the text: an error, never a panic, and the lines before it are delivered
            let mut bytes = text.clone().into_bytes();
            let at = rng.below(bytes.len() as u64 + 1) as usize;
            bytes.insert(at, *rng.pick(&[0xffu8, 0x80, 0xc3, 0xe2]));
            lines_bin(cx, &bytes, rng.below(8));
        }
        if i % 3 == 0 { lines_utils(cx, &text, *rng.pick(&[0u64, 0, 2, 4]), rng.below(8), rng.below(3) as usize, rng.below(6) as usize); }
    }
    // --- streaming iterator: refused operations in between
    if i % 2 == 1 {
        let terms: Vec<u8> = (0..sorted_list.len()).map(|_| rng.below(2) as u8).collect();
        let ops: Vec<u64> = (0..rng.below(10)).map(|_| *rng.pick(&[0u64, 0, 0, 0, 1, 2, 3, 4, 5, 6, 6])).collect();
        stream_hist(cx, sorted_list, &terms, rng.chance(1, 2), &ops, *rng.pick(&[0u64, 1, 2, 3, 8, 4096, 4099]));
    }
    // --- SortableStrVec: histories on one vector, block search / prefetch options
    {
        let spool = ["", "", "a", "a", "aa", "ab", "abc", "b", "ba", "c", "é", "éa", "\u{7f}", "€", "Z", "a b", "B", "common/prefix/b", "common/prefix/"];
        let init: Vec<String> = (0..rng.below(7)).map(|_| rng.pick(&spool).to_string()).collect();
        let ops: Vec<Value> = (0..rng.range(2, 9)).map(|_| {
            let code = *rng.pick(&[0u64, 1, 1, 1, 2, 3, 4, 5, 5, 6, 6, 7, 8, 9, 10, 11, 12, 13, 13, 14]);
            json!([code, rng.pick(&spool)])
        }).collect();
        let mut c = json!({"cell": "sorthist", "ctor": rng.below(4), "init": init, "ops": ops});
        if rng.chance(1, 2) { c["block"] = json!(rng.below(5)); }
        if rng.chance(1, 4) { c["prefetch"] = json!(0); }
        sort_hist(cx, &c);
    }
    // a refused push right after each kind of sort, then a search (every fourth round)
    if i % 4 == 1 {
        let init: Vec<String> = ["b", "", "common/prefix/", "a", "ab", "é", "aa"].iter().map(|s| s.to_string()).collect();
        let sort = *rng.pick(&[2u64, 3, 4, 5, 6]);
        sort_hist(cx, &json!({"cell": "sorthist", "ctor": rng.below(4), "init": init, "ops": [[sort, "ab"], [14, rng.pick(&["", "a"])], [13, "ab"], [13, "a"], [1, "c"], [sort, ""], [14, "a"], [13, "c"]]}));
    }
    // --- unicode: remaining helpers, cursor histories
    if i % 2 == 0 {
        unicode_extra(cx, uni_text);
        if let Ok(s) = std::str::from_utf8(uni_text) {
            let ops: Vec<u64> = (0..rng.range(3, 14)).map(|_| *rng.pick(&[0u64, 0, 0, 1, 1, 2, 3])).collect();
            utf8_hist(cx, s, &ops);
        }
        words_extra(cx, words_text);
        let lists: Vec<Vec<u8>> = (0..rng.below(9)).map(|_| rand_bytes_biased(rng, 20)).collect();
        faststr_sort(cx, &lists);
    }
}

/// Deterministic families that do not depend on the random loop: pre-parsed numerals, long numerals, big inputs at the
/// internal thresholds.
pub fn fixed_families(cx: &mut Ctx, args: &Args) {
    let seed = args.seed;
    // pre-parsed comparators: every pair of valid bodies over {0,1,9,.} up to length 3, every sign flag combination
    let bodies: Vec<Vec<u8>> = all_strings(b"019.", 3).into_iter().filter(|s| valid_body(s, true)).collect();
    for a in &bodies { for b in &bodies { for f in 0..4 { numws_case(cx, a, f & 1 != 0, b, f & 2 != 0); } } }
    // operands that are not ASCII: invalid, never a panic (the sign is split off at a byte index)
    for a in ["é", "-é", "+é", "1é", "١٢", "1.é", "é.1", "-١", "+\u{a0}1", "1\u{0}", "\u{ff11}"] { for b in ["1", "-0.5", "é", "+١"] {
        cmp_case(cx, a.as_bytes(), b.as_bytes(), false);
        cmp_case(cx, b.as_bytes(), a.as_bytes(), false);
    } }
    for n in [17usize, 18, 19, 20, 21, 22, 37, 38, 39, 40, 41, 63, 64, 65, 127, 128, 129, 255, 256, 257, 1000, 4095, 4096, 4097, 65535, 65536, 65537, 1 << 20] {
        numbig_case(cx, n, seed);
    }
    for n in [131usize, 191, 192, 193, 255, 256, 257, 511, 512, 513, 1023, 1024, 1025, 4095, 4096, 4097, 8191, 8192, 8193, 65535, 65536, 65537] {
        for kind in 0..3 { faststr_big(cx, kind, n, seed); }
    }
    for (kind, n) in [(0u64, (1usize << 20) - 1), (0, 1 << 20), (1, 1 << 20), (0, (1 << 20) + 1)] { faststr_big(cx, kind, n, seed); }
    for (kind, n) in [(0u64, 65535usize), (0, 65536), (0, 65537), (0, 1 << 20), (1, 65536), (1, 1 << 20), (2, 4096), (2, 65536)] { join_big(cx, kind, n, seed); }
    for (kind, n) in [(0u64, 4096usize), (0, 65536), (1, 65536), (1, 1 << 20)] { split_big(cx, kind, n, seed); }
    // line processor: lines around the buffer size of every preset (and of the wrong preset), tiny explicit buffers,
    // the maximum line length of the memory preset
    for (preset, n) in [(2u64, 16 * 1024usize), (3, 32 * 1024), (4, 64 * 1024), (1, 256 * 1024), (2, 64 * 1024), (4, 16 * 1024), (0, 4096), (0, 8192)] {
        for kind in 0..2 {
            for (k, ops) in [json!([]), json!([[0, 2], [2, 11], [1, 0]]), json!([[6, 1], [4, 3], [3, 0]])].into_iter().enumerate() {
                if kind == 1 && k == 2 { continue; }
                lines_hist(cx, &json!({"cell": "lineshist", "kind": kind, "n": n, "seed": seed + k as u64, "preset": preset, "cfg": (seed + k as u64) % 8, "buf": if preset == 0 { n } else { 0 }, "maxlen": 0, "ops": ops}));
            }
        }
    }
    for n in [7usize, 8, 9, 64] { for bits in 0..8 { lines_hist(cx, &json!({"cell": "lineshist", "kind": 0, "n": n, "seed": seed, "preset": 0, "cfg": bits, "buf": n, "maxlen": 0, "ops": [[0, 3], [2, 9]]})); } }
    // refused operations inside histories: over-long lines between short ones (every option set, short reads), the history goes on
    // behind each refused line; the refused motions of the streaming iterator between its next() calls
    for bits in 0..8u64 {
        let opsets = [json!([[0, 0], [0, 0], [0, 0], [1, 0]]), json!([[1, 0], [3, 0], [4, 0], [0, 0]]), json!([[2, 2], [0, 1], [2, 9], [5, 0], [1, 0]]), json!([[6, 2], [4, 0], [0, 1], [0, 0], [3, 0], [0, 0]])];
        for (k, ops) in opsets.iter().enumerate() {
            let text = if (bits as usize + k) % 2 == 0 { "ab\nTOOLONGLINE\ncd\r\n\n xxxxxxxxxx \r\nef\n,g,\nlast-line-without-end" } else { "far too long at once\na\nb,c\nagain far too long\nmore than four\nd\n\ne" };
            lines_hist(cx, &json!({"cell": "lineshist", "text": text, "preset": 0, "cfg": bits, "buf": ([0, 1, 3, 16][k]), "maxlen": 4, "chunk": k, "ops": ops}));
        }
    }
    for via in [0u64, 1, 3, 4099] {
        let strings: Vec<String> = ["", "a", "ab", "ab", "b", "é"].iter().map(|s| s.to_string()).collect();
        stream_hist(cx, &strings, &[0, 1, 0, 1, 1, 0], via % 2 == 1, &[1, 6, 0, 1, 6, 0, 2, 3, 0, 4, 6, 5, 0, 0, 0, 1, 6, 0, 0, 3, 6], via);
    }
    for n in [7usize, 8, 9] { lines_hist(cx, &json!({"cell": "lineshist", "kind": 2, "n": n, "seed": seed, "preset": 0, "cfg": seed % 8, "buf": 0, "maxlen": n, "ops": [[0, 0]]})); }
    lines_hist(cx, &json!({"cell": "lineshist", "kind": 2, "n": (1 << 20) - 2, "seed": seed, "preset": 2, "cfg": 0, "buf": 0, "maxlen": 0, "ops": [[1, 0]]}));
    lines_hist(cx, &json!({"cell": "lineshist", "kind": 2, "n": 1 << 20, "seed": seed, "preset": 2, "cfg": 0, "buf": 0, "maxlen": 0, "ops": [[0, 0]]}));
    for n in [4096usize, 8192, 16384] { stream_big(cx, n, seed); }
    for (n, via) in [(1000usize, 1u64), (65535, 0), (65536, 2), (65537, 3)] { lex_big(cx, n, seed, via); }
    for (n, block) in [(511usize, None), (512, None), (513, None), (514, None), (1024, Some(16u64)), (10000, None), (10001, Some(1)), (65537, None)] {
        let mut c = json!({"cell": "sortbig", "n": n, "seed": seed});
        if let Some(b) = block { c["block"] = json!(b); }
        sort_big(cx, &c);
    }
    // (select1 of the rank/select structure is linear in the position: sizes chosen so that one case stays below about a second)
    for (kind, n) in [(0u64, 1000usize), (0, 5000), (1, 2000), (1, 30000), (2, 32768), (3, 70000), (3, 1 << 20)] { zo_big(cx, kind, n, seed); }
    for n in [31usize, 32, 33, 63, 64, 65, 4096, 65536, 1 << 20] { for kind in 0..4 { unicode_big(cx, kind, n, seed); } }
    for n in [4096usize, 65536, 1 << 20] { text_big(cx, n, seed); }
}
