// (included by c18_wide.rs)
// ---------------------------------------------------------------------------------------------
// cell: one Pipeline through a history of different operations (PipelineBuilder and its setters, the default preset, extreme
// option values; FilterStage, BatchMapStage::with_max_concurrency, the stages' own process_batch; failures and timeouts
// leave their traces - items_in_flight, stage statistics - for the next operation)
// ---------------------------------------------------------------------------------------------

/// preset: 0 Pipeline::new(default config), 1 PipelineBuilder::new().build(), 2 every setter with small values (buffer 1,
/// max_in_flight 1, batching on, batch size 2), 3 zeros (buffer 0, max_in_flight 0, batch size 0) and stage_timeout = Duration::MAX,
/// 4 PipelineBuilder::default() with batching on, 5 stage_timeout 8 ms and batching on (the slow stage times out)
fn pipe_build(preset: u64) -> Pipeline {
    match preset {
        0 => Pipeline::new(PipelineConfig::default()),
        1 => PipelineBuilder::new().build(),
        2 => PipelineBuilder::new().buffer_size(1).max_in_flight(1).stage_timeout(Duration::from_secs(5)).enable_batching(true).batch_size(2).batch_timeout(Duration::from_millis(1)).build(),
        3 => PipelineBuilder::new().buffer_size(0).max_in_flight(0).stage_timeout(Duration::MAX).enable_batching(false).batch_size(0).batch_timeout(Duration::ZERO).build(),
        4 => PipelineBuilder::default().enable_batching(true).build(),
        _ => PipelineBuilder::new().stage_timeout(Duration::from_millis(8)).enable_batching(true).build(),
    }
}
fn keep(x: &i64) -> bool { x.rem_euclid(3) != 0 }
type Fb = fn(Vec<i64>) -> ZResult<Vec<i64>>;
fn stage_all(b: Vec<i64>) -> ZResult<Vec<i64>> { b.into_iter().map(stage).collect() }

/// ops: kind * 1000 + len.  kinds (process_batch unless said otherwise): 1 MapStage, 2 with a failing item, 3 BatchMapStage with batch
/// function and max_concurrency 4, 4 with a failing item, 5 FilterStage (one Option per input), 6 a suspending stage that declares
/// room for 4 items, 7 the slow stage with an item that exceeds the stage timeout (preset 5 only; else as 1), 8 execute_single
/// (MapStage, FilterStage), 9 execute_two_stage(MapStage, FilterStage), 10 execute_stream with (len % 3) + 1 stages, the consumer
/// reading concurrently from an output channel of capacity 1, 11 with a failing item, 12 execute_stream without stages, 13 the
/// stages' own process_batch (trait default, BatchMapStage with and without batch function) and accessors, 14 stats()
fn pipeops_case(cx: &mut Ctx, rt: usize, preset: u64, seed: u64, ops: &[i64]) {
    let cell = "Pipeline/history (one pipeline, many operations)";
    let case = json!({"cell": "pipeops", "kind": 23, "rt": rt, "preset": preset, "seed": seed, "ops": ops});
    cx.sum.eval(cell, &format!("pi {} {} {} {:?}", rt, preset, seed, ops), ops.len() >= 3);
    s_only(cx, cell);
    cx.sum.dist(&format!("pipeops_preset={}", preset));
    let opv = ops.to_vec();
    let at = Arc::new(AtomicUsize::new(0));
    let at2 = at.clone();
    let r = guarded(|| with_rt(rt, async move {
        tokio::time::timeout(Duration::from_secs(12), async move {
            let p = pipe_build(preset);
            for (k, &o) in opv.iter().enumerate() {
                at2.store(k, Ordering::SeqCst);
                let (kind, len) = (o / 1000, (o % 1000) as usize);
                let pos = if len > 0 { Some((seed as usize + 3 * k) % len) } else { None };
                let bad = |what: String| Some(format!("op {} ({}): {}", k, o, what));
                let kind = if kind == 7 && preset != 5 { 1 } else { kind };
                match kind {
                    1 | 2 | 3 | 4 | 6 | 7 => {
                        let mut xs = gen_items(seed, k, len, if kind == 2 || kind == 4 { pos } else { None }, None);
                        if kind == 7 { if let Some(i) = pos { xs[i] = 32 * (i as i64 % 50) + 7; } }
                        let want = if kind == 7 { seq_map_slow(&xs) } else { seq_map(&xs, false) };
                        let got = match kind {
                            1 | 2 => p.process_batch(MapStage::new("m".to_string(), stage), xs.clone()).await,
                            3 | 4 => p.process_batch(BatchMapStage::with_batch_support("bb".to_string(), stage, stage_all).with_max_concurrency(4), xs.clone()).await,
                            6 => p.process_batch(ConcStage { conc: 4 }, xs.clone()).await,
                            _ => p.process_batch(SlowStage { batching: k % 2 == 0 }, xs.clone()).await,
                        }.ok();
                        if got != want { return bad(format!("process_batch: {}", diff(&got, &want))); }
                    }
                    5 => {
                        let xs = gen_items(seed, k, len, None, None);
                        let got = p.process_batch(FilterStage::new("f".to_string(), keep), xs.clone()).await.ok();
                        let want = Some(xs.iter().map(|&x| if keep(&x) { Some(x) } else { None }).collect::<Vec<_>>());
                        if got != want { return bad(format!("process_batch(FilterStage): {}", diff(&got, &want))); }
                    }
                    8 => {
                        let x = gen_items(seed, k, 1, if len % 2 == 1 { Some(0) } else { None }, None)[0];
                        let a = p.execute_single(MapStage::new("m".to_string(), stage), x).await.ok();
                        if a != stage(x).ok() { return bad(format!("execute_single(MapStage, {}) returned {:?}", x, a)); }
                        let b = p.execute_single(FilterStage::new("f".to_string(), keep), x).await.ok();
                        if b != Some(if keep(&x) { Some(x) } else { None }) { return bad(format!("execute_single(FilterStage, {}) returned {:?}", x, b)); }
                    }
                    9 => {
                        let x = gen_items(seed, k, 1, if len % 2 == 1 { Some(0) } else { None }, None)[0];
                        let a = p.execute_two_stage(MapStage::new("m".to_string(), stage), FilterStage::new("f".to_string(), keep), x).await.ok();
                        let want = stage(x).ok().map(|y| if keep(&y) { Some(y) } else { None });
                        if a != want { return bad(format!("execute_two_stage(MapStage, FilterStage, {}) returned {:?}, want {:?}", x, a, want)); }
                    }
                    10 | 11 | 12 => {
                        let nst = if kind == 12 { 0 } else { len % 3 + 1 };
                        let xs = gen_items(seed, k, len, if kind == 11 { pos } else { None }, None);
                        let stages: Vec<Box<dyn PipelineStage<i64, i64>>> = (0..nst).map(|_| Box::new(MapStage::new("s".to_string(), stage)) as Box<dyn PipelineStage<i64, i64>>).collect();
                        let (itx, irx) = tokio::sync::mpsc::channel::<i64>(2);
                        let (otx, mut orx) = tokio::sync::mpsc::channel::<i64>(1);
                        let xv = xs.clone();
                        let feeder = tokio::spawn(async move { for x in xv { if itx.send(x).await.is_err() { break; } } });
                        let consumer = tokio::spawn(async move { let mut outs = vec![]; while let Some(v) = orx.recv().await { outs.push(v); } outs });
                        let ok = p.execute_stream(stages, irx, otx).await.is_ok();
                        let _ = feeder.await;
                        let outs = match consumer.await { Ok(o) => o, Err(_) => return bad("the consumer task failed".to_string()) };
                        let through = |x: i64| -> Option<i64> { let mut v = x; for _ in 0..nst { v = stage(v).ok()?; } Some(v) };
                        let full: Vec<Option<i64>> = xs.iter().map(|&x| through(x)).collect();
                        let want: Vec<i64> = full.iter().take_while(|v| v.is_some()).map(|v| v.unwrap()).collect();
                        let all_ok = want.len() == len;
                        if all_ok && ok && outs != want { return bad(format!("execute_stream ({} stages) returned Ok(()): {}", nst, diff(&Some(outs), &Some(want)))); }
                        if all_ok && !ok && nst > 0 { return bad(format!("execute_stream ({} stages) returned an error although no item fails", nst)); }
                        if !all_ok && ok { return bad(format!("an item failed in a stage but execute_stream returned Ok(()) with {} of {} results", outs.len(), len)); }
                        if !ok && !(outs.len() <= want.len() && outs[..] == want[..outs.len()]) { return bad(format!("an error surfaced, but the {} delivered outputs are not a prefix of the correct stream", outs.len())); }
                    }
                    13 => {
                        let xs = gen_items(seed, k, len, if len % 2 == 1 { pos } else { None }, None);
                        let want = seq_map(&xs, false);
                        let m = MapStage::new("m".to_string(), stage);
                        let g1 = PipelineStage::<i64, i64>::process_batch(&m, xs.clone()).await.ok();
                        if g1 != want { return bad(format!("MapStage::process_batch (trait default): {}", diff(&g1, &want))); }
                        let b0 = BatchMapStage::<fn(i64) -> ZResult<i64>, Fb>::new("b0".to_string(), stage).with_max_concurrency(3);
                        let g2 = PipelineStage::<i64, i64>::process_batch(&b0, xs.clone()).await.ok();
                        if g2 != want { return bad(format!("BatchMapStage::process_batch without a batch function: {}", diff(&g2, &want))); }
                        let b1 = BatchMapStage::with_batch_support("b1".to_string(), stage, stage_all);
                        let g3 = PipelineStage::<i64, i64>::process_batch(&b1, xs.clone()).await.ok();
                        if g3 != want { return bad(format!("BatchMapStage::process_batch with a batch function: {}", diff(&g3, &want))); }
                        if PipelineStage::<i64, i64>::supports_batching(&b0) || !PipelineStage::<i64, i64>::supports_batching(&b1) { return bad("supports_batching() does not say whether a batch function was given".to_string()); }
                        if let Some(&x) = xs.first() {
                            let g4 = PipelineStage::<i64, i64>::process(&b1, x).await.ok();
                            if g4 != stage(x).ok() { return bad(format!("BatchMapStage::process({}) returned {:?}", x, g4)); }
                        }
                        let _ = (PipelineStage::<i64, i64>::name(&m).len(), PipelineStage::<i64, i64>::max_concurrency(&b0));
                    }
                    _ => { let st = p.stats().await; let _ = (st.total_processed, st.items_in_flight, st.stage_stats.len()); }
                }
            }
            None
        }).await
    }));
    match r {
        Err(p) => cx.sum.fail(cell, None, case, &format!("op {} panicked: {}", at.load(Ordering::SeqCst), p)),
        Ok(Err(_)) => cx.sum.fail(cell, None, case, &format!("op {} did not return (12 s)", at.load(Ordering::SeqCst))),
        Ok(Ok(Some(p))) => cx.sum.fail(cell, None, case, &p),
        Ok(Ok(None)) => {}
    }
}

// ---------------------------------------------------------------------------------------------
// cell: BatchCollector over other element types and batch limits (unit, u8, String; 0, 1, usize::MAX), is_empty (M+S: kind 4 cases)
// ---------------------------------------------------------------------------------------------

/// `rec`: the batches in the order in which they came out, each behind a -1 marker ... then -2 and what the final flush returned (items encoded by `enc`)
async fn collector_hist<T: Send + Clone + PartialEq + std::fmt::Debug + 'static>(maxb: usize, tz: bool, ops: &[i64], mk: impl Fn(i64) -> T, enc: impl Fn(&T) -> i64, rec: &std::sync::Mutex<Vec<i64>>) -> Option<String> {
    let c: BatchCollector<T> = BatchCollector::new(maxb, if tz { Duration::ZERO } else { Duration::from_secs(3600) });
    let mut added: Vec<T> = vec![];
    let mut out: Vec<T> = vec![];
    for (k, &o) in ops.iter().enumerate() {
        let b = if o >= 1000 { added.push(mk(o - 1000)); c.add(mk(o - 1000)).await } else if o == 1 { c.flush().await } else { c.check_timeout().await };
        match b {
            Err(e) => return Some(format!("op {} failed: {:?}", k, e)),
            Ok(Some(b)) => { if b.is_empty() { return Some(format!("op {} emitted an empty batch", k)); } { let mut g = rec.lock().unwrap(); g.extend(b.iter().map(&enc)); g.push(-1); } out.extend(b); }
            Ok(None) => {}
        }
        let (l, e) = (c.len().await, c.is_empty().await);
        if out.len() + l != added.len() { return Some(format!("after op {}: {} items emitted + {} buffered, {} added", k, out.len(), l, added.len())); }
        if e != (l == 0) { return Some(format!("after op {}: is_empty() = {} with len() = {}", k, e, l)); }
    }
    rec.lock().unwrap().push(-2);
    if let Ok(Some(b)) = c.flush().await { rec.lock().unwrap().extend(b.iter().map(&enc)); out.extend(b); }
    if out != added { return Some(format!("the batches and the final flush together are not the {} added items in order (first difference at {:?})", added.len(), (0..out.len().min(added.len())).find(|&i| out[i] != added[i]))); }
    None
}
/// ty: 0 unit, 1 u8, 2 String; ops as in the collector cell (1000 + x = add, 1 = flush, 2 = check_timeout)
fn collector_t_case(cx: &mut Ctx, ty: u64, maxb: usize, tz: bool, ops: &[i64]) {
    let cell = "BatchCollector (unit / u8 / String items)";
    let case = json!({"cell": "collector_t", "kind": 24, "ty": ty, "maxb": maxb as u64, "tz": tz, "ops": ops});
    cx.sum.eval(cell, &format!("ct {} {} {} {:?}", ty, maxb, tz, ops), ops.len() >= 3);
    // M+S since the third extension: the history is also evaluated by the collector model of Model.v (kind 4, generic in the item type)
    cx.sum.cell_status(cell, "M+S");
    let opv = ops.to_vec();
    let rec = Arc::new(std::sync::Mutex::new(Vec::<i64>::new()));
    let rc = rec.clone();
    let r = guarded(|| with_rt(0, async move {
        tokio::time::timeout(HANG, async move {
            match ty {
                0 => collector_hist::<()>(maxb, tz, &opv, |_| (), |_| 0, &rc).await,
                1 => collector_hist::<u8>(maxb, tz, &opv, |x| x as u8, |x| *x as i64, &rc).await,
                _ => collector_hist::<String>(maxb, tz, &opv, |x| format!("item-{}", x), |s| s[5..].parse().unwrap_or(-99), &rc).await,
            }
        }).await
    }));
    // the model's history: items as the element type keeps them (unit: 0, u8: truncated); check_timeout with a zero timeout acts as
    // flush, with a long one as nothing
    let mops: Vec<i64> = ops.iter().filter_map(|&o| if o >= 1000 { Some(1000 + match ty { 0 => 0, 1 => ((o - 1000) as u8) as i64, _ => o - 1000 }) } else if o == 1 || tz { Some(1) } else { None }).collect();
    match r {
        Err(p) => cx.sum.fail(cell, None, case, &format!("panicked: {}", p)),
        Ok(Err(_)) => cx.sum.fail(cell, None, case, "did not return (8 s)"),
        Ok(Ok(Some(p))) => cx.sum.fail(cell, None, case, &p),
        Ok(Ok(None)) => { let obs = rec.lock().unwrap().clone(); let force = cx.used[4] < cx.budget[4] + 30; cx.coq(4, maxb as u64, 0, &mops, &obs, &case, force); }
    }
}
