//! C11 oracle breadth: the secondary public entry points, constructors / presets, configuration fields, element and key
//! types, object reuse (operation histories on one object) and sizes beyond the internal thresholds that the
//! cells of c11.rs do not reach.  Every cell here judges the real code against the same dumb shadow as c11.rs
//! (std sort, concatenate-and-sort, textbook two-pointer scans, a Vec of what is left); nothing here is
//! compared with the Coq model (the cells are registered as S-only).
//!
//! Histories live in the top-level list `ops` of the case (one JSON object per step), so the shrinker deletes
//! whole steps; the interpreter keeps every remaining history valid (e.g. it re-initialises a loser tree whose
//! ways changed before it pops).  Big inputs are `cfg.gen = [kind, n, seed, bits, k, kind2]`.
use super::*;
use std::cmp::Reverse;
use std::collections::{HashMap, VecDeque};
use std::fmt::Debug;
use zipora::algorithms::multiway_merge::MergeSource;
use zipora::memory::{SecureMemoryPool, SecurePoolConfig};

pub const CELLS: &[&str] = &[
    "radix/hist", "kv/u8", "kv/u16", "kv/unit", "kv/str",
    "adv/hist", "adv/hist_str", "adv/i64", "adv/k16", "adv/rec", "adv/nopar",
    "co/i64", "co/bytes", "co/pair", "co/unit", "co/rev", "co/u16", "co/exec", "co/hist",
    "ext/hist", "ext/str", "ext/pair", "ext/i64", "ext/u8", "ext/unit", "ext/bykey", "ext/cmp_ord", "ext/vec_default",
    "mwm/src", "mwm/str", "merge/two_tag", "merge/in_place_tag",
    "lt/hist", "lt/str", "lt/bykey",
    "simd/default", "simd/cmp", "simd/min", "simd/pcmp", "simd/mins",
    "set/tag", "set/str", "kway/hist", "kway/freq", "kway/filter", "kway/str",
];
pub fn handles(cell: &str) -> bool { CELLS.contains(&cell) }

// ---------------------------------------------------------------------------
// big inputs from a descriptor
// ---------------------------------------------------------------------------
fn mask(bits: u64) -> u64 { if bits == 0 || bits >= 64 { u64::MAX } else { (1u64 << bits) - 1 } }
/// gen = [kind, n, seed, bits]: the integers of a big input.
pub fn expand(gen: &[u64]) -> Vec<u64> {
    let g = |i: usize| gen.get(i).copied().unwrap_or(0);
    let (kind, n, seed, bits) = (g(0), g(1) as usize, g(2), if g(3) == 0 { 64 } else { g(3) });
    let max = mask(bits);
    let mut r = Rng::new(seed ^ 0xC11B);
    let mut v: Vec<u64> = match kind {
        1 => (0..n).map(|_| r.below(7)).collect(),
        2 => { let x = r.next() & max; vec![x; n] }
        3 | 4 | 5 => (0..n).map(|_| r.next() & max).collect(),
        6 => { let low = r.next() & (max >> 8); (0..n).map(|_| (r.below(256) << (bits - 8)) | low).collect() }
        7 => (0..n).map(|_| r.below(1 << 16)).collect(),
        8 => (0..n).map(|i| (i % 1000) as u64).collect(),
        9 | 10 => (0..n).map(|_| r.next() & max).collect(),
        11 => (0..n).map(|_| ((r.next() & max) >> 20) << 12).collect(),
        12 => (0..n).map(|_| r.below(1 << 16) + 65_000).collect(),
        _ => (0..n).map(|_| r.next() & max).collect(),
    };
    match kind {
        3 => v.sort(),
        4 => { v.sort(); v.reverse(); }
        5 => { v.sort(); for _ in 0..(n / 100 + 1) { if n >= 2 { let i = r.below(n as u64) as usize; let j = r.below(n as u64) as usize; v.swap(i, j); } } }
        9 => { let k = n.min(1000); v[..k].sort(); }
        10 => { let k = n.min(1000); v[k..].sort(); }
        _ => {}
    }
    v
}
/// byte strings of a big input: at most 8 bytes, none of them 0, pairwise different in their 8-byte keys unless equal
fn expand_strs(gen: &[u64]) -> Vec<Vec<u8>> {
    expand(gen).iter().map(|&x| {
        let l = (x % 9) as usize;
        x.to_be_bytes()[..l].iter().map(|&b| if b == 0 { 1 } else { b }).collect()
    }).collect()
}
fn cell_takes_strs(cell: &str) -> bool { matches!(cell, "radix/bytes" | "adv/str" | "mwm/str" | "lt/str" | "set/str" | "kway/str" | "ext/str") && cell != "ext/str" }
pub fn fill_from_gen(c: &mut Case) {
    let g = |i: usize| c.gen.get(i).copied().unwrap_or(0);
    let fam = c.cell.split('/').next().unwrap_or("").to_string();
    let cell = c.cell.clone();
    if cell_takes_strs(&cell) && (fam == "radix" || fam == "adv") { c.strs = expand_strs(&c.gen); return; }
    match fam.as_str() {
        "mwm" | "lt" | "kway" => {
            // k sorted runs: the expansion dealt out round-robin
            let k = g(4).max(1) as usize;
            let v = expand(&c.gen);
            let mut runs = vec![vec![]; k];
            for (i, x) in v.into_iter().enumerate() { runs[i % k].push(x); }
            for r in runs.iter_mut() { r.sort(); if fam == "kway" { r.dedup(); } }
            c.runs = runs;
        }
        "simd" if cell == "simd/multi" || cell == "simd/mins" => {
            let k = g(4).max(1) as usize;
            let v = expand(&c.gen);
            let mut runs = vec![vec![]; k];
            for (i, x) in v.into_iter().enumerate() { runs[i % k].push(x); }
            for r in runs.iter_mut() { r.sort(); }
            c.runs = runs;
        }
        "merge" | "simd" | "set" => {
            let mut a = expand(&c.gen);
            let mut b = expand(&[g(5), g(4), g(2).wrapping_add(1), g(3)]);
            a.sort();
            b.sort();
            c.a = a;
            c.b = b;
        }
        _ => c.xs = expand(&c.gen),
    }
}

// ---------------------------------------------------------------------------
// helpers
// ---------------------------------------------------------------------------
fn oxs(op: &Value) -> Vec<u64> { if op.get("gen").is_some() { expand(&pu(&op["gen"])) } else { pu(&op["xs"]) } }
fn ostrs(op: &Value) -> Vec<Vec<u8>> {
    op["strs"].as_array().map(|a| a.iter().map(|s| pu(s).iter().map(|&x| x as u8).collect()).collect()).unwrap_or_default()
}
fn oruns(op: &Value) -> Vec<Vec<u64>> { op["runs"].as_array().map(|a| a.iter().map(pu).collect()).unwrap_or_default() }
fn oname(op: &Value) -> &str { op["o"].as_str().unwrap_or("") }

fn show<T: Debug>(v: &[T]) -> String { format!("{:?}{}", &v[..v.len().min(16)], if v.len() > 16 { " ..." } else { "" }) }
/// `got` must be exactly `want` (the caller computed `want` with the std library)
fn same<T: PartialEq + Debug>(what: &str, want: &[T], got: &[T]) -> Result<(), String> {
    if want == got { return Ok(()); }
    if want.len() != got.len() { return Err(format!("{}: length {} instead of {}: got {}", what, got.len(), want.len(), show(got))); }
    let i = (0..want.len()).find(|&i| want[i] != got[i]).unwrap_or(0);
    Err(format!("{}: differs from the defined result at index {} (got {:?}, want {:?}): got {}", what, i, got[i], want[i], show(got)))
}
/// `got` must be the sorted permutation of `input`
fn want_sorted<T: Ord + Clone + Debug>(what: &str, input: &[T], got: &[T]) -> Result<(), String> {
    let mut w = input.to_vec();
    w.sort();
    same(what, &w, got)
}
fn to_bytes(x: u64) -> Vec<u8> { let b = x.to_be_bytes(); let z = b.iter().take_while(|&&y| y == 0).count(); b[z..].to_vec() }
fn collision(strs: &[Vec<u8>]) -> bool {
    let mut keys: Vec<(Vec<u8>, &Vec<u8>)> = strs.iter().map(|s| { let mut k = s.iter().take(8).cloned().collect::<Vec<u8>>(); k.resize(8, 0); (k, s) }).collect();
    keys.sort();
    keys.windows(2).any(|w| w[0].0 == w[1].0 && w[0].1 != w[1].1)
}
fn has_dup_in_way(runs: &[Vec<u64>]) -> bool { runs.iter().any(|r| r.windows(2).any(|w| w[0] == w[1])) }

/// Classes of the recorded findings that the breadth cells can run into (same predicates as in c11.rs).
pub fn known_class(c: &Case) -> Option<&'static str> {
    match c.cell.as_str() {
        "adv/hist_str" => {
            let may_be_lsd = c.pp(8) == 1 || c.pp(8) == 2 || matches!(c.pp(0), 0 | 3 | 5 | 6);
            if may_be_lsd && c.ops.iter().any(|op| collision(&ostrs(op))) { Some("string_lsd_key_collision") } else { None }
        }
        "kway/hist" => {
            let dup = c.ops.iter().any(|op| oname(op) == "inter" && { let r = oruns(op); (c.pp(0) == 0 || r.len() > (c.pp(1) as usize).min(32)) && has_dup_in_way(&r) });
            if dup { Some("kway_general_duplicates") } else { None }
        }
        _ => None,
    }
}

// ---------------------------------------------------------------------------
// element types
// ---------------------------------------------------------------------------
#[derive(Clone, Copy, Debug, PartialEq, Eq, PartialOrd, Ord)]
struct S64(i64);
impl RadixSortable for S64 {
    fn extract_key(&self) -> u64 { (self.0 as u64) ^ (1u64 << 63) }
    fn get_byte(&self, p: usize) -> Option<u8> { if p < 8 { Some((self.extract_key() >> (8 * (7 - p))) as u8) } else { None } }
    fn max_bytes(&self) -> usize { 8 }
}
#[derive(Clone, Copy, Debug, PartialEq, Eq, PartialOrd, Ord)]
struct K16(u16);
impl RadixSortable for K16 {
    fn extract_key(&self) -> u64 { self.0 as u64 }
    fn get_byte(&self, p: usize) -> Option<u8> { if p < 2 { Some((self.0 >> (8 * (1 - p))) as u8) } else { None } }
    fn max_bytes(&self) -> usize { 2 }
}
/// a record: ordered by (key, tag), radix key = both packed (injective, order preserving)
#[derive(Clone, Copy, Debug, PartialEq, Eq, PartialOrd, Ord)]
struct Rec { key: u32, tag: u32 }
impl RadixSortable for Rec {
    fn extract_key(&self) -> u64 { ((self.key as u64) << 32) | self.tag as u64 }
    fn get_byte(&self, p: usize) -> Option<u8> { if p < 8 { Some((self.extract_key() >> (8 * (7 - p))) as u8) } else { None } }
    fn max_bytes(&self) -> usize { 8 }
}
/// an element type that opts out of the parallel path
#[derive(Clone, Copy, Debug, PartialEq, Eq, PartialOrd, Ord)]
struct NoPar(u32);
impl RadixSortable for NoPar {
    fn extract_key(&self) -> u64 { self.0 as u64 }
    fn get_byte(&self, p: usize) -> Option<u8> { if p < 4 { Some((self.0 >> (8 * (3 - p))) as u8) } else { None } }
    fn max_bytes(&self) -> usize { 4 }
    fn supports_parallel() -> bool { false }
}
/// a merge source that is not a VectorSource (no remaining_hint)
struct DqSource<T> { q: VecDeque<T> }
impl<T: Clone> MergeSource<T> for DqSource<T> {
    fn next(&mut self) -> Option<T> { self.q.pop_front() }
    fn peek(&self) -> Option<&T> { self.q.front() }
    fn is_empty(&self) -> bool { self.q.is_empty() }
}

// ---------------------------------------------------------------------------
// configurations
// ---------------------------------------------------------------------------
/// p[0..8] as in c11.rs; p[8] constructor (0 with_config, 1 new, 2 default, 3 with_memory_pool), p[9] memory_budget,
/// p[10] bit 0 work stealing, bit 1 profiling; p[11] counting_sort_threshold, p[12] prefetch_distance, p[13] cache_alignment
fn adv_full_config(c: &Case) -> AdvancedRadixSortConfig {
    let mut cfg = adv_config(c);
    cfg.memory_budget = c.pp(9) as usize;
    cfg.use_work_stealing = c.pp(10) & 1 != 0;
    cfg.enable_profiling = c.pp(10) & 2 != 0;
    cfg.counting_sort_threshold = c.pp(11) as usize;
    cfg.prefetch_distance = c.pp(12) as usize;
    cfg.cache_alignment = c.pp(13) as usize;
    cfg
}
fn adv_build<T: RadixSortable>(c: &Case) -> Result<AdvancedRadixSort<T>, String> {
    match c.pp(8) {
        1 => AdvancedRadixSort::<T>::new().map_err(|e| format!("new: {}", e)),
        2 => Ok(AdvancedRadixSort::<T>::default()),
        3 => {
            let pool = SecureMemoryPool::new(SecurePoolConfig::small_secure()).map_err(|e| format!("pool: {}", e))?;
            Ok(AdvancedRadixSort::<T>::with_memory_pool(adv_full_config(c), pool))
        }
        _ => AdvancedRadixSort::<T>::with_config(adv_full_config(c)).map_err(|e| format!("with_config: {}", e)),
    }
}
/// p[0..6] as in c11.rs (l1, l2, l3, small_threshold, use_simd, l2 line); p[6] bit 0 no AVX2, bit 1 no SSE4.2;
/// p[7] memory pool; p[8] constructor (0 with_config, 1 new, 2 default); p[9] use_parallel
fn co_build(c: &Case) -> Result<(CacheObliviousSort, CacheObliviousConfig), String> {
    let ch = CacheHierarchy {
        l1_size: c.pp(0) as usize, l2_size: c.pp(1) as usize, l3_size: c.pp(2) as usize,
        l2_line_size: (c.pp(5) as usize).max(1),
        ..CacheHierarchy::default()
    };
    let mut cfg = CacheObliviousConfig {
        cache_hierarchy: ch, small_threshold: c.pp(3) as usize, use_simd: c.pp(4) != 0, use_parallel: c.pp(9) != 0,
        ..CacheObliviousConfig::default()
    };
    if c.pp(6) & 1 != 0 { cfg.cpu_features.has_avx2 = false; }
    if c.pp(6) & 2 != 0 { cfg.cpu_features.has_sse42 = false; }
    if c.pp(7) != 0 { cfg.memory_pool = Some(SecureMemoryPool::new(SecurePoolConfig::small_secure()).map_err(|e| format!("pool: {}", e))?); }
    let s = match c.pp(8) { 1 => CacheObliviousSort::new(), 2 => CacheObliviousSort::default(), _ => CacheObliviousSort::with_config(cfg.clone()) };
    Ok((s, cfg))
}
fn co_one<T: Clone + Ord + Debug>(s: &mut CacheObliviousSort, oblivious: bool, what: &str, data: Vec<T>) -> Result<(), String> {
    let mut d = data.clone();
    let r = if oblivious { s.cache_oblivious_sort(&mut d) } else { s.sort(&mut d) };
    r.map_err(|e| format!("{}: returned an error where the property demands a result: {}", what, e))?;
    want_sorted(what, &data, &d)
}
/// p = [memory_buffer_size, merge_ways, use_secure_memory, keep temp files, compress_temp_files]
fn ext_config(c: &Case, tmp: &PathBuf) -> ReplaceSelectSortConfig {
    ReplaceSelectSortConfig {
        memory_buffer_size: c.pp(0) as usize, merge_ways: c.pp(1) as usize, use_secure_memory: c.pp(2) != 0,
        cleanup_temp_files: c.pp(3) == 0, compress_temp_files: c.pp(4) != 0, temp_dir: tmp.clone(),
    }
}
/// ReplaceSelectSort on one element type (a macro: its serde bounds cannot be named here without a serde dependency)
macro_rules! ext_one {
    ($c:expr, $tmp:expr, $what:expr, $data:expr) => {{
        let data = $data;
        let mut s = ReplaceSelectSort::new(ext_config($c, $tmp));
        match s.sort(data.clone()) {
            Err(e) => Err(format!("{}: returned an error where the property demands a result: {}", $what, e)),
            Ok(r) => want_sorted($what, &data, &r),
        }
    }};
}

// ---------------------------------------------------------------------------
// reference definitions on arbitrary element types (comparator given): the textbook two-pointer scans
// ---------------------------------------------------------------------------
fn r_inter<T: Clone>(a: &[T], b: &[T], cmp: &dyn Fn(&T, &T) -> Ordering, from_second: bool) -> Vec<T> {
    let (mut i, mut j, mut r) = (0, 0, vec![]);
    while i < a.len() && j < b.len() {
        match cmp(&a[i], &b[j]) {
            Ordering::Less => i += 1,
            Ordering::Greater => j += 1,
            Ordering::Equal => if from_second { r.push(b[j].clone()); j += 1 } else { r.push(a[i].clone()); i += 1 },
        }
    }
    r
}
fn r_union<T: Clone>(a: &[T], b: &[T], cmp: &dyn Fn(&T, &T) -> Ordering) -> Vec<T> {
    let (mut i, mut j, mut r) = (0, 0, vec![]);
    while i < a.len() && j < b.len() {
        match cmp(&a[i], &b[j]) {
            Ordering::Less => { r.push(a[i].clone()); i += 1 }
            Ordering::Greater => { r.push(b[j].clone()); j += 1 }
            Ordering::Equal => { r.push(a[i].clone()); r.push(b[j].clone()); i += 1; j += 1 }
        }
    }
    r.extend_from_slice(&a[i..]);
    r.extend_from_slice(&b[j..]);
    r
}
fn r_diff<T: Clone>(a: &[T], b: &[T], cmp: &dyn Fn(&T, &T) -> Ordering) -> Vec<T> {
    let (mut i, mut j, mut r) = (0, 0, vec![]);
    while i < a.len() && j < b.len() {
        match cmp(&a[i], &b[j]) {
            Ordering::Less => { r.push(a[i].clone()); i += 1 }
            Ordering::Greater => j += 1,
            Ordering::Equal => { i += 1; j += 1 }
        }
    }
    r.extend_from_slice(&a[i..]);
    r
}
/// keeps the first element of every group of adjacent equal (==) elements
fn r_unique<T: Clone + PartialEq>(a: &[T]) -> Vec<T> { let mut r = a.to_vec(); r.dedup(); r }

const SET_FNS: [&str; 12] = ["ms_inter", "ms_1small_inter", "ms_fast_inter", "ms_inter2", "ms_1small_inter2", "ms_fast_inter2",
                             "ms_union", "ms_diff", "unique", "inter", "union", "diff"];
/// one set_ops function (index f) on elements of any type with the given comparator: (implementation, definition)
fn set_both<T: Clone + PartialEq + Debug>(f: usize, th: usize, a: &[T], b: &[T], cmp: &dyn Fn(&T, &T) -> Ordering) -> (Vec<T>, Vec<T>) {
    match f {
        0 => (set_ops::multiset_intersection(a, b, cmp), r_inter(a, b, cmp, false)),
        1 => (set_ops::multiset_1small_intersection(a, b, cmp), r_inter(a, b, cmp, false)),
        2 => (set_ops::multiset_fast_intersection(a, b, cmp, th), r_inter(a, b, cmp, false)),
        3 => (set_ops::multiset_intersection2(a, b, cmp), r_inter(a, b, cmp, true)),
        4 => (set_ops::multiset_1small_intersection2(a, b, cmp), r_inter(a, b, cmp, true)),
        5 => (set_ops::multiset_fast_intersection2(a, b, cmp, th), r_inter(a, b, cmp, true)),
        6 => (set_ops::multiset_union(a, b, cmp), r_union(a, b, cmp)),
        7 => (set_ops::multiset_difference(a, b, cmp), r_diff(a, b, cmp)),
        8 => {
            // groups of elements the comparator calls equal: the first of each group stays
            let mut d = a.to_vec();
            let n = set_ops::set_unique(&mut d, |x, y| cmp(x, y) == Ordering::Equal).min(d.len());
            d.truncate(n);
            let mut w: Vec<T> = vec![];
            for x in a { if w.last().map(|l| cmp(l, x) != Ordering::Equal).unwrap_or(true) { w.push(x.clone()); } }
            (d, w)
        }
        9 => (set_ops::set_intersection(a, b, cmp), r_unique(&r_inter(a, b, cmp, false))),
        10 => (set_ops::set_union(a, b, cmp), r_unique(&r_union(a, b, cmp))),
        _ => (set_ops::set_difference(a, b, cmp), r_unique(&r_diff(a, b, cmp))),
    }
}

// ---------------------------------------------------------------------------
// the cells
// ---------------------------------------------------------------------------
pub fn eval(c: &Case, tmp: &PathBuf) -> Result<(), String> {
    let cell = c.cell.as_str();
    let erp = |what: &str, e: String| format!("{}: returned an error where the property demands a result: {}", what, e);
    match cell {
        // ---- one RadixSort object (new / default / with_config) through a history of sort_u32, sort_u64, sort_bytes, execute ----
        "radix/hist" => {
            let cfg = radix_config(c);
            let mut s = match c.pp(5) { 1 => RadixSort::new(), 2 => RadixSort::default(), _ => RadixSort::with_config(cfg.clone()) };
            for (i, op) in c.ops.iter().enumerate() {
                let what = format!("step {} ({})", i, oname(op));
                match oname(op) {
                    "u32" => {
                        let xs: Vec<u32> = oxs(op).iter().map(|&x| x as u32).collect();
                        let mut d = xs.clone();
                        s.sort_u32(&mut d).map_err(|e| erp(&what, e.to_string()))?;
                        want_sorted(&what, &xs, &d)?;
                    }
                    "u64" => {
                        let xs = oxs(op);
                        let mut d = xs.clone();
                        s.sort_u64(&mut d).map_err(|e| erp(&what, e.to_string()))?;
                        want_sorted(&what, &xs, &d)?;
                    }
                    "bytes" => {
                        let xs = ostrs(op);
                        let mut d = xs.clone();
                        s.sort_bytes(&mut d).map_err(|e| erp(&what, e.to_string()))?;
                        want_sorted(&what, &xs, &d)?;
                    }
                    "exec" => {
                        let xs: Vec<u32> = oxs(op).iter().map(|&x| x as u32).collect();
                        let d = s.execute(&cfg, xs.clone()).map_err(|e| erp(&what, e.to_string()))?;
                        want_sorted(&what, &xs, &d)?;
                    }
                    _ => {}
                }
            }
            Ok(())
        }
        // ---- key-value sort: the other key types (anything Into<u64>), zero-sized and heap values, default() ----
        "kv/u8" => {
            let mut d: Vec<(u8, u64)> = c.xs.iter().enumerate().map(|(i, &k)| (k as u8, i as u64)).collect();
            KeyValueRadixSort::<u8, u64>::default().sort_by_key(&mut d).map_err(|e| erp("sort_by_key", e.to_string()))?;
            kv_check(&c.xs.iter().map(|&k| k as u8 as u64).collect::<Vec<_>>(), &d.iter().map(|x| (x.0 as u64, x.1)).collect::<Vec<_>>())
        }
        "kv/u16" => {
            let mut d: Vec<(u16, u64)> = c.xs.iter().enumerate().map(|(i, &k)| (k as u16, i as u64)).collect();
            KeyValueRadixSort::<u16, u64>::default().sort_by_key(&mut d).map_err(|e| erp("sort_by_key", e.to_string()))?;
            kv_check(&c.xs.iter().map(|&k| k as u16 as u64).collect::<Vec<_>>(), &d.iter().map(|x| (x.0 as u64, x.1)).collect::<Vec<_>>())
        }
        "kv/unit" => {
            let mut d: Vec<(u32, ())> = c.xs.iter().map(|&k| (k as u32, ())).collect();
            KeyValueRadixSort::<u32, ()>::new().sort_by_key(&mut d).map_err(|e| erp("sort_by_key", e.to_string()))?;
            want_sorted("keys", &c.xs.iter().map(|&k| k as u32).collect::<Vec<_>>(), &d.iter().map(|x| x.0).collect::<Vec<_>>())
        }
        "kv/str" => {
            let mut d: Vec<(u64, String)> = c.xs.iter().enumerate().map(|(i, &k)| (k, format!("v{}", i))).collect();
            let s = KeyValueRadixSort::<u64, String>::new();
            s.sort_by_key(&mut d).map_err(|e| erp("sort_by_key", e.to_string()))?;
            let got: Vec<(u64, u64)> = d.iter().map(|x| (x.0, x.1[1..].parse::<u64>().unwrap_or(u64::MAX))).collect();
            kv_check(&c.xs, &got)?;
            // the same object again, on what it just produced
            let before = d.clone();
            s.sort_by_key(&mut d).map_err(|e| erp("second sort_by_key", e.to_string()))?;
            if d != before { return Err("sorting the sorted pairs again changed them".to_string()); }
            Ok(())
        }
        // ---- one AdvancedRadixSort object through several inputs (every constructor, the pool presets, the other config fields) ----
        "adv/hist" => {
            let wide64 = c.pp(14) != 0;
            if wide64 { adv_hist::<u64>(c, &|x| x) } else { adv_hist::<u32>(c, &|x| x as u32) }
        }
        "adv/hist_str" => {
            let all: Vec<Vec<Vec<u8>>> = c.ops.iter().map(ostrs).collect();
            let mut s = adv_build::<RadixString>(c)?;
            for (i, strs) in all.iter().enumerate() {
                let what = format!("step {} ({})", i, oname(&c.ops[i]));
                let data: Vec<RadixString> = strs.iter().map(|x| RadixString::new(x)).collect();
                let got: Vec<RadixString> = if oname(&c.ops[i]) == "exec" {
                    s.execute(&adv_full_config(c), data.clone()).map_err(|e| erp(&what, e.to_string()))?
                } else {
                    let mut d = data.clone();
                    s.sort(&mut d).map_err(|e| erp(&what, e.to_string()))?;
                    d
                };
                let mut want = strs.clone();
                want.sort();
                same(&what, &want, &got.iter().map(|x| x.as_slice().to_vec()).collect::<Vec<_>>())?;
            }
            Ok(())
        }
        // ---- user-defined RadixSortable element types ----
        "adv/i64" => adv_one(c, c.xs.iter().map(|&x| S64(x as i64)).collect()),
        "adv/k16" => adv_one(c, c.xs.iter().map(|&x| K16(x as u16)).collect()),
        "adv/rec" => adv_one(c, c.xs.iter().enumerate().map(|(i, &x)| Rec { key: (x >> 8) as u32, tag: ((x & 0xFF) as u32) << 16 | (i as u32 & 0xFFFF) }).collect()),
        "adv/nopar" => adv_one(c, c.xs.iter().map(|&x| NoPar(x as u32)).collect()),
        // ---- CacheObliviousSort on other element types (sizes 0, 2, 16 and 24 bytes; signed; reversed order) ----
        "co/i64" | "co/bytes" | "co/pair" | "co/unit" | "co/rev" | "co/u16" => {
            let (mut s, _) = co_build(c)?;
            let obl = c.pp(10) != 0;
            match cell {
                "co/i64" => co_one(&mut s, obl, "sort", c.xs.iter().map(|&x| x as i64).collect::<Vec<_>>()),
                "co/bytes" => co_one(&mut s, obl, "sort", c.xs.iter().map(|&x| to_bytes(x)).collect::<Vec<_>>()),
                "co/pair" => co_one(&mut s, obl, "sort", c.xs.iter().enumerate().map(|(i, &x)| (x >> 4, i as u64)).collect::<Vec<_>>()),
                "co/unit" => co_one(&mut s, obl, "sort", vec![(); c.xs.len()]),
                "co/rev" => co_one(&mut s, obl, "sort", c.xs.iter().map(|&x| Reverse(x)).collect::<Vec<_>>()),
                _ => co_one(&mut s, obl, "sort", c.xs.iter().map(|&x| x as u16).collect::<Vec<_>>()),
            }
        }
        "co/exec" => {
            let (s, cfg) = co_build(c)?;
            let xs: Vec<i32> = c.xs.iter().map(|&x| x as u32 as i32).collect();
            let d = s.execute(&cfg, xs.clone()).map_err(|e| erp("execute", e.to_string()))?;
            want_sorted("execute", &xs, &d)
        }
        "co/hist" => {
            let (mut s, cfg) = co_build(c)?;
            for (i, op) in c.ops.iter().enumerate() {
                let what = format!("step {} ({})", i, oname(op));
                let xs = oxs(op);
                match oname(op) {
                    "sort" => co_one(&mut s, false, &what, xs)?,
                    "oblivious" => co_one(&mut s, true, &what, xs)?,
                    "sort_u8" => co_one(&mut s, false, &what, xs.iter().map(|&x| x as u8).collect::<Vec<_>>())?,
                    "sort_bytes" => co_one(&mut s, false, &what, xs.iter().map(|&x| to_bytes(x)).collect::<Vec<_>>())?,
                    "oblivious_pair" => co_one(&mut s, true, &what, xs.iter().enumerate().map(|(j, &x)| (x >> 4, j as u64)).collect::<Vec<_>>())?,
                    "exec" => {
                        let v: Vec<i32> = xs.iter().map(|&x| x as u32 as i32).collect();
                        let d = s.execute(&cfg, v.clone()).map_err(|e| erp(&what, e.to_string()))?;
                        want_sorted(&what, &v, &d)?;
                    }
                    _ => {}
                }
            }
            Ok(())
        }
        // ---- ReplaceSelectSort: one object through several sorts, lazy input, other record types ----
        "ext/hist" => {
            let mut s = ReplaceSelectSort::<u64>::new(ext_config(c, tmp));
            for (i, op) in c.ops.iter().enumerate() {
                let what = format!("step {} ({})", i, oname(op));
                let xs = oxs(op);
                match oname(op) {
                    "sort" => { let r = s.sort(xs.clone()).map_err(|e| erp(&what, e.to_string()))?; want_sorted(&what, &xs, &r)?; }
                    "iter" => {
                        // a lazy, non-Vec input
                        let n = xs.len();
                        let src = xs.clone();
                        let r = s.sort((0..n).map(move |j| src[j])).map_err(|e| erp(&what, e.to_string()))?;
                        want_sorted(&what, &xs, &r)?;
                    }
                    "cleanup" => s.cleanup().map_err(|e| erp(&what, e.to_string()))?,
                    _ => {}
                }
            }
            Ok(())
        }
        "ext/str" => ext_one!(c, tmp, "sort", c.xs.iter().map(|&x| format!("{:x}", x >> (x % 61))).collect::<Vec<String>>()),
        "ext/pair" => ext_one!(c, tmp, "sort", c.xs.iter().enumerate().map(|(i, &x)| ((x >> 40) as u32, i as u32)).collect::<Vec<(u32, u32)>>()),
        "ext/i64" => ext_one!(c, tmp, "sort", c.xs.iter().map(|&x| x as i64).collect::<Vec<i64>>()),
        "ext/u8" => ext_one!(c, tmp, "sort", c.xs.iter().map(|&x| x as u8).collect::<Vec<u8>>()),
        "ext/unit" => ext_one!(c, tmp, "sort", vec![(); c.xs.len()]),
        "ext/bykey" => {
            // a comparator that is coarser than Ord but consistent with it: pairs ordered by their first component
            let data: Vec<(u32, u32)> = c.xs.iter().enumerate().map(|(i, &x)| ((x % 50) as u32, i as u32)).collect();
            let mut s = ReplaceSelectSort::with_comparator(ext_config(c, tmp), |a: &(u32, u32), b: &(u32, u32)| a.0.cmp(&b.0));
            let r = s.sort(data.clone()).map_err(|e| erp("sort", e.to_string()))?;
            if r.windows(2).any(|w| w[0].0 > w[1].0) { return Err(format!("output is not sorted by the key: got {}", show(&r))); }
            let mut got = r.clone();
            got.sort();
            want_sorted("permutation", &data, &got)
        }
        "ext/cmp_ord" => {
            // with_comparator with the natural order written as a closure
            let mut s = ReplaceSelectSort::with_comparator(ext_config(c, tmp), |a: &u64, b: &u64| a.cmp(b));
            let r = s.sort(c.xs.clone()).map_err(|e| erp("sort", e.to_string()))?;
            want_sorted("sort", &c.xs, &r)
        }
        "ext/vec_default" => {
            let mut d = c.xs.clone();
            d.external_sort().map_err(|e| erp("external_sort", e.to_string()))?;
            want_sorted("external_sort", &c.xs, &d)
        }
        // ---- MultiWayMerge: other MergeSource implementations, sources that were read from before the merge ----
        "mwm/src" => {
            let cfg = MultiWayMergeConfig { use_tournament_tree: c.pp(0) != 0, max_merge_ways: c.pp(1) as usize,
                                            use_parallel: c.pp(4) != 0, buffer_size: c.pp(5) as usize };
            let mut m = match c.pp(2) { 1 => MultiWayMerge::new(), 2 => MultiWayMerge::default(), _ => MultiWayMerge::with_config(cfg) };
            let pre = c.pp(3) as usize;
            let mut left: Vec<u64> = vec![];
            if c.pp(6) != 0 {
                let srcs: Vec<DqSource<u64>> = c.runs.iter().map(|r| DqSource { q: r.iter().cloned().collect() }).collect();
                let got = m.merge(srcs).map_err(|e| erp("merge", e.to_string()))?;
                return want_sorted("merge of custom sources", &concat(&c.runs), &got);
            }
            let mut srcs: Vec<VectorSource<u64>> = vec![];
            for (i, r) in c.runs.iter().enumerate() {
                let mut s = VectorSource::new(r.clone());
                // the first `pre + i % 2` elements were consumed by somebody else
                let k = (pre + i % 2).min(r.len());
                for j in 0..k {
                    if MergeSource::peek(&s) != Some(&r[j]) || MergeSource::is_empty(&s) || s.remaining_hint() != Some(r.len() - j) {
                        return Err(format!("VectorSource: peek / is_empty / remaining_hint wrong before element {} of source {}", j, i));
                    }
                    if MergeSource::next(&mut s) != Some(r[j]) { return Err(format!("VectorSource::next: element {} of source {} wrong", j, i)); }
                }
                if MergeSource::is_empty(&s) != (k == r.len()) || MergeSource::peek(&s) != r.get(k) { return Err(format!("VectorSource: is_empty / peek wrong after {} reads of source {}", k, i)); }
                if s.remaining() != &r[k..] { return Err(format!("VectorSource::remaining after {} reads: got {}", k, show(s.remaining()))); }
                left.extend_from_slice(&r[k..]);
                srcs.push(s);
            }
            // twice with the same object: the second merge must not see anything of the first
            let got = m.merge(srcs).map_err(|e| erp("merge", e.to_string()))?;
            want_sorted("merge of partly read sources", &left, &got)?;
            let again: Vec<VectorSource<u64>> = c.runs.iter().rev().cloned().map(VectorSource::new).collect();
            let got = m.merge(again).map_err(|e| erp("second merge", e.to_string()))?;
            want_sorted("second merge with the same object", &concat(&c.runs), &got)
        }
        "mwm/str" => {
            let cfg = MultiWayMergeConfig { use_tournament_tree: c.pp(0) != 0, max_merge_ways: c.pp(1) as usize, ..Default::default() };
            let mut m = MultiWayMerge::with_config(cfg);
            let runs: Vec<Vec<String>> = c.runs.iter().map(|r| { let mut v: Vec<String> = r.iter().map(|x| format!("{:o}", x)).collect(); v.sort(); v }).collect();
            let all: Vec<String> = runs.iter().flatten().cloned().collect();
            let got = m.merge(runs.into_iter().map(VectorSource::new).collect::<Vec<_>>()).map_err(|e| erp("merge", e.to_string()))?;
            want_sorted("merge of strings", &all, &got)
        }
        "merge/two_tag" | "merge/in_place_tag" => {
            // (value, origin, index): every duplicate is an individual
            let a: Vec<(u64, u8, u32)> = c.a.iter().enumerate().map(|(i, &x)| (x, 0u8, i as u32)).collect();
            let b: Vec<(u64, u8, u32)> = c.b.iter().enumerate().map(|(i, &x)| (x, 1u8, i as u32)).collect();
            let mut all = a.clone();
            all.extend_from_slice(&b);
            if cell == "merge/two_tag" { return want_sorted("merge_two", &all, &MergeOperations::merge_two(a, b)); }
            let mut d = all.clone();
            // p[0]: where the caller says the second run starts (1 = at the true boundary; else 0 / len / beyond)
            let mid = match c.pp(0) { 1 => a.len(), 2 => 0, 3 => all.len(), 4 => all.len() + 3, _ => a.len() };
            MergeOperations::merge_in_place(&mut d, mid);
            if mid == a.len() { want_sorted("merge_in_place", &all, &d) }
            else {
                // no second run: the slice is one run already (only if it is sorted as a whole does the property speak)
                let mut w = all.clone();
                w.sort();
                if all == w { same("merge_in_place with an empty run", &w, &d) } else { want_sorted("merge_in_place keeps the elements", &all, &{ let mut g = d.clone(); g.sort(); g }) }
            }
        }
        // ---- EnhancedLoserTree: history of add_way / initialize / peek / pop / next / is_empty / num_ways / merge_all ----
        "lt/hist" => lt_hist(c),
        "lt/str" => {
            let cfg = lt_config(c);
            let runs: Vec<Vec<String>> = c.runs.iter().map(|r| { let mut v: Vec<String> = r.iter().map(|x| format!("{:o}", x)).collect(); v.sort(); v }).collect();
            let all: Vec<String> = runs.iter().flatten().cloned().collect();
            let mut t = EnhancedLoserTree::<String>::new(cfg);
            for r in runs { t.add_way(r.into_iter()).map_err(|e| erp("add_way", e.to_string()))?; }
            let mut out: VecDeque<String> = VecDeque::new();
            out.push_back("!".to_string());
            t.merge_all(&mut out).map_err(|e| erp("merge_all", e.to_string()))?;
            if out.pop_front().as_deref() != Some("!") { return Err("merge_all did not append to the output it was given".to_string()); }
            want_sorted("merge_all into a VecDeque", &all, &out.into_iter().collect::<Vec<_>>())
        }
        "lt/bykey" => {
            let cfg = lt_config(c);
            let mut t = EnhancedLoserTree::with_comparator(cfg, |a: &(u64, u32), b: &(u64, u32)| a.0.cmp(&b.0));
            let mut all = vec![];
            for (w, r) in c.runs.iter().enumerate() {
                let v: Vec<(u64, u32)> = r.iter().enumerate().map(|(i, &x)| (x, (w * 1000 + i) as u32)).collect();
                all.extend_from_slice(&v);
                t.add_way(v.into_iter()).map_err(|e| erp("add_way", e.to_string()))?;
            }
            let got = t.merge_to_vec().map_err(|e| erp("merge_to_vec", e.to_string()))?;
            if got.windows(2).any(|w| w[0].0 > w[1].0) { return Err(format!("output is not sorted by the key: got {}", show(&got))); }
            let mut g = got.clone();
            g.sort();
            want_sorted("permutation", &all, &g)
        }
        // ---- SIMD helpers ----
        "simd/default" => {
            let s = if c.pp(0) != 0 { SimdComparator::new() } else { SimdComparator::default() };
            let a: Vec<i32> = c.a.iter().map(|&x| to_i32(x)).collect();
            let b: Vec<i32> = c.b.iter().map(|&x| to_i32(x)).collect();
            let mut all = a.clone();
            all.extend_from_slice(&b);
            want_sorted("merge_sorted_i32 (detected configuration)", &all, &s.merge_sorted_i32(&a, &b))
        }
        "simd/cmp" | "simd/pcmp" => {
            let n = c.a.len().min(c.b.len());
            let a: Vec<i32> = c.a[..n].iter().map(|&x| to_i32(x)).collect();
            let b: Vec<i32> = c.b[..n].iter().map(|&x| to_i32(x)).collect();
            let want: Vec<Ordering> = a.iter().zip(b.iter()).map(|(x, y)| x.cmp(y)).collect();
            if cell == "simd/pcmp" {
                let pairs: Vec<(i32, i32)> = a.iter().cloned().zip(b.iter().cloned()).collect();
                return same("parallel_compare_i32", &want, &SimdOperations::parallel_compare_i32(&pairs));
            }
            let cfg = SimdConfig { use_avx2: c.pp(0) != 0, min_vector_size: c.pp(1) as usize, use_bmi2: c.pp(2) != 0, prefetch_distance: c.pp(3) as usize };
            let s = SimdComparator::with_config(cfg);
            let got = s.compare_i32_slices(&a, &b).map_err(|e| erp("compare_i32_slices", e.to_string()))?;
            same("compare_i32_slices", &want, &got)
        }
        "simd/min" => {
            let cfg = SimdConfig { use_avx2: c.pp(0) != 0, min_vector_size: c.pp(1) as usize, use_bmi2: c.pp(2) != 0, prefetch_distance: c.pp(3) as usize };
            let s = SimdComparator::with_config(cfg);
            let v: Vec<i32> = c.xs.iter().map(|&x| to_i32(x)).collect();
            min_check("find_min_i32", &v, s.find_min_i32(&v))
        }
        "simd/mins" => {
            let arrays: Vec<Vec<i32>> = c.runs.iter().map(|r| r.iter().map(|&x| to_i32(x)).collect()).collect();
            let refs: Vec<&[i32]> = arrays.iter().map(|v| v.as_slice()).collect();
            let got = SimdOperations::find_multiple_mins(&refs);
            if got.len() != arrays.len() { return Err(format!("find_multiple_mins: {} answers for {} arrays", got.len(), arrays.len())); }
            for (v, g) in arrays.iter().zip(got.into_iter()) { min_check("find_multiple_mins", v, g)?; }
            Ok(())
        }
        // ---- set_ops on elements that remember where they came from, compared by their key only; descending order ----
        "set/tag" => {
            let f = (c.pp(0) as usize).min(11);
            let rev = c.pp(2) != 0;
            let mut a: Vec<(u64, u8, u32)> = c.a.iter().enumerate().map(|(i, &x)| (x, 0u8, i as u32)).collect();
            let mut b: Vec<(u64, u8, u32)> = c.b.iter().enumerate().map(|(i, &x)| (x, 1u8, i as u32)).collect();
            if rev { a.reverse(); b.reverse(); }
            let cmp = move |x: &(u64, u8, u32), y: &(u64, u8, u32)| if rev { y.0.cmp(&x.0) } else { x.0.cmp(&y.0) };
            let (got, want) = set_both(f, c.pp(1) as usize, &a, &b, &cmp);
            same(&format!("{} on tagged elements", SET_FNS[f]), &want, &got)
        }
        "set/str" => {
            let f = (c.pp(0) as usize).min(11);
            let mk = |v: &[u64]| { let mut s: Vec<String> = v.iter().map(|x| format!("{:o}", x)).collect(); s.sort(); s };
            let (a, b) = (mk(&c.a), mk(&c.b));
            let cmp = |x: &String, y: &String| x.cmp(y);
            let (got, want) = set_both(f, c.pp(1) as usize, &a, &b, &cmp);
            same(&format!("{} on strings", SET_FNS[f]), &want, &got)
        }
        // ---- SetOperations: one object through intersection / union / filter_merge / count_frequencies / reset_stats ----
        "kway/hist" => {
            let cfg = SetOperationsConfig { use_bit_mask_optimization: c.pp(0) != 0, bit_mask_threshold: c.pp(1) as usize,
                                            count_frequencies: c.pp(3) != 0, use_simd: c.pp(4) != 0 };
            let mut s = match c.pp(2) { 1 => SetOperations::new(), 2 => SetOperations::default(), _ => SetOperations::with_config(cfg) };
            for (i, op) in c.ops.iter().enumerate() {
                let what = format!("step {} ({})", i, oname(op));
                let runs = oruns(op);
                let its: Vec<std::vec::IntoIter<u64>> = runs.iter().cloned().map(|r| r.into_iter()).collect();
                match oname(op) {
                    "inter" => same(&what, &ref_kway_inter(&runs), &s.intersection(its).map_err(|e| erp(&what, e.to_string()))?)?,
                    "union" => same(&what, &ref_unique(&sorted(&concat(&runs))), &s.union(its).map_err(|e| erp(&what, e.to_string()))?)?,
                    "filter" => {
                        let m = op["m"].as_u64().unwrap_or(2).max(1);
                        let want: Vec<u64> = sorted(&concat(&runs)).into_iter().filter(|x| x % m != 0).collect();
                        same(&what, &want, &s.filter_merge(its, move |x| x % m != 0).map_err(|e| erp(&what, e.to_string()))?)?
                    }
                    "freq" => freq_check(&what, &runs, s.count_frequencies(its).map_err(|e| erp(&what, e.to_string()))?)?,
                    "reset" => s.reset_stats(),
                    _ => {}
                }
            }
            Ok(())
        }
        "kway/freq" => {
            let mut s = SetOperations::new();
            let its: Vec<std::vec::IntoIter<u64>> = c.runs.iter().cloned().map(|r| r.into_iter()).collect();
            freq_check("count_frequencies", &c.runs, s.count_frequencies(its).map_err(|e| erp("count_frequencies", e.to_string()))?)
        }
        "kway/filter" => {
            let mut s = SetOperations::new();
            let (m, k) = (c.pp(0).max(1), c.pp(1));
            let its: Vec<std::vec::IntoIter<u64>> = c.runs.iter().cloned().map(|r| r.into_iter()).collect();
            let want: Vec<u64> = sorted(&concat(&c.runs)).into_iter().filter(|x| x % m == k % m).collect();
            same("filter_merge", &want, &s.filter_merge(its, move |x| x % m == k % m).map_err(|e| erp("filter_merge", e.to_string()))?)
        }
        "kway/str" => {
            // strictly increasing ways of strings: intersection, union
            let runs: Vec<Vec<String>> = c.runs.iter().map(|r| { let mut v: Vec<String> = r.iter().map(|x| format!("{:o}", x)).collect(); v.sort(); v.dedup(); v }).collect();
            let cfg = SetOperationsConfig { use_bit_mask_optimization: c.pp(0) != 0, bit_mask_threshold: c.pp(1) as usize, ..Default::default() };
            let mut s = SetOperations::with_config(cfg);
            let its = |rs: &Vec<Vec<String>>| rs.iter().cloned().map(|r| r.into_iter()).collect::<Vec<_>>();
            let mut all: Vec<String> = runs.iter().flatten().cloned().collect();
            all.sort();
            let mut uni = all.clone();
            uni.dedup();
            let inter: Vec<String> = if runs.is_empty() { vec![] } else { uni.iter().filter(|x| runs.iter().all(|r| r.contains(x))).cloned().collect() };
            same("union of strings", &uni, &s.union(its(&runs)).map_err(|e| erp("union", e.to_string()))?)?;
            same("intersection of strings", &inter, &s.intersection(its(&runs)).map_err(|e| erp("intersection", e.to_string()))?)
        }
        _ => Err(format!("unknown breadth cell {}", cell)),
    }
}

/// keys sorted, and every key still next to the value it came with (value = input position)
fn kv_check(keys: &[u64], got: &[(u64, u64)]) -> Result<(), String> {
    want_sorted("keys", keys, &got.iter().map(|x| x.0).collect::<Vec<_>>())?;
    let mut seen = vec![false; keys.len()];
    for &(k, v) in got {
        let i = v as usize;
        if i >= keys.len() || seen[i] || keys[i] != k { return Err(format!("key {} came out with value {} (pairing lost or value duplicated)", k, v)); }
        seen[i] = true;
    }
    Ok(())
}
fn min_check(what: &str, v: &[i32], got: Option<(usize, i32)>) -> Result<(), String> {
    match (v.iter().min(), got) {
        (None, None) => Ok(()),
        (Some(&m), Some((i, x))) if x == m && v.get(i) == Some(&m) => Ok(()),
        (w, g) => Err(format!("{}: got {:?}, the minimum is {:?} (of {})", what, g, w, show(v))),
    }
}
fn freq_check(what: &str, runs: &[Vec<u64>], got: HashMap<u64, usize>) -> Result<(), String> {
    let mut want: HashMap<u64, usize> = HashMap::new();
    for x in concat(runs) { *want.entry(x).or_insert(0) += 1; }
    if got == want { Ok(()) } else {
        let mut g: Vec<_> = got.into_iter().collect();
        g.sort();
        Err(format!("{}: multiplicities differ from the merged input: got {}", what, show(&g)))
    }
}
fn adv_one<T: RadixSortable + Debug>(c: &Case, data: Vec<T>) -> Result<(), String> {
    let mut s = adv_build::<T>(c)?;
    let mut d = data.clone();
    s.sort(&mut d).map_err(|e| format!("sort: returned an error where the property demands a result: {}", e))?;
    want_sorted("sort", &data, &d)
}
fn adv_hist<T: RadixSortable + Debug>(c: &Case, conv: &dyn Fn(u64) -> T) -> Result<(), String> {
    let mut s = adv_build::<T>(c)?;
    for (i, op) in c.ops.iter().enumerate() {
        let what = format!("step {} ({})", i, oname(op));
        let data: Vec<T> = oxs(op).iter().map(|&x| conv(x)).collect();
        match oname(op) {
            "sort" => {
                let mut d = data.clone();
                s.sort(&mut d).map_err(|e| format!("{}: returned an error where the property demands a result: {}", what, e))?;
                want_sorted(&what, &data, &d)?;
            }
            "exec" => {
                let d = s.execute(&adv_full_config(c), data.clone()).map_err(|e| format!("{}: returned an error where the property demands a result: {}", what, e))?;
                want_sorted(&what, &data, &d)?;
            }
            "estimate" => { let _ = s.estimate_memory(data.len()); }
            _ => {}
        }
    }
    Ok(())
}
/// p = [stable_sort, cache_optimized, use_simd, use_secure_memory, initial_capacity, prefetch_distance, alignment]
fn lt_config(c: &Case) -> LoserTreeConfig {
    if c.pp(7) != 0 { return LoserTreeConfig::default(); }
    LoserTreeConfig {
        stable_sort: c.pp(0) != 0, cache_optimized: c.pp(1) != 0, use_simd: c.pp(2) != 0,
        use_secure_memory: c.pp(3) != 0, initial_capacity: c.pp(4) as usize, prefetch_distance: c.pp(5) as usize,
        alignment: c.pp(6) as usize,
    }
}
/// The shadow is the Vec of the elements not yet delivered; every way is sorted, so what the tree must deliver next is
/// the least of them.  Ways added since the last initialize() make the interpreter call initialize() before it reads.
fn lt_hist(c: &Case) -> Result<(), String> {
    let mut t = EnhancedLoserTree::<u64>::new(lt_config(c));
    let mut left: Vec<u64> = vec![];
    let mut ways = 0usize;
    let mut dirty = false;
    let e = |what: &str, e: zipora::ZiporaError| format!("{}: returned an error where the property demands a result: {}", what, e);
    fn take_min(left: &mut Vec<u64>) -> Option<u64> {
        let m = left.iter().cloned().min()?;
        let i = left.iter().position(|&x| x == m)?;
        left.swap_remove(i);
        Some(m)
    }
    for (i, op) in c.ops.iter().enumerate() {
        let what = format!("step {} ({})", i, oname(op));
        let k = op["k"].as_u64().unwrap_or(1) as usize;
        let reads = matches!(oname(op), "pop" | "peek" | "next");
        if reads && dirty { t.initialize().map_err(|x| e(&what, x))?; dirty = false; }
        match oname(op) {
            "add" => {
                let xs = sorted(&oxs(op));
                left.extend_from_slice(&xs);
                t.add_way(xs.into_iter()).map_err(|x| e(&what, x))?;
                ways += 1;
                dirty = true;
            }
            "init" => { t.initialize().map_err(|x| e(&what, x))?; dirty = false; }
            "pop" | "next" => {
                for _ in 0..k {
                    let got = if oname(op) == "pop" { t.pop().map_err(|x| e(&what, x))? } else { Iterator::next(&mut t) };
                    let want = take_min(&mut left);
                    if got != want { return Err(format!("{}: delivered {:?}, the least remaining element is {:?}", what, got, want)); }
                }
            }
            "peek" => {
                let got = t.peek().cloned();
                let want = left.iter().cloned().min();
                if got != want { return Err(format!("{}: peek shows {:?}, the least remaining element is {:?}", what, got, want)); }
            }
            "is_empty" => if t.is_empty() != left.is_empty() { return Err(format!("{}: is_empty() = {} with {} elements left", what, t.is_empty(), left.len())); },
            "num_ways" => if t.num_ways() != ways { return Err(format!("{}: num_ways() = {} after {} add_way", what, t.num_ways(), ways)); },
            "merge_all" => {
                let mut out = vec![7u64];
                t.merge_all(&mut out).map_err(|x| e(&what, x))?;
                let mut want = vec![7u64];
                want.extend(sorted(&left));
                left.clear();
                dirty = false;
                same(&what, &want, &out)?;
            }
            "merge_vec" => {
                let got = t.merge_to_vec().map_err(|x| e(&what, x))?;
                let want = sorted(&left);
                left.clear();
                dirty = false;
                same(&what, &want, &got)?;
            }
            _ => {}
        }
    }
    Ok(())
}

// ---------------------------------------------------------------------------
// generators
// ---------------------------------------------------------------------------
fn op_xs(name: &str, xs: Vec<u64>) -> Value { json!({"o": name, "xs": xs}) }
fn op_gen(name: &str, gen: &[u64]) -> Value { json!({"o": name, "gen": gen}) }
/// strings of at most 8 bytes without a zero byte: their 8-byte radix keys are injective
fn short_strs(r: &mut Rng, n: usize) -> Vec<Vec<u8>> {
    let alpha = *r.pick(&[2u64, 4, 255]);
    (0..n).map(|_| { let l = r.below(9) as usize; (0..l).map(|_| 1 + r.below(alpha) as u8).collect() }).collect()
}
fn sorted_runs_small(r: &mut Rng, k: usize, maxlen: usize, strict: bool) -> Vec<Vec<u64>> {
    (0..k).map(|_| { let n = r.below(maxlen as u64 + 1) as usize; let mut v: Vec<u64> = (0..n).map(|_| r.below(9)).collect(); v.sort(); if strict { v.dedup(); } v }).collect()
}

pub fn cases(r: &mut Rng, thorough: bool, out: &mut Vec<Case>) {
    let scale = if thorough { 6 } else { 1 };
    let seed = r.next() % 1_000_000;

    // ---- RadixSort: one object, several element types and sizes in a row ----
    for k in 0..(24 * scale) {
        let pt = *r.pick(&[4u64, 16, 50]);
        let mut c = Case::new("radix/hist", &[*r.pick(&[8u64, 8, 4, 11, 16]), r.below(2), pt, *r.pick(&[0u64, 8, 256]), r.below(2), (k % 3) as u64]);
        let steps = r.range(2, 6);
        for _ in 0..steps {
            let n = gen_len(r, &[pt as usize, 2 * pt as usize, 16]).min(300);
            c.ops.push(match r.below(5) {
                0 => op_xs("u32", gen_ints(r, n, 32)),
                1 => op_xs("u64", gen_ints(r, n, 64)),
                2 => { let lp = r.chance(1, 3); json!({"o": "bytes", "strs": gen_strs(r, n.min(60), lp)}) }
                3 => op_xs("exec", gen_ints(r, n, 32)),
                _ => op_xs("u64", gen_ints(r, 2 * pt as usize + 3, 64)),
            });
        }
        out.push(c);
    }
    {
        // default object: a chunked sort, a tiny one, a sequential one just below the switch, byte strings, a chunked u32 sort
        let mut c = Case::new("radix/hist", &[8, 1, 10_000, 256, 1, 1]);
        c.ops = vec![op_gen("u64", &[6, 20_011, seed, 64]), op_xs("u32", vec![3, 1, 2]), op_gen("u64", &[0, 19_999, seed + 1, 64]),
                     json!({"o": "bytes", "strs": [[2, 1], [2], [], [1, 255]]}), op_gen("u32", &[11, 20_000, seed + 2, 32]), op_gen("exec", &[0, 10_000, seed + 3, 32])];
        out.push(c);
    }
    // the default configuration around its switch points: parallel_threshold, twice that (chunk + merge), 2^16, 2^20
    for (i, &n) in [9_999u64, 10_000, 19_999, 20_000, 65_536, 65_537, 1 << 20].iter().enumerate() {
        if n > 70_000 && !thorough && i % 2 == 1 { continue; }
        let kind = [0u64, 6, 11, 5, 0, 3, 0][i];
        out.push(Case::big("radix/u32", &[8, 1, 10_000, 256, 1], &[kind, n, seed + i as u64, 32]));
        out.push(Case::big("radix/u64", &[8, 1, 10_000, 256, 1], &[kind, n, seed + 10 + i as u64, 64]));
        out.push(Case::big("adv/u32", &[0, 8, 1, 10_000, 0, 100, 1, (i == 3) as u64], &[[0u64, 9, 10, 5, 3, 0, 0][i], n + (i % 2) as u64, seed + 20 + i as u64, 32]));
        out.push(Case::big("adv/u64", &[0, 8, 1, 10_000, 0, 100, 1, 0], &[[10u64, 0, 6, 11, 0, 5, 0][i], n, seed + 30 + i as u64, 64]));
    }
    for &(rb, n) in &[(16u64, 65_537u64), (11, 70_001), (13, 20_003)] {
        out.push(Case::big("radix/u32", &[rb, 1, 10_000, 256, 0], &[0, n, seed + rb, 32]));
        out.push(Case::big("radix/u64", &[rb, 0, 10_000, 256, 0], &[6, n, seed + rb + 1, 64]));
        out.push(Case::big("adv/u64", &[3, rb, 1, 10_000, 3, 100, 1, 0], &[0, n, seed + rb + 2, 64]));
    }
    // skewed digits at sizes where one bucket holds 2^16 elements and more (sequentially, and per chunk of the parallel path)
    for (i, &(kind, n, par)) in [(2u64, 65_536u64, 0u64), (6, 65_537, 0), (1, 131_073, 0), (11, 65_536, 0), (1, 1 << 20, 1), (6, (1 << 20) + 5, 1), (2, 1 << 20, 1)].iter().enumerate() {
        let s2 = seed + 200 + i as u64;
        out.push(Case::big("radix/u32", &[8, par, 10_000, 256, (i % 2) as u64], &[kind, n, s2, 32]));
        out.push(Case::big("radix/u64", &[8, par, 10_000, 256, (i % 2) as u64], &[kind, n, s2 + 10, 64]));
        out.push(Case::big("adv/u32", &[3, 8, par, 10_000, 0, 100, (i % 2) as u64, 0], &[kind, n, s2 + 20, 32]));
        out.push(Case::big("adv/u64", &[6, 8, par, 10_000, 0, 100, (i % 2) as u64, 0], &[kind, n, s2 + 30, 64]));
        if n < 200_000 { out.push(Case::big("kv/u64", &[], &[kind, n, s2 + 40, 64])); }
    }
    // the nearly-sorted test looks at the first 1000 elements only
    for &(kind, n) in &[(9u64, 1_000u64), (9, 1_001), (9, 1_500), (10, 1_500), (10, 12_000), (5, 999)] {
        out.push(Case::big("adv/u32", &[0, 8, 1, 10_000, 0, 100, 1, 0], &[kind, n, seed + n, 32]));
        out.push(Case::big("adv/u64", &[5, 8, 0, 10_000, 0, 100, 0, 0], &[kind, n, seed + n + 1, 64]));
    }
    // counting sort: up to use_counting_sort_threshold elements whose largest value is below 2^16
    for &n in &[255usize, 256, 257] {
        for &kind in &[7u64, 12] {
            for &top in &[65_534u64, 65_535, 65_536, 65_537] {
                let mut c = Case::new("radix/u32", &[8, 0, 10_000, 256, 0]);
                c.xs = expand(&[kind, n as u64 - 1, seed + top, 32]);
                c.xs.iter_mut().for_each(|x| *x = (*x).min(top));
                c.xs.push(top);
                out.push(c);
            }
        }
    }
    out.push(Case::big("adv/str", &[0, 8, 1, 10_000, 0, 100, 1, 0], &[0, 20_001, seed + 40, 64]));
    out.push(Case::big("adv/str", &[4, 8, 0, 10_000, 0, 100, 0, 0], &[1, 3_000, seed + 41, 64]));
    out.push(Case::big("radix/bytes", &[8, 0, 10_000, 256, 0], &[0, 20_000, seed + 42, 64]));

    // ---- key-value sort: u8 / u16 keys, unit and String values; the chunked path of the inner sort ----
    for _ in 0..(16 * scale) {
        for (cell, bits) in [("kv/u8", 8u32), ("kv/u16", 16), ("kv/unit", 32), ("kv/str", 64)] {
            let mut c = Case::new(cell, &[]);
            let n = gen_len(r, &[256]).min(400);
            c.xs = gen_ints(r, n, bits);
            out.push(c);
        }
    }
    out.push(Case::big("kv/u16", &[], &[0, 20_011, seed + 50, 16]));
    out.push(Case::big("kv/u8", &[], &[0, 70_000, seed + 51, 8]));
    out.push(Case::big("kv/u32", &[], &[6, 20_000, seed + 52, 32]));
    out.push(Case::big("kv/u64", &[], &[11, 65_539, seed + 53, 64]));
    out.push(Case::big("kv/str", &[], &[7, 20_001, seed + 54, 64]));

    // ---- AdvancedRadixSort: one object through inputs that take different strategies ----
    for k in 0..(40 * scale) {
        let ctor = (k % 4) as u64;
        let pt = *r.pick(&[4u64, 16, 50]);
        let it = *r.pick(&[0u64, 4, 16, 100]);
        let strat = if ctor == 1 || ctor == 2 { 0 } else { r.below(7) };
        let budget = *r.pick(&[0u64, 64 * 1024, 64 * 1024 + 1, 1 << 20, (1 << 20) + 1, 64 << 20]);
        let mut c = Case::new("adv/hist", &[strat, *r.pick(&[8u64, 8, 3, 5, 11]), r.below(2), pt, *r.pick(&[0u64, 1, 2, 3, 7]), it, r.below(2),
                                            (r.below(4) == 0) as u64, ctor, budget, r.below(4), *r.pick(&[0u64, 16, 1024]), r.below(4), *r.pick(&[0u64, 1, 64]), (k % 2) as u64]);
        let bits = if k % 2 == 1 { 64 } else { 32 };
        let (pt_eff, it_eff) = if ctor == 1 || ctor == 2 { (10_000usize, 100usize) } else { (pt as usize, it as usize) };
        let steps = r.range(2, 5);
        for s in 0..steps {
            let n = if s == 0 && pt_eff < 1000 { 2 * pt_eff + r.below(9) as usize }
                    else { gen_len(r, &[it_eff, it_eff + 1, pt_eff.min(400), 16]).min(400) };
            let name = match r.below(6) { 0 => "exec", 1 => "estimate", _ => "sort" };
            // magnitudes change from step to step (first small keys, later large ones and back)
            let sh = if s == 0 { *r.pick(&[bits - 4, bits - 9, bits - 16]) } else { *r.pick(&[0u32, 0, 3, bits - 12, bits - 20]) };
            c.ops.push(op_xs(name, gen_ints(r, n, bits).iter().map(|&x| x >> sh).collect()));
        }
        if (ctor == 1 || ctor == 2) && k % 8 < 2 { c.ops.insert(1, op_gen("sort", &[0, 20_001, seed + 60 + k as u64, bits as u64])); }
        out.push(c);
    }
    for k in 0..(20 * scale) {
        let ctor = (k % 4) as u64;
        let strat = if ctor == 1 || ctor == 2 { 0 } else { r.below(7) };
        let it = *r.pick(&[0u64, 2, 16]);
        let mut c = Case::new("adv/hist_str", &[strat, 8, r.below(2), *r.pick(&[4u64, 16]), *r.pick(&[0u64, 2, 3]), it, r.below(2), 0, ctor, 64 * 1024, 1, 0, 2, 64]);
        let lsd_possible = ctor == 1 || ctor == 2 || matches!(strat, 0 | 3 | 5 | 6);
        for s in 0..r.range(2, 4) {
            let n = if s == 1 { 40 } else { gen_len(r, &[it as usize, 8]).min(120) };
            let lp = r.chance(1, 2);
            let strs = if lsd_possible { short_strs(r, n) } else { gen_strs(r, n, lp) };
            c.ops.push(json!({"o": if r.chance(1, 5) { "exec" } else { "sort" }, "strs": strs}));
        }
        out.push(c);
    }
    // MSD: the recursion gives up at depth 65 and finishes the bucket with insertion sort
    for &l in &[63usize, 64, 65, 66, 70, 130] {
        for &it in &[0u64, 2] {
            let mut c = Case::new("adv/str", &[4, 8, 0, 10_000, 2, it, 0, 0]);
            let prefix: Vec<u8> = (0..l).map(|i| b'a' + (i % 2) as u8).collect();
            for _ in 0..(it as usize + 6) {
                let mut t = prefix.clone();
                t.extend((0..r.below(4)).map(|_| b'a' + r.below(3) as u8));
                c.strs.push(t);
            }
            c.strs.push(prefix[..l / 2].to_vec());
            out.push(c);
        }
    }
    // user-defined element types under every strategy
    for strat in 0..=6u64 {
        for rep in 0..(2 * scale) {
            for (cell, bits) in [("adv/i64", 64u32), ("adv/k16", 16), ("adv/rec", 40), ("adv/nopar", 32)] {
                let pt = *r.pick(&[4u64, 16]);
                let it = *r.pick(&[0u64, 4, 16]);
                let mut c = Case::new(cell, &[strat, *r.pick(&[8u64, 4, 5, 11]), (rep % 2) as u64, pt, *r.pick(&[0u64, 2, 3, 1 << 40, u64::MAX]), it, r.below(2), 0, 0, 64 << 20, 1, 1024, 2, 64]);
                let n = gen_len(r, &[2 * pt as usize, 2 * pt as usize + 1, it as usize]).min(300);
                c.xs = gen_ints(r, n, bits);
                out.push(c);
            }
        }
    }
    out.push(Case::big("adv/i64", &[0, 8, 1, 10_000, 0, 100, 1, 0, 1], &[0, 20_001, seed + 70, 64]));
    out.push(Case::big("adv/k16", &[3, 8, 1, 10_000, 0, 100, 1, 0, 0, 64 << 20, 1, 1024, 2, 64], &[0, 65_537, seed + 71, 16]));

    // ---- CacheObliviousSort: element sizes 0 / 2 / 16 / 24 bytes, signed and reversed orders, CPU feature flags, reuse ----
    for k in 0..(9 * scale) {
        for cell in ["co/i64", "co/bytes", "co/pair", "co/unit", "co/rev", "co/u16"] {
            let n = if k % 6 == 5 { 300 + r.below(900) as usize } else { gen_len(r, &[16, 17, 33, 64, 65, 257]).min(300) };
            // k % 3 == 0: "fits L1" by the selector's 8-byte estimate, but the real elements miss L1 and L2 -> merge sort branch
            let (l1, l2, l3) = if k % 3 == 0 { (8 * n as u64 + 8, *r.pick(&[64u64, 256]), 8 << 20) }
                               else { (*r.pick(&[0u64, 64, 256, 32768]), *r.pick(&[128u64, 1024, 4096, 262144]), *r.pick(&[256u64, 2048, 16384, 8 << 20])) };
            let mut c = Case::new(cell, &[l1, l2, l3, *r.pick(&[0u64, 2, 16, 1024]), r.below(2), *r.pick(&[64u64, 16]), r.below(4), (r.below(4) == 0) as u64, 0, r.below(2), (k % 4 == 3) as u64]);
            c.xs = gen_ints(r, n, if cell == "co/u16" { 16 } else { 64 });
            out.push(c);
        }
        let mut c = Case::new("co/exec", &[*r.pick(&[0u64, 256, 32768]), *r.pick(&[1024u64, 262144]), *r.pick(&[2048u64, 8 << 20]), *r.pick(&[2u64, 16, 1024]), r.below(2), 64, r.below(4), 0, (k % 3) as u64, 1]);
        let n = gen_len(r, &[16, 33, 64]).min(400);
        c.xs = gen_ints(r, n, 32);
        out.push(c);
    }
    for k in 0..(12 * scale) {
        let mut c = Case::new("co/hist", &[*r.pick(&[64u64, 256, 32768]), *r.pick(&[128u64, 1024, 262144]), *r.pick(&[256u64, 2048, 8 << 20]), *r.pick(&[0u64, 2, 16, 1024]),
                                           r.below(2), 64, r.below(4), 0, (k % 3) as u64, r.below(2)]);
        for _ in 0..r.range(2, 5) {
            let n = gen_len(r, &[16, 17, 33, 64]).min(260);
            c.ops.push(op_xs(*r.pick(&["sort", "oblivious", "sort_u8", "sort_bytes", "oblivious_pair", "exec", "sort"]), gen_ints(r, n, 64)));
        }
        out.push(c);
    }
    // CPU feature flags (AVX2 / SSE4.2 switched off in the configuration) x the code they select: the funnel merge and its
    // copy back above 256 elements, the L1 insertion sorts around 8 / 16 / 64 elements
    for flags in 0..4u64 {
        for (i, &n) in [257usize, 300, 700, 3_000].iter().enumerate() {
            let cell = ["co/i64", "co/u16", "co/rev", "co/pair"][(i + flags as usize) % 4];
            let mut c = Case::new(cell, &[64, *r.pick(&[1024u64, 262144]), 8 << 20, *r.pick(&[2u64, 16]), r.below(2), 64, flags, 0, 0, 1, (i % 2) as u64]);
            c.xs = gen_ints(r, n, if cell == "co/u16" { 16 } else { 64 });
            out.push(c);
        }
        for &n in &[7usize, 8, 15, 16, 64, 65, 100] {
            for simd in 0..2u64 {
                if !thorough && (n as u64 + simd + flags) % 2 == 1 { continue; }
                let cell = if n % 2 == 0 { "co/i64" } else { "co/u16" };
                let mut c = Case::new(cell, &[8 * n as u64 + 8, 262144, 8 << 20, 0, simd, 64, flags, 0, 0, 1, 0]);
                c.xs = gen_ints(r, n, if cell == "co/u16" { 16 } else { 64 });
                out.push(c);
            }
        }
    }
    // small_threshold (1024 by default) and the funnel width cap of 64
    for &n in &[1_023u64, 1_024, 1_025, 1_026, 2_049] {
        out.push(Case::big("co/oblivious", &[32768, 262144, 8 << 20, 1024, 1, 64], &[0, n, seed + 80 + n, 64]));
    }
    out.push(Case::big("co/oblivious", &[64, 1 << 20, 2048, 16, 1, 16], &[0, 5_000, seed + 86, 64]));
    out.push(Case::big("co/default", &[], &[0, 65_536, seed + 87, 64]));
    out.push(Case::big("co/default", &[], &[5, 65_537, seed + 88, 64]));
    out.push(Case::big("co/u16", &[0, 0, 0, 0, 0, 64, 0, 0, 1], &[0, 65_537, seed + 89, 16]));
    if thorough { out.push(Case::big("co/default", &[], &[7, (1 << 20) + 1, seed + 90, 64])); }

    // ---- ReplaceSelectSort: the same sorter again and again, lazy input, other record types ----
    for k in 0..(30 * scale) {
        let buf = *r.pick(&[8u64, 16, 24, 40, 64, 800, 1 << 20]);
        let mut c = Case::new("ext/hist", &[buf, *r.pick(&[0u64, 2, 3, 16]), (r.below(6) == 0) as u64, (k % 2) as u64, r.below(2)]);
        for _ in 0..r.range(2, 4) {
            let n = gen_len(r, &[(buf / 8) as usize, 2 * (buf / 8) as usize]).min(60);
            c.ops.push(match r.below(6) { 0 => json!({"o": "cleanup"}), 1 => op_xs("iter", gen_ints(r, n, 64)), _ => op_xs("sort", gen_ints(r, n, 64)) });
        }
        c.ops.push(op_xs("sort", gen_ints(r, 7, 64)));
        out.push(c);
    }
    for _ in 0..(8 * scale) {
        for cell in ["ext/str", "ext/pair", "ext/i64", "ext/u8", "ext/unit", "ext/bykey", "ext/cmp_ord", "ext/vec_default"] {
            let buf = *r.pick(&[0u64, 1, 8, 16, 24, 48, 100, 800]);
            let mut c = Case::new(cell, &[buf, *r.pick(&[0u64, 2, 3, 16]), 0, 0, r.below(2)]);
            let n = gen_len(r, &[(buf / 8) as usize, (buf / 24) as usize]).min(90);
            c.xs = gen_ints(r, n, 64);
            out.push(c);
        }
    }
    // many runs: more than merge_ways (16) and more than the loser tree's initial capacity (64); runs longer than the writer's buffer
    out.push(Case::big("ext/sort", &[4096, 16, 0], &[0, 65_539, seed + 100, 64]));
    out.push(Case::big("ext/sort", &[64 * 1024, 4, 0], &[5, 70_000, seed + 101, 64]));
    out.push(Case::big("ext/vec", &[8 * 20_000 - 1, 16, 0], &[0, 20_000, seed + 102, 64]));
    out.push(Case::big("ext/vec", &[8 * 20_000, 16, 0], &[4, 20_000, seed + 103, 64]));
    out.push(Case::big("ext/str", &[24 * 100, 16, 0, 0, 0], &[0, 5_000, seed + 104, 64]));
    if thorough { out.push(Case::big("ext/sort", &[64 * 1024, 16, 0], &[0, 1 << 20, seed + 105, 64])); }

    // ---- MultiWayMerge: custom sources, partly read sources, the same merger twice; tagged two-way merges ----
    // the whole grid: merge mode x fan-in limit x number of sources x (custom sources | partly read VectorSources)
    let mut k = 0u64;
    for rep in 0..scale {
        for tt in 0..2u64 {
            for &mw in &[0u64, 1, 2, 9, 1024] {
                for &nk in &[0usize, 1, 2, 3, 8, 9, 10, 17] {
                    for custom in 0..2u64 {
                        if rep > 0 && r.chance(1, 2) { continue; }
                        k += 1;
                        let mut c = Case::new("mwm/src", &[tt, mw, k % 3, r.below(3), r.below(2), *r.pick(&[0u64, 1, 64 * 1024]), custom]);
                        c.runs = gen_runs(r, nk, 6, 64);
                        out.push(c);
                        if k % 8 == 0 {
                            let mut c = Case::new("mwm/str", &[tt, mw]);
                            c.runs = gen_runs(r, nk, 5, 64);
                            out.push(c);
                        }
                    }
                }
            }
        }
    }
    for _ in 0..(25 * scale) {
        for cell in ["merge/two_tag", "merge/in_place_tag"] {
            let mut c = Case::new(cell, &[*r.pick(&[1u64, 1, 1, 2, 3, 4])]);
            let (na, nb) = (r.below(12) as usize, r.below(12) as usize);
            c.a = gen_sorted(r, na, false);
            c.b = gen_sorted(r, nb, false);
            out.push(c);
        }
    }
    out.push(Case::big("mwm/merge", &[0, 1024], &[0, 65_536, seed + 110, 64, 16]));
    out.push(Case::big("mwm/merge", &[1, 1024], &[7, 65_537, seed + 111, 64, 33]));
    out.push(Case::big("mwm/merge", &[0, 1024], &[0, 3_000, seed + 112, 64, 1024]));
    out.push(Case::big("mwm/merge", &[1, 1024], &[0, 3_000, seed + 113, 64, 1025]));
    out.push(Case::big("mwm/execute", &[1, 1024], &[0, 20_000, seed + 114, 32, 9]));
    out.push(Case::big("mwm/src", &[1, 1024, 1, 2, 1, 64 * 1024, 0], &[7, 40_000, seed + 115, 64, 12]));
    out.push(Case::big("merge/two", &[], &[0, 65_536, seed + 116, 64, 65_537, 7]));
    out.push(Case::big("merge/in_place", &[], &[7, 65_537, seed + 117, 64, 1_000, 0]));
    out.push(Case::big("merge/two_tag", &[1], &[1, 30_000, seed + 118, 64, 30_001, 1]));

    // ---- EnhancedLoserTree: histories ----
    for k in 0..(120 * scale) {
        let mut c = Case::new("lt/hist", &[r.below(2), r.below(2), r.below(2), (r.below(10) == 0) as u64, *r.pick(&[0u64, 1, 64]), r.below(4), *r.pick(&[0u64, 8, 64]), (k % 5 == 0) as u64]);
        let small = r.chance(1, 2);
        let way = |r: &mut Rng| { let n = r.below(6) as usize; let xs: Vec<u64> = if small { (0..n).map(|_| r.below(5)).collect() } else { gen_ints(r, n, 64) }; op_xs("add", xs) };
        for _ in 0..(if k % 10 == 9 { r.range(9, 34) } else { r.range(0, 4) }) { let w = way(r); c.ops.push(w); }
        for _ in 0..r.range(2, 9) {
            c.ops.push(match r.below(12) {
                0 | 1 => way(r),
                2 => json!({"o": "init"}),
                3 | 4 => json!({"o": "pop", "k": r.range(1, 4)}),
                5 => json!({"o": "next", "k": r.range(1, 3)}),
                6 | 7 => json!({"o": "peek"}),
                8 => json!({"o": "is_empty"}),
                9 => json!({"o": "num_ways"}),
                10 => json!({"o": "merge_all"}),
                _ => json!({"o": "merge_vec"}),
            });
        }
        c.ops.push(json!({"o": "is_empty"}));
        c.ops.push(json!({"o": if k % 2 == 0 { "merge_vec" } else { "merge_all" }}));
        c.ops.push(json!({"o": "peek"}));
        out.push(c);
    }
    for k in 0..(16 * scale) {
        let nk = *r.pick(&[0usize, 1, 2, 3, 5, 9, 33]);
        for cell in ["lt/str", "lt/bykey"] {
            let mut c = Case::new(cell, &[r.below(2), r.below(2), r.below(2), 0, *r.pick(&[0u64, 64]), r.below(3), 64, (k % 4 == 0) as u64]);
            c.runs = gen_runs(r, nk, 5, 64);
            out.push(c);
        }
    }
    out.push(Case::big("lt/merge", &[1, 1, 1, 0, 64, 2], &[0, 65_536, seed + 120, 64, 64]));
    out.push(Case::big("lt/merge", &[0, 0, 0, 0, 0, 0], &[7, 40_000, seed + 121, 64, 65]));
    out.push(Case::big("lt/iter", &[1, 1, 0, 0, 64, 2], &[0, 5_000, seed + 122, 64, 1_000]));
    out.push(Case::big("lt/bykey", &[1, 1, 1, 0, 64, 2, 64, 1], &[1, 20_000, seed + 123, 64, 17]));

    // ---- SIMD: the detected configuration, the comparison / minimum helpers, sizes around the vector width ----
    let simd_lens = [0usize, 1, 7, 8, 9, 15, 16, 17, 23, 24, 25, 31, 32, 33, 40, 64, 65];
    for _ in 0..(30 * scale) {
        let (na, nb) = (*r.pick(&simd_lens), *r.pick(&simd_lens));
        let mut c = Case::new("simd/default", &[r.below(2)]);
        c.a = sorted(&gen_ints(r, na, 32));
        c.b = sorted(&gen_ints(r, nb, 32));
        out.push(c);
        let n = *r.pick(&simd_lens);
        for cell in ["simd/cmp", "simd/pcmp"] {
            let mut c = Case::new(cell, &[r.below(2), *r.pick(&[0u64, 1, 4, 8, 16]), r.below(2), r.below(4)]);
            c.a = gen_ints(r, n, 32);
            c.b = if r.chance(1, 3) { c.a.clone() } else { gen_ints(r, n, 32) };
            if n > 2 && r.chance(1, 2) { let i = r.below(n as u64) as usize; c.b[i] = c.a[i]; }
            out.push(c);
        }
        let mut c = Case::new("simd/min", &[r.below(2), *r.pick(&[0u64, 1, 8, 16]), r.below(2), r.below(4)]);
        let n = *r.pick(&simd_lens);
        c.xs = gen_ints(r, n, 32);
        if c.xs.len() > 3 && r.chance(1, 2) { let i = r.below(c.xs.len() as u64) as usize; c.xs[i] = *r.pick(&[0u64, 1, u32::MAX as u64]); }
        out.push(c);
        if r.chance(1, 2) {
            let mut c = Case::new("simd/mins", &[]);
            c.runs = (0..r.below(5)).map(|_| { let n = *r.pick(&simd_lens); gen_ints(r, n, 32) }).collect();
            out.push(c);
        }
    }
    // the minimum at every distinguished position: first, last, last lane of a vector, first element of the scalar tail, middle
    let mut q = 0u64;
    for &n in &simd_lens {
        for &pos in &[0usize, n.saturating_sub(1), 7, 8, n / 2, (n / 8) * 8, ((n / 8) * 8).saturating_sub(1)] {
            if pos >= n { continue; }
            q += 1;
            let mut c = Case::new("simd/min", &[(q % 4 != 0) as u64, [8u64, 1, 16, 0][(q % 4) as usize], q % 2, q % 3]);
            c.xs = (0..n).map(|_| (1u64 << 31) + 10 + r.below(1000)).collect();
            c.xs[pos] = if q % 3 == 0 { 0 } else { (1u64 << 31) + r.below(10) };
            out.push(c);
        }
    }
    out.push(Case::big("simd/merge2", &[1, 8], &[0, 65_537, seed + 130, 32, 70_001, 7]));
    out.push(Case::big("simd/merge2", &[0, 8], &[7, 65_536, seed + 131, 32, 3, 0]));
    out.push(Case::big("simd/default", &[1], &[0, 3, seed + 132, 32, 65_539, 0]));
    out.push(Case::big("simd/multi", &[], &[0, 65_536, seed + 133, 32, 33]));
    out.push(Case::big("simd/multi", &[], &[7, 20_000, seed + 134, 32, 64]));
    out.push(Case::big("simd/cmp", &[1, 8, 1, 2], &[1, 65_543, seed + 135, 32, 65_543, 1]));
    out.push(Case::big("simd/min", &[1, 8, 1, 2], &[0, 65_543, seed + 136, 32]));

    // ---- set_ops: elements that remember their origin (key-only comparator), descending sequences, strings ----
    for k in 0..(15 * scale) {
        let strict = k % 3 == 0;
        let (na, nb) = (r.below(10) as usize, if r.chance(1, 4) { 40 + r.below(60) as usize } else { r.below(12) as usize });
        let a = gen_sorted(r, na, strict);
        let b = gen_sorted(r, nb, strict);
        let th = *r.pick(&[0u64, 1, 2, 32, u64::MAX, 1 << 63]);
        for f in 0..12u64 {
            for flip in [false, true] {
                let mut c = Case::new("set/tag", &[f, th, ((k as u64 + f) % 2 == 0) as u64]);
                c.a = if flip { b.clone() } else { a.clone() };
                c.b = if flip { a.clone() } else { b.clone() };
                out.push(c);
            }
            if k % 3 == 1 {
                let mut c = Case::new("set/str", &[f, th]);
                c.a = a.clone();
                c.b = b.clone();
                out.push(c);
            }
        }
    }
    let set_cells = ["set/ms_inter", "set/ms_1small_inter", "set/ms_fast_inter", "set/ms_inter2", "set/ms_1small_inter2",
                     "set/ms_fast_inter2", "set/ms_union", "set/ms_diff", "set/unique", "set/inter", "set/union", "set/diff"];
    for (f, cell) in set_cells.iter().enumerate() {
        // a short first sequence against 2^16 elements (binary-search variants), and two long ones
        out.push(Case::big(cell, &[32], &[7, 40, seed + 140, 64, 70_000, 7]));
        out.push(Case::big(cell, &[32], &[7, 65_536, seed + 141, 64, 65_537, 7]));
        out.push(Case::big("set/tag", &[f as u64, 32, (f % 2) as u64], &[7, 300, seed + 142, 64, 66_000, 7]));
        out.push(Case::big("set/tag", &[f as u64, 1, 0], &[1, 20_000, seed + 143, 64, 20_001, 1]));
    }

    // thresholds and thread counts at the top of their range, through the modelled cells
    for k in 0..(6 * scale) {
        let th = *r.pick(&[u64::MAX, 1 << 63, (1 << 32) + 1]);
        let (na, nb) = (r.below(6) as usize, r.below(40) as usize);
        for cell in ["set/ms_fast_inter", "set/ms_fast_inter2"] {
            let mut c = Case::new(cell, &[th]);
            c.a = gen_sorted(r, na, false);
            c.b = gen_sorted(r, nb, false);
            out.push(c);
        }
        for (cell, bits) in [("adv/u32", 32u32), ("adv/u64", 64)] {
            let pt = *r.pick(&[2u64, 4, 8]);
            let mut c = Case::new(cell, &[*r.pick(&[3u64, 6]), r.range(3, 8), 1, pt, *r.pick(&[u64::MAX, 1 << 40, 1 << 63]), 4, (k % 2) as u64, 0]);
            let n = 2 * pt as usize + r.below(6) as usize;
            c.xs = gen_ints(r, n, bits);
            out.push(c);
        }
    }

    // ---- SetOperations: one object through different operations; multiplicities; a real filter ----
    for k in 0..(50 * scale) {
        let bm = r.below(2);
        let th = *r.pick(&[0u64, 2, 32, 64]);
        let mut c = Case::new("kway/hist", &[bm, th, (k % 3) as u64, r.below(2), r.below(2)]);
        let strict = k % 4 != 0;
        for _ in 0..r.range(2, 6) {
            let nk = *r.pick(&[0usize, 1, 2, 3, 4, 5, 33]);
            let runs = sorted_runs_small(r, nk, 8, strict);
            c.ops.push(match r.below(9) {
                0 | 1 | 2 => json!({"o": "inter", "runs": runs}),
                3 | 4 => json!({"o": "union", "runs": runs}),
                5 => json!({"o": "filter", "runs": runs, "m": r.range(1, 4)}),
                6 | 7 => json!({"o": "freq", "runs": runs}),
                _ => json!({"o": "reset"}),
            });
        }
        out.push(c);
    }
    for k in 0..(25 * scale) {
        let nk = *r.pick(&[0usize, 1, 2, 3, 5, 9, 33]);
        let runs = sorted_runs_small(r, nk, 8, k % 2 == 0);
        let mut c = Case::new("kway/freq", &[]);
        c.runs = runs.clone();
        out.push(c);
        let mut c = Case::new("kway/filter", &[r.range(1, 4), r.below(4)]);
        c.runs = runs.clone();
        out.push(c);
        let mut c = Case::new("kway/str", &[r.below(2), *r.pick(&[0u64, 2, 32])]);
        c.runs = gen_runs(r, nk.min(9), 6, 64);
        out.push(c);
    }
    out.push(Case::big("kway/inter", &[1, 32], &[7, 65_536, seed + 150, 64, 4]));
    out.push(Case::big("kway/inter", &[0, 32], &[7, 65_536, seed + 151, 64, 3]));
    out.push(Case::big("kway/union", &[1, 32], &[0, 65_537, seed + 152, 64, 33]));
    out.push(Case::big("kway/filter_merge", &[1, 32], &[1, 20_000, seed + 153, 64, 5]));
    out.push(Case::big("kway/freq", &[], &[7, 65_536, seed + 154, 64, 8]));
    out.push(Case::big("kway/filter", &[3, 1], &[7, 65_536, seed + 155, 64, 8]));
}
