//! C07, oracle breadth: deterministic case families that cross the internal thresholds of the pools (histories described
//! by (kind, n, size, seed) instead of being spelled out), the CacheAlignedVec cell (cache.rs: a vector on cache-line
//! aligned allocations, judged by a `Vec` shadow and the same live-range rules as the pools) and the global secure pools.
use super::*;
use zipora::memory::CacheAlignedVec;

// ------------------------------------------------------------------------------------------------
// big histories: {"kind": .., "n": .., "size": .., "size2": .., "seed": ..}
// ------------------------------------------------------------------------------------------------
pub fn big_ops(b: &Value) -> Vec<Vec<u64>> {
    let kind = b["kind"].as_str().unwrap_or("");
    let n = u(b, "n").min(200_000);
    let size = u(b, "size"); let size2 = u(b, "size2"); let seed = u(b, "seed");
    let mut ops: Vec<Vec<u64>> = vec![];
    match kind {
        // n blocks of one size, all freed (seed 0: last first, 1: first first, 2: every other one, then the rest), one
        // request of the neighbouring size, then n blocks again: per-class caches / pooled-chunk queues run over their bound
        "fill_free_refill" => {
            for _ in 0..n { ops.push(vec![0, size, 1]); }
            match seed % 3 {
                0 => for _ in 0..n { ops.push(vec![1, u64::MAX]); },      // the last live block (resolved below)
                1 => for _ in 0..n { ops.push(vec![1, 0]); },
                _ => { for i in 0..n / 2 { ops.push(vec![1, i + 1]); } for _ in 0..n - n / 2 { ops.push(vec![1, 0]); } }
            }
            ops.push(vec![5, seed]);
            ops.push(vec![0, size2, 1]);
            for _ in 0..n { ops.push(vec![0, size, 1]); }
            ops.push(vec![0, size2, 1]);
        }
        // n requests of one size where two of three are freed at once: the bump area / arena is used up several times over
        "turnover" => {
            for i in 0..n { ops.push(vec![0, size, 1]); if i % 3 != 0 { ops.push(vec![1, u64::MAX - 1]); } if i % 97 == 5 { ops.push(vec![5, i]); } }
            ops.push(vec![0, size2, 1]);
        }
        // requests until the pool is exhausted and beyond, every other block freed, the neighbouring size requested
        "exhaust" => {
            for _ in 0..n { ops.push(vec![0, size, 1]); }
            ops.push(vec![5, seed]);
            for i in 0..n / 2 { ops.push(vec![1, i]); }
            for _ in 0..n / 2 { ops.push(vec![0, size2, 1]); }
            ops.push(vec![5, seed + 1]);
        }
        // a long pseudo-random mix of requests between size and size2, frees and housekeeping
        "mixed" => {
            let mut r = Rng::new(seed ^ 0xC07);
            let (lo, hi) = (size.min(size2).max(1), size.max(size2).max(1));
            for _ in 0..n {
                match r.below(16) {
                    0..=6 => ops.push(vec![0, r.range(lo, hi), 1]),
                    7..=13 => ops.push(vec![1, r.below(1 << 20)]),
                    14 => ops.push(vec![5, r.below(2) * 3]),     // read-only kinds of every pool (k % 2 == 0, k % 3 == 0, k % 5 in {0, 3})
                    _ => ops.push(vec![0, *r.pick(&[lo, hi, (lo + hi) / 2]), 1]),
                }
            }
        }
        // one bulk request of n sizes, freed, a second one
        "bulk" => {
            ops.push(vec![0, size2.max(1), 1]);
            ops.push(vec![6, n, size, seed]);
            for i in 0..n / 2 { ops.push(vec![1, i]); }
            ops.push(vec![6, n, size, seed]);
        }
        _ => {}
    }
    // "free the last live block" (written as u64::MAX / u64::MAX - 1 above) is resolved to the index live - 1 here
    let mut live = 0u64;
    for o in ops.iter_mut() {
        match o[0] {
            0 => live += 1,
            6 => live += o[1],
            1 => { if o[1] >= u64::MAX - 1 { o[1] = live.saturating_sub(1); } if live > 0 { live -= 1; } }
            _ => {}
        }
    }
    ops
}

fn big(cell: &str, extra: Value, kind: &str, n: u64, size: u64, size2: u64, seed: u64) -> Value {
    let mut c = extra;
    c["cell"] = json!(cell);
    c["big"] = json!({"kind": kind, "n": n, "size": size, "size2": size2, "seed": seed});
    c
}

/// The deterministic families: every preset / constructor of every pool with a history that crosses the pool's internal
/// thresholds (cache bounds 4 / 32 / 64 / 100 / 128, prefetch look-ahead 8 / 12, 1000 recorded sizes, class tables'
/// ends 4096 / 8192, 1 KiB / 16 KiB / 64 KiB / 1 MiB / 2 MiB tier boundaries, arenas of 512 KiB / 2 MiB, pools of 1000 /
/// 10000 blocks), plus the entry points that only matter in combination (clear / reset / validate / handles in the middle).
pub fn families() -> Vec<Value> {
    let mut v: Vec<Value> = vec![];
    // ---- lock-free pool: every preset (0..11), bulk requests across the look-ahead of 8, class table end, exhaustion of a small region
    for preset in 0..12u64 {
        v.push(big("lockfree", json!({"preset": preset, "msize": 1 << 20, "raii": preset % 2}), "bulk", 20, 24 + 8 * preset, 8184, 40));
        v.push(big("lockfree", json!({"preset": preset, "msize": 65536, "raii": 1 - preset % 2}), "mixed", 400, 1, 9000, preset));
    }
    v.push(big("lockfree", json!({"preset": 1, "msize": 0, "raii": 1}), "fill_free_refill", 300, 8192, 8200, 2));           // 64 MiB default region, class table end
    v.push(big("lockfree", json!({"preset": 4, "msize": 1 << 16, "raii": 0}), "exhaust", 300, 264, 288, 0));                // 64 KiB region: the tail of the region
    v.push(big("lockfree", json!({"preset": 5, "msize": 4096, "raii": 0}), "exhaust", 40, 100, 104, 1));
    v.push(big("lockfree", json!({"preset": 6, "msize": 1 << 20, "raii": 1}), "turnover", 3000, 1032, 1152, 0));
    v.push(json!({"cell": "lockfree", "preset": 0, "msize": (1u64 << 32) + 65536, "raii": 0,
                  "ops": [[0, 1 << 30, 1], [0, 1 << 30, 1], [0, 1 << 30, 1], [0, (1 << 30) - 4096, 1], [0, 4000, 1], [0, 64, 1], [0, 64, 1], [0, 8200, 1], [1, 0], [0, 1 << 30, 1], [0, 16, 1]]}));
    v.push(json!({"cell": "lockfree", "preset": 4, "msize": 4096, "raii": 0, "ops": [[0, 24, 1], [0, 24, 1], [2, 3, 100], [2, 4, 16384], [1, 0], [0, 24, 1], [2, 3, 1]]}));
    v.push(json!({"cell": "lockfree", "preset": 7, "msize": 65536, "raii": 0, "ops": [[6, 9, 64, 0], [6, 9, 8200, 0], [6, 10, 100, 4096], [1, 3], [6, 12, 100, 4096], [6, 9, 18446744073709551615u64, 0], [0, 64, 1]]}));
    // ---- FixedCapacityMemoryPool: the five presets to exhaustion and back (1000 .. 10000 blocks), class growth boundaries 128 / 1024
    for (preset, blocks, mbs) in [(1u64, 1000u64, 4096u64), (2, 10000, 1024), (3, 1000, 65536), (4, 5000, 8192), (5, 2000, 4096)] {
        v.push(big("fixedcap", json!({"preset": preset}), "exhaust", blocks + 3, mbs, mbs / 2 + 1, preset));
        v.push(big("fixedcap", json!({"preset": preset}), "mixed", 600, 1, mbs + 2, preset));
    }
    for flags in [1u64, 3, 5, 7, 0, 2] {
        v.push(big("fixedcap", json!({"preset": 0, "mbs": 2048, "blocks": 70, "align": 16, "flags": flags}), "fill_free_refill", 70, 128, 144, flags));
        v.push(big("fixedcap", json!({"preset": 0, "mbs": 1536, "blocks": 9, "align": 8, "flags": flags}), "mixed", 300, 120, 1030, flags));
    }
    // 4095 blocks of 1 MiB: block offsets up to the end of the 32-bit range (lazy and eager backing memory)
    for flags in [1u64, 3] { v.push(big("fixedcap", json!({"preset": 0, "mbs": 1 << 20, "blocks": 4095, "align": 8, "flags": flags}), "exhaust", 4098, 1 << 20, (1 << 19) + 1, flags)); }
    // ---- bump allocator / arena: capacities around 64 KiB / 1 MiB filled to the last byte, reset and scopes in between
    for (cap, arena) in [(65536u64, 0u64), (65536, 1), (1 << 20, 0), ((1 << 20) + 1, 1), (4096, 0), (8192, 1)] {
        let mut ops = vec![vec![0u64, 1, 1]];
        for i in 0..40u64 { ops.push(vec![0, [8u64, 1, 24, 3, 64, 100, 2, 16][(i % 8) as usize], [8u64, 1, 8, 1, 64, 4, 2, 16][(i % 8) as usize]]); if i % 7 == 3 { ops.push(vec![5, i]); } if arena == 1 && i % 10 == 4 { ops.push(vec![3]); } if arena == 1 && i % 10 == 8 { ops.push(vec![4]); } }
        for d in 0..5u64 { ops.push(vec![7, d, 1]); ops.push(vec![7, 4 - d, [1u64, 2, 8, 64, 4096][d as usize]]); }
        ops.push(vec![5, 2]);
        for d in 0..5u64 { ops.push(vec![0, cap / 4 + d, 1]); }
        ops.push(vec![7, 2, 1]); ops.push(vec![7, 3, 1]); ops.push(vec![0, 1, 1]);
        v.push(json!({"cell": "bump", "cap": cap, "arena": arena, "ops": ops}));
    }
    // ---- five-level family: the four presets x six pools, through the handle where there is one; capacity crossings
    for preset in 1..=4u64 { for level in 0..6u64 { for sub in [0u64, 2, 3] {
        if level < 5 && sub != 0 { continue; }
        let (fast, cap) = match preset { 1 => (32u64 << 10, 1u64 << 20), 2 => (64 << 10, 8 << 20), 3 => (16 << 10, 512 << 10), _ => (8 << 10, if level >= 4 { 16 << 20 } else { 256 << 10 }) };
        v.push(big("five", json!({"level": level, "sublevel": sub, "preset": preset, "handle": 1, "flags": 0}), "mixed", 300, fast - 40, fast + 40, preset * 10 + level));
        if level != 3 && !(level == 5 && sub == 0) {
            v.push(big("five", json!({"level": level, "sublevel": sub, "preset": preset, "handle": 1, "flags": 31 + 256 * level}), "exhaust", (cap / fast).min(300) + 4, fast, fast / 2 + 8, level));
        }
    } } }
    v.push(big("five", json!({"level": 4, "sublevel": 0, "preset": 0, "align": 8, "cap": 65536, "fast": 1024, "arena": 8192, "fixed": 65536, "handle": 0, "flags": 0}), "exhaust", 70, 1000, 1024, 3));
    v.push(json!({"cell": "five", "level": 4, "sublevel": 0, "preset": 0, "align": 16, "cap": 4096, "fast": 256, "arena": 2048, "fixed": 4096, "handle": 0, "flags": 0,
                  "ops": [[0, 100, 1], [7, 2, 1], [5, 0], [7, 3, 1], [7, 2, 1], [1, 0], [7, 1, 1], [7, 2, 1], [5, 1], [0, 16, 1], [1, 1], [7, 4, 1], [7, 2, 1]]}));
    // ---- thread-local pool: the three presets; cache bound 32 / 64 / 128 per class; arenas of 512 KiB / 2 MiB / 8 MiB used up; two pools; clear_caches
    for (preset, cached, arena) in [(1u64, 64u64, 2u64 << 20), (2, 128, 8 << 20), (3, 32, 512 << 10)] {
        for seed in 0..3u64 { v.push(big("threadlocal", json!({"preset": preset, "arena": 0, "cached": 0, "nosecure": seed % 2, "tflags": 0, "pools": 1}), "fill_free_refill", cached + 3, 64, 96, seed)); }
        v.push(big("threadlocal", json!({"preset": preset, "arena": 0, "cached": 0, "nosecure": 1, "tflags": 3 + 256 * 7, "pools": 2}), "fill_free_refill", cached + 2, 4096, 3072, 1));
        v.push(big("threadlocal", json!({"preset": preset, "arena": 0, "cached": 0, "nosecure": 0, "tflags": 0, "pools": 1}), "turnover", (arena / 4096) * 3 / 2 + 20, 4096, 4097, 0));
        v.push(big("threadlocal", json!({"preset": preset, "arena": 0, "cached": 0, "nosecure": preset % 2, "tflags": 6, "pools": 1}), "turnover", 40, arena / 4, arena / 4 + 1, 0));
    }
    v.push(json!({"cell": "threadlocal", "preset": 0, "arena": 4096, "cached": 2, "nosecure": 1, "tflags": 0, "pools": 1,
                  "ops": [[0, 64, 1], [0, 64, 1], [0, 100, 1], [1, 0], [5, 2], [0, 64, 1], [0, 64, 1], [0, 100, 1], [5, 1], [1, 0], [1, 0], [0, 64, 1]]}));
    v.push(json!({"cell": "threadlocal", "preset": 0, "arena": 1024, "cached": 1, "nosecure": 0, "tflags": 0, "pools": 2,
                  "ops": [[0, 200, 1], [0, 200, 1], [0, 200, 1], [0, 200, 1], [0, 200, 1], [5, 2], [0, 200, 1], [1, 2], [1, 0], [0, 250, 1], [5, 0], [0, 16, 1]]}));
    // ---- secure pool: presets x builder options; bulk across the look-ahead of 8 / 12; clear / validate / the pool dropped under live guards
    for preset in 0..4u64 { for (k, opts) in [0u64, 1 + 4, 2 + 8 + 4096, 16 + 32 + 128 + 256, 64 + (3 << 16) + 512 + 1024 + 2048, 4096 + 8192 + 4].iter().enumerate() {
        let n = if preset == 3 { 4 } else { 14 };
        let ops = json!([[6, n, 8, 0], [5, 0], [1, 1], [1, 0], [2, 0, 8], [5, 1], [6, 3, 8, 0], [5, 2], [5, 0], [1, 2], [0, 8, 1], [6, 3, 0, 0], [5, 5], [0, 8, 1], [1, 0], [5, 4 + 5 * (k as u64 % 2)], [1, 0], [1, 1], [0, 8, 1]]);
        let (chunk, align, lcache) = ([24u64, 100, 1024, 4096, 64, 1][k], [8u64, 64, 16, 4096, 1, 32][k], [2u64, 0, 64, 1, 2, 0][k]);
        v.push(json!({"cell": "secure", "preset": preset, "chunk": chunk, "maxchunks": 4, "align": align, "lcache": lcache, "flags": k as u64 % 4, "opts": opts, "ops": ops}));
    } }
    v.push(json!({"cell": "secure", "preset": 4, "flags": 0, "opts": 0, "ops": [[0, 8, 1], [0, 8, 1], [1, 0]]}));                 // SecurePoolConfig::default(): refused
    v.push(big("secure", json!({"preset": 1, "flags": 2, "opts": 0}), "fill_free_refill", 70, 8, 8, 0));     // local cache of 64, then the shared stack
    v.push(big("secure", json!({"preset": 2, "flags": 0, "opts": 4096}), "fill_free_refill", 35, 8, 8, 2));
    // ---- MemoryPool presets (queue bounds 100 / 50 / 10), PooledBuffer across 1 KiB / 64 KiB / 1 MiB, PooledVec per element type
    for (preset, maxc) in [(1u64, 100u64), (2, 50), (3, 10)] { v.push(big("basic", json!({"mode": 0, "preset": preset, "ty": 0}), "fill_free_refill", maxc + 3, 8, 8, preset)); }
    v.push(big("basic", json!({"mode": 0, "preset": 0, "ty": 0, "chunk": 24, "maxchunks": 4, "align": 64}), "mixed", 300, 8, 8, 5));
    for (size, n) in [(1024u64, 104u64), (1025, 54), (65536, 53), (65537, 13), (1 << 20, 12)] { v.push(big("basic", json!({"mode": 1, "preset": 0, "ty": 0}), "fill_free_refill", n, size, size + 1, 1)); }
    for ty in 0..8u64 { v.push(big("basic", json!({"mode": 2, "preset": 0, "ty": ty}), "fill_free_refill", if ty == 4 { 12 } else if ty == 3 { 52 } else { 103 }, 8, 8, ty)); }
    // ---- tiered allocator: constructors, thresholds 1 KiB / 16 KiB / 2 MiB, queue bounds 100 / 32, 1000 recorded sizes
    for preset in [0u64, 1, 3] { for (size, size2, n) in [(1024u64, 1025u64, 103u64), (2048, 2049, 35), (16384, 16385, 35), (100, 1000, 1100)] {
        v.push(big("tiered", json!({"preset": preset, "flags": 15, "mmapthr": 0, "hugethr": 0}), "fill_free_refill", n, size, size2, preset)); } }
    for (flags, mm, hu) in [(7u64, 1u64, 0u64), (5, 1025, 0), (6, 4096, 1 << 20), (15, 65536, 4 << 20), (4, 1, 4096), (2, 0, 0)] {
        v.push(big("tiered", json!({"preset": 0, "flags": flags, "mmapthr": mm, "hugethr": hu}), "mixed", 200, 900, 70000, flags)); }
    v.push(json!({"cell": "tiered", "preset": 1, "flags": 15, "ops": [[0, 18446744073709551615u64, 1], [0, 100, 1], [0, 18446744073707454466u64, 1], [5, 0], [0, 9223372036854775808u64, 1], [0, 2097152, 1], [0, 2097151, 1], [5, 1], [1, 0], [0, 0, 1]]}));
    // ---- mmap allocator: both constructors, the per-size cache bound of 4, clear_cache in the middle
    for min in [0u64, 1, 4096, 65536] { for size in [4096u64, 65536, 100000] {
        v.push(big("mmap", json!({"min": min}), "fill_free_refill", 7, size, size + 4096, min % 3)); } }
    v.push(json!({"cell": "mmap", "min": 1, "ops": [[0, 5000, 1], [0, 5000, 1], [0, 8192, 1], [1, 0], [5, 1], [0, 5000, 1], [0, 8000, 1], [1, 1], [1, 0], [5, 1], [0, 8192, 1], [5, 0]]}));
    // ---- NUMA helpers: the per-class bound of 100 cached chunks with the pools initialised
    for (size, n) in [(1000u64, 104u64), (2000, 104), (70000, 103)] { v.push(big("numa", json!({"pools": 1}), "fill_free_refill", n, size, size * 2, 1)); }
    v.push(big("numa", json!({"pools": 0}), "mixed", 300, 1, 70000, 9));
    // ---- CacheAlignedVec: every element type, growth across 64 bytes / 1 KiB / 64 KiB, the other vector and raw blocks in between
    for ty in 0..7u64 { for cap0 in [0u64, 5] { for node in [0u64, 1] {
        v.push(json!({"cell": "cvec", "ty": ty, "cap0": cap0, "node": node, "ops": [[0, 0, 3], [6, 0, 200], [0, 1, 70], [0, 0, 20], [5, 0, 2], [1, 0, 4], [2, 0, 100], [6, 0, 70000], [0, 0, 300], [3, 1, 10], [0, 1, 2000], [7, 0, 0],
                      [8, 0, 5], [2, 1, 0], [4, 0, 0], [0, 0, 9], [3, 0, 100], [1, 1, 3000], [0, 1, 1], [2, 0, 18446744073709551615u64], [2, 1, 2305843009213693952u64], [0, 0, 1]]}));
    } } }
    // ---- the global secure pools (get_global_pool_for_size) and the size-class function
    v.push(json!({"cell": "secglobal", "ops": [[0, 1, 1], [0, 1024, 1], [0, 1025, 1], [0, 65536, 1], [0, 65537, 1], [0, 1048576, 1], [1, 2], [0, 2000, 1], [5, 0], [1, 0], [0, 1000, 1], [0, 70000, 1], [1, 1], [1, 1], [5, 1]]}));
    v
}

// ------------------------------------------------------------------------------------------------
// the global secure pools
// ------------------------------------------------------------------------------------------------
struct GlobalSecPut { h: HashMap<u64, SecurePooledPtr>, classes: Vec<u64>, complaint: Option<String> }
impl Put for GlobalSecPut {
    fn alloc(&mut self, id: u64, size: usize, _align: usize) -> Option<Blk> {
        let pool = zipora::memory::get_global_pool_for_size(size);
        let mut p = pool.allocate().ok()?;
        let blk = Blk { addr: p.as_ptr() as usize, usable: p.size(), mem: true };
        if p.as_mut_slice().len() != p.size() || p.size() != pool.config().chunk_size { self.complaint = Some(format!("a chunk of {} bytes from a pool of {}-byte chunks", p.size(), pool.config().chunk_size)); }
        if blk.addr % pool.config().alignment != 0 { self.complaint = Some(format!("chunk at {:#x} is not aligned to the pool's {}", blk.addr, pool.config().alignment)); }
        self.h.insert(id, p);
        Some(blk)
    }
    fn free(&mut self, id: u64) -> bool { self.h.remove(&id); true }
    fn cfg_align(&self) -> usize { 8 }
    fn house(&mut self, k: u64, live: &[Live]) -> HouseFx {
        if k % 2 == 0 {
            for size in [1usize, 1024, 1025, 65536, 65537, 1 << 20] { if let Err(e) = zipora::memory::get_global_pool_for_size(size).validate() { self.complaint = Some(format!("validate() of the global pool for {} bytes: {}", size, e)); } }
            for l in live { if let Some(g) = self.h.get(&l.id) { if let Err(e) = g.validate() { self.complaint = Some(format!("validate() of live block #{}: {}", l.id, e)); } } }
            let _ = zipora::memory::get_global_secure_pool_stats();
        } else {
            // size_to_class against the class table (read from the source under test): the first class that holds the size
            let cl = &self.classes;
            if cl.is_empty() { return HouseFx::default(); }
            for s in (0..=8300u64).chain([1 << 20, u64::MAX]) {
                let want = cl.iter().position(|&c| s <= c).unwrap_or(cl.len() - 1);
                let got = zipora::memory::size_to_class(s as usize);
                if got != want { self.complaint = Some(format!("size_to_class({}) = {} but the first class that holds it is {} ({} bytes)", s, got, want, cl[want])); break; }
            }
        }
        HouseFx::default()
    }
    fn complaint(&mut self) -> Option<String> { self.complaint.take() }
}
pub fn run_secglobal(cx: &mut Ctx, c: &Value) {
    let cell = "SecureMemoryPool (global pools)";
    let ops = ops_or_big(c);
    cx.sum.eval(cell, &c.to_string(), true); cx.sum.cell_status(cell, "S-only");
    // sizes above the largest global pool's chunk are left out: get_global_pool_for_size only selects a pool
    let ops: Vec<Vec<u64>> = ops.into_iter().filter(|o| o.get(0) != Some(&0) || (o[1] >= 1 && o[1] <= (1 << 20))).collect();
    let mut put = GlobalSecPut { h: HashMap::new(), classes: read_const_list("src/memory/secure_pool.rs", "const SIZE_CLASSES"), complaint: None };
    drive(cx, cell, c, &mut put, &ops);
}

// ------------------------------------------------------------------------------------------------
// CacheAlignedVec
// ------------------------------------------------------------------------------------------------
#[derive(Clone, Copy, PartialEq, Debug)] #[repr(align(128))] struct Al128(u64);
#[derive(Clone, Copy, PartialEq, Debug)] struct Odd3([u8; 3]);

pub fn gen_cvec(r: &mut Rng) -> Value {
    let n = r.range(3, 40);
    let mut ops: Vec<Vec<u64>> = vec![];
    for _ in 0..n {
        let w = r.below(2);
        ops.push(match r.below(14) {
            0..=4 => vec![0, w, *r.pick(&[1u64, 1, 2, 3, 7, 8, 9, 15, 16, 17, 63, 64, 65, 100, 1000, 9000])],
            5 => vec![1, w, *r.pick(&[1u64, 2, 5, 100, 10000])],
            6 => vec![2, w, if r.chance(1, 6) { *r.pick(&[u64::MAX, 1 << 61, (1 << 61) + 1, 1 << 63, u64::MAX / 3]) } else { *r.pick(&[0u64, 1, 3, 4, 5, 8, 63, 64, 100, 4096]) }],
            7 => vec![3, w, *r.pick(&[0u64, 1, 5, 64, 100000])],
            8 => vec![4, w, 0],
            9 => vec![5, w, r.below(200)],
            10 | 11 => vec![6, 0, *r.pick(&[1u64, 64, 100, 1000, 4096, 70000])],
            12 => vec![7, r.below(8), 0],
            _ => vec![8, w, r.below(100)],
        });
    }
    json!({"cell": "cvec", "ty": r.below(7), "cap0": *r.pick(&[0u64, 0, 1, 4, 5, 64, 1000]), "node": r.below(2), "ops": ops})
}

/// Two CacheAlignedVec<T> and raw cache-aligned blocks side by side.  Operations `[k, which, arg]`: 0 push `arg` elements,
/// 1 pop `arg`, 2 reserve(arg), 3 truncate(arg), 4 clear, 5 get / get_mut(arg), 6 raw block of `arg` bytes
/// (numa_alloc_aligned), 7 free the `which`-th raw block, 8 rewrite element `arg` through as_mut_slice.
/// Judged by a Vec<T> shadow (contents, length), and like any allocation: the buffer is aligned to the cache line and to
/// T, holds `capacity` elements, does not overlap the other vector's buffer or a live raw block, whose patterns stay intact.
fn cvec_history<T: Clone + PartialEq + std::fmt::Debug>(cx: &mut Ctx, cell: &str, c: &Value, mk: &dyn Fn(u64) -> T) {
    let ops = ops_of(c);
    let esz = std::mem::size_of::<T>();
    let align = std::mem::align_of::<T>().max(64);
    let cap0 = u(c, "cap0") as usize;
    macro_rules! bad { ($($a:tt)*) => {{ cx.sum.fail(cell, None, c.clone(), &format!($($a)*)); return; }}; }
    let mut vs: Vec<CacheAlignedVec<T>> = vec![];
    for w in 0..2 {
        let made = guarded(|| if cap0 > 0 && w == 0 { CacheAlignedVec::<T>::with_capacity(cap0) } else if u(c, "node") != 0 { Ok(CacheAlignedVec::<T>::with_numa_node(0)) }
                              else if w == 0 { Ok(CacheAlignedVec::<T>::new()) } else { Ok(CacheAlignedVec::<T>::default()) });
        match made { Ok(Ok(v)) => { if cap0 > 0 && w == 0 && v.capacity() < cap0 { bad!("with_capacity({}) gives capacity {}", cap0, v.capacity()); } vs.push(v) }
                     Ok(Err(_)) => { cx.sum.dist("pool_new_refused"); return; }
                     Err(p) => bad!("constructing the vector (with_capacity({})) panicked: {}", cap0, p) }
    }
    let mut shadow: Vec<Vec<T>> = vec![vec![], vec![]];
    let mut serial = 0u64;
    let mut raw: Vec<(NonNull<u8>, usize, u64)> = vec![];
    for (n, op) in ops.iter().enumerate() {
        let k = op.get(0).copied().unwrap_or(99); let w = (op.get(1).copied().unwrap_or(0) % 2) as usize; let arg = op.get(2).copied().unwrap_or(0);
        let r: Result<Result<(), String>, String> = match k {
            0 => { let cnt = arg.min(20000); let vals: Vec<T> = (0..cnt).map(|_| { serial += 1; mk(serial) }).collect();
                   let v = &mut vs[w]; let sh = &mut shadow[w];
                   guarded(|| { for x in vals { match v.push(x.clone()) { Ok(()) => sh.push(x), Err(e) => return Err(format!("push refused: {}", e)) } } Ok(()) }) }
            1 => { let v = &mut vs[w]; let sh = &mut shadow[w];
                   guarded(|| { for _ in 0..arg.min(20000) { let a = v.pop(); let b = sh.pop(); if a != b { return Err(format!("pop() = {:?}, expected {:?}", a, b)); } } Ok(()) }) }
            2 => { let v = &mut vs[w]; let len = shadow[w].len();
                   guarded(|| { let r = v.reserve(arg as usize);
                                let fits = (len as u128 + arg as u128) * (esz.max(1) as u128) <= (1u128 << 40);
                                match r { Ok(()) => { if v.capacity() < len.saturating_add(arg as usize) { return Err(format!("reserve({}) succeeded with capacity {} for {} elements", arg, v.capacity(), len)); } Ok(()) }
                                          Err(e) => { if fits && esz > 0 { Err(format!("reserve({}) of {}-byte elements refused: {}", arg, esz, e)) } else { Ok(()) } } } }) }
            3 => { let v = &mut vs[w]; shadow[w].truncate(arg as usize); guarded(|| { v.truncate(arg as usize); Ok(()) }) }
            4 => { let v = &mut vs[w]; shadow[w].clear(); guarded(|| { v.clear(); Ok(()) }) }
            5 => { let v = &mut vs[w]; let sh = &mut shadow[w]; let i = arg as usize;
                   guarded(|| { if v.get(i) != sh.get(i) { return Err(format!("get({}) = {:?}, expected {:?}", i, v.get(i), sh.get(i))); }
                                serial += 1; let x = mk(serial);
                                match (v.get_mut(i), sh.get_mut(i)) { (Some(a), Some(b)) => { *a = x.clone(); *b = x; Ok(()) } (None, None) => Ok(()), _ => Err(format!("get_mut({}) disagrees with the length {}", i, sh.len())) } }) }
            6 => { match guarded(|| numa_alloc_aligned(arg as usize, 64, 0)) { Ok(Ok(p)) => { serial += 1; unsafe { fill(p.as_ptr() as usize, arg as usize, serial); } raw.push((p, arg as usize, serial)); Ok(Ok(())) }
                                                                               Ok(Err(_)) => Ok(Ok(())), Err(p) => Err(p) } }
            7 => { if !raw.is_empty() { let (p, s, id) = raw.remove(op[1] as usize % raw.len());
                       if let Some(i) = unsafe { verify(p.as_ptr() as usize, s, id, true) } { bad!("op {}: byte {} of a raw block of {} bytes changed", n, i, s); }
                       let _ = numa_dealloc(p, s, 64, 0); } Ok(Ok(())) }
            8 => { let v = &mut vs[w]; let sh = &mut shadow[w]; let i = arg as usize;
                   guarded(|| { let s = v.as_mut_slice(); if s.len() != sh.len() { return Err(format!("as_mut_slice() has {} elements, expected {}", s.len(), sh.len())); }
                                if i < s.len() { serial += 1; let x = mk(serial); s[i] = x.clone(); sh[i] = x; } Ok(()) }) }
            _ => Ok(Ok(())),
        };
        match r { Err(p) => bad!("op {} {:?} panicked: {}", n, op, p), Ok(Err(e)) => bad!("op {} {:?}: {}", n, op, e), Ok(Ok(())) => {} }
        // the state after every operation
        let mut ranges: Vec<(usize, usize, String)> = raw.iter().map(|(p, s, _)| (p.as_ptr() as usize, *s, "a raw block".to_string())).collect();
        for w in 0..2 {
            let v = &vs[w]; let sh = &shadow[w];
            if v.len() != sh.len() || v.is_empty() != sh.is_empty() { bad!("after op {} {:?}: vector {} has length {}, expected {}", n, op, w, v.len(), sh.len()); }
            if v.capacity() < v.len() { bad!("after op {} {:?}: vector {} has capacity {} below its length {}", n, op, w, v.capacity(), v.len()); }
            if v.as_slice() != &sh[..] { let i = v.as_slice().iter().zip(sh.iter()).position(|(a, b)| a != b); bad!("after op {} {:?}: vector {} differs from what was stored at element {:?}", n, op, w, i); }
            if v.get(sh.len()).is_some() { bad!("after op {} {:?}: get(len) is Some", n, op); }
            let _ = v.numa_node();
            if v.capacity() > 0 && esz > 0 {
                let a = v.as_slice().as_ptr() as usize;
                if a % align != 0 { bad!("after op {} {:?}: the buffer of vector {} at {:#x} is not aligned to {}", n, op, w, a, align); }
                ranges.push((a, v.capacity() * esz, format!("the buffer of vector {}", w)));
            }
        }
        for i in 0..ranges.len() { for j in 0..i { let (a, la, na) = &ranges[i]; let (b, lb, nb) = &ranges[j];
            if *la > 0 && *lb > 0 && a < &(b + lb) && b < &(a + la) { bad!("after op {} {:?}: {} [{:#x},+{}) overlaps {} [{:#x},+{})", n, op, na, a, la, nb, b, lb); } } }
        for (p, s, id) in &raw { if let Some(i) = unsafe { verify(p.as_ptr() as usize, *s, *id, false) } { bad!("after op {} {:?}: byte {} of a raw block of {} bytes changed", n, op, i, s); } }
    }
    drop(vs);
    for (p, s, id) in raw { if let Some(i) = unsafe { verify(p.as_ptr() as usize, s, id, true) } { bad!("at the end: byte {} of a raw block of {} bytes changed", i, s); } let _ = numa_dealloc(p, s, 64, 0); }
}

pub fn run_cvec(cx: &mut Ctx, c: &Value) {
    let ty = u(c, "ty");
    let cell = format!("CacheAlignedVec<{}>", ["u64", "u8", "[u8; 3]", "()", "align(128)", "i16", "[u64; 40]"][(ty % 7) as usize]);
    cx.sum.eval(&cell, &c.to_string(), true); cx.sum.cell_status(&cell, "S-only");
    match ty % 7 {
        0 => cvec_history::<u64>(cx, &cell, c, &|i| i.wrapping_mul(0x9E37_79B9_7F4A_7C15)),
        1 => cvec_history::<u8>(cx, &cell, c, &|i| (i * 7 + 1) as u8),
        2 => cvec_history::<Odd3>(cx, &cell, c, &|i| Odd3([i as u8, (i >> 8) as u8, (i * 3) as u8])),
        3 => cvec_history::<()>(cx, &cell, c, &|_| ()),
        4 => cvec_history::<Al128>(cx, &cell, c, &|i| Al128(i ^ 0x55)),
        5 => cvec_history::<i16>(cx, &cell, c, &|i| (i as i16).wrapping_mul(-3)),
        _ => cvec_history::<[u64; 40]>(cx, &cell, c, &|i| [i; 40]),
    }
}
